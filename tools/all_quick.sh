#!/bin/bash
# Runs every registered quick check against /repo, one after the other; prints one line each.
cd /verif
for p in $(python3 -c "import json;print(' '.join(c['property_id'] for c in json.load(open('MANIFEST.json'))['checks']))"); do
  s=$(date +%s)
  out=$(./check $p ${1:-quick} 2>&1); rc=$?
  e=$(date +%s)
  echo "$p rc=$rc $((e-s))s $(echo "$out" | grep -E "^$p " | tail -1 | cut -c1-140) $(echo "$out" | grep -c '^KNOWN-FINDING') known $(echo "$out" | grep -c 'INCONCLUSIVE') inconclusive"
  echo "$out" | grep -E "^VIOLATION|^BROKEN" | head -3
done
