#!/bin/bash
# tools/reconfirm_seeds.sh [jobs]: full re-confirmation of every stored seeded defect against the
# current /repo (patch applies, build, repository suite, demo passes without / fails with the
# patch, property check catches it); rewrites each meta.json. Lists what is not confirmed.
J=${1:-3}
ls -d /verif/seeded/*/ | xargs -P "$J" -I{} bash -c 'd={}; n=$(basename $d); out=$(cd /verif && SEED_NAME=$n VERIF_PROCS=4 python3 tools/seed.py $d 2>&1 | tail -1); echo "$n $out"' | sort > /tmp/reconfirm_seeds.out
grep -v "caught_by \['C" /tmp/reconfirm_seeds.out || true
echo "total=$(wc -l < /tmp/reconfirm_seeds.out) stored=$(grep -c '^.* stored ' /tmp/reconfirm_seeds.out)"
