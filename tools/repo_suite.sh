#!/bin/bash
# Runs the repository's own pinned test suite (guard off: no tags, no overlay) against $1
# (default /repo) and compares the set of passing tests with /root/.vp/BASELINE.json's stable_pass.
# exit 0 iff every stable_pass test still passes.
export GOFLAGS=-mod=mod GOPROXY=off GOSUMDB=off GOTOOLCHAIN=local
REPO=${1:-/repo}
OUT=$(mktemp)
(cd "$REPO" && go test -json -vet=off -count=1 -timeout 25m ./... > "$OUT" 2>&1)
python3 - "$OUT" <<'PY'
import json,sys
passed=set(); failed=set()
for line in open(sys.argv[1], errors='replace'):
    line=line.strip()
    if not line.startswith('{'): continue
    try: e=json.loads(line)
    except Exception: continue
    if e.get('Test') and e.get('Action') in ('pass','fail'):
        (passed if e['Action']=='pass' else failed).add(e['Package']+'::'+e['Test'])
base=json.load(open('/root/.vp/BASELINE.json'))
stable=set(base['stable_pass'])
missing=sorted(stable-passed)
print(f"passed={len(passed)} failed={len(failed)} stable_pass={len(stable)} stable_missing={len(missing)}")
for m in missing[:30]: print("  NOT PASSING:", m)
extra=sorted(failed-set(base.get('always_fail',[])))
for m in extra[:30]: print("  FAILED:", m)
sys.exit(1 if missing else 0)
PY
rc=$?
rm -f "$OUT"
exit $rc
