#!/bin/bash
# tools/regress_seeds.sh [jobs]: every stored seeded defect is applied to a scratch copy of /repo
# (outside /repo and /verif, removed afterwards) and the quick check of its property is run
# against it. Prints one line per defect; exit 1 if any is missed.
export GOFLAGS=-mod=mod GOPROXY=off GOSUMDB=off GOTOOLCHAIN=local
J=${1:-4}
one() {
  d=$1; name=$(basename "$d")
  prop=$(sed -n 's/.*"property": *"\([^"]*\)".*/\1/p' "$d/meta.json" | head -1)
  W=$(mktemp -d /tmp/rg.XXXXXX)
  cp -r /repo "$W/repo"; rm -rf "$W/repo/.git"
  if ! (cd "$W/repo" && patch -p1 -s < "$d/patch.diff" > /dev/null 2>&1); then echo "$name STALE"; rm -rf "$W"; return; fi
  out=$(cd /verif && VERIF_REPO="$W/repo" VERIF_PROCS=4 ./check "$prop" quick 2>&1)
  n=$(echo "$out" | grep -c '^VIOLATION')
  if [ "$n" -gt 0 ]; then echo "$name caught $n"; else echo "$name MISSED $(echo "$out" | grep -E "BROKEN|^$prop " | tail -1 | cut -c1-120)"; fi
  rm -rf "$W"
}
export -f one
ls -d /verif/seeded/*/ | xargs -P "$J" -I{} bash -c 'one {}' | sort > /tmp/regress_seeds.out
cat /tmp/regress_seeds.out | grep -v " caught " || true
echo "total=$(wc -l < /tmp/regress_seeds.out) caught=$(grep -c ' caught ' /tmp/regress_seeds.out)"
! grep -q -E "MISSED|STALE" /tmp/regress_seeds.out
