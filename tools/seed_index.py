#!/usr/bin/env python3
# Regenerates /verif/seeded/INDEX.md from the meta.json files.
import json, glob, os
rows=[]
for f in sorted(glob.glob('/verif/seeded/*/meta.json')):
    m=json.load(open(f)); v=m.get('verification',{})
    rows.append((os.path.basename(os.path.dirname(f)), m.get('property',''), m.get('title','').replace('|','/'), ','.join(v.get('caught_by',[])) or '-', ','.join(v.get('missed_by',[])) or '-', 'yes' if v.get('confirmed_in_scratch_copy') else 'NO'))
with open('/verif/seeded/INDEX.md','w') as o:
    o.write('# Seeded defects\n\nEach directory: patch.diff (apply with `git -C /repo apply`), demo_test.go (first line says where to place it), meta.json (what it breaks, what it needs to manifest, verification record written by tools/seed.py).\n`caught by` / `missed by` refer to the LAST run of tools/seed.py (quick tier, seed 1) against a scratch copy carrying the patch.\n\n| id | property | title | confirmed | caught by | missed by |\n|---|---|---|---|---|---|\n')
    for r in rows: o.write(f'| {r[0]} | {r[1]} | {r[2]} | {r[5]} | {r[3]} | {r[4]} |\n')
print(len(rows),'seeded defects; missed by own property check:', [r[0] for r in rows if r[1] not in r[3].split(',')])
