#!/usr/bin/env python3
# tools/seed.py <mutant dir> [extra check ids…] : confirm a seeded defect (tools/run_mutant.sh), store it under
# /verif/seeded/<name>/ with the verification record in meta.json.
import json, os, shutil, subprocess, sys
src=sys.argv[1].rstrip('/'); name=os.environ.get('SEED_NAME') or os.path.basename(src)
meta=json.load(open(os.path.join(src,'meta.json')))
checks=[meta['property']]+[c for c in sys.argv[2:] if c!=meta['property']]
out=subprocess.run(['/verif/tools/run_mutant.sh',src]+checks,capture_output=True,text=True).stdout
res=[l.split(' ',2)[2] for l in out.splitlines() if l.startswith('RESULT ')]
print('\n'.join(res))
ok=all(('yes' in r) for r in res if not r.startswith('check '))
caught=[r.split(':')[0].split()[1] for r in res if r.startswith('check ') and 'CAUGHT' in r]
missed=[r.split(':')[0].split()[1] for r in res if r.startswith('check ') and 'missed' in r]
meta['verification']={'confirmed_in_scratch_copy':ok,'steps':res,'caught_by':caught,'missed_by':missed,
  'how':'tools/run_mutant.sh: scratch copy of /repo HEAD outside /repo and /verif; patch applied; go build; repository suite vs BASELINE; demo with and without the patch; ./check <id> quick with VERIF_REPO pointing at the copy; copy removed'}
if ok:
    dst=os.path.join('/verif/seeded',name); os.makedirs(dst,exist_ok=True)
    if os.path.realpath(src)!=os.path.realpath(dst):
        for f in os.listdir(src): shutil.copy(os.path.join(src,f),dst)
    json.dump(meta,open(os.path.join(dst,'meta.json'),'w'),indent=1)
    print('stored',dst,'caught_by',caught,'missed_by',missed)
else:
    print('NOT CONFIRMED, not stored')
