#!/bin/bash
# tools/run_mutant.sh <mutant dir with patch.diff, demo_test.go, meta.json> [check ids…]
# Confirms a seeded defect in a scratch copy of /repo (outside /repo and /verif): the patch
# applies, the library builds, the repository suite stays green, the demo fails with the patch and
# passes without it; then runs the given checks (default: the property in meta.json) against the
# mutated copy and reports whether each one raises a VIOLATION. The copy is removed afterwards.
export GOFLAGS=-mod=mod GOPROXY=off GOSUMDB=off GOTOOLCHAIN=local
D=$(cd "$1" && pwd); shift
PROP=$(sed -n 's/.*"property": *"\([^"]*\)".*/\1/p' "$D/meta.json" | head -1)
CHECKS=${*:-$PROP}
W=$(mktemp -d /tmp/mt.XXXXXX)
cp -r /repo "$W/repo"; rm -rf "$W/repo/.git"
cd "$W/repo" || exit 2
PLACE=$(sed -n '1s#.*place in: *\([^ ]*\).*#\1#p' "$D/demo_test.go")
DEMOCMD=$(python3 -c "import json;print(json.load(open('$D/meta.json')).get('demo_cmd',''))")
res() { echo "RESULT $(basename "$D") $*"; }
if [ -n "$PLACE" ] && [ -n "$DEMOCMD" ]; then
  cp "$D/demo_test.go" "$PLACE/zz_demo_test.go"
  if (eval "$DEMOCMD") > "$W/demo_clean.log" 2>&1; then res "demo passes on the clean tree: yes"; else res "demo passes on the clean tree: NO"; tail -5 "$W/demo_clean.log"; fi
  rm -f "$PLACE/zz_demo_test.go"
fi
if ! patch -p1 -s < "$D/patch.diff"; then res "patch applies: NO"; rm -rf "$W"; exit 1; fi
if ! go build ./... > "$W/build.log" 2>&1; then res "builds: NO"; cat "$W/build.log"; rm -rf "$W"; exit 1; fi
if /verif/tools/repo_suite.sh "$W/repo" > "$W/suite.log" 2>&1; then res "repository suite green: yes ($(head -1 "$W/suite.log"))"; else res "repository suite green: NO"; cat "$W/suite.log" | head; fi
if [ -n "$PLACE" ] && [ -n "$DEMOCMD" ]; then
  cp "$D/demo_test.go" "$PLACE/zz_demo_test.go"
  if (eval "$DEMOCMD") > "$W/demo_mut.log" 2>&1; then res "demo fails with the patch: NO (it passes)"; else res "demo fails with the patch: yes"; fi
  rm -f "$PLACE/zz_demo_test.go"
fi
cd /verif
for c in $CHECKS; do
  out=$(VERIF_REPO="$W/repo" VERIF_PROCS=${VERIF_PROCS:-8} ./check "$c" ${TIER:-quick} 2>&1)
  n=$(echo "$out" | grep -c '^VIOLATION')
  if [ "$n" -gt 0 ]; then res "check $c: CAUGHT ($n violations) e.g. $(echo "$out" | grep -B4 '^VIOLATION' | grep -m1 '^  [a-z-]*:' | cut -c1-200)"
  else res "check $c: missed ($(echo "$out" | grep -E "^$c|BROKEN" | tail -1))"; fi
done
rm -rf "$W"
