#!/usr/bin/env python3
# Regenerates /verif/MANIFEST.json from the table below (kept in one place so the manifest stays valid).
import json
props=[json.loads(l) for l in open('/verif/properties.jsonl')]
claimed={
 'C01': dict(category='exploration',
  text='Reference-model runtime monitor: rule-free schemas generated from an abstract model (depth<=5, optional/nullable/any, both key-optionality options) are rendered and every generated document (conforming-by-construction, single-feature near misses, unrelated) is validated by the real library and judged by an independent example-shape oracle; metamorphic real-vs-real monitors for member order and for KeysAreOptionalByDefault; small-scope exhaustive part (all schemas <=3 nodes x all documents <=3/4 nodes). Held on the executions observed (3e6 quick / 8e7 thorough comparisons), not a proof.',
  note='Trusts the reference oracle (internal/model/accept.go, written from the statement) and that the renderer produces the schema the model describes (checked indirectly: Check must accept it, else the schema is skipped and counted).',
  technique='reference-model monitor over generated schema/document pairs + metamorphic monitors', ref='7 (C01)'),
 'C02': dict(category='exploration',
  text='Reference-model runtime monitor over (scalar rule set, probe) pairs: rule sets built to be Check-accepted (min/max/exclusive, precision/decimal, lengths, 20 RE2 patterns, enums with kind-colliding texts, const, five formats, nullable, explicit types), probes on, just inside and just outside every bound in several numeral and escape spellings; metamorphic inertness monitor (a false-valued rule inserted anywhere changes neither Check nor any verdict). ~9e5 (quick) / 2e8 (thorough) comparisons; held on what was observed.',
  note='Trusts the scalar part of internal/model (big.Rat bounds, own date/datetime/uuid recognisers; email/uri judged only on hand-classified clear cases). The numeral class -?0[eE]digits is left to C10.',
  technique='reference-model monitor with boundary-value probes + metamorphic inertness monitor', ref='7 (C02)'),
 'C03': dict(category='exploration',
  text='Reference-model runtime monitor over generated type graphs (<=6 user types; @T, @A|@B, {type:"@T"}, or-lists of names/built-ins/inline rule-sets, nullable references, allOf chains and diamonds, all additionalProperties modes, key shortcuts, regex and enum types, legal recursion): union/inheritance semantics are computed on the abstract model and compared with Validate for conforming, near-miss and unrelated documents; plus a real-vs-real differential (a position referencing @T accepts what stand-alone T accepts). Held on the executions observed.',
  note='Cells the statements do not decide are Unspecified and not compared (listed in the evidence assumptions). Graphs the generator believes legal but Check rejects are skipped and counted.',
  technique='reference-model monitor over generated type graphs + reference-vs-standalone differential', ref='7 (C03)'),
 'C04': dict(category='exploration',
  text='Two runtime monitors relating Check and Validate: forward - every Check-accepted plain-JSON schema (scalar rule sets, rule-free shapes, all-features generator) must validate its own example text (same and fresh schema object); converse - one violation planted at a known node (value outside bound/length/pattern/enum/format, literal accepted by no or/enum/type alternative, item count outside minItems/maxItems, declared type different from the example kind), Check must reject AT the byte offset of that node taken from the renderer position map.',
  note='Planted values are chosen by the C02 reference oracle; positions come from the renderer (start of the literal, "[" for item counts).',
  technique='real-vs-real relation monitor (Check => Validate(example)) + fault-planting monitor with position oracle', ref='7 (C04)'),
 'C13': dict(category='exploration',
  text='Metamorphic real-vs-real monitor: each generated schema (type graphs, all features) is rendered canonically, in each of 12 single meaning-preserving rewrites and in random per-site compositions; Check verdict, AST with comments set aside (rules as a set under rule reordering) and all validation verdicts must coincide; each document value is re-spelled (whitespace, member order, escape sequences) and verdicts must coincide. 3.4e5 (quick) / 2.7e7 (thorough) comparisons.',
  note='Blind to changes that break all spellings alike (absolute oracles of C01-C04/C08 cover those); trusts the renderer to emit only legal spellings.',
  technique='metamorphic monitor across surface spellings', ref='7 (C13)'),
 'C15': dict(category='exploration',
  text='Runtime monitor on every Check-accepted generated schema (type graphs with or / key shortcuts / allOf / legal recursion, optional recursion of depth 1..3 with the recursive member first/middle/last, keys with quotes/backslashes/control characters/non-ASCII, all-features generator): Example() must be well-formed JSON (encoding/json.Valid), be accepted by Validate on the same and on a fresh schema object, and for plain-JSON schemas be byte-equal to the example with annotations and whitespace removed; results copied at return time.',
  note='One known finding (required property inside a legal cycle is omitted at the recursion cut-off) with a class predicate decided on the model; schemas with ambiguous key shortcuts are Unspecified for the round trip.',
  technique='round-trip monitor (Example -> JSON validity -> Validate) + reference example for plain-JSON schemas', ref='7 (C15)'),
 'C05': dict(category='exploration',
  text='Differential runtime monitor of Document.Check (strict and AllowTrailingNonSpaceCharacters) against an independent RFC 8259 automaton that is itself cross-checked with encoding/json at run time: exhaustive over a 16-symbol alphabet up to length 5 (quick) / 7 (thorough, 2.9e8 strings) and over a literal-word alphabet, dictionary mutation of generated valid texts at every offset, and a state-merged breadth-first exploration over (library control state via overlay hook, reference state) pairs with all 256 byte values on every pair, every edge confirmed by a real Check verdict.',
  note='Texts accepted by the byte grammar but not valid UTF-8 are Unspecified. Without the hook the state-merged part is inconclusive and the rest still decides.',
  technique='differential monitor against a reference automaton: bounded-exhaustive + state-merged exploration + mutation', ref='7 (C05)'),
 'C06': dict(category='exploration',
  text='Trace monitor over the recorded NextLexeme event log of generated valid JSON texts: termination with io.EOF, stack discipline, spans inside the input and equal to the source slices, exact literal/key/container spans against the reference span tree (itself checked against encoding/json token offsets), value rebuilt from events alone equals the text; cross-scanner monitor: schema scanner and enum scanner event streams (overlay hooks) equal the document scanner stream on the same bytes, also when embedded among comments.',
  note='Hooks vh_scanevents export the internal scanners; without them the cross-scanner part is inconclusive.',
  technique='trace-specification monitor over recorded lexical event logs + cross-scanner differential', ref='7 (C06)'),
 'C07': dict(category='exploration',
  text='Hostile-input runtime monitor: 815 corpus seeds x derivation families (every truncation, dictionary insert/substitute/delete, splices, random bytes; <=4 KiB) used in every role (root schema, user type, enum rule, regex type, document) with every constructor/method combination; per call: panic monitor, termination monitor (per-call CPU budget + driver crash/hang isolation), error-shape monitor (library error with code/message/position in the errors.As chain), position-inside-source monitor, rendering monitor (Error/Message/Line/SourceSubString/String/kit.ConvertError); plus every errors.Format call site, bare error value and ErrorCode constant of the CURRENT tree (extracted with go/parser at check time) replayed through the real formatter.',
  note='API-misuse errors are outside the quantifier and not generated; site extraction is static (the evidence lists the sites), the verdict comes from executing the real formatting path.',
  technique='fault-injection style input mutation with panic / shape / position / rendering / termination monitors + call-site replay', ref='7 (C07)'),
 'C11': dict(category='exploration',
  text='History monitor (random histories of <=12 public operations over a pool of schemas sharing type objects, documents, enums, regex types, plus all histories of length <=3 over a 3-object pool; every result compared with the same single operation on freshly constructed objects), aliasing monitor (every handed-out value deep-snapshotted and re-compared after every later operation), and map-order monitor: the library is rebuilt from the current tree with every range-over-map rewritten to iterate in a forced order (ascending / descending / rotated) and verdict, code, position, AST, example and used types must be identical across orders.',
  note='The rewritten copies are generated from the current tree by go/packages + go/ast at check time; if that fails the map-order part falls back to 20 natural repetitions and is reported inconclusive. Operations directly on a type object after it was compiled into a root are out of scope (documented assumption).',
  technique='history / aliasing monitors vs fresh objects + forced map-iteration-order differential (source rewriting via overlay)', ref='7 (C11)'),
 'C12': dict(category='exploration',
  text='Concurrency runtime monitor under the Go race detector: scenarios (one shared root hammered by 2..32 goroutines from a start barrier; with pool traffic from private schemas; several roots sharing the same type objects incl. allOf users first used concurrently; shared enum/regex objects), run in a -race build with shims only (race verdict) and in a rewritten build with injected yields/sleeps at every function entry (no shared memory, so no happens-before edges are added); monitors: race reports (log-counted, de-duplicated), every call result equals the sequential oracle, exactly-once load/compile bodies per object, porcupine linearizability of recorded ErrOnce Do-histories against a write-once register.',
  note='Only interleavings the Go scheduler plus injected yields produce are observed; porcupine timeouts are inconclusive, never violations.',
  technique='race detector + sequential-oracle result monitor + once counters + porcupine history checking under injected yields', ref='7 (C12)'),
 'C08': dict(category='exploration',
  text='Exhaustive-by-construction runtime monitor of Check: 10 node kinds x 3 positions x every subset (size <=3 quick, <=4 thorough) of the rule vocabulary plus an unknown name x parameter variants x ALL permutations of the written order (1.3e6 Check calls quick); order-independence is judged real-vs-real, the verdict against an applicability-matrix oracle written from the statement; plus an accept-biased family over applicable rules and every rule written twice.',
  note='Trusts the matrix oracle (internal/model/checkoracle.go); enum on containers and enum+const are Unspecified; error codes among rejecting permutations are recorded, not judged.',
  technique='matrix reference oracle + permutation (metamorphic) monitor over enumerated rule sets', ref='7 (C08)'),
 'C09': dict(category='exploration',
  text='Runtime monitor over enumerated and random type graphs: ALL graphs over 2 types (+1 missing name) x 3 root forms and (thorough) ALL graphs over 3 types from a catalogue of 14 type bodies covering every reference form, random graphs over 4..6 types; Check verdict compared with a least-fixpoint oracle (finite inhabitant along required references; missing types; allOf parents), UsedUserTypes compared as a set with the names the root text references, error must name a missing type when that is the only defect; on every accepted graph Example and Validate (documents unrolled along the cycles to depth 1, 3, 40) must return - a stack overflow or hang is caught by per-unit crash/hang isolation.',
  note='Two known findings with narrowly stated class predicates decided on the model (not on library behaviour): required cycles through >=2 distinct types are accepted (pinned by the repository own TestSchema_Example), and exponential validator work for ambiguous nested unions (those documents are kept out of the depth-40 monitor; the canonical witness is probed every run by allocation counts, not time).',
  technique='reference-model (least fixpoint) monitor over enumerated type graphs + bounded-progress termination monitor with crash isolation', ref='7 (C09)'),
 'C14': dict(category='exploration',
  text='Runtime monitor of the Len/Check prefix relation: accepted schema texts (generator output in several styles, ending in every token class) x separators x directive-like trailers chosen so that the trailer cannot continue the text; Len must equal len(rtrim(S)), the prefix must pass Check with the same AST and verdicts; texts cut inside a token must make Len fail; same for JSON documents (cross-checked against encoding/json Decoder.InputOffset), enum rules and regex types.',
  note='Positive cases are generated only where the statement clearly applies (classification by an independent small lexer of the surface syntax, internal/props/c14_lex.go); comments after the last token and blank-only inputs are not generated.',
  technique='metamorphic/differential monitor (Len vs Check vs AST on prefix) over generated embeddings', ref='7 (C14)'),
 'C16': dict(category='exploration',
  text='Reference-model runtime monitor: the expected AST (nodes in source order with key, key-shortcut flag, token type, literal value, schema type by the precedence enum > or > type > precision > JSON kind, rules in written order with token types/values/nested items and manual-vs-generated source, note text, no inherited allOf properties) is computed from the generator abstract schema and compared entry by entry with GetAST() for schemas rendered in canonical and random meaning-preserving spellings.',
  note='The reference builder was calibrated against the pinned behaviour for the value spellings the statement leaves open (listed in the evidence assumptions); it agrees with the pinned tree on 1.5e5 distinct schemas.',
  technique='reference-model monitor (expected AST from the abstract schema)', ref='7 (C16)'),
 'C17': dict(category='exploration',
  text='Three monitors: (render) exhaustive over all file contents <=6 (quick) / <=7 (thorough) bytes over {a,SP,TAB,LF,CR} x all positions plus random files to 2 KiB, through the public DocumentError API, against an independent line/column/caret model, never a panic; (parse positions) every truncation and random one-byte faults of generated JSON texts as document, and the plain-JSON part as schema and enum rule: Position() must be the first byte that cannot continue the text (last byte when input ends early) per an independent RFC 8259 automaton; (validation positions) union-free schemas with ONE planted violation (wrong kind, unknown key, missing key, rule violation, item count) at a random nesting position: Position() must be the start of the offending value/key, the object brace for a missing key, the bracket for item counts.',
  note='Mixed line-end files, positions inside leading blanks and lines over 200 bytes are judged for no-panic and bounds only; nullable containers are excluded from exact validation positions (two validators alive).',
  technique='exhaustive small-scope rendering monitor + position oracles (independent JSON automaton, document generator position map)', ref='7 (C17)'),
 'C18': dict(category='exploration',
  text='Differential runtime monitor: enum value lists of all scalar kinds with kind-colliding texts rendered as named rules in many comment layouts vs the same list inline; regex patterns (table + printable-ASCII RE2 grammar incl. escaped slashes) as /P/ types vs inline {regex: P}; verdict(named) == verdict(inline) == model oracle / Go regexp for every probe; Values()/GetAST() literal order; duplicates; Pattern(), Example() matches P, Len() == len("/P/").',
  note='Comment attachment is compared only where unambiguous; numerically equal but differently spelled enum numbers are Unspecified for the oracle (the named-vs-inline differential still applies).',
  technique='real-vs-real differential monitor (named vs inline) + reference oracle', ref='7 (C18)'),
 'C10': dict(category='exploration',
  text='Two-level runtime monitor: (unit, via overlay hook) every RFC 8259 numeral of <=7 characters over {-,0,1,5,9,.,e,E,+} has its normalised expansion, fractional length and integer/float class compared with an independent big.Rat model, all ordered pairs of short numerals and random long numerals (<=60 digits, |exp|<=400, x vs x+-ulp vs re-spelling) have Cmp compared with the sign of the rational difference; (API, no hook) min/max/exclusive/precision schemas x document numerals of every form. Held on 7.8e6 (quick) / 6.8e7 (thorough) comparisons.',
  note='Reference = internal/ref/num (unit-tested against big.Rat.SetString). One known finding: numerals -?0[eE]digits are not recognised (pinned by the repository own tests), listed in known_findings.txt as a narrowly stated input class.',
  technique='differential monitor against exact rational arithmetic (hooked unit level + API level)', ref='7 (C10)'),
 'C19': dict(category='exploration',
  text='Bounded-exhaustive runtime monitoring: every operation sequence up to length 5 (quick) / 6 (thorough) over 14 mutating operations is executed on the three real generated maps and on a reference insertion-ordered map with the complete observable state compared after every step; random sequences to length 200; concurrent workloads under the Go race detector with quiescent-state invariants. Held on what was executed; not a proof beyond the bounds.',
  note='Reference model = slice of pairs written from the property statement; race freedom is judged only on the schedules the Go runtime produced; the internal Constraints map is reached through an overlay-injected hook (vh_cmap) and is reported inconclusive if the hook no longer compiles.',
  technique='reference-model monitor over exhaustive/random operation histories + Go race detector', ref='7 (C19)'),
}
import sys
sys.path.insert(0,'/verif/tools')
try:
    from manifest_extra import extra
    claimed.update(extra)
except ImportError:
    pass
checks=[]
for p in props:
    if p['id'] in claimed:
        c=claimed[p['id']]
        checks.append(dict(property_id=p['id'], quick_cmd=f"./check {p['id']} quick", thorough_cmd=f"./check {p['id']} thorough",
            evidence_file=f"/verif/evidence/{p['id']}.json", replay_cmd_template="./check --replay {path}", engine="harness",
            level_claimed=dict(category=c['category'], text=c['text'], design_ref="DESIGN.md section "+c['ref']), level_note=c['note'], technique=c['technique']))
na=[dict(property_id=p['id'], reason=claimed.get('NA',{}).get(p['id'],"check not registered yet in this session (being built, see DESIGN.md section 7); runtime monitoring applies to it")) for p in props if p['id'] not in claimed]
m=dict(version=1, setup_cmd="./setup.sh",
  hooks=dict(guard="verif", enable="./check builds cmd/harness with `go build -tags 'verif <hook tags>' -overlay <scratch>/overlay.json`; the overlay (written by cmd/instrument from /repo's current tree) injects the //go:build verif files under /verif/hooks into the library's packages. Nothing is committed to /repo for hooks.",
     baseline_off_cmd="/verif/tools/repo_suite.sh /repo", source_commits=[], add_only=True),
  engines=[dict(name="harness", path="/verif/cmd/harness", serves_properties=[c['property_id'] for c in checks], kind_free_text="Go binary rebuilt from /repo's working tree on every check; sharded worker processes, oracles at the public API boundary, race detector for schedule-quantified parts")],
  checks=checks, not_applicable=na,
  notes="See DESIGN.md. known_findings.txt lists fixed/known findings.")
json.dump(m, open('/verif/MANIFEST.json','w'), indent=1)
print("claimed:", [c['property_id'] for c in checks])
