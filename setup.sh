#!/bin/bash
# setup_cmd: offline; builds the framework once and warms the Go build cache (plain and -race).
export GOFLAGS=-mod=mod GOPROXY=off GOSUMDB=off GOTOOLCHAIN=local
cd "$(dirname "$0")" || exit 1
chmod +x check tools/*.sh 2>/dev/null
mkdir -p .build evidence replays
go build -o .build/instrument ./cmd/instrument || exit 1
go vet ./internal/mon ./internal/lib >/dev/null 2>&1
# warm caches: one plain and one race build through the real check path
VERIF_WARM=1 ./check C19 quick > .build/setup-warm.log 2>&1 || { cat .build/setup-warm.log; exit 1; }
echo "setup ok"
