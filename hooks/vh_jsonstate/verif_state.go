//go:build verif

//verif:dst formats/json/verif_state.go

package json

// Verification hook H1 (never part of /repo; injected with go build -overlay): a canonical key
// of the JSON scanner's control state after a prefix has been fed, for the state-merged
// exploration of property C05. It only reads scanner fields; the bytes are pushed through the
// scanner's own step functions and its own event bookkeeping (processingFoundLexeme), exactly
// as scanner.Next does, but WITHOUT the end-of-input rule, so that the state "after the
// prefix, before anything is known about what follows" becomes observable. The verdict
// "would Check accept if the input ended here" is taken from the real Document.Check.

import (
	"fmt"
	"reflect"
	"runtime"
	"strings"

	"github.com/jsightapi/jsight-schema-go-library/fs"
	"github.com/jsightapi/jsight-schema-go-library/internal/lexeme"
)

// VerifState is what the hook reports about one prefix.
type VerifState struct {
	// Key is the canonical control state: step function, stack of open lexeme types,
	// returnToStep stack, unfinishedLiteral, pending finds, trailing option. "DEAD" once a
	// step refused a byte, "END-TOP" once the end-top event was delivered (Check stops there).
	Key string
	// Alive: no step function refused a byte of the prefix.
	Alive bool
	// DiedAt is the index of the refused byte, -1 while alive.
	DiedAt int
	// Ended: the scanner delivered end-top (trailing characters allowed): whatever follows is
	// never looked at by Check.
	Ended bool
	// StackDepth is the number of open lexical constructs.
	StackDepth int
	// AcceptIfEnded is the verdict of the real Document.Check on exactly this prefix.
	AcceptIfEnded bool
	// Panic is non-empty when a step function panicked with something that is not an error.
	Panic string
}

func verifFuncName(f any) string {
	v := reflect.ValueOf(f)
	if v.Kind() != reflect.Func || v.IsNil() {
		return "nil"
	}
	n := runtime.FuncForPC(v.Pointer()).Name()
	if i := strings.LastIndexByte(n, '.'); i >= 0 {
		n = n[i+1:]
	}
	return n
}

// VerifStateAfter feeds prefix to a fresh scanner and reports its control state.
func VerifStateAfter(prefix []byte, allowTrailing bool) (st VerifState) {
	var oo []Option
	if allowTrailing {
		oo = append(oo, AllowTrailingNonSpaceCharacters())
	}
	func() {
		defer func() {
			if r := recover(); r != nil {
				st.Panic = fmt.Sprintf("Check panicked: %v", r)
			}
		}()
		st.AcceptIfEnded = New("verif", prefix, oo...).Check() == nil
	}()

	s := newScanner(fs.NewFile("verif", prefix))
	s.allowTrailingNonSpaceCharacters = allowTrailing
	st.DiedAt = -1
	func() {
		defer func() {
			if r := recover(); r != nil {
				st.DiedAt = int(s.index) - 1
				if _, isErr := r.(error); !isErr {
					st.Panic = fmt.Sprintf("step panicked: %v", r)
				}
			}
		}()
		for s.index < s.dataSize {
			c := s.data[s.index]
			s.index++
			s.step(s, c)
			for len(s.finds) != 0 {
				if s.processingFoundLexeme(s.shiftFound()).Type() == lexeme.EndTop {
					st.Ended = true
					st.Alive = true
					return
				}
			}
		}
		st.Alive = true
	}()

	switch {
	case !st.Alive:
		st.Key = "DEAD"
		return st
	case st.Ended:
		st.Key = "END-TOP"
		return st
	}
	var sb strings.Builder
	sb.WriteString(verifFuncName(s.step))
	sb.WriteString("|stack:")
	st.StackDepth = s.stack.Len()
	for i := 0; i < s.stack.Len(); i++ {
		if i > 0 {
			sb.WriteByte(',')
		}
		sb.WriteString(s.stack.Get(i).Type().String())
	}
	sb.WriteString("|ret:")
	for i := 0; i < s.returnToStep.Len(); i++ {
		if i > 0 {
			sb.WriteByte(',')
		}
		sb.WriteString(verifFuncName(s.returnToStep.Get(i)))
	}
	fmt.Fprintf(&sb, "|unfinished:%v|finds:%d|trailing:%v", s.unfinishedLiteral, len(s.finds), s.allowTrailingNonSpaceCharacters)
	st.Key = sb.String()
	return st
}
