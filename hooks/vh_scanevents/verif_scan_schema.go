//go:build verif

//verif:dst notations/jschema/verif_scan.go

package jschema

// Verification hook H2 (never part of /repo; injected with go build -overlay): the event
// stream of the internal schema scanner, constructed exactly the way Schema.load (normal
// mode) and Schema.computeLen (length mode) construct it. It only re-exports.

import (
	"fmt"

	"github.com/jsightapi/jsight-schema-go-library/fs"
	"github.com/jsightapi/jsight-schema-go-library/internal/lexeme"
	"github.com/jsightapi/jsight-schema-go-library/notations/jschema/internal/scanner"
)

// VerifLexEvent is one event of the internal schema scanner (End inclusive, as delivered).
type VerifLexEvent struct {
	Type       string
	Begin, End int
}

// VerifScanEvents drains the schema scanner over text. A scanner panic carrying an error is
// returned as err together with the events delivered before it.
func VerifScanEvents(text []byte, lengthMode bool) (events []VerifLexEvent, err error) {
	defer func() {
		if r := recover(); r != nil {
			if e, ok := r.(error); ok {
				err = e
			} else {
				err = fmt.Errorf("scanner panicked: %v", r)
			}
		}
	}()
	f := fs.NewFile("verif", text)
	var sc *scanner.Scanner
	if lengthMode {
		sc = scanner.New(f, scanner.ComputeLength)
	} else {
		sc = scanner.New(f)
	}
	for n := 0; ; n++ {
		lex, ok := sc.Next()
		if !ok {
			return events, nil
		}
		events = append(events, VerifLexEvent{lex.Type().String(), int(lex.Begin()), int(lex.End())})
		if lex.Type() == lexeme.EndTop {
			return events, nil
		}
		if n > 8*len(text)+64 {
			return events, fmt.Errorf("schema scanner does not terminate")
		}
	}
}
