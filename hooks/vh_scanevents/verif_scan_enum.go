//go:build verif

//verif:dst rules/enum/verif_scan.go

package enum

// Verification hook H3 (never part of /repo; injected with go build -overlay): the event
// stream of the enum-rule scanner, constructed the way Enum.doCompile (normal mode) and
// Enum.Len (length mode) construct it. It only re-exports.

import (
	stdErrors "errors"
	"fmt"

	"github.com/jsightapi/jsight-schema-go-library/fs"
	"github.com/jsightapi/jsight-schema-go-library/internal/lexeme"
)

// VerifLexEvent is one event of the enum scanner (End inclusive, as delivered).
type VerifLexEvent struct {
	Type       string
	Begin, End int
}

// VerifScanEvents drains the enum scanner over text.
func VerifScanEvents(text []byte, lengthMode bool) (events []VerifLexEvent, err error) {
	defer func() {
		if r := recover(); r != nil {
			if e, ok := r.(error); ok {
				err = e
			} else {
				err = fmt.Errorf("scanner panicked: %v", r)
			}
		}
	}()
	f := fs.NewFile("verif", text)
	var sc *scanner
	if lengthMode {
		sc = newScanner(f, scannerComputeLength)
	} else {
		sc = newScanner(f)
	}
	for n := 0; ; n++ {
		lex, err := sc.Next()
		if stdErrors.Is(err, errEOS) {
			return events, nil
		}
		if err != nil {
			return events, err
		}
		events = append(events, VerifLexEvent{lex.Type().String(), int(lex.Begin()), int(lex.End())})
		if lex.Type() == lexeme.EndTop {
			return events, nil
		}
		if n > 8*len(text)+64 {
			return events, fmt.Errorf("enum scanner does not terminate")
		}
	}
}
