//go:build verif

//verif:dst verifhook/once.go

// Package verifhook is a verification-only virtual package (never part of /repo; injected with
// go build -overlay). This file is hook H7: it re-exports the once wrappers of internal/sync so
// that their Do-histories can be recorded and checked for linearizability. It only re-exports.
package verifhook

import isync "github.com/jsightapi/jsight-schema-go-library/internal/sync"

// Once wraps internal/sync.ErrOnce.
type Once struct{ o isync.ErrOnce }

func (o *Once) Do(f func() error) error { return o.o.Do(f) }

// OnceVal wraps internal/sync.ErrOnceWithValue[int].
type OnceVal struct {
	o isync.ErrOnceWithValue[int]
}

func (o *OnceVal) Do(f func() (int, error)) (int, error) { return o.o.Do(f) }
