//go:build verif

//verif:dst notations/jschema/verif_cmap.go

package jschema

// Verification hook H5 (never part of /repo; injected with go build -overlay): a driver for the
// internal, generated ordered map schema.Constraints so that it can be exercised with the same
// operation sequences as the two public maps. It only re-exports; no library state is touched.

import (
	"strconv"

	"github.com/jsightapi/jsight-schema-go-library/bytes"
	internalSchema "github.com/jsightapi/jsight-schema-go-library/notations/jschema/internal/schema"
	"github.com/jsightapi/jsight-schema-go-library/notations/jschema/internal/schema/constraint"
)

type VerifCMap struct{ m *internalSchema.Constraints }

func NewVerifCMap() *VerifCMap { return &VerifCMap{m: &internalSchema.Constraints{}} }

func vcEnc(v int) constraint.Constraint {
	return constraint.NewMinItems(bytes.Bytes(strconv.Itoa(v)))
}

func vcDec(c constraint.Constraint) int {
	if c == nil {
		return -1
	}
	mi, ok := c.(*constraint.MinItems)
	if !ok || mi == nil {
		return -1
	}
	return int(mi.Value())
}

func (c *VerifCMap) Set(k, v int) { c.m.Set(constraint.Type(k), vcEnc(v)) }
func (c *VerifCMap) Update(k int, fn func(int) int) {
	c.m.Update(constraint.Type(k), func(v constraint.Constraint) constraint.Constraint { return vcEnc(fn(vcDec(v))) })
}
func (c *VerifCMap) GetValue(k int) int { return vcDec(c.m.GetValue(constraint.Type(k))) }
func (c *VerifCMap) Get(k int) (int, bool) {
	v, ok := c.m.Get(constraint.Type(k))
	return vcDec(v), ok
}
func (c *VerifCMap) Has(k int) bool { return c.m.Has(constraint.Type(k)) }
func (c *VerifCMap) Len() int       { return c.m.Len() }
func (c *VerifCMap) Delete(k int)   { c.m.Delete(constraint.Type(k)) }
func (c *VerifCMap) Filter(fn func(k, v int) bool) {
	c.m.Filter(func(k constraint.Type, v constraint.Constraint) bool { return fn(int(k), vcDec(v)) })
}
func (c *VerifCMap) Find(fn func(k, v int) bool) (int, int, bool) {
	it, ok := c.m.Find(func(k constraint.Type, v constraint.Constraint) bool { return fn(int(k), vcDec(v)) })
	return int(it.Key), vcDec(it.Value), ok
}
func (c *VerifCMap) Each(fn func(k, v int) error) error {
	return c.m.Each(func(k constraint.Type, v constraint.Constraint) error { return fn(int(k), vcDec(v)) })
}
func (c *VerifCMap) EachSafe(fn func(k, v int)) {
	c.m.EachSafe(func(k constraint.Type, v constraint.Constraint) { fn(int(k), vcDec(v)) })
}
func (c *VerifCMap) Map(fn func(k, v int) (int, error)) error {
	return c.m.Map(func(k constraint.Type, v constraint.Constraint) (constraint.Constraint, error) {
		nv, err := fn(int(k), vcDec(v))
		if err != nil {
			return nil, err
		}
		return vcEnc(nv), nil
	})
}
func (c *VerifCMap) MarshalJSON() ([]byte, error) { return c.m.MarshalJSON() }
