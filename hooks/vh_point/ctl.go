//go:build verif

//verif:dst verifpoint/ctl.go

// Package verifpoint (module root; verification-only, injected with go build -overlay) is the
// control surface of internal/verifpoint for the harness, which cannot import an internal package.
package verifpoint

import ivp "github.com/jsightapi/jsight-schema-go-library/internal/verifpoint"

func Info() (rewrites string, points, mapSites, onceBodies int) { return ivp.Info() }
func PointName(id int) string                                   { return ivp.PointName(id) }
func SiteName(i int) string                                     { return ivp.SiteName(i) }
func SetOrder(mode int)                                         { ivp.SetOrder(mode) }
func Order() int                                                { return ivp.Order() }
func SiteStats() (calls, multi []int64)                         { return ivp.SiteStats() }
func SetYield(permille int, hotSleep bool, seed uint64)         { ivp.SetYield(permille, hotSleep, seed) }
func YieldStats() (calls, taken, slept uint64)                  { return ivp.YieldStats() }
func Hits(obj any, field string) (begun, ended int)             { return ivp.Hits(obj, field) }
func HitFields(obj any) map[string][2]int                       { return ivp.HitFields(obj) }
func HitEvents() int64                                          { return ivp.HitEvents() }
func ResetHits()                                                { ivp.ResetHits() }
