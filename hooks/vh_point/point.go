//go:build verif

//verif:dst internal/verifpoint/point.go

// Package verifpoint is a verification-only virtual package (never part of /repo; injected with
// go build -overlay). It is hook H8: the sink of the calls that cmd/instrument splices into
// rewritten copies of the library's files — MapIter (forced map-iteration order), Yield
// (schedule perturbation) and Hit (once-body events). It imports nothing from the library and
// never touches library state.
//
// The instrumentation must not HIDE races: every lock or atomic shared between goroutines is a
// happens-before edge for the race detector. Therefore
//   - Yield shares no synchronising memory at all: it is //go:norace (its plain reads of the
//     configuration and its striped, approximate statistics counters are invisible to the race
//     detector and create no edges); the decision to yield is a hash of the point id, the
//     address of a local and the monotonic clock against a per-process constant;
//   - Hit runs only inside once bodies (already serialised per object by sync.Once) and uses
//     locks striped by object address.
package verifpoint

import (
	"fmt"
	"os"
	"reflect"
	"runtime"
	"sort"
	"strconv"
	"sync"
	"sync/atomic"
	"time"
	"unsafe"
)

// filled by the generated table (table_gen.go)
var (
	pointNames   []string
	mapSiteNames []string
	hotPoints    []bool
	rewrites     string
	mapSites     int
	onceBodies   int
)

func Info() (rw string, points, sites, once int) {
	return rewrites, len(pointNames), mapSites, onceBodies
}

func SiteName(i int) string {
	if i >= 0 && i < len(mapSiteNames) {
		return mapSiteNames[i]
	}
	return "?"
}

func PointName(id int) string {
	if id >= 0 && id < len(pointNames) {
		return pointNames[id]
	}
	return "?"
}

// ---------------------------------------------------------------------------------------
// forced map iteration order

// Order modes: 0 = whatever Go's own range produces (randomised), 1 = ascending by
// fmt.Sprint(key), 2 = descending, 3+r = ascending rotated left by r+1 positions.
var orderMode int32

func init() {
	if v := os.Getenv("VERIF_MAPORDER"); v != "" {
		if n, err := strconv.Atoi(v); err == nil {
			orderMode = int32(n)
		}
	}
}

func SetOrder(mode int) { atomic.StoreInt32(&orderMode, int32(mode)) }
func Order() int        { return int(atomic.LoadInt32(&orderMode)) }

const maxSites = 256

var (
	siteCalls [maxSites]int64 // range statements executed, per site
	siteMulti [maxSites]int64 // … over a map with at least two entries (order can matter)
)

func SiteStats() (calls, multi []int64) {
	n := mapSites
	if n > maxSites {
		n = maxSites
	}
	for i := 0; i < n; i++ {
		calls = append(calls, atomic.LoadInt64(&siteCalls[i]))
		multi = append(multi, atomic.LoadInt64(&siteMulti[i]))
	}
	return
}

// Item is one step of a forced-order iteration: the key and the map it came from, so that the
// rewritten loop body can re-check presence (Go semantics for deletion during iteration).
type Item[K comparable, V any] struct {
	K K
	m map[K]V
}

func (it Item[K, V]) Get() (V, bool) { v, ok := it.m[it.K]; return v, ok }
func (it Item[K, V]) Has() bool      { _, ok := it.m[it.K]; return ok }

// MapKeys returns the keys of m in the forced order.
func MapKeys[M ~map[K]V, K comparable, V any](m M) []K {
	keys := make([]K, 0, len(m))
	for k := range m {
		keys = append(keys, k)
	}
	mode := Order()
	if mode == 0 || len(keys) < 2 {
		return keys
	}
	strs := make([]string, len(keys))
	idx := make([]int, len(keys))
	for i, k := range keys {
		strs[i] = fmt.Sprint(k)
		idx[i] = i
	}
	sort.SliceStable(idx, func(a, b int) bool { return strs[idx[a]] < strs[idx[b]] })
	out := make([]K, len(keys))
	n := len(keys)
	for pos, i := range idx {
		switch {
		case mode == 1:
			out[pos] = keys[i]
		case mode == 2:
			out[n-1-pos] = keys[i]
		default:
			r := (mode - 2) % n
			out[((pos-r)%n+n)%n] = keys[i]
		}
	}
	return out
}

// MapIter is what a rewritten `for k, v := range m` iterates over.
func MapIter[M ~map[K]V, K comparable, V any](site int, m M) []Item[K, V] {
	if site >= 0 && site < maxSites {
		atomic.AddInt64(&siteCalls[site], 1)
		if len(m) >= 2 {
			atomic.AddInt64(&siteMulti[site], 1)
		}
	}
	keys := MapKeys(m)
	out := make([]Item[K, V], len(keys))
	for i, k := range keys {
		out[i] = Item[K, V]{K: k, m: m}
	}
	return out
}

// ---------------------------------------------------------------------------------------
// yields

// Configuration: plain variables, written by the harness only while no goroutine runs library
// code (before the start barrier / after the join), read without synchronisation by Yield.
var (
	yieldPermille uint32
	yieldHotSleep bool
	yieldConst    uint64
	clockStart    = time.Now()
)

type yieldStripe struct {
	calls, taken, slept uint64
	_                   [5]uint64 // own cache line
}

var yieldStripes [64]yieldStripe

// SetYield configures the perturbation: a yield is taken at a point with probability
// permille/1000; with hotSleep the once/pool/allOf/example points sleep 50µs instead of
// calling runtime.Gosched. Call only at quiescence.
func SetYield(permille int, hotSleep bool, seed uint64) {
	if permille < 0 {
		permille = 0
	}
	yieldPermille = uint32(permille)
	yieldHotSleep = hotSleep
	yieldConst = seed*0x9e3779b97f4a7c15 + uint64(os.Getpid())
}

// YieldStats returns approximate totals (the counters are deliberately unsynchronised).
//
//go:norace
func YieldStats() (calls, taken, slept uint64) {
	for i := range yieldStripes {
		calls += yieldStripes[i].calls
		taken += yieldStripes[i].taken
		slept += yieldStripes[i].slept
	}
	return
}

func mix64(z uint64) uint64 {
	z = (z ^ (z >> 30)) * 0xbf58476d1ce4e5b9
	z = (z ^ (z >> 27)) * 0x94d049bb133111eb
	return z ^ (z >> 31)
}

// Yield is spliced in as the first statement of every function of the packages under test.
//
//go:norace
func Yield(id int) {
	pm := yieldPermille
	if pm == 0 {
		return
	}
	var local byte
	h := mix64(uint64(id)*0x9e3779b97f4a7c15 ^ uint64(uintptr(unsafe.Pointer(&local)))<<17 ^ uint64(time.Since(clockStart)) ^ yieldConst)
	st := &yieldStripes[(h>>40)&63]
	st.calls++
	if uint32(h%1000) >= pm {
		return
	}
	st.taken++
	if yieldHotSleep && id >= 0 && id < len(hotPoints) && hotPoints[id] {
		st.slept++
		time.Sleep(50 * time.Microsecond)
		return
	}
	runtime.Gosched()
}

// ---------------------------------------------------------------------------------------
// once-body events

type hitKey struct {
	obj   any
	field string
}

// HitRec counts the executions of one once body (begun / ended).
type HitRec struct{ Begun, Ended int32 }

type hitStripe struct {
	mu sync.Mutex
	m  map[hitKey]*HitRec
}

var (
	hitStripes [64]hitStripe
	hitEvents  int64
)

func stripeOf(obj any) *hitStripe {
	var p uintptr
	if obj != nil {
		if v := reflect.ValueOf(obj); v.Kind() == reflect.Pointer || v.Kind() == reflect.UnsafePointer {
			p = v.Pointer()
		}
	}
	return &hitStripes[mix64(uint64(p))&63]
}

func hitRec(obj any, field string, create bool) *HitRec {
	st := stripeOf(obj)
	st.mu.Lock()
	defer st.mu.Unlock()
	k := hitKey{obj, field}
	r := st.m[k]
	if r == nil && create {
		if st.m == nil {
			st.m = map[hitKey]*HitRec{}
		}
		r = &HitRec{}
		st.m[k] = r
	}
	return r
}

// Hit is spliced in as `defer verifpoint.Hit("once", recv, "field")()` at the top of every func
// literal handed to a Do of the once wrappers: it records the begin now and the end when the
// returned func runs.
func Hit(kind string, obj any, field string) func() {
	r := hitRec(obj, field, true)
	atomic.AddInt32(&r.Begun, 1)
	atomic.AddInt64(&hitEvents, 1)
	return func() { atomic.AddInt32(&r.Ended, 1) }
}

// Hits reports how often the once body (obj, field) began and ended so far.
func Hits(obj any, field string) (begun, ended int) {
	r := hitRec(obj, field, false)
	if r == nil {
		return 0, 0
	}
	return int(atomic.LoadInt32(&r.Begun)), int(atomic.LoadInt32(&r.Ended))
}

// HitFields lists every once body recorded for obj: field name -> (begun, ended).
func HitFields(obj any) map[string][2]int {
	st := stripeOf(obj)
	st.mu.Lock()
	defer st.mu.Unlock()
	out := map[string][2]int{}
	for k, r := range st.m {
		if k.obj == obj {
			out[k.field] = [2]int{int(atomic.LoadInt32(&r.Begun)), int(atomic.LoadInt32(&r.Ended))}
		}
	}
	return out
}

func HitEvents() int64 { return atomic.LoadInt64(&hitEvents) }

// ResetHits forgets all records (call at quiescence; lets the recorded objects be collected).
func ResetHits() {
	for i := range hitStripes {
		hitStripes[i].mu.Lock()
		hitStripes[i].m = nil
		hitStripes[i].mu.Unlock()
	}
}
