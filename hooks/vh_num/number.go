//go:build verif

//verif:dst verifhook/number.go

// Package verifhook is a verification-only virtual package (never part of /repo; injected with
// go build -overlay). This file is hook H4: it re-exports the exact-decimal arithmetic of
// internal/json as plain functions on strings. Every function converts a panic of the library
// into the returned error string; no library state is touched.
package verifhook

import (
	"fmt"

	"github.com/jsightapi/jsight-schema-go-library/bytes"
	ijson "github.com/jsightapi/jsight-schema-go-library/internal/json"
)

func guard(errp *string) {
	if r := recover(); r != nil {
		*errp = fmt.Sprintf("panic: %v", r)
	}
}

// NumInfo parses one numeral: String() and LengthOfFractionalPart() of the Number.
// errs is "" on success, the error text of NewNumber, or "panic: ..." .
func NumInfo(s string) (str string, fracLen int, errs string) {
	defer guard(&errs)
	n, err := ijson.NewNumber(bytes.Bytes(s))
	if err != nil {
		return "", 0, "error: " + err.Error()
	}
	return n.String(), int(n.LengthOfFractionalPart()), ""
}

// NumRel holds every comparison the Number type offers for the pair (a, b).
type NumRel struct {
	Cmp                    int
	Equal, GT, GTE, LT, LTE bool
}

// NumCmp parses both numerals and compares a with b.
func NumCmp(a, b string) (r NumRel, errs string) {
	defer guard(&errs)
	x, err := ijson.NewNumber(bytes.Bytes(a))
	if err != nil {
		return r, "error: " + err.Error()
	}
	y, err := ijson.NewNumber(bytes.Bytes(b))
	if err != nil {
		return r, "error: " + err.Error()
	}
	r.Cmp = x.Cmp(y)
	r.Equal = x.Equal(y)
	r.GT = x.GreaterThan(y)
	r.GTE = x.GreaterThanOrEqual(y)
	r.LT = x.LessThan(y)
	r.LTE = x.LessThanOrEqual(y)
	return r, ""
}

// NumClass asks the literal-type guesser: IsInteger, IsFloat and the name of LiteralJsonType().
func NumClass(s string) (isInt, isFloat bool, jsonType string, errs string) {
	defer guard(&errs)
	isInt = ijson.Guess(bytes.Bytes(s)).IsInteger()
	isFloat = ijson.Guess(bytes.Bytes(s)).IsFloat()
	jsonType = ijson.Guess(bytes.Bytes(s)).LiteralJsonType().String()
	return isInt, isFloat, jsonType, ""
}
