package mon

// Rng is a SplitMix64 stream. Case lists are pure functions of (seed, property, unit).
type Rng struct{ s uint64 }

func NewRng(seed uint64) *Rng { return &Rng{s: seed} }

func Mix(a ...uint64) uint64 {
	h := uint64(0x9e3779b97f4a7c15)
	for _, x := range a {
		h ^= x + 0x9e3779b97f4a7c15 + (h << 6) + (h >> 2)
		h = mix64(h)
	}
	return h
}

func mix64(z uint64) uint64 {
	z = (z ^ (z >> 30)) * 0xbf58476d1ce4e5b9
	z = (z ^ (z >> 27)) * 0x94d049bb133111eb
	return z ^ (z >> 31)
}

func HashString(s string) uint64 {
	// FNV-1a 64 followed by a finaliser.
	h := uint64(14695981039346656037)
	for i := 0; i < len(s); i++ {
		h ^= uint64(s[i])
		h *= 1099511628211
	}
	return mix64(h)
}

func (r *Rng) U64() uint64 {
	r.s += 0x9e3779b97f4a7c15
	return mix64(r.s)
}

// Intn returns a value in [0,n). n<=0 returns 0.
func (r *Rng) Intn(n int) int {
	if n <= 1 {
		return 0
	}
	return int(r.U64() % uint64(n))
}

// Range returns a value in [lo,hi].
func (r *Rng) Range(lo, hi int) int {
	if hi <= lo {
		return lo
	}
	return lo + r.Intn(hi-lo+1)
}

func (r *Rng) Bool() bool { return r.U64()&1 == 1 }

// Chance returns true with probability num/den.
func (r *Rng) Chance(num, den int) bool { return r.Intn(den) < num }

func (r *Rng) Fork() *Rng { return NewRng(r.U64()) }

func Pick[T any](r *Rng, xs []T) T { return xs[r.Intn(len(xs))] }

func Shuffle[T any](r *Rng, xs []T) {
	for i := len(xs) - 1; i > 0; i-- {
		j := r.Intn(i + 1)
		xs[i], xs[j] = xs[j], xs[i]
	}
}

// Perm returns a random permutation of 0..n-1.
func (r *Rng) Perm(n int) []int {
	p := make([]int, n)
	for i := range p {
		p[i] = i
	}
	Shuffle(r, p)
	return p
}
