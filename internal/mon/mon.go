// Package mon is the monitor runtime shared by all property checks: deterministic case
// lists sharded over worker processes, crash/hang isolation, evidence, replay files and
// known findings.
package mon

import (
	"encoding/json"
	"fmt"
	"os"
	"sort"
	"strconv"
	"strings"
	"sync/atomic"
	"time"
)

// unitDeadlineS is the wall-clock watchdog for ONE work unit (units normally take milliseconds
// to a few seconds); firing is not a verdict by itself: the driver re-runs the unit alone.
func unitDeadlineS(tier string) int {
	if v := os.Getenv("VERIF_UNIT_DEADLINE_S"); v != "" {
		if n, err := strconv.Atoi(v); err == nil {
			return n
		}
	}
	if tier == "thorough" {
		return 600
	}
	return 90
}

// Prop describes one property check.
type Prop struct {
	ID          string
	Level       string // evidence level (exploration, ...)
	Rule        string // how cases are generated and what makes one non-trivial
	Assumptions []string
	Exhaustive  func(tier string) bool
	// Units returns the number of shardable work units for (tier, seed).
	Units func(tier string, seed uint64) int
	// Run executes work unit i, reporting to c.
	Run func(c *Ctx, i int)
	// Replay re-executes one recorded case (by kind) on the current tree and returns what is
	// observed now, in the same rendering that was stored as "observed".
	Replay map[string]func(inputs json.RawMessage) string
	// Final runs in the driver after all shards have been merged; it may add inconclusive
	// notes or declare the run broken (returned error) when the monitors observed nothing.
	Final func(ev *Evidence) error
	// Race tells the check script that this property needs the -race build.
	Race bool
	// ChunkTimeoutS overrides the per-chunk watchdog (seconds).
	ChunkTimeoutS func(tier string) int
	// MaxProcs overrides the number of worker processes.
	MaxProcs int
	// Serial units: run every unit in its own process (used by concurrency scenarios).
	UnitPerProcess bool
	// ExeKind names the build a unit must run in: "" (plain), "race" (-race build) or "rw"
	// (build with rewritten copies). Units of one kind must be contiguous.
	ExeKind func(tier string, seed uint64, unit int) string
	// SmallChunks: max units per chunk for non-plain kinds (default 1).
	KindChunk int
}

var registry = map[string]*Prop{}

func Register(p *Prop) {
	if _, dup := registry[p.ID]; dup {
		panic("duplicate property " + p.ID)
	}
	registry[p.ID] = p
}

func Lookup(id string) *Prop { return registry[id] }

func IDs() []string {
	var ids []string
	for id := range registry {
		ids = append(ids, id)
	}
	sort.Strings(ids)
	return ids
}

// Violation is one failing case; it becomes a replay file.
type Violation struct {
	Property string          `json:"property"`
	Kind     string          `json:"kind"`
	Inputs   json.RawMessage `json:"inputs"`
	Expected string          `json:"expected"`
	Observed string          `json:"observed"`
	What     string          `json:"what"`
	Seed     uint64          `json:"seed"`
	Tier     string          `json:"tier"`
	Unit     int             `json:"unit"`
	Extra    string          `json:"extra,omitempty"`
	Known    string          `json:"-"`
	Path     string          `json:"-"`
}

// Ctx is what a worker hands to Prop.Run.
type Ctx struct {
	Prop *Prop
	Tier string
	Seed uint64
	Unit int

	evals      int64
	hashes     map[uint64]struct{}
	byConstr   int64
	counters   map[string]int64
	samples    []any
	sampleKeys map[string]int
	viol       []*Violation
	violSeen   map[string]bool
	known      map[string]bool
	inconcl    map[string]int64
	findings   []Finding
}

func newCtx(p *Prop, tier string, seed uint64) *Ctx {
	return &Ctx{Prop: p, Tier: tier, Seed: seed,
		hashes: map[uint64]struct{}{}, counters: map[string]int64{},
		sampleKeys: map[string]int{}, violSeen: map[string]bool{}, known: map[string]bool{},
		inconcl: map[string]int64{}, findings: LoadFindings()}
}

// Quick reports whether the tier is the quick one.
func (c *Ctx) Quick() bool { return c.Tier != "thorough" }

// Rng returns the deterministic stream of (seed, property, unit, salt).
func (c *Ctx) Rng(salt uint64) *Rng {
	return NewRng(Mix(c.Seed, HashString(c.Prop.ID), uint64(c.Unit), salt))
}

// Eval counts n oracle comparisons.
func (c *Ctx) Eval(n int) { c.evals += int64(n) }

// Distinct records one non-trivial case by its canonical text.
func (c *Ctx) Distinct(key string) { c.hashes[HashString(key)] = struct{}{} }

// DistinctHash records one non-trivial case by a precomputed hash.
func (c *Ctx) DistinctHash(h uint64) { c.hashes[h] = struct{}{} }

// DistinctByConstruction counts n non-trivial cases that an enumeration guarantees to be
// pairwise different (no hashing needed).
func (c *Ctx) DistinctByConstruction(n int) { c.byConstr += int64(n) }

// Count adds to a named observation counter.
func (c *Ctx) Count(name string, n int) { c.counters[name] += int64(n) }

// Sample keeps up to perClass samples of each class (and at most 12 in total per worker).
func (c *Ctx) Sample(class string, v any) {
	if c.sampleKeys[class] >= 2 || len(c.samples) >= 12 {
		return
	}
	c.sampleKeys[class]++
	c.samples = append(c.samples, map[string]any{"class": class, "case": v})
}

// Inconclusive records a sub-monitor that could not decide.
func (c *Ctx) Inconclusive(what string) { c.inconcl[what]++ }

// Violate records a failing case (or a known finding if the committed list has it).
func (c *Ctx) Violate(kind string, inputs any, expected, observed, what string) {
	raw, err := json.Marshal(inputs)
	if err != nil {
		panic(err)
	}
	key := kind + "\x00" + string(raw)
	if c.violSeen[key] {
		return
	}
	c.violSeen[key] = true
	v := &Violation{Property: c.Prop.ID, Kind: kind, Inputs: raw, Expected: expected,
		Observed: observed, What: what, Seed: c.Seed, Tier: c.Tier, Unit: c.Unit}
	if f := MatchFinding(c.findings, v); f != nil {
		v.Known = f.What
		if c.known[f.ID] {
			return
		}
		c.known[f.ID] = true
	}
	c.viol = append(c.viol, v)
}

// ---- shard result files -------------------------------------------------------------

type shardResult struct {
	Evals      int64            `json:"evals"`
	Hashes     []uint64         `json:"hashes"`
	ByConstr   int64            `json:"by_constr"`
	Counters   map[string]int64 `json:"counters"`
	Samples    []any            `json:"samples"`
	Violations []*Violation     `json:"violations"`
	KnownWhat  []string         `json:"known_what"`
	Inconcl    map[string]int64 `json:"inconclusive"`
	Done       bool             `json:"done"`
}

func (c *Ctx) result() *shardResult {
	r := &shardResult{Evals: c.evals, ByConstr: c.byConstr, Counters: c.counters,
		Samples: c.samples, Inconcl: c.inconcl, Done: true}
	for h := range c.hashes {
		r.Hashes = append(r.Hashes, h)
	}
	for _, v := range c.viol {
		if v.Known != "" {
			r.KnownWhat = append(r.KnownWhat, v.Known)
			continue
		}
		r.Violations = append(r.Violations, v)
	}
	return r
}

// RunWorker executes units [lo,hi) and writes the shard result to out.
func RunWorker(id, tier string, seed uint64, lo, hi int, out string) error {
	p := Lookup(id)
	if p == nil {
		return fmt.Errorf("unknown property %s", id)
	}
	c := newCtx(p, tier, seed)
	// progress + per-unit watchdog: the driver learns which unit was running when the worker
	// died or hung, and a hanging unit ends the worker long before the chunk deadline.
	var cur, started atomic.Int64
	cur.Store(int64(lo))
	started.Store(time.Now().UnixNano())
	deadline := time.Duration(unitDeadlineS(tier)) * time.Second
	go func() {
		for {
			time.Sleep(500 * time.Millisecond)
			if time.Duration(time.Now().UnixNano()-started.Load()) > deadline {
				os.WriteFile(out+".progress", []byte(fmt.Sprintf("%d hung", cur.Load())), 0o644)
				fmt.Fprintf(os.Stderr, "watchdog: unit %d exceeded %v\n", cur.Load(), deadline)
				os.Exit(97)
			}
		}
	}()
	for i := lo; i < hi; i++ {
		c.Unit = i
		cur.Store(int64(i))
		started.Store(time.Now().UnixNano())
		os.WriteFile(out+".progress", []byte(fmt.Sprintf("%d running", i)), 0o644)
		p.Run(c, i)
		if len(c.viol) > 200 {
			break
		}
	}
	b, err := json.Marshal(c.result())
	if err != nil {
		return err
	}
	return os.WriteFile(out, b, 0o644)
}

// Evidence mirrors /root/.vp/EVIDENCE.schema.json.
type Evidence struct {
	PropertyID  string         `json:"property_id"`
	Tier        string         `json:"tier"`
	Seed        int64          `json:"seed"`
	Level       string         `json:"level"`
	Coverage    map[string]any `json:"coverage"`
	Assumptions []string       `json:"assumptions"`
	WallS       float64        `json:"wall_s"`
	Violations  int            `json:"violations"`

	Counters map[string]int64 `json:"-"`
	Inconcl  map[string]int64 `json:"-"`
}

func trunc(s string, n int) string {
	if len(s) <= n {
		return s
	}
	return s[:n] + "…"
}

func oneLine(s string) string {
	return strings.NewReplacer("\n", "\\n", "\r", "\\r").Replace(s)
}
