package mon

import (
	"bufio"
	"encoding/json"
	"os"
	"path/filepath"
	"strings"
)

// Finding is one line of /verif/known_findings.txt.
//
//	fixed: property=<id> <commit> <what failed>
//	known: property=<id> id=<slug> kind=<kind> inputs=<compact JSON> :: <what fails>
//
// A known entry suppresses exactly its witness (same property, kind and inputs after JSON
// canonicalisation). Fixed entries suppress nothing. The file is never written at run time.
type Finding struct {
	Status   string
	Property string
	ID       string
	Kind     string
	Inputs   string // canonical JSON
	What     string
}

func VerifDir() string {
	if d := os.Getenv("VERIF_DIR"); d != "" {
		return d
	}
	return "/verif"
}

func canonJSON(raw []byte) string {
	var v any
	if err := json.Unmarshal(raw, &v); err != nil {
		return string(raw)
	}
	b, err := json.Marshal(v)
	if err != nil {
		return string(raw)
	}
	return string(b)
}

func LoadFindings() []Finding {
	f, err := os.Open(filepath.Join(VerifDir(), "known_findings.txt"))
	if err != nil {
		return nil
	}
	defer f.Close()
	var out []Finding
	sc := bufio.NewScanner(f)
	sc.Buffer(make([]byte, 1<<20), 1<<24)
	for sc.Scan() {
		line := strings.TrimSpace(sc.Text())
		if !strings.HasPrefix(line, "known: ") {
			continue
		}
		rest := strings.TrimPrefix(line, "known: ")
		what := ""
		if i := strings.LastIndex(rest, " :: "); i >= 0 {
			what = rest[i+4:]
			rest = rest[:i]
		}
		fd := Finding{Status: "known", What: what}
		// fields: property=.. id=.. kind=.. inputs=<json to end>
		if i := strings.Index(rest, " inputs="); i >= 0 {
			fd.Inputs = canonJSON([]byte(rest[i+8:]))
			rest = rest[:i]
		}
		for _, kv := range strings.Fields(rest) {
			switch {
			case strings.HasPrefix(kv, "property="):
				fd.Property = kv[9:]
			case strings.HasPrefix(kv, "id="):
				fd.ID = kv[3:]
			case strings.HasPrefix(kv, "kind="):
				fd.Kind = kv[5:]
			}
		}
		if fd.Property != "" && fd.Inputs != "" {
			out = append(out, fd)
		}
	}
	return out
}

func MatchFinding(fs []Finding, v *Violation) *Finding {
	var canon string
	for i := range fs {
		f := &fs[i]
		if f.Property != v.Property || f.Kind != v.Kind {
			continue
		}
		if canon == "" {
			canon = canonJSON(v.Inputs)
		}
		if f.Inputs == canon {
			return f
		}
	}
	return nil
}
