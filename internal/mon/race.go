package mon

import (
	"regexp"
	"strings"
)

// SplitRaceReports cuts a race-detector log into its report blocks.
func SplitRaceReports(log string) []string {
	var out []string
	parts := strings.Split(log, "WARNING: DATA RACE")
	for i, p := range parts {
		if i == 0 {
			continue
		}
		if j := strings.Index(p, "=================="); j >= 0 {
			p = p[:j]
		}
		out = append(out, "WARNING: DATA RACE"+p)
	}
	return out
}

var frameRe = regexp.MustCompile(`(?m)^  (\S+)\(\)$`)

// RaceSignature reduces one report to the pair of innermost library frames of its two
// accesses (function names only, no line numbers), which is stable across runs.
func RaceSignature(rep string) string {
	var sides []string
	for _, blk := range strings.Split(rep, "\n\n") {
		head := strings.SplitN(blk, "\n", 2)[0]
		if !(strings.Contains(head, "rite at") || strings.Contains(head, "ead at") || strings.Contains(head, "revious")) {
			continue
		}
		fn := "?"
		for _, m := range frameRe.FindAllStringSubmatch(blk, -1) {
			if strings.Contains(m[1], "jsight-schema-go-library") || strings.Contains(m[1], "verif/") {
				fn = m[1]
				break
			}
		}
		kind := "read"
		if strings.Contains(head, "rite") {
			kind = "write"
		}
		sides = append(sides, kind+" "+fn)
		if len(sides) == 2 {
			break
		}
	}
	return strings.Join(sides, " <-> ")
}
