package mon

import (
	"context"
	"encoding/json"
	"fmt"
	"os"
	"os/exec"
	"path/filepath"
	"runtime"
	"sort"
	"strconv"
	"sync"
	"syscall"
	"time"
)

type job struct {
	lo, hi  int
	timeout time.Duration
	depth   int
	kind    string
}

type driver struct {
	p       *Prop
	tier    string
	seed    uint64
	exe     string
	scratch string

	mu       sync.Mutex
	progress map[[2]int]int // (lo,hi) of a failed child -> unit it was running
	results  []*shardResult
	crashes  []*Violation
	incon    map[string]int64
}

func envInt(name string, def int) int {
	if v := os.Getenv(name); v != "" {
		if n, err := strconv.Atoi(v); err == nil {
			return n
		}
	}
	return def
}

func scratchDir() string {
	if d := os.Getenv("VERIF_SCRATCH"); d != "" {
		os.MkdirAll(d, 0o755)
		return d
	}
	base := filepath.Join(VerifDir(), ".build")
	os.MkdirAll(base, 0o755)
	d, err := os.MkdirTemp(base, "run")
	if err != nil {
		panic(err)
	}
	return d
}

// runChild runs one worker process over [lo,hi). ok=false means it crashed, hung or did not
// finish; tail is the end of its stderr.
func (d *driver) runChild(kind string, lo, hi int, timeout time.Duration) (res *shardResult, ok bool, hung bool, tail string) {
	out := filepath.Join(d.scratch, fmt.Sprintf("w-%d-%d-%d.json", lo, hi, time.Now().UnixNano()))
	errf := out + ".err"
	ef, _ := os.Create(errf)
	ctx, cancel := context.WithTimeout(context.Background(), timeout)
	defer cancel()
	exe := d.exe
	switch kind {
	case "race":
		exe = os.Getenv("VERIF_RACE_EXE")
	case "rw":
		exe = os.Getenv("VERIF_RW_EXE")
	}
	cmd := exec.CommandContext(ctx, exe, "worker", d.p.ID, d.tier, strconv.FormatUint(d.seed, 10),
		strconv.Itoa(lo), strconv.Itoa(hi), out)
	cmd.Stdout = ef
	cmd.Stderr = ef
	cmd.Env = append(os.Environ(), "GOTRACEBACK=single")
	raceLog := out + ".race"
	if kind == "race" || os.Getenv("VERIF_RW_RACE") != "" {
		cmd.Env = append(cmd.Env, "GORACE=halt_on_error=0 exitcode=0 history_size=3 log_path="+raceLog)
	}
	cmd.Cancel = func() error { return cmd.Process.Signal(syscall.SIGQUIT) }
	cmd.WaitDelay = 10 * time.Second
	err := cmd.Run()
	ef.Close()
	hung = ctx.Err() != nil
	defer os.Remove(out)
	defer os.Remove(errf)
	defer os.Remove(out + ".progress")
	if err == nil && !hung {
		if b, rerr := os.ReadFile(out); rerr == nil {
			var r shardResult
			if json.Unmarshal(b, &r) == nil && r.Done {
				d.collectRaces(&r, raceLog, lo, hi)
				return &r, true, false, ""
			}
		}
	}
	if logs, _ := filepath.Glob(raceLog + ".*"); len(logs) > 0 {
		for _, l := range logs {
			os.Remove(l)
		}
	}
	if pb, perr := os.ReadFile(out + ".progress"); perr == nil {
		var u int
		if _, serr := fmt.Sscanf(string(pb), "%d", &u); serr == nil {
			d.mu.Lock()
			if d.progress == nil {
				d.progress = map[[2]int]int{}
			}
			d.progress[[2]int{lo, hi}] = u
			d.mu.Unlock()
		}
		if len(pb) > 5 && string(pb[len(pb)-4:]) == "hung" {
			hung = true
		}
	}
	os.Remove(out + ".progress")
	if b, rerr := os.ReadFile(errf); rerr == nil {
		if len(b) > 6000 {
			b = append(append([]byte{}, b[:3000]...), append([]byte("\n…\n"), b[len(b)-2500:]...)...)
		}
		tail = string(b)
	}
	return nil, false, hung, tail
}

func (d *driver) handle(j job, push func(job)) {
	res, ok, hung, tail := d.runChild(j.kind, j.lo, j.hi, j.timeout)
	if ok {
		d.mu.Lock()
		d.results = append(d.results, res)
		d.mu.Unlock()
		return
	}
	if j.hi-j.lo > 1 {
		// the worker recorded which unit it was running: split around that unit
		if u, ok := d.takeProgress(j.lo, j.hi); ok {
			t := j.timeout
			if u > j.lo {
				push(job{j.lo, u, t, j.depth + 1, j.kind})
			}
			push(job{u, u + 1, t, j.depth + 1, j.kind})
			if u+1 < j.hi {
				push(job{u + 1, j.hi, t, j.depth + 1, j.kind})
			}
			return
		}
		mid := (j.lo + j.hi) / 2
		t := j.timeout
		if hung && t > 40*time.Second {
			t = t/2 + 20*time.Second
		}
		push(job{j.lo, mid, t, j.depth + 1, j.kind})
		push(job{mid, j.hi, t, j.depth + 1, j.kind})
		return
	}
	// single unit: confirm twice in fresh processes (at most 3 culprits are isolated per run:
	// more of them add nothing to the verdict and every hang costs real time)
	d.mu.Lock()
	tooMany := len(d.crashes) >= 3
	if tooMany {
		d.incon[fmt.Sprintf("further failing units were not isolated after 3 confirmed crashes/hangs (hung=%v)", hung)]++
	}
	d.mu.Unlock()
	if tooMany {
		return
	}
	unitTimeout := time.Duration(envInt("VERIF_UNIT_TIMEOUT_S", 30)) * time.Second
	if j.timeout > unitTimeout && !hung {
		unitTimeout = j.timeout
	}
	fails := 1
	var lastTail = tail
	var lastHung = hung
	for k := 0; k < 2; k++ {
		r2, ok2, h2, t2 := d.runChild(j.kind, j.lo, j.hi, unitTimeout)
		if ok2 {
			d.mu.Lock()
			d.results = append(d.results, r2)
			d.incon[fmt.Sprintf("unit %d failed once (hung=%v) but succeeded when re-run alone", j.lo, hung)]++
			d.mu.Unlock()
			return
		}
		fails++
		lastTail, lastHung = t2, h2
	}
	kind := "crash"
	what := "worker process died (fatal error / unrecovered panic) on this unit, 3 out of 3 runs"
	if lastHung {
		kind = "hang"
		what = fmt.Sprintf("unit did not finish within %v in a fresh process, 3 out of 3 runs", unitTimeout)
	}
	raw, _ := json.Marshal(map[string]any{"unit": j.lo, "tier": d.tier, "seed": d.seed})
	v := &Violation{Property: d.p.ID, Kind: kind, Inputs: raw, Expected: "returns",
		Observed: kind, What: what, Seed: d.seed, Tier: d.tier, Unit: j.lo, Extra: lastTail}
	d.mu.Lock()
	d.crashes = append(d.crashes, v)
	d.mu.Unlock()
}

// collectRaces turns race-detector reports written by a worker into violations of the shard.
func (d *driver) collectRaces(r *shardResult, raceLog string, lo, hi int) {
	logs, _ := filepath.Glob(raceLog + ".*")
	if len(logs) == 0 {
		return
	}
	var all []byte
	for _, l := range logs {
		b, _ := os.ReadFile(l)
		all = append(all, b...)
		os.Remove(l)
	}
	reports := SplitRaceReports(string(all))
	if len(reports) == 0 {
		return
	}
	if r.Counters == nil {
		r.Counters = map[string]int64{}
	}
	r.Counters["race reports"] += int64(len(reports))
	seen := map[string]bool{}
	for _, rep := range reports {
		sig := RaceSignature(rep)
		if seen[sig] {
			continue
		}
		seen[sig] = true
		raw, _ := json.Marshal(map[string]any{"signature": sig})
		r.Violations = append(r.Violations, &Violation{Property: d.p.ID, Kind: "race", Inputs: raw,
			Expected: "no data race", Observed: "data race", What: "race detector report: " + sig,
			Seed: d.seed, Tier: d.tier, Unit: lo, Extra: trunc(rep, 6000)})
	}
}

func (d *driver) takeProgress(lo, hi int) (int, bool) {
	d.mu.Lock()
	defer d.mu.Unlock()
	u, ok := d.progress[[2]int{lo, hi}]
	delete(d.progress, [2]int{lo, hi})
	if !ok || u < lo || u >= hi {
		return 0, false
	}
	return u, true
}

// Drive runs the whole check and returns the process exit code.
func Drive(id, tier string, seed uint64) int {
	p := Lookup(id)
	if p == nil {
		fmt.Fprintf(os.Stderr, "unknown property %s (have %v)\n", id, IDs())
		return 2
	}
	start := time.Now()
	exe, err := os.Executable()
	if err != nil {
		panic(err)
	}
	d := &driver{p: p, tier: tier, seed: seed, exe: exe, scratch: scratchDir(), incon: map[string]int64{}}
	n := p.Units(tier, seed)
	procs := runtime.NumCPU()
	if procs > 16 {
		procs = 16
	}
	if p.MaxProcs > 0 && procs > p.MaxProcs {
		procs = p.MaxProcs
	}
	procs = envInt("VERIF_PROCS", procs)
	chunkTimeout := 900
	if tier == "thorough" {
		chunkTimeout = 3600
	}
	if p.ChunkTimeoutS != nil {
		chunkTimeout = p.ChunkTimeoutS(tier)
	}
	var queue []job
	kindOf := func(i int) string {
		if p.ExeKind == nil {
			return ""
		}
		return p.ExeKind(tier, seed, i)
	}
	missing := map[string]bool{}
	for segLo := 0; segLo < n; {
		kind := kindOf(segLo)
		segHi := segLo + 1
		for segHi < n && kindOf(segHi) == kind {
			segHi++
		}
		m := segHi - segLo
		if (kind == "race" && os.Getenv("VERIF_RACE_EXE") == "") || (kind == "rw" && os.Getenv("VERIF_RW_EXE") == "") {
			missing[kind] = true
			segLo = segHi
			continue
		}
		nchunks := procs * 6
		if kind != "" {
			per := p.KindChunk
			if per <= 0 {
				per = 1
			}
			nchunks = (m + per - 1) / per
		}
		if p.UnitPerProcess || nchunks > m {
			nchunks = m
		}
		for k := 0; k < nchunks; k++ {
			lo, hi := segLo+k*m/nchunks, segLo+(k+1)*m/nchunks
			if hi > lo {
				queue = append(queue, job{lo, hi, time.Duration(chunkTimeout) * time.Second, 0, kind})
			}
		}
		segLo = segHi
	}
	for k := range missing {
		d.incon["build kind '"+k+"' unavailable: its units were not run"]++
	}
	var qmu sync.Mutex
	cond := sync.NewCond(&qmu)
	active := 0
	push := func(j job) {
		qmu.Lock()
		queue = append(queue, j)
		qmu.Unlock()
		cond.Broadcast()
	}
	var wg sync.WaitGroup
	for w := 0; w < procs; w++ {
		wg.Add(1)
		go func() {
			defer wg.Done()
			for {
				qmu.Lock()
				for len(queue) == 0 && active > 0 {
					cond.Wait()
				}
				if len(queue) == 0 && active == 0 {
					qmu.Unlock()
					cond.Broadcast()
					return
				}
				j := queue[0]
				queue = queue[1:]
				active++
				qmu.Unlock()
				// three confirmed crashes / hangs decide the run: what is still queued would only
				// cost (every hanging unit waits for its watchdog) and is reported as not run
				d.mu.Lock()
				enough := len(d.crashes) >= 3
				if enough {
					d.incon["units not run after 3 confirmed crashes/hangs"] += int64(j.hi - j.lo)
				}
				d.mu.Unlock()
				if enough {
					qmu.Lock()
					active--
					qmu.Unlock()
					cond.Broadcast()
					continue
				}
				d.handle(j, push)
				qmu.Lock()
				active--
				qmu.Unlock()
				cond.Broadcast()
			}
		}()
	}
	wg.Wait()

	// ---- merge ----
	ev := &Evidence{PropertyID: p.ID, Tier: tier, Seed: int64(seed), Level: p.Level,
		Assumptions: p.Assumptions, Counters: map[string]int64{}, Inconcl: map[string]int64{}}
	if ev.Tier != "thorough" {
		ev.Tier = "quick"
	}
	if ev.Assumptions == nil {
		ev.Assumptions = []string{}
	}
	var evals, byConstr int64
	var hashes []uint64
	var samples []any
	classSeen := map[string]int{}
	var viols []*Violation
	knownSeen := map[string]bool{}
	var known []string
	for _, r := range d.results {
		evals += r.Evals
		byConstr += r.ByConstr
		hashes = append(hashes, r.Hashes...)
		for k, v := range r.Counters {
			ev.Counters[k] += v
		}
		for k, v := range r.Inconcl {
			ev.Inconcl[k] += v
		}
		for _, s := range r.Samples {
			cl := ""
			if m, ok := s.(map[string]any); ok {
				cl, _ = m["class"].(string)
			}
			if classSeen[cl] >= 2 || len(samples) >= 12 {
				continue
			}
			classSeen[cl]++
			samples = append(samples, s)
		}
		viols = append(viols, r.Violations...)
		for _, k := range r.KnownWhat {
			if !knownSeen[k] {
				knownSeen[k] = true
				known = append(known, k)
			}
		}
	}
	for k, v := range d.incon {
		ev.Inconcl[k] += v
	}
	findings := LoadFindings()
	for _, v := range d.crashes {
		if f := MatchFinding(findings, v); f != nil {
			if !knownSeen[f.What] {
				knownSeen[f.What] = true
				known = append(known, f.What)
			}
			continue
		}
		viols = append(viols, v)
	}
	sort.Slice(hashes, func(i, j int) bool { return hashes[i] < hashes[j] })
	distinct := int64(0)
	for i, h := range hashes {
		if i == 0 || h != hashes[i-1] {
			distinct++
		}
	}
	distinct += byConstr
	{
		seen := map[string]bool{}
		uniq := viols[:0]
		for _, v := range viols {
			k := v.Kind + "\x00" + string(v.Inputs)
			if !seen[k] {
				seen[k] = true
				uniq = append(uniq, v)
			}
		}
		viols = uniq
	}
	sort.Slice(viols, func(i, j int) bool {
		if viols[i].Unit != viols[j].Unit {
			return viols[i].Unit < viols[j].Unit
		}
		return string(viols[i].Inputs) < string(viols[j].Inputs)
	})
	sort.Strings(known)

	ev.Coverage = map[string]any{
		"evaluations":         evals,
		"distinct_nontrivial": distinct,
		"rule":                p.Rule,
		"samples":             samples,
		"units":               n,
		"worker_processes":    procs,
		"observed":            ev.Counters,
	}
	if p.Exhaustive != nil && p.Exhaustive(tier) {
		ev.Coverage["exhaustive"] = true
	}
	ev.Coverage["known_findings_seen"] = known
	ev.Violations = len(viols)

	broken := ""
	if p.Final != nil {
		if err := p.Final(ev); err != nil {
			broken = err.Error()
		}
	}
	inc := []string{}
	for k, v := range ev.Inconcl {
		inc = append(inc, fmt.Sprintf("%s (x%d)", k, v))
	}
	sort.Strings(inc)
	ev.Coverage["inconclusive"] = inc
	if len(viols) == 0 && broken == "" {
		if evals == 0 || distinct < 2 || len(samples) == 0 {
			broken = fmt.Sprintf("monitors observed nothing (evaluations=%d distinct=%d samples=%d)", evals, distinct, len(samples))
		}
	}
	ev.WallS = time.Since(start).Seconds()
	if len(samples) == 0 {
		ev.Coverage["samples"] = []any{}
	}

	// replay files
	rdir := filepath.Join(VerifDir(), "replays")
	os.MkdirAll(rdir, 0o755)
	if old, _ := filepath.Glob(filepath.Join(rdir, p.ID+"-*.json")); len(old) > 0 {
		for _, o := range old {
			os.Remove(o)
		}
	}
	for i, v := range viols {
		if i >= 25 {
			break
		}
		b, _ := json.MarshalIndent(v, "", " ")
		name := fmt.Sprintf("%s-%016x.json", p.ID, HashString(v.Kind+"\x00"+string(v.Inputs)))
		v.Path = filepath.Join(rdir, name)
		os.WriteFile(v.Path, b, 0o644)
	}
	evb, _ := json.MarshalIndent(ev, "", " ")
	evDir := filepath.Join(VerifDir(), "evidence")
	if d := os.Getenv("VERIF_EVIDENCE_DIR"); d != "" {
		evDir = d // runs against a scratch copy of the library must not overwrite the real evidence
	}
	os.MkdirAll(evDir, 0o755)
	if err := os.WriteFile(filepath.Join(evDir, p.ID+".json"), evb, 0o644); err != nil {
		fmt.Fprintln(os.Stderr, "cannot write evidence:", err)
		return 2
	}
	if os.Getenv("VERIF_SCRATCH") == "" {
		os.RemoveAll(d.scratch)
	}

	for _, k := range known {
		fmt.Printf("KNOWN-FINDING: property=%s %s\n", p.ID, k)
	}
	fmt.Printf("%s %s seed=%d: units=%d evaluations=%d distinct_nontrivial=%d violations=%d inconclusive=%d wall=%.1fs\n",
		p.ID, ev.Tier, seed, n, evals, distinct, len(viols), len(inc), ev.WallS)
	keys := make([]string, 0, len(ev.Counters))
	for k := range ev.Counters {
		keys = append(keys, k)
	}
	sort.Strings(keys)
	for _, k := range keys {
		fmt.Printf("  observed %-48s %d\n", k, ev.Counters[k])
	}
	for _, s := range inc {
		fmt.Printf("  INCONCLUSIVE %s\n", s)
	}
	if broken != "" {
		fmt.Printf("BROKEN property=%s %s\n", p.ID, broken)
		return 2
	}
	for i, v := range viols {
		if i >= 25 {
			fmt.Printf("  … %d more violations not written\n", len(viols)-25)
			break
		}
		fmt.Printf("  %s: %s\n    expected: %s\n    observed: %s\n    inputs: %s\n", v.Kind, v.What,
			trunc(oneLine(v.Expected), 300), trunc(oneLine(v.Observed), 300), trunc(string(v.Inputs), 600))
		fmt.Printf("VIOLATION property=%s replay=%s\n", p.ID, v.Path)
	}
	if len(viols) > 0 {
		return 1
	}
	return 0
}

// ReplayFile re-executes a recorded case on the current tree.
func ReplayFile(path string) int {
	b, err := os.ReadFile(path)
	if err != nil {
		fmt.Fprintln(os.Stderr, err)
		return 2
	}
	var v Violation
	if err := json.Unmarshal(b, &v); err != nil {
		fmt.Fprintln(os.Stderr, err)
		return 2
	}
	p := Lookup(v.Property)
	if p == nil {
		fmt.Fprintln(os.Stderr, "unknown property", v.Property)
		return 2
	}
	var now string
	if v.Kind == "crash" || v.Kind == "hang" {
		exe, _ := os.Executable()
		d := &driver{p: p, tier: v.Tier, seed: v.Seed, exe: exe, scratch: scratchDir(), incon: map[string]int64{}}
		kind := ""
		if p.ExeKind != nil {
			kind = p.ExeKind(v.Tier, v.Seed, v.Unit)
		}
		res, ok, hung, tail := d.runChild(kind, v.Unit, v.Unit+1, 60*time.Second)
		switch {
		case ok && len(res.Violations) > 0:
			now = "returns (with violations: " + res.Violations[0].What + ")"
		case ok:
			now = "returns"
		case hung:
			now = "hang"
		default:
			now = "crash"
		}
		fmt.Println(trunc(tail, 3000))
		os.RemoveAll(d.scratch)
	} else {
		f := p.Replay[v.Kind]
		if f == nil {
			fmt.Fprintf(os.Stderr, "property %s has no replay handler for kind %q\n", v.Property, v.Kind)
			return 2
		}
		now = f(v.Inputs)
	}
	fmt.Printf("property: %s\nkind:     %s\nwhat:     %s\ninputs:   %s\nexpected: %s\nrecorded: %s\nnow:      %s\n",
		v.Property, v.Kind, v.What, string(v.Inputs), v.Expected, v.Observed, now)
	if now == v.Expected {
		fmt.Println("does not reproduce on the current tree")
		return 0
	}
	fmt.Printf("VIOLATION property=%s replay=%s\n", v.Property, path)
	return 1
}
