// Package refnum is the reference model for JSON numerals (property C10). It is written from
// RFC 8259 §6 and from the property statement, uses math/big for values and schoolbook digit
// shifting for the normalised decimal expansion, and imports nothing from the library.
package refnum

import (
	"errors"
	"math/big"
	"strings"
)

// Valid reports whether s is one RFC 8259 number:
//
//	number = [ "-" ] int [ "." 1*DIGIT ] [ ("e"|"E") [ "-"|"+" ] 1*DIGIT ]
//	int    = "0" | ( %x31-39 *DIGIT )
func Valid(s string) bool {
	_, _, _, _, _, ok := split(s)
	return ok
}

func isDigit(c byte) bool { return '0' <= c && c <= '9' }

// split cuts a numeral into sign, integer digits, fraction digits (without the point),
// and the exponent text (with its sign, without the e); hasExp tells whether an exponent is there.
func split(s string) (neg bool, ip, fp, ex string, hasExp bool, ok bool) {
	i := 0
	if i < len(s) && s[i] == '-' {
		neg = true
		i++
	}
	st := i
	if i >= len(s) || !isDigit(s[i]) {
		return
	}
	if s[i] == '0' {
		i++
	} else {
		for i < len(s) && isDigit(s[i]) {
			i++
		}
	}
	ip = s[st:i]
	if i < len(s) && s[i] == '.' {
		i++
		st = i
		for i < len(s) && isDigit(s[i]) {
			i++
		}
		if i == st {
			return
		}
		fp = s[st:i]
	}
	if i < len(s) && (s[i] == 'e' || s[i] == 'E') {
		i++
		st = i
		if i < len(s) && (s[i] == '+' || s[i] == '-') {
			i++
		}
		d := i
		for i < len(s) && isDigit(s[i]) {
			i++
		}
		if i == d {
			return
		}
		ex = s[st:i]
		hasExp = true
	}
	if i != len(s) {
		return
	}
	ok = true
	return
}

// Num is a parsed numeral.
type Num struct {
	Text   string
	HasDot bool // the spelling contains '.'
	HasExp bool // the spelling contains an exponent
	// Normalised decimal expansion of the exact value: Neg is false for zero, Int has no
	// leading zeros ("0" when the integer part is zero), Frac has no trailing zeros.
	Neg  bool
	Int  string
	Frac string
	rat  *big.Rat
}

var ten = big.NewInt(10)

// MaxExp bounds |exponent| (the reference materialises 10^|exp|).
const MaxExp = 100000

// Parse parses one RFC 8259 numeral.
func Parse(s string) (*Num, error) {
	neg, ip, fp, ex, hasExp, ok := split(s)
	if !ok {
		return nil, errors.New("not an RFC 8259 number: " + s)
	}
	n := &Num{Text: s, HasDot: strings.IndexByte(s, '.') >= 0, HasExp: hasExp}
	// exponent as a small integer
	e := 0
	if hasExp {
		eneg := false
		t := ex
		if t[0] == '+' || t[0] == '-' {
			eneg = t[0] == '-'
			t = t[1:]
		}
		t = strings.TrimLeft(t, "0")
		if len(t) > 6 {
			return nil, errors.New("exponent too large for the reference model: " + s)
		}
		for i := 0; i < len(t); i++ {
			e = e*10 + int(t[i]-'0')
		}
		if e > MaxExp {
			return nil, errors.New("exponent too large for the reference model: " + s)
		}
		if eneg {
			e = -e
		}
	}
	// (1) value with math/big: mantissa * 10^(e - len(fp))
	m, _ := new(big.Int).SetString(ip+fp, 10)
	if neg {
		m.Neg(m)
	}
	sh := e - len(fp)
	r := new(big.Rat)
	if sh >= 0 {
		m.Mul(m, new(big.Int).Exp(ten, big.NewInt(int64(sh)), nil))
		r.SetInt(m)
	} else {
		r.SetFrac(m, new(big.Int).Exp(ten, big.NewInt(int64(-sh)), nil))
	}
	n.rat = r
	// (2) digits by schoolbook shifting: the point sits after len(ip)+e digits of ip+fp
	digits := ip + fp
	point := len(ip) + e
	var ipart, fpart string
	switch {
	case point <= 0:
		ipart = ""
		fpart = strings.Repeat("0", -point) + digits
	case point >= len(digits):
		ipart = digits + strings.Repeat("0", point-len(digits))
		fpart = ""
	default:
		ipart, fpart = digits[:point], digits[point:]
	}
	ipart = strings.TrimLeft(ipart, "0")
	fpart = strings.TrimRight(fpart, "0")
	if ipart == "" {
		ipart = "0"
	}
	n.Int, n.Frac = ipart, fpart
	n.Neg = neg && !(ipart == "0" && fpart == "")
	return n, nil
}

// MustParse panics on a non-numeral (for tables).
func MustParse(s string) *Num {
	n, err := Parse(s)
	if err != nil {
		panic(err)
	}
	return n
}

// Rat returns the exact value (do not modify).
func (n *Num) Rat() *big.Rat { return n.rat }

// String renders the normalised expansion: "-12.5", "0", "0.001".
func (n *Num) String() string {
	s := n.Int
	if n.Neg {
		s = "-" + s
	}
	if n.Frac != "" {
		s += "." + n.Frac
	}
	return s
}

// FracLen is the number of fractional digits of the normalised expansion.
func (n *Num) FracLen() int { return len(n.Frac) }

// IsZero reports value == 0.
func (n *Num) IsZero() bool { return n.Int == "0" && n.Frac == "" }

// IsFloat is the classification used by the library's documentation: a numeral without an
// exponent is a float iff it contains '.'; with an exponent it is a float iff its exact value
// is non-integral. IsInteger is the complement.
func (n *Num) IsFloat() bool {
	if !n.HasExp {
		return n.HasDot
	}
	return n.Frac != ""
}

func (n *Num) IsInteger() bool { return !n.IsFloat() }

// Integral reports whether the exact value is a whole number.
func (n *Num) Integral() bool { return n.Frac == "" }

// Cmp compares exact values: -1, 0, +1.
func Cmp(a, b *Num) int { return a.rat.Cmp(b.rat) }

// CmpDigits compares through the normalised expansions only (independent of math/big); the
// two comparisons are cross-checked by the unit tests and by the C10 harness.
func CmpDigits(a, b *Num) int {
	if a.Neg != b.Neg {
		if a.Neg {
			return -1
		}
		return 1
	}
	c := 0
	switch {
	case len(a.Int) != len(b.Int):
		if len(a.Int) < len(b.Int) {
			c = -1
		} else {
			c = 1
		}
	case a.Int != b.Int:
		c = strings.Compare(a.Int, b.Int)
	default:
		// fractional digits compare lexicographically (shorter is padded with zeros, and a
		// proper prefix is smaller because trailing zeros were trimmed)
		c = strings.Compare(a.Frac, b.Frac)
	}
	if a.Neg {
		c = -c
	}
	return c
}
