package refnum

import (
	"math/big"
	"strings"
	"testing"
)

// all strings over the alphabet up to length n
func enum(alpha string, n int, f func(string)) {
	var rec func(prefix []byte)
	rec = func(prefix []byte) {
		f(string(prefix))
		if len(prefix) == n {
			return
		}
		for i := 0; i < len(alpha); i++ {
			rec(append(prefix, alpha[i]))
		}
	}
	rec(nil)
}

// an independent statement of the RFC grammar as a hand-unrolled state machine
func rfcDFA(s string) bool {
	st := 0 // 0 start,1 after -,2 after 0,3 in int,4 after .,5 in frac,6 after e,7 after e sign,8 in exp
	for i := 0; i < len(s); i++ {
		c := s[i]
		d := c >= '0' && c <= '9'
		switch st {
		case 0:
			switch {
			case c == '-':
				st = 1
			case c == '0':
				st = 2
			case d:
				st = 3
			default:
				return false
			}
		case 1:
			switch {
			case c == '0':
				st = 2
			case d:
				st = 3
			default:
				return false
			}
		case 2, 3:
			switch {
			case d && st == 3:
			case c == '.':
				st = 4
			case c == 'e' || c == 'E':
				st = 6
			default:
				return false
			}
		case 4:
			if !d {
				return false
			}
			st = 5
		case 5:
			switch {
			case d:
			case c == 'e' || c == 'E':
				st = 6
			default:
				return false
			}
		case 6:
			switch {
			case c == '+' || c == '-':
				st = 7
			case d:
				st = 8
			default:
				return false
			}
		case 7, 8:
			if !d {
				return false
			}
			st = 8
		}
	}
	return st == 2 || st == 3 || st == 5 || st == 8
}

func TestValidAgainstDFAAndBigRat(t *testing.T) {
	nValid := 0
	enum("-015.eE+", 7, func(s string) {
		v := Valid(s)
		if v != rfcDFA(s) {
			t.Fatalf("Valid(%q)=%v, DFA says %v", s, v, rfcDFA(s))
		}
		if !v {
			return
		}
		nValid++
		n, err := Parse(s)
		if err != nil {
			t.Fatalf("Parse(%q): %v", s, err)
		}
		// big.Rat.SetString accepts every RFC numeral (it accepts more, e.g. "+1", ".5")
		want, ok := new(big.Rat).SetString(s)
		if !ok {
			t.Fatalf("big.Rat rejects %q", s)
		}
		if n.Rat().Cmp(want) != 0 {
			t.Fatalf("%q: value %s, big.Rat %s", s, n.Rat(), want)
		}
		// the normalised expansion denotes the same value and is normalised
		back, ok := new(big.Rat).SetString(n.String())
		if !ok || back.Cmp(want) != 0 {
			t.Fatalf("%q: normalised %q has value %v, want %s", s, n.String(), back, want)
		}
		checkNormal(t, s, n)
		if want.IsInt() != n.Integral() {
			t.Fatalf("%q: Integral=%v, big.Rat.IsInt=%v", s, n.Integral(), want.IsInt())
		}
		if n.IsInteger() == n.IsFloat() {
			t.Fatalf("%q: classification not a partition", s)
		}
	})
	if nValid < 2000 {
		t.Fatalf("only %d valid numerals enumerated", nValid)
	}
	t.Logf("%d valid numerals", nValid)
}

func checkNormal(t *testing.T, s string, n *Num) {
	t.Helper()
	if n.Int == "" || (len(n.Int) > 1 && n.Int[0] == '0') {
		t.Fatalf("%q: integer digits %q not normalised", s, n.Int)
	}
	if strings.HasSuffix(n.Frac, "0") {
		t.Fatalf("%q: fraction digits %q not normalised", s, n.Frac)
	}
	if n.IsZero() && n.Neg {
		t.Fatalf("%q: negative zero survived", s)
	}
	if strings.Trim(n.Int+n.Frac, "0123456789") != "" {
		t.Fatalf("%q: non-digits in expansion", s)
	}
}

func TestTable(t *testing.T) {
	cc := []struct {
		in, norm string
		frac     int
		float    bool
	}{
		{"0", "0", 0, false}, {"-0", "0", 0, false}, {"0e1", "0", 0, false}, {"-0.0E-0", "0", 0, false},
		{"0.00", "0", 0, true}, {"1.0", "1", 0, true}, {"1E+2", "100", 0, false}, {"1e2", "100", 0, false},
		{"15e-1", "1.5", 1, true}, {"1.5e1", "15", 0, false}, {"5.250", "5.25", 2, true},
		{"1.23e-4", "0.000123", 6, true}, {"123e-2", "1.23", 2, true}, {"-0.123", "-0.123", 3, true},
		{"100e-2", "1", 0, false}, {"-12.50E+1", "-125", 0, false}, {"0.5E-3", "0.0005", 4, true},
		{"1e-0", "1", 0, false}, {"1E05", "100000", 0, false}, {"10.0e-1", "1", 0, false},
	}
	for _, c := range cc {
		n, err := Parse(c.in)
		if err != nil {
			t.Fatal(err)
		}
		if n.String() != c.norm || n.FracLen() != c.frac || n.IsFloat() != c.float {
			t.Errorf("%q: got (%q,%d,float=%v) want (%q,%d,float=%v)", c.in, n.String(), n.FracLen(), n.IsFloat(), c.norm, c.frac, c.float)
		}
	}
	for _, bad := range []string{"", "01", "+1", ".1", "-.1", "-", "e2", "1.", "1.e2", "1e", "1e+", "1.1e2e", "--1", "1 ", " 1", "0x1", "1e1.5", "00", "-01"} {
		if Valid(bad) {
			t.Errorf("Valid(%q) = true", bad)
		}
	}
}

func TestCmpAgainstBigRat(t *testing.T) {
	var all []*Num
	enum("-015.eE", 5, func(s string) {
		if Valid(s) {
			all = append(all, MustParse(s))
		}
	})
	for _, s := range []string{"1e400", "-1e400", "1e-400", "123456789012345678901234567890.000000000000000000001", "123456789012345678901234567890.000000000000000000002e0", "99999999999999999999e-20", "1.0000000000000000000000000000000000000001", "1"} {
		all = append(all, MustParse(s))
	}
	n := 0
	for _, a := range all {
		ra, _ := new(big.Rat).SetString(a.Text)
		for _, b := range all {
			rb, _ := new(big.Rat).SetString(b.Text)
			want := ra.Cmp(rb)
			if Cmp(a, b) != want || CmpDigits(a, b) != want {
				t.Fatalf("Cmp(%q,%q)=%d CmpDigits=%d want %d", a.Text, b.Text, Cmp(a, b), CmpDigits(a, b), want)
			}
			if (want == 0) != (a.String() == b.String()) {
				t.Fatalf("%q vs %q: equal values must have equal normalised expansions (%q, %q)", a.Text, b.Text, a.String(), b.String())
			}
			n++
		}
	}
	t.Logf("%d pairs", n)
}
