package refrender

import (
	"strings"
	"testing"
)

func TestClassify(t *testing.T) {
	cc := map[string]LineEnds{
		"": None, "abc": None, "a\nb": LF, "\n\n": LF, "a\rb\r": CR, "a\r\nb\r\n": CRLF, "\r\n": CRLF,
		"a\n\rb": Mixed, "a\r\nb\n": Mixed, "a\r\r\n": Mixed, "\n\r\n": Mixed, "a\rb\nc": Mixed,
	}
	for in, want := range cc {
		if got := Classify([]byte(in)); got != want {
			t.Errorf("Classify(%q)=%v want %v", in, got, want)
		}
	}
}

func TestFor(t *testing.T) {
	type row struct {
		content     string
		pos         int
		lineDecided bool
		line        int
		textDecided bool
		text        string
		caret       bool
		col         int
	}
	cc := []row{
		{"abc", 0, true, 1, true, "abc", true, 0},
		{"abc", 2, true, 1, true, "abc", true, 2},
		{"\n[", 0, true, 1, false, "", false, 0}, // empty first line, position at its terminator
		{"\n[", 1, true, 2, true, "[", true, 0},
		{" a", 0, true, 1, true, "a", false, 0}, // inside leading blanks
		{" a", 1, true, 1, true, "a", true, 0},
		{"a\n \tb c\nd", 4, true, 2, true, "b c", true, 0},
		{"a\n \tb c\nd", 6, true, 2, true, "b c", true, 2},
		{"a\n \tb c\nd", 7, true, 2, true, "b c", true, 3}, // the terminator of line 2
		{"a\n \tb c\nd", 8, true, 3, true, "d", true, 0},
		{"a\r\nb", 1, true, 1, true, "a", true, 1},
		{"a\r\nb", 2, true, 1, true, "a", true, 2},
		{"a\r\nb", 3, true, 2, true, "b", true, 0},
		{"a\rb\r", 3, true, 2, true, "b", true, 1},
		{"a\n  \nb", 2, true, 2, false, "", false, 0}, // blank-only line
		{"a\n\rb", 3, false, 0, false, "", false, 0},  // mixed
		{"a\n\vb", 2, true, 2, false, "", false, 0},   // exotic first byte
	}
	for _, c := range cc {
		e := For([]byte(c.content), c.pos)
		if !e.Inside || e.LineDecided != c.lineDecided || (c.lineDecided && e.Line != c.line) ||
			e.TextDecided != c.textDecided || (c.textDecided && e.Text != c.text) ||
			e.CaretDecided != c.caret || (c.caret && e.Col != c.col) {
			t.Errorf("For(%q,%d) = %+v, want %+v", c.content, c.pos, e, c)
		}
		if e.MaxLine < 1 || (e.LineDecided && e.Line > e.MaxLine) {
			t.Errorf("For(%q,%d): MaxLine %d < Line %d", c.content, c.pos, e.MaxLine, e.Line)
		}
	}
	if For([]byte("ab"), 2).Inside || For(nil, 0).Inside || For([]byte("ab"), -1).Inside {
		t.Error("positions outside the content must not be Inside")
	}
}

func TestTextOK(t *testing.T) {
	long := strings.Repeat("x", 150) + strings.Repeat("y", 150)
	e := For([]byte("  "+long+"\nz"), 5)
	if !e.TextDecided || !e.Truncated || !e.CaretDecided || e.Col != 3 {
		t.Fatalf("%+v", e)
	}
	ok := []string{long[:200], long[:197] + "...", long[:195] + "...", long[:190], long[:197] + "…"}
	bad := []string{long, long[:201], "", long[:50] + "...", "x" + long[:190], long[:180] + "zzz", "  " + long[:190]}
	for _, s := range ok {
		if !e.TextOK(s) {
			t.Errorf("TextOK rejects a legal truncation of length %d", len(s))
		}
	}
	for _, s := range bad {
		if e.TextOK(s) {
			t.Errorf("TextOK accepts an illegal text of length %d", len(s))
		}
	}
	// trimmed text fits although the raw line does not: exact text or a cut are both fine
	raw := strings.Repeat(" ", 30) + strings.Repeat("k", 180)
	e = For([]byte(raw), 40)
	if !e.Truncated || !e.TextOK(strings.Repeat("k", 180)) || !e.TextOK(strings.Repeat("k", 167)+"...") || e.TextOK(strings.Repeat("k", 100)) {
		t.Errorf("raw>200, trimmed<=200: %+v", e)
	}
	// short line: exact only
	e = For([]byte("  ab"), 2)
	if !e.TextOK("ab") || e.TextOK("  ab") || e.TextOK("a") || e.TextOK("ab...") {
		t.Error("short line must be shown exactly, left-trimmed")
	}
	// position far right in a truncated line: text decided, caret not
	e = For([]byte(long), 250)
	if !e.TextDecided || e.CaretDecided {
		t.Errorf("%+v", e)
	}
}
