// Package refrender is the reference model for the rendering half of property C17:
//
//	"For any file content and any position inside it, the rendered message shows the 1-based
//	 line number (for LF, CR and CRLF files), the text of that line (left-trimmed, truncated at
//	 200 bytes) and a caret under the offending column, and rendering never panics."
//
// It is written from that statement only (no library code, no library import) and answers
// three-valued: every cell the statement does not decide is left undecided.
package refrender

import "strings"

// LineEnds classifies the line terminators of a file.
type LineEnds int

const (
	None  LineEnds = iota // no CR and no LF at all: one line
	LF                    // every terminator is a bare LF
	CR                    // every terminator is a bare CR
	CRLF                  // every terminator is the pair CR LF
	Mixed                 // anything else
)

func (l LineEnds) String() string { return [...]string{"none", "LF", "CR", "CRLF", "mixed"}[l] }

// Classify decides the line-end style of content.
func Classify(content []byte) LineEnds {
	bareLF, bareCR, pair := 0, 0, 0
	for i := 0; i < len(content); i++ {
		switch content[i] {
		case '\r':
			if i+1 < len(content) && content[i+1] == '\n' {
				pair++
				i++
			} else {
				bareCR++
			}
		case '\n':
			bareLF++
		}
	}
	switch {
	case bareLF == 0 && bareCR == 0 && pair == 0:
		return None
	case bareCR == 0 && pair == 0:
		return LF
	case bareLF == 0 && pair == 0:
		return CR
	case bareLF == 0 && bareCR == 0:
		return CRLF
	}
	return Mixed
}

// MaxShown is the statement's truncation bound.
const MaxShown = 200

// Expect is what the statement demands for one (content, position).
type Expect struct {
	Inside bool     // 0 <= pos < len(content); nothing is decided otherwise
	Ends   LineEnds // line-end style of the file

	// MaxLine: an upper bound that holds for every file: 1 + number of CR/LF bytes before pos.
	MaxLine int

	// LineDecided: the file has uniform line ends, so the 1-based line number is Line. A
	// terminator byte belongs to the line it ends.
	LineDecided bool
	Line        int

	// TextDecided: the line has a first non-blank byte (SP and TAB are the blanks) that is an
	// ordinary byte, so "the line's text, left-trimmed" is Text. RawLen is the length of the
	// line without its terminator, Lead the number of leading blanks.
	TextDecided bool
	Text        string
	RawLen      int
	Lead        int
	// Truncated: the untrimmed line is longer than 200 bytes, so the shown text may be cut
	// (see TextOK).
	Truncated bool

	// CaretDecided: the position is at or after the first non-blank byte of its line (and, in
	// a truncated line, within the first 190 bytes, i.e. inside any 200-byte window), so the
	// caret column relative to the shown text is Col.
	CaretDecided bool
	Col          int
}

func isBlank(c byte) bool { return c == ' ' || c == '\t' }

// exotic reports bytes that some notions of "blank" include and others do not (VT, FF, NUL
// and the lead bytes of NBSP, NEL, U+2000…, U+3000, BOM): a line that starts with one of them
// after its SP/TAB blanks has no agreed left-trimmed text.
func exotic(c byte) bool {
	switch c {
	case 0, '\v', '\f', 0xC2, 0xE2, 0xE3, 0xEF, 0xA0, 0x85:
		return true
	}
	return false
}

// For computes the expectation for one position.
func For(content []byte, pos int) Expect {
	var e Expect
	if pos < 0 || pos >= len(content) {
		return e
	}
	e.Inside = true
	e.Ends = Classify(content)
	e.MaxLine = 1
	for _, c := range content[:pos] {
		if c == '\r' || c == '\n' {
			e.MaxLine++
		}
	}
	if e.Ends == Mixed {
		return e
	}
	// walk the lines: [start, end) is the text, [end, next) the terminator
	start, line := 0, 1
	for {
		end := start
		for end < len(content) && content[end] != '\r' && content[end] != '\n' {
			end++
		}
		next := end
		if next < len(content) {
			next++
			if e.Ends == CRLF {
				next++ // the pair
			}
		}
		if pos < next || next >= len(content) {
			e.LineDecided, e.Line = true, line
			raw := content[start:end]
			e.RawLen = len(raw)
			lead := 0
			for lead < len(raw) && isBlank(raw[lead]) {
				lead++
			}
			e.Lead = lead
			e.Truncated = len(raw) > MaxShown
			if lead < len(raw) && !exotic(raw[lead]) && !(e.Truncated && lead > 100) {
				e.TextDecided = true
				e.Text = string(raw[lead:])
				if pos >= start+lead && (!e.Truncated || pos-start < 190) {
					e.CaretDecided = true
					e.Col = pos - (start + lead)
				}
			}
			return e
		}
		start = next
		line++
	}
}

// TextOK judges the shown source text against a decided expectation. A line of at most 200
// bytes must be shown exactly (left-trimmed). A longer line is "truncated at 200 bytes": what
// is shown has at most 200 bytes and is a prefix of the left-trimmed line, optionally followed
// by an ellipsis ("..." or "…"); the statement does not say whether the 200 bytes are counted
// before or after trimming, so the whole trimmed line is also fine when that fits, and the
// shown prefix must reach at least 200 − leading blanks − 10 bytes (or the whole line).
func (e Expect) TextOK(shown string) bool {
	if !e.TextDecided {
		return true
	}
	if !e.Truncated {
		return shown == e.Text
	}
	if len(shown) > MaxShown {
		return false
	}
	if shown == e.Text {
		return true
	}
	body := shown
	for _, ell := range []string{"...", "…"} {
		if strings.HasSuffix(shown, ell) && strings.HasPrefix(e.Text, shown[:len(shown)-len(ell)]) {
			body = shown[:len(shown)-len(ell)]
			break
		}
	}
	if !strings.HasPrefix(e.Text, body) {
		return false
	}
	min := MaxShown - e.Lead - 10
	if len(e.Text) < min {
		min = len(e.Text)
	}
	return len(shown) >= min
}
