// Package refjson is the reference model for JSON texts used by the runtime monitors
// (C05 acceptance, C06 lexical events, C14 Len, C17 error positions).
//
// It is written from RFC 8259 and from the property statements only. It imports nothing
// from the library under test and shares no code with it. It is an explicit deterministic
// automaton (Machine: one lexical/syntactic state + a stack of open containers) that is fed
// one byte at a time, so that every question the monitors ask has a byte-exact answer.
//
// # What it decides
//
// Grammar (RFC 8259 §2–§7, byte level):
//
//	text    = ws value ws
//	ws      = *( SP / TAB / LF / CR )
//	value   = object / array / string / number / "true" / "false" / "null"
//	object  = "{" ws [ string ws ":" ws value ws *( "," ws string ws ":" ws value ws ) ] "}"
//	array   = "[" ws [ value ws *( "," ws value ws ) ] "]"
//	number  = [ "-" ] ( "0" / digit1-9 *digit ) [ "." 1*digit ] [ ("e"/"E") ["+"/"-"] 1*digit ]
//	string  = '"' *( byte >= 0x20 except '"' and '\' / '\' ( '"' '\' '/' b f n r t / 'u' 4hex ) ) '"'
//
// Bytes >= 0x80 are accepted inside strings and nowhere else; whether they form well-formed
// UTF-8 is NOT judged here (neither RFC-level recognisers such as encoding/json nor the
// property statements decide it). Callers that want a three-valued oracle should treat
// "accepted, but not valid UTF-8" as Unspecified (see utf8.Valid).
//
// Two modes:
//
//   - Strict: the whole text is exactly one value, optionally surrounded by whitespace.
//     Empty and whitespace-only texts are rejected.
//   - Prefix ("one complete value, then anything", the AllowTrailingNonSpaceCharacters
//     semantics): after optional leading whitespace the text begins with one complete value;
//     whatever follows it is ignored. Tokens are taken maximally and without backtracking:
//     once '-', '.', 'e'/'E' or an exponent sign has been consumed a digit is mandatory, and a
//     literal word that was begun must be completed. So `1x`, `{}x`, `"a"x`, `truex`, `0123`
//     and `1 x` are accepted (values 1, {}, "a", true, 0, 1) while `1.x`, `1.`, `-x`, `1e+`,
//     `trux`, `x`, “ and ` ` are rejected.
//
// # API overview
//
//	Accept(text)                      strict acceptance
//	AcceptPrefix(text)                prefix-mode acceptance
//	Check(text, mode) Result          acceptance + first offending byte / viable prefix length /
//	                                  "ended early" flag / span of the top-level value
//	Parse(text, mode) (*Node, Result) span-annotated parse tree (every value, key, container)
//	Events(root) []Event              the lexical event sequence the tree implies
//	NewMachine(mode)                  the byte-at-a-time automaton itself: Feed, Alive,
//	                                  AcceptsAtEOF, Key (abstract control-state key for
//	                                  state-merged exploration), Depth, Clone, Completion
//
// All spans are half-open byte ranges [Begin, End) into the text that was parsed.
//
// # First offending byte, viable prefix
//
// A prefix p is viable when some continuation w makes p·w accepted. Every live state of the
// automaton is co-accessible (Machine.Completion returns such a w), hence the automaton dies
// exactly at the first byte that cannot continue the text. Result.ErrOffset is the offset of
// that byte; when every byte was fine but the text stopped too early Result.EndedEarly is
// set and ErrOffset == len(text).
//
// # Independence and cross-checking
//
// The package's own tests compare it with encoding/json (Valid, Decoder, SyntaxError.Offset,
// Decoder.InputOffset for token spans) exhaustively over small alphabets and on random
// mutants. Monitors additionally compare both oracles at run time before either is used to
// judge the library; a disagreement is a harness bug, never a library violation.
package refjson
