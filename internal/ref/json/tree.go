package refjson

// Kind is the kind of a JSON value.
type Kind uint8

const (
	Object Kind = iota
	Array
	String
	Number
	True
	False
	Null
)

func (k Kind) String() string {
	return [...]string{"object", "array", "string", "number", "true", "false", "null"}[k]
}

// IsContainer reports whether the kind is Object or Array.
func (k Kind) IsContainer() bool { return k == Object || k == Array }

// Span is a half-open byte range [Begin, End).
type Span struct{ Begin, End int }

// Node is one value of the parse tree with its exact source span.
//
//   - scalars: [Begin,End) is the token (strings include both quotes);
//   - containers: [Begin,End) runs from the opening to the closing bracket inclusive;
//   - objects: Keys[i] is the span of the i-th member's key token (with quotes) and
//     Children[i] its value; arrays: Children are the items.
type Node struct {
	Kind     Kind
	Begin    int
	End      int
	Keys     []Span
	Children []*Node
}

// Count returns the number of values in the subtree.
func (n *Node) Count() int {
	c := 1
	for _, ch := range n.Children {
		c += ch.Count()
	}
	return c
}

// MaxDepth returns the container nesting depth of the subtree (a scalar has depth 0).
func (n *Node) MaxDepth() int {
	if !n.Kind.IsContainer() {
		return 0
	}
	d := 0
	for _, ch := range n.Children {
		if cd := ch.MaxDepth(); cd > d {
			d = cd
		}
	}
	return d + 1
}

// Walk calls f for every node, parents before children, in source order.
func (n *Node) Walk(f func(*Node)) {
	f(n)
	for _, ch := range n.Children {
		ch.Walk(f)
	}
}

// builder assembles the tree while the machine runs.
type builder struct {
	stk    []*Node // values under construction, outermost first
	root   *Node
	keyBeg int
}

func (b *builder) push(k Kind, pos int) { b.stk = append(b.stk, &Node{Kind: k, Begin: pos, End: -1}) }

func (b *builder) open(k Kind, pos int)        { b.push(k, pos) }
func (b *builder) scalarBegin(k Kind, pos int) { b.push(k, pos) }
func (b *builder) keyBegin(pos int)            { b.keyBeg = pos }

func (b *builder) keyEnd(end int) {
	p := b.stk[len(b.stk)-1]
	p.Keys = append(p.Keys, Span{b.keyBeg, end})
}

func (b *builder) closeValue(end int) {
	n := b.stk[len(b.stk)-1]
	b.stk = b.stk[:len(b.stk)-1]
	n.End = end
	if len(b.stk) == 0 {
		b.root = n
		return
	}
	p := b.stk[len(b.stk)-1]
	p.Children = append(p.Children, n)
}

// Result is the verdict of the reference on one text.
type Result struct {
	// Accept: the text belongs to the language of the mode.
	Accept bool
	// ErrOffset is the offset of the first byte that cannot continue the text; len(text) when
	// every byte was fine but more input was required (EndedEarly); -1 when accepted.
	ErrOffset int
	// EndedEarly: the text is a viable prefix but not a complete text.
	EndedEarly bool
	// Viable is the length of the longest viable prefix of the text (len(text) when the text
	// is accepted or ended early, ErrOffset otherwise).
	Viable int
	// ValueBegin, ValueEnd: span of the top-level value when it was completed (also set for
	// rejected strict texts such as `{} x`), else -1, -1.
	ValueBegin, ValueEnd int
}

func finish(m *Machine, n int) Result {
	r := Result{ErrOffset: -1, Viable: n}
	r.ValueBegin, r.ValueEnd = m.ValueSpan()
	switch {
	case !m.Alive():
		r.ErrOffset = m.ErrOffset()
		r.Viable = r.ErrOffset
	case m.AcceptsAtEOF():
		r.Accept = true
	default:
		r.EndedEarly = true
		r.ErrOffset = n
	}
	return r
}

// Check runs the recogniser over the whole text.
func Check(text []byte, mode Mode) Result {
	m := NewMachine(mode)
	m.FeedAll(text)
	return finish(m, len(text))
}

// Accept reports whether text is exactly one RFC 8259 JSON text (Strict mode).
func Accept(text []byte) bool { return Check(text, Strict).Accept }

// AcceptPrefix reports whether text begins, after optional whitespace, with one complete
// JSON value (Prefix mode; see the package documentation for the maximal-munch rule).
func AcceptPrefix(text []byte) bool { return Check(text, Prefix).Accept }

// Parse is Check plus the span-annotated tree of the top-level value. root is nil unless the
// top-level value was completed (it is non-nil for `{} x` in either mode).
func Parse(text []byte, mode Mode) (root *Node, res Result) {
	m := NewMachine(mode)
	m.b = &builder{}
	m.FeedAll(text)
	if m.Alive() && len(m.stack) == 0 && m.numberComplete() {
		// a top-level number that ends exactly at the end of the input
		m.b.closeValue(m.pos)
	}
	return m.b.root, finish(m, len(text))
}

// EventType names the lexical events a scanner is expected to deliver for a JSON text.
type EventType uint8

const (
	LiteralBegin EventType = iota
	LiteralEnd
	ObjectBegin
	ObjectEnd
	KeyBegin
	KeyEnd
	ValueBegin
	ValueEnd
	ArrayBegin
	ArrayEnd
	ItemBegin
	ItemEnd
)

var eventNames = [...]string{
	"literal-begin", "literal-end", "object-begin", "object-end", "key-begin", "key-end",
	"value-begin", "value-end", "array-begin", "array-end", "item-begin", "item-end",
}

func (t EventType) String() string { return eventNames[t] }

// IsOpening reports whether the event opens a construct.
func (t EventType) IsOpening() bool { return t%2 == 0 }

// Closing returns the event type that closes an opening type.
func (t EventType) Closing() EventType { return t | 1 }

// IsWrapper reports whether the event is an object-value or array-item wrapper; their exact
// spans are not fixed by the property statements (they enclose their child value).
func (t EventType) IsWrapper() bool {
	return t == ValueBegin || t == ValueEnd || t == ItemBegin || t == ItemEnd
}

// Event is one expected lexical event.
//
// Opening events carry the span of the first byte of their construct, [b, b+1). Closing
// events carry the whole construct: the scalar token, the key token, the container from
// opening to closing bracket. Wrapper events (value-*, item-*) carry the span of the value
// they wrap, which is the smallest span a scanner may report for them.
type Event struct {
	Type       EventType
	Begin, End int
}

// Events returns the event sequence implied by the tree, in source order:
//
//	scalar  → literal-begin literal-end
//	object  → object-begin { key-begin key-end value-begin <value> value-end } object-end
//	array   → array-begin { item-begin <value> item-end } array-end
func Events(root *Node) []Event {
	var out []Event
	var rec func(n *Node)
	rec = func(n *Node) {
		switch n.Kind {
		case Object:
			out = append(out, Event{ObjectBegin, n.Begin, n.Begin + 1})
			for i, ch := range n.Children {
				k := n.Keys[i]
				out = append(out, Event{KeyBegin, k.Begin, k.Begin + 1}, Event{KeyEnd, k.Begin, k.End},
					Event{ValueBegin, ch.Begin, ch.Begin + 1})
				rec(ch)
				out = append(out, Event{ValueEnd, ch.Begin, ch.End})
			}
			out = append(out, Event{ObjectEnd, n.Begin, n.End})
		case Array:
			out = append(out, Event{ArrayBegin, n.Begin, n.Begin + 1})
			for _, ch := range n.Children {
				out = append(out, Event{ItemBegin, ch.Begin, ch.Begin + 1})
				rec(ch)
				out = append(out, Event{ItemEnd, ch.Begin, ch.End})
			}
			out = append(out, Event{ArrayEnd, n.Begin, n.End})
		default:
			out = append(out, Event{LiteralBegin, n.Begin, n.Begin + 1}, Event{LiteralEnd, n.Begin, n.End})
		}
	}
	if root != nil {
		rec(root)
	}
	return out
}
