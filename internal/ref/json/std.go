package refjson

import (
	"bytes"
	"encoding/json"
	"fmt"
	"strconv"
)

// This file is the SECOND, independent oracle: the same questions answered by Go's
// encoding/json. Nothing in machine.go / tree.go uses it. Monitors call Agree* so that the
// two oracles are compared on every text before either is used to judge the library.

// StdAccept is strict acceptance according to encoding/json.Valid.
func StdAccept(text []byte) bool { return json.Valid(text) }

// StdAcceptPrefix is prefix-mode acceptance according to encoding/json.Decoder: the first
// Decode of a stream succeeds iff the stream begins with one complete value (the decoder's
// scanner is greedy in exactly the sense of the Prefix mode: `1x` yields 1, `1.x` fails).
func StdAcceptPrefix(text []byte) bool {
	dec := json.NewDecoder(bytes.NewReader(text))
	var raw json.RawMessage
	return dec.Decode(&raw) == nil
}

// Disagreement describes a text on which the two oracles differ (a harness bug).
type Disagreement struct {
	Text     string
	Mode     Mode
	Ref, Std bool
}

func (d *Disagreement) Error() string {
	return fmt.Sprintf("refjson and encoding/json disagree on %s (%s mode): refjson accept=%v, encoding/json accept=%v",
		strconv.Quote(d.Text), d.Mode, d.Ref, d.Std)
}

// Agree returns the common verdict of both oracles for text in the given mode, or a
// *Disagreement error when they differ. Callers must not judge the library on an error.
func Agree(text []byte, mode Mode) (accept bool, err error) {
	var ref, std bool
	if mode == Strict {
		ref, std = Accept(text), StdAccept(text)
	} else {
		ref, std = AcceptPrefix(text), StdAcceptPrefix(text)
	}
	if ref != std {
		return false, &Disagreement{Text: string(text), Mode: mode, Ref: ref, Std: std}
	}
	return ref, nil
}

// StdCheckTree verifies a tree produced by Parse against encoding/json's token stream:
// same sequence of tokens, every token ending at the offset the tree says
// (Decoder.InputOffset), every scalar/key span holding exactly the raw token (it decodes,
// alone, to the token's value). It returns "" when they agree.
func StdCheckTree(text []byte, root *Node) string {
	if root == nil {
		return "no tree"
	}
	dec := json.NewDecoder(bytes.NewReader(text))
	dec.UseNumber()
	var problem string
	next := func(wantEnd int, what string) (json.Token, bool) {
		tok, err := dec.Token()
		if err != nil {
			problem = fmt.Sprintf("%s: encoding/json token error %v", what, err)
			return nil, false
		}
		if off := int(dec.InputOffset()); off != wantEnd {
			problem = fmt.Sprintf("%s: encoding/json token %v ends at %d, tree says %d", what, tok, off, wantEnd)
			return nil, false
		}
		return tok, true
	}
	scalarOK := func(tok json.Token, sp Span, what string) bool {
		if sp.Begin < 0 || sp.End > len(text) || sp.Begin >= sp.End {
			problem = fmt.Sprintf("%s: bad span %v", what, sp)
			return false
		}
		raw := text[sp.Begin:sp.End]
		if IsSpace(raw[0]) || IsSpace(raw[len(raw)-1]) {
			problem = fmt.Sprintf("%s: span %v %q starts or ends with whitespace", what, sp, raw)
			return false
		}
		d := json.NewDecoder(bytes.NewReader(raw))
		d.UseNumber()
		var v any
		if err := d.Decode(&v); err != nil || d.InputOffset() != int64(len(raw)) {
			problem = fmt.Sprintf("%s: span %v %q is not one token (%v)", what, sp, raw, err)
			return false
		}
		if fmt.Sprintf("%T:%v", v, v) != fmt.Sprintf("%T:%v", tok, tok) {
			problem = fmt.Sprintf("%s: span %v %q decodes to %v, token stream has %v", what, sp, raw, v, tok)
			return false
		}
		return true
	}
	var rec func(n *Node) bool
	rec = func(n *Node) bool {
		switch n.Kind {
		case Object, Array:
			open, close_ := json.Delim('{'), json.Delim('}')
			if n.Kind == Array {
				open, close_ = '[', ']'
			}
			tok, ok := next(n.Begin+1, n.Kind.String()+" open")
			if !ok {
				return false
			}
			if tok != open {
				problem = fmt.Sprintf("tree has %s at %d, token stream has %v", n.Kind, n.Begin, tok)
				return false
			}
			if n.Kind == Object && len(n.Keys) != len(n.Children) {
				problem = "object with unequal numbers of keys and values"
				return false
			}
			for i, ch := range n.Children {
				if n.Kind == Object {
					kt, ok := next(n.Keys[i].End, "key")
					if !ok || !scalarOK(kt, n.Keys[i], "key") {
						return false
					}
				}
				if ch.Begin < n.Begin+1 || ch.End > n.End-1 {
					problem = fmt.Sprintf("child span [%d,%d) outside parent [%d,%d)", ch.Begin, ch.End, n.Begin, n.End)
					return false
				}
				if !rec(ch) {
					return false
				}
			}
			tok, ok = next(n.End, n.Kind.String()+" close")
			if !ok {
				return false
			}
			if tok != close_ {
				problem = fmt.Sprintf("tree closes %s at %d, token stream has %v", n.Kind, n.End, tok)
				return false
			}
			return true
		default:
			tok, ok := next(n.End, n.Kind.String())
			if !ok {
				return false
			}
			return scalarOK(tok, Span{n.Begin, n.End}, n.Kind.String())
		}
	}
	if !rec(root) {
		return problem
	}
	return ""
}
