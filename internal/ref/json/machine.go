package refjson

import "strings"

// Mode selects the language the automaton recognises.
type Mode uint8

const (
	// Strict: exactly one JSON value, optionally surrounded by whitespace.
	Strict Mode = iota
	// Prefix: optional whitespace, one complete JSON value (tokens taken maximally, no
	// backtracking), then anything.
	Prefix
)

func (m Mode) String() string {
	if m == Prefix {
		return "prefix"
	}
	return "strict"
}

// state is the lexical/syntactic position of the automaton.
type state uint8

const (
	stTop      state = iota // before the top-level value
	stArrFirst              // after '[': a value or ']'
	stArrNext               // after ',' inside an array: a value
	stObjFirst              // after '{': a key or '}'
	stObjNext               // after ',' inside an object: a key
	stColon                 // after a key: ':'
	stObjValue              // after ':': a value
	stAfter                 // after a value inside a container: ',' or the closing bracket
	stDone                  // after the top-level value: whitespace only (Strict)
	stTrail                 // Prefix mode: a foreign byte followed the top-level value (absorbing)
	stStr                   // inside a string
	stEsc                   // after '\' inside a string
	stU1                    // after '\u'
	stU2                    // after '\u' + 1 hex digit
	stU3                    // after '\u' + 2 hex digits
	stU4                    // after '\u' + 3 hex digits
	stNeg                   // after '-'
	stZero                  // after the integer part '0'
	stInt                   // after an integer part starting with 1-9
	stDot                   // after the '.'
	stFrac                  // after at least one fraction digit
	stE                     // after 'e' / 'E'
	stESign                 // after the exponent sign
	stExp                   // after at least one exponent digit
	stLit                   // inside true / false / null
	stDead                  // a byte could not continue the text
)

var stateNames = [...]string{
	stTop: "top", stArrFirst: "arr-first", stArrNext: "arr-next", stObjFirst: "obj-first",
	stObjNext: "obj-next", stColon: "colon", stObjValue: "obj-value", stAfter: "after",
	stDone: "done", stTrail: "trail", stStr: "str", stEsc: "esc", stU1: "u1", stU2: "u2",
	stU3: "u3", stU4: "u4", stNeg: "neg", stZero: "zero", stInt: "int", stDot: "dot",
	stFrac: "frac", stE: "e", stESign: "e-sign", stExp: "exp", stLit: "lit", stDead: "dead",
}

// IsSpace reports whether b is JSON whitespace (SP, TAB, LF, CR).
func IsSpace(b byte) bool { return b == ' ' || b == '\t' || b == '\n' || b == '\r' }

func isDigit(b byte) bool { return '0' <= b && b <= '9' }

func isHex(b byte) bool {
	return isDigit(b) || ('a' <= b && b <= 'f') || ('A' <= b && b <= 'F')
}

// Machine is the byte-at-a-time recogniser: one state plus the stack of open containers.
// The zero value is not usable; call NewMachine.
type Machine struct {
	mode  Mode
	st    state
	stack []byte // '[' or '{' for every open container, outermost first
	inKey bool   // the string being read is an object key
	lit   string // the literal word being read (stLit)
	litN  int    // bytes of lit matched so far
	pos   int    // number of bytes consumed so far
	errAt int    // offset of the offending byte once dead, else -1

	valBegin, valEnd int // span of the top-level value once complete, else -1

	// tree building (nil when not requested)
	b *builder
}

// NewMachine returns an automaton for the given mode, positioned before the first byte.
func NewMachine(mode Mode) *Machine {
	return &Machine{mode: mode, st: stTop, errAt: -1, valBegin: -1, valEnd: -1}
}

// Clone returns an independent copy (tree building is not carried over).
func (m *Machine) Clone() *Machine {
	c := *m
	c.stack = append([]byte(nil), m.stack...)
	c.b = nil
	return &c
}

// Mode returns the machine's mode.
func (m *Machine) Mode() Mode { return m.mode }

// Pos returns the number of bytes consumed so far (the dead byte is not consumed).
func (m *Machine) Pos() int { return m.pos }

// Alive reports whether every byte fed so far could continue the text, i.e. whether the
// bytes fed form a viable prefix.
func (m *Machine) Alive() bool { return m.st != stDead }

// ErrOffset is the offset of the byte that killed the machine, or -1 while it is alive.
func (m *Machine) ErrOffset() int { return m.errAt }

// Depth is the number of currently open containers.
func (m *Machine) Depth() int { return len(m.stack) }

// ValueSpan returns the span [begin,end) of the top-level value once it is complete
// (for a number: once its delimiter was seen or AcceptsAtEOF is being asked), else (-1,-1).
func (m *Machine) ValueSpan() (begin, end int) {
	if m.valEnd >= 0 {
		return m.valBegin, m.valEnd
	}
	if len(m.stack) == 0 && m.numberComplete() {
		return m.valBegin, m.pos
	}
	return -1, -1
}

// numberComplete: the machine is inside a number that could end here.
func (m *Machine) numberComplete() bool {
	switch m.st {
	case stZero, stInt, stFrac, stExp:
		return true
	}
	return false
}

// AcceptsAtEOF reports whether the bytes fed so far are an accepted text of the mode.
func (m *Machine) AcceptsAtEOF() bool {
	switch m.st {
	case stDone, stTrail:
		return true
	case stZero, stInt, stFrac, stExp:
		return len(m.stack) == 0
	}
	return false
}

// Key is a canonical key of the control state: two prefixes with equal keys (and equal mode)
// have exactly the same set of accepted continuations. It is finite under a nesting bound:
// state name, key/value flag for strings, literal progress, and the container stack.
func (m *Machine) Key() string {
	if m.st == stDead {
		return "dead"
	}
	var sb strings.Builder
	sb.WriteString(stateNames[m.st])
	switch m.st {
	case stStr, stEsc, stU1, stU2, stU3, stU4:
		if m.inKey {
			sb.WriteString("(key)")
		}
	case stLit:
		sb.WriteByte('(')
		sb.WriteString(m.lit[:m.litN])
		sb.WriteByte('/')
		sb.WriteString(m.lit)
		sb.WriteByte(')')
	}
	sb.WriteByte('|')
	sb.Write(m.stack)
	return sb.String()
}

// Feed consumes one byte. It returns false when b cannot continue the text; the machine is
// then dead, b is the first offending byte (ErrOffset) and further calls return false.
func (m *Machine) Feed(b byte) bool {
	if m.st == stDead {
		return false
	}
	if !m.step(b) {
		m.st = stDead
		m.errAt = m.pos
		return false
	}
	m.pos++
	return true
}

// FeedAll feeds text until it ends or a byte is refused; it returns the number of bytes
// consumed.
func (m *Machine) FeedAll(text []byte) int {
	for i := 0; i < len(text); i++ {
		if !m.Feed(text[i]) {
			return i
		}
	}
	return len(text)
}

func (m *Machine) top() byte {
	if len(m.stack) == 0 {
		return 0
	}
	return m.stack[len(m.stack)-1]
}

// beginValue handles the first byte of a value (whitespace already excluded).
func (m *Machine) beginValue(b byte) bool {
	switch {
	case b == '{':
		m.openValue()
		m.stack = append(m.stack, '{')
		m.st = stObjFirst
		if m.b != nil {
			m.b.open(Object, m.pos)
		}
	case b == '[':
		m.openValue()
		m.stack = append(m.stack, '[')
		m.st = stArrFirst
		if m.b != nil {
			m.b.open(Array, m.pos)
		}
	case b == '"':
		m.openValue()
		m.inKey = false
		m.st = stStr
		m.scalarBegin(String)
	case b == '-':
		m.openValue()
		m.st = stNeg
		m.scalarBegin(Number)
	case b == '0':
		m.openValue()
		m.st = stZero
		m.scalarBegin(Number)
	case '1' <= b && b <= '9':
		m.openValue()
		m.st = stInt
		m.scalarBegin(Number)
	case b == 't':
		m.openValue()
		m.st, m.lit, m.litN = stLit, "true", 1
		m.scalarBegin(True)
	case b == 'f':
		m.openValue()
		m.st, m.lit, m.litN = stLit, "false", 1
		m.scalarBegin(False)
	case b == 'n':
		m.openValue()
		m.st, m.lit, m.litN = stLit, "null", 1
		m.scalarBegin(Null)
	default:
		return false
	}
	return true
}

func (m *Machine) openValue() {
	if len(m.stack) == 0 {
		m.valBegin = m.pos
	}
}

func (m *Machine) scalarBegin(k Kind) {
	if m.b != nil {
		m.b.scalarBegin(k, m.pos)
	}
}

// endValue: a value ended at offset end (exclusive).
func (m *Machine) endValue(end int) {
	if m.b != nil {
		m.b.closeValue(end)
	}
	if len(m.stack) == 0 {
		m.valEnd = end
		m.st = stDone
	} else {
		m.st = stAfter
	}
}

// endNumber: the number ended before the current byte b; b is then handled by the state
// that follows a value.
func (m *Machine) endNumber(b byte) bool {
	m.endValue(m.pos)
	return m.step(b)
}

func (m *Machine) closeContainer(kind byte) bool {
	if m.top() != kind {
		return false
	}
	m.stack = m.stack[:len(m.stack)-1]
	m.endValue(m.pos + 1)
	return true
}

func (m *Machine) beginKey() {
	m.inKey = true
	m.st = stStr
	if m.b != nil {
		m.b.keyBegin(m.pos)
	}
}

func (m *Machine) step(b byte) bool {
	switch m.st {
	case stTop, stArrNext, stObjValue:
		if IsSpace(b) {
			return true
		}
		return m.beginValue(b)
	case stArrFirst:
		if IsSpace(b) {
			return true
		}
		if b == ']' {
			return m.closeContainer('[')
		}
		return m.beginValue(b)
	case stObjFirst:
		if IsSpace(b) {
			return true
		}
		if b == '}' {
			return m.closeContainer('{')
		}
		if b == '"' {
			m.beginKey()
			return true
		}
		return false
	case stObjNext:
		if IsSpace(b) {
			return true
		}
		if b == '"' {
			m.beginKey()
			return true
		}
		return false
	case stColon:
		if IsSpace(b) {
			return true
		}
		if b == ':' {
			m.st = stObjValue
			return true
		}
		return false
	case stAfter:
		if IsSpace(b) {
			return true
		}
		switch b {
		case ',':
			if m.top() == '[' {
				m.st = stArrNext
			} else {
				m.st = stObjNext
			}
			return true
		case ']':
			return m.closeContainer('[')
		case '}':
			return m.closeContainer('{')
		}
		return false
	case stDone:
		if IsSpace(b) {
			return true
		}
		if m.mode == Prefix {
			m.st = stTrail
			return true
		}
		return false
	case stTrail:
		return true
	case stStr:
		switch {
		case b == '"':
			if m.inKey {
				m.inKey = false
				if m.b != nil {
					m.b.keyEnd(m.pos + 1)
				}
				m.st = stColon
			} else {
				m.endValue(m.pos + 1)
			}
			return true
		case b == '\\':
			m.st = stEsc
			return true
		case b < 0x20:
			return false
		}
		return true
	case stEsc:
		switch b {
		case '"', '\\', '/', 'b', 'f', 'n', 'r', 't':
			m.st = stStr
			return true
		case 'u':
			m.st = stU1
			return true
		}
		return false
	case stU1, stU2, stU3:
		if isHex(b) {
			m.st++
			return true
		}
		return false
	case stU4:
		if isHex(b) {
			m.st = stStr
			return true
		}
		return false
	case stNeg:
		if b == '0' {
			m.st = stZero
			return true
		}
		if '1' <= b && b <= '9' {
			m.st = stInt
			return true
		}
		return false
	case stZero:
		switch b {
		case '.':
			m.st = stDot
			return true
		case 'e', 'E':
			m.st = stE
			return true
		}
		return m.endNumber(b)
	case stInt:
		switch {
		case isDigit(b):
			return true
		case b == '.':
			m.st = stDot
			return true
		case b == 'e' || b == 'E':
			m.st = stE
			return true
		}
		return m.endNumber(b)
	case stDot:
		if isDigit(b) {
			m.st = stFrac
			return true
		}
		return false
	case stFrac:
		switch {
		case isDigit(b):
			return true
		case b == 'e' || b == 'E':
			m.st = stE
			return true
		}
		return m.endNumber(b)
	case stE:
		if b == '+' || b == '-' {
			m.st = stESign
			return true
		}
		if isDigit(b) {
			m.st = stExp
			return true
		}
		return false
	case stESign:
		if isDigit(b) {
			m.st = stExp
			return true
		}
		return false
	case stExp:
		if isDigit(b) {
			return true
		}
		return m.endNumber(b)
	case stLit:
		if b != m.lit[m.litN] {
			return false
		}
		m.litN++
		if m.litN == len(m.lit) {
			m.endValue(m.pos + 1)
		}
		return true
	}
	return false
}

// Completion returns a shortest-effort continuation w such that the bytes fed so far followed
// by w are accepted (every live state has one: this is what makes "alive" equal to "viable
// prefix"). It returns ok=false only for a dead machine. The machine is not modified.
func (m *Machine) Completion() (w []byte, ok bool) {
	if m.st == stDead {
		return nil, false
	}
	c := m.Clone()
	emit := func(s string) {
		for i := 0; i < len(s); i++ {
			if !c.Feed(s[i]) {
				panic("refjson: Completion fed a refused byte (model bug)")
			}
			w = append(w, s[i])
		}
	}
	for guard := 0; !c.AcceptsAtEOF(); guard++ {
		if guard > 4*len(m.stack)+64 {
			panic("refjson: Completion does not converge (model bug)")
		}
		switch c.st {
		case stTop, stArrNext, stObjValue:
			emit("0")
		case stArrFirst:
			emit("]")
		case stObjFirst:
			emit("}")
		case stObjNext:
			emit(`""`)
		case stColon:
			emit(":")
		case stAfter, stZero, stInt, stFrac, stExp:
			if c.top() == '[' {
				emit("]")
			} else {
				emit("}")
			}
		case stStr:
			emit(`"`)
		case stEsc:
			emit("n")
		case stU1, stU2, stU3, stU4:
			emit("0")
		case stNeg, stDot, stE, stESign:
			emit("0")
		case stLit:
			emit(c.lit[c.litN:])
		default:
			panic("refjson: Completion in unexpected state " + stateNames[c.st])
		}
	}
	return w, true
}
