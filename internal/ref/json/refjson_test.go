package refjson

import (
	"encoding/json"
	"errors"
	"math/rand"
	"testing"
)

var a1 = []byte("{}[],:\"\\01-+.e \n")
var a2 = []byte("truefalsn[], \"")

func TestTable(t *testing.T) {
	type row struct {
		text           string
		strict, prefix bool
	}
	rows := []row{
		{"", false, false}, {" ", false, false}, {"\n\t\r ", false, false},
		{"1", true, true}, {" 1 ", true, true}, {"-0", true, true}, {"0", true, true},
		{"01", false, true}, {"0123", false, true}, {"-", false, false}, {"-x", false, false},
		{"1.", false, false}, {"1.x", false, false}, {"1. ", false, false}, {"1e", false, false}, {"1e+", false, false},
		{"1.5e", false, false}, {"1E-", false, false}, {"1.5", true, true}, {"1e5", true, true}, {"1E+5", true, true},
		{"1x", false, true}, {"1 x", false, true}, {"{}x", false, true}, {`"a"x`, false, true}, {"truex", false, true},
		{"trux", false, false}, {"tru", false, false}, {"nulll", false, true}, {"null", true, true},
		{"x", false, false}, {" x", false, false}, {"[1,]x", false, false}, {"[1,]", false, false},
		{"[]", true, true}, {"[ ]", true, true}, {"{}", true, true}, {"{ }", true, true},
		{`{"a":1}`, true, true}, {`{"a" : [1, {"b":null}] }`, true, true}, {`{"a":1,}`, false, false},
		{`{a:1}`, false, false}, {`{"a"}`, false, false}, {`{"a":}`, false, false}, {`[1 2]`, false, false},
		{`"\u12aF"`, true, true}, {`"\u12g0"`, false, false}, {`"\x"`, false, false}, {"\"a\nb\"", false, false},
		{"\"a\x00b\"", false, false}, {"\"a\x7fb\"", true, true}, {"\"\xff\"", true, true}, {"\xef\xbb\xbf1", false, false},
		{"1\f", false, true}, {"\v1", false, false}, {"[1]]", false, true}, {"[1][", false, true},
		{"+1", false, false}, {".5", false, false}, {"1.e5", false, false}, {"--1", false, false},
		{"[", false, false}, {"[[[[", false, false}, {`{"a":`, false, false}, {`"abc`, false, false}, {`"abc\`, false, false},
		{"TRUE", false, false}, {"True", false, false}, {"NaN", false, false}, {"[1,\n2]\n", true, true},
	}
	for _, r := range rows {
		if got := Accept([]byte(r.text)); got != r.strict {
			t.Errorf("Accept(%q) = %v, want %v", r.text, got, r.strict)
		}
		if got := AcceptPrefix([]byte(r.text)); got != r.prefix {
			t.Errorf("AcceptPrefix(%q) = %v, want %v", r.text, got, r.prefix)
		}
		if _, err := Agree([]byte(r.text), Strict); err != nil {
			t.Error(err)
		}
		if _, err := Agree([]byte(r.text), Prefix); err != nil {
			t.Error(err)
		}
	}
}

func TestResultFields(t *testing.T) {
	type row struct {
		text   string
		mode   Mode
		accept bool
		errOff int
		early  bool
		vb, ve int
	}
	rows := []row{
		{"", Strict, false, 0, true, -1, -1},
		{"  ", Strict, false, 2, true, -1, -1},
		{" 12 ", Strict, true, -1, false, 1, 3},
		{"12", Strict, true, -1, false, 0, 2},
		{"1.", Strict, false, 2, true, -1, -1},
		{"1.x", Prefix, false, 2, false, -1, -1},
		{"01", Strict, false, 1, false, 0, 1},
		{"{} x", Strict, false, 3, false, 0, 2},
		{"{} x", Prefix, true, -1, false, 0, 2},
		{"1x", Prefix, true, -1, false, 0, 1},
		{"[1,]", Strict, false, 3, false, -1, -1},
		{"[1", Strict, false, 2, true, -1, -1},
		{`"a\q"`, Strict, false, 3, false, -1, -1},
		{" truex", Prefix, true, -1, false, 1, 5},
	}
	for _, r := range rows {
		res := Check([]byte(r.text), r.mode)
		if res.Accept != r.accept || res.ErrOffset != r.errOff || res.EndedEarly != r.early || res.ValueBegin != r.vb || res.ValueEnd != r.ve {
			t.Errorf("Check(%q,%s) = %+v, want accept=%v err=%d early=%v value=[%d,%d)", r.text, r.mode, res, r.accept, r.errOff, r.early, r.vb, r.ve)
		}
		_, res2 := Parse([]byte(r.text), r.mode)
		if res2 != res {
			t.Errorf("Parse(%q) result %+v differs from Check %+v", r.text, res2, res)
		}
	}
}

// stdErrOffset: offset of the first offending byte according to encoding/json (len for an
// unexpected end of input), -1 when valid. encoding/json reports end-of-input problems by
// feeding itself a space, which is indistinguishable from an offending last byte; so the
// question is asked about text+"\x01" (0x01 is refused in every state): the first error is
// then either inside the text or exactly at the sentinel.
func stdErrOffset(text []byte) int {
	if json.Valid(text) {
		return -1
	}
	var raw json.RawMessage
	err := json.Unmarshal(append(append([]byte{}, text...), 1), &raw)
	var se *json.SyntaxError
	if !errors.As(err, &se) {
		return -2
	}
	return int(se.Offset) - 1
}

func checkOne(t *testing.T, text []byte) {
	t.Helper()
	if _, err := Agree(text, Strict); err != nil {
		t.Fatal(err)
	}
	if _, err := Agree(text, Prefix); err != nil {
		t.Fatal(err)
	}
	res := Check(text, Strict)
	if want := stdErrOffset(text); want != res.ErrOffset {
		t.Fatalf("ErrOffset(%q) = %d (early=%v), encoding/json says %d", text, res.ErrOffset, res.EndedEarly, want)
	}
	root, pres := Parse(text, Prefix)
	if pres.Accept != (root != nil) && pres.Accept {
		t.Fatalf("Parse(%q): accepted in prefix mode without a tree", text)
	}
	if root != nil {
		if d := StdCheckTree(text, root); d != "" {
			t.Fatalf("tree of %q: %s", text, d)
		}
		if root.Begin != pres.ValueBegin || root.End != pres.ValueEnd {
			t.Fatalf("tree of %q: root [%d,%d), result value span [%d,%d)", text, root.Begin, root.End, pres.ValueBegin, pres.ValueEnd)
		}
		checkEvents(t, text, root)
	}
	// viable prefix ⇒ completable; dead ⇒ every sampled continuation rejected
	m := NewMachine(Strict)
	n := m.FeedAll(text)
	if m.Alive() {
		w, ok := m.Completion()
		if !ok || !json.Valid(append(append([]byte{}, text...), w...)) {
			t.Fatalf("completion %q of viable prefix %q is not valid JSON", w, text)
		}
	} else if n != res.ErrOffset {
		t.Fatalf("FeedAll(%q) consumed %d, ErrOffset %d", text, n, res.ErrOffset)
	}
}

func checkEvents(t *testing.T, text []byte, root *Node) {
	t.Helper()
	var stack []Event
	evs := Events(root)
	for _, e := range evs {
		if e.Begin < 0 || e.End > len(text) || e.Begin >= e.End {
			t.Fatalf("%q: event %v outside the text", text, e)
		}
		if e.Type.IsOpening() {
			stack = append(stack, e)
			continue
		}
		if len(stack) == 0 {
			t.Fatalf("%q: closing %v with empty stack", text, e)
		}
		o := stack[len(stack)-1]
		stack = stack[:len(stack)-1]
		if o.Type.Closing() != e.Type || o.Begin != e.Begin {
			t.Fatalf("%q: %v closes %v", text, e, o)
		}
	}
	if len(stack) != 0 || len(evs) == 0 {
		t.Fatalf("%q: %d events, %d left open", text, len(evs), len(stack))
	}
}

func enumerate(alpha []byte, maxLen int, f func([]byte)) {
	buf := make([]byte, 0, maxLen)
	var rec func()
	rec = func() {
		f(buf)
		if len(buf) == maxLen {
			return
		}
		for _, c := range alpha {
			buf = append(buf, c)
			rec()
			buf = buf[:len(buf)-1]
		}
	}
	rec()
}

func TestExhaustiveA1(t *testing.T) {
	n := 5
	if testing.Short() {
		n = 4
	}
	cnt := 0
	enumerate(a1, n, func(b []byte) { cnt++; checkOne(t, b) })
	t.Logf("%d strings over A1 up to length %d", cnt, n)
}

func TestExhaustiveA2(t *testing.T) {
	n := 5
	if testing.Short() {
		n = 4
	}
	cnt := 0
	enumerate(a2, n, func(b []byte) { cnt++; checkOne(t, b) })
	t.Logf("%d strings over A2 up to length %d", cnt, n)
}

func TestExhaustiveNumbersAndStrings(t *testing.T) {
	enumerate([]byte("-+.eE0159 "), 6, func(b []byte) { checkOne(t, b) })
	enumerate([]byte("\"\\u/bAf0g\x1f\x80 "), 6, func(b []byte) { checkOne(t, b) })
}

var seeds = []string{
	`{"a":1,"b":[true,false,null,{"c":"d\n\u00e9\ud83d\ude00"}],"":-0.5e+10,"é":[[],{}]}`,
	"[ 1 ,\t2.50 ,\r\n-3E-2 , \"x\\\"y\\\\\" , [ ] , { } ]",
	`"just a string with \/ and \b\f\n\r\t"`,
	`-12.034e5`, `true`, ` null `, `[[[[[[[[1]]]]]]]]`,
	`{"k":{"k":{"k":{"k":[1,2,3,{"z":"\u0000"}]}}}}`,
}

func TestMutants(t *testing.T) {
	rng := rand.New(rand.NewSource(1))
	dict := []string{"{", "}", "[", "]", ",", ":", "\"", "\\", "/", "-", "+", ".", "e", "E", "0", "1", "9", "t", "f", "n", "true", "null",
		" ", "\n", "\r", "\t", "\x00", "\x1f", "\x7f", "\xc3", "\xff", "\\u", "\\u00", "u", "a", "1.", "1e", "\"\"", "[]", "{}"}
	for _, s := range seeds {
		b := []byte(s)
		checkOne(t, b)
		for i := 0; i <= len(b); i++ {
			checkOne(t, b[:i])
			for _, d := range dict {
				ins := append(append(append([]byte{}, b[:i]...), d...), b[i:]...)
				checkOne(t, ins)
				if i < len(b) {
					sub := append(append(append([]byte{}, b[:i]...), d...), b[i+1:]...)
					checkOne(t, sub)
				}
			}
			if i < len(b) {
				del := append(append([]byte{}, b[:i]...), b[i+1:]...)
				checkOne(t, del)
			}
		}
		for k := 0; k < 3000; k++ {
			m := append([]byte{}, b...)
			for j := rng.Intn(3) + 1; j > 0; j-- {
				m[rng.Intn(len(m))] = byte(rng.Intn(256))
			}
			checkOne(t, m)
		}
	}
	for k := 0; k < 200000; k++ {
		m := make([]byte, rng.Intn(12))
		for i := range m {
			if rng.Intn(3) == 0 {
				m[i] = byte(rng.Intn(256))
			} else {
				m[i] = a1[rng.Intn(len(a1))]
			}
		}
		checkOne(t, m)
	}
}

// Equal keys must mean equal futures: for prefixes with the same Key, every short
// continuation gets the same verdict.
func TestKeyDeterminesFuture(t *testing.T) {
	for _, mode := range []Mode{Strict, Prefix} {
		byKey := map[string][]byte{}
		enumerate(a1, 4, func(p []byte) {
			m := NewMachine(mode)
			m.FeedAll(p)
			k := m.Key()
			first, seen := byKey[k]
			if !seen {
				byKey[k] = append([]byte{}, p...)
				return
			}
			enumerate(a1, 2, func(w []byte) {
				x := Check(append(append([]byte{}, first...), w...), mode).Accept
				y := Check(append(append([]byte{}, p...), w...), mode).Accept
				if x != y {
					t.Fatalf("key %q: prefixes %q and %q differ on continuation %q (%s)", k, first, p, w, mode)
				}
			})
		})
		t.Logf("%s: %d distinct keys over A1 prefixes up to length 4", mode, len(byKey))
	}
}
