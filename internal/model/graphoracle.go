package model

import (
	"sort"
	"strings"
)

// Reference for C09: missing types, used-type sets and legality of recursion decided as a
// least fixpoint ("the type has a finite inhabitant along required edges").

// ReferencedTypes returns the user type names a node tree references (each once, sorted).
func ReferencedTypes(n *Node) []string {
	set := map[string]bool{}
	n.Walk(func(x *Node) {
		for _, r := range x.Refs {
			set[r] = true
		}
		for _, p := range x.Props {
			if p.Shortcut {
				set[p.Key] = true
			}
		}
		for _, r := range x.Rules {
			switch r.Name {
			case "type", "additionalProperties":
				if strings.HasPrefix(r.Str, "@") {
					set[r.Str] = true
				}
			case "allOf":
				for _, a := range r.List {
					set[a] = true
				}
			case "or":
				for _, it := range r.Or {
					if strings.HasPrefix(it.Name, "@") {
						set[it.Name] = true
					}
					for _, rr := range it.Rules {
						if rr.Name == "type" && strings.HasPrefix(rr.Str, "@") {
							set[rr.Str] = true
						}
					}
				}
			}
		}
	})
	var out []string
	for k := range set {
		out = append(out, k)
	}
	sort.Strings(out)
	return out
}

// MissingTypes lists the names referenced anywhere (root or added types) that were not added.
func MissingTypes(s *Schema) []string {
	set := map[string]bool{}
	for _, n := range ReferencedTypes(s.Root) {
		set[n] = true
	}
	for _, t := range s.Types {
		if t.Root != nil {
			for _, n := range ReferencedTypes(t.Root) {
				set[n] = true
			}
		}
	}
	var out []string
	for n := range set {
		if s.Type(n) == nil {
			out = append(out, n)
		}
	}
	sort.Strings(out)
	return out
}

// RecursionVerdict: must Check accept the graph as far as type resolution and recursion go.
func RecursionVerdict(s *Schema) (Verdict, string) {
	if m := MissingTypes(s); len(m) > 0 {
		return Reject, "missing type " + strings.Join(m, ",")
	}
	// allOf parents must be object-rooted types and must not form a cycle
	allOfBad := ""
	check := func(name string, root *Node) {
		if root == nil {
			return
		}
		root.Walk(func(x *Node) {
			r := x.Rule("allOf")
			if r == nil {
				return
			}
			for _, p := range r.List {
				t := s.Type(p)
				if t == nil || t.Root == nil || t.Root.Kind != KObject {
					allOfBad = "allOf parent " + p + " is not an object type"
				}
			}
		})
	}
	check("", s.Root)
	for _, t := range s.Types {
		check(t.Name, t.Root)
	}
	if allOfBad != "" {
		return Reject, allOfBad
	}
	good := map[string]bool{}
	var goodNode func(n *Node) bool
	goodNode = func(n *Node) bool {
		if alts := alternatives(n); alts != nil {
			for _, a := range alts {
				name := a.Name
				if a.Rules != nil {
					name = ""
					for _, rr := range a.Rules {
						if rr.Name == "type" && strings.HasPrefix(rr.Str, "@") {
							name = rr.Str
						}
					}
				}
				if !strings.HasPrefix(name, "@") || good[name] {
					return true
				}
			}
			return false
		}
		if n.Kind != KObject {
			return true
		}
		if r := n.Rule("allOf"); r != nil {
			for _, p := range r.List {
				if !good[p] {
					return false
				}
			}
		}
		for _, p := range n.Props {
			opt := s.OptKeys
			if r := p.Node.Rule("optional"); r != nil {
				opt = r.Bool
			}
			if opt {
				continue
			}
			if !goodNode(p.Node) {
				return false
			}
		}
		return true
	}
	for changed := true; changed; {
		changed = false
		for _, t := range s.Types {
			if good[t.Name] {
				continue
			}
			if t.Root == nil || goodNode(t.Root) {
				good[t.Name] = true
				changed = true
			}
		}
	}
	if !goodNode(s.Root) {
		return Reject, "root has no finite inhabitant along required references"
	}
	for _, t := range s.Types {
		if !good[t.Name] {
			return Unspec, "type " + t.Name + " is illegally recursive but the root does not require it"
		}
	}
	return Accept, ""
}
