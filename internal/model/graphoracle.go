package model

import (
	"sort"
	"strings"
)

// Reference for C09: missing types, used-type sets and legality of recursion decided as a
// least fixpoint ("the type has a finite inhabitant along required edges").

// ReferencedTypes returns the user type names a node tree references (each once, sorted).
func ReferencedTypes(n *Node) []string {
	set := map[string]bool{}
	n.Walk(func(x *Node) {
		for _, r := range x.Refs {
			set[r] = true
		}
		for _, p := range x.Props {
			if p.Shortcut {
				set[p.Key] = true
			}
		}
		for _, r := range x.Rules {
			switch r.Name {
			case "type", "additionalProperties":
				if strings.HasPrefix(r.Str, "@") {
					set[r.Str] = true
				}
			case "allOf":
				for _, a := range r.List {
					set[a] = true
				}
			case "or":
				for _, it := range r.Or {
					if strings.HasPrefix(it.Name, "@") {
						set[it.Name] = true
					}
					for _, rr := range it.Rules {
						if rr.Name == "type" && strings.HasPrefix(rr.Str, "@") {
							set[rr.Str] = true
						}
					}
				}
			}
		}
	})
	var out []string
	for k := range set {
		out = append(out, k)
	}
	sort.Strings(out)
	return out
}

// MissingTypes lists the names referenced anywhere (root or added types) that were not added.
func MissingTypes(s *Schema) []string {
	set := map[string]bool{}
	for _, n := range ReferencedTypes(s.Root) {
		set[n] = true
	}
	for _, t := range s.Types {
		if t.Root != nil {
			for _, n := range ReferencedTypes(t.Root) {
				set[n] = true
			}
		}
	}
	var out []string
	for n := range set {
		if s.Type(n) == nil {
			out = append(out, n)
		}
	}
	sort.Strings(out)
	return out
}

// KnownTwoTypeRecursion marks rejections that belong to the known-finding class.
const KnownTwoTypeRecursion = "illegal recursion that passes through two or more distinct types"

// RecursionVerdict: must Check accept the graph as far as type resolution and recursion go.
func RecursionVerdict(s *Schema) (Verdict, string) {
	if m := MissingTypes(s); len(m) > 0 {
		return Reject, "missing type " + strings.Join(m, ",")
	}
	// allOf parents must be object-rooted types and must not form a cycle
	allOfBad := ""
	check := func(name string, root *Node) {
		if root == nil {
			return
		}
		root.Walk(func(x *Node) {
			r := x.Rule("allOf")
			if r == nil {
				return
			}
			for _, p := range r.List {
				t := s.Type(p)
				if t == nil || t.Root == nil || t.Root.Kind != KObject {
					allOfBad = "allOf parent " + p + " is not an object type"
				}
			}
		})
	}
	check("", s.Root)
	for _, t := range s.Types {
		check(t.Name, t.Root)
	}
	if allOfBad != "" {
		return Reject, allOfBad
	}
	// a key defined twice along an allOf chain (or conflicting additionalProperties): Check
	// fails for reasons outside this property
	dup := false
	o := &Oracle{S: s}
	chk := func(root *Node) {
		if root == nil {
			return
		}
		root.Walk(func(x *Node) {
			if x.Kind != KObject || x.Rule("allOf") == nil {
				return
			}
			if _, _, ok := o.EffProps(x); !ok {
				dup = true
			}
			// expand parents naively (a diamond brings the common ancestor's keys twice, which
			// the library reports as duplicate keys; the statement does not settle that case)
			seen := map[string]bool{}
			var expand func(n *Node, depth int)
			expand = func(n *Node, depth int) {
				if depth > 12 {
					dup = true
					return
				}
				if r := n.Rule("allOf"); r != nil {
					for _, pn := range r.List {
						if t := s.Type(pn); t != nil && t.Root != nil {
							expand(t.Root, depth+1)
						}
					}
				}
				for _, p := range n.Props {
					k := p.Key
					if p.Shortcut {
						k = "\x00" + k
					}
					if seen[k] {
						dup = true
					}
					seen[k] = true
				}
			}
			expand(x, 0)
		})
	}
	chk(s.Root)
	for _, t := range s.Types {
		chk(t.Root)
	}
	if dup {
		return Unspec, "duplicate keys or conflicting additionalProperties along an allOf chain"
	}
	good := map[string]bool{}
	var goodNode func(n *Node) bool
	goodNode = func(n *Node) bool {
		if alts := alternatives(n); alts != nil {
			for _, a := range alts {
				name := a.Name
				if a.Rules != nil {
					name = ""
					for _, rr := range a.Rules {
						if rr.Name == "type" && strings.HasPrefix(rr.Str, "@") {
							name = rr.Str
						}
					}
				}
				if !strings.HasPrefix(name, "@") || good[name] {
					return true
				}
			}
			return false
		}
		if n.Kind != KObject {
			return true
		}
		if r := n.Rule("allOf"); r != nil {
			for _, p := range r.List {
				if !good[p] {
					return false
				}
			}
		}
		for _, p := range n.Props {
			opt := s.OptKeys
			if r := p.Node.Rule("optional"); r != nil {
				opt = r.Bool
			}
			if opt {
				continue
			}
			if !goodNode(p.Node) {
				return false
			}
		}
		return true
	}
	for changed := true; changed; {
		changed = false
		for _, t := range s.Types {
			if good[t.Name] {
				continue
			}
			if t.Root == nil || goodNode(t.Root) {
				good[t.Name] = true
				changed = true
			}
		}
	}
	if !goodNode(s.Root) {
		// Known finding C09/recursion-through-two-types: is the illegal recursion visible when
		// every type only sees itself (references to OTHER types assumed fine)? If not, the
		// graph belongs to the class the repository's own TestSchema_Example pins as accepted.
		full := good
		shallowRoot := func() bool {
			shallow := map[string]bool{}
			for _, t := range s.Types {
				good = map[string]bool{}
				for _, u := range s.Types {
					good[u.Name] = u.Name != t.Name
				}
				shallow[t.Name] = t.Root == nil || goodNode(t.Root)
			}
			good = shallow
			ok := goodNode(s.Root)
			good = full
			return ok
		}()
		if shallowRoot {
			return Reject, KnownTwoTypeRecursion
		}
		return Reject, "root has no finite inhabitant along required references"
	}
	for _, t := range s.Types {
		if !good[t.Name] {
			return Unspec, "type " + t.Name + " is illegally recursive but the root does not require it"
		}
	}
	// inheritance is expanded wherever the inheriting object stands (array items, optional
	// properties): a cycle of "the body of T holds, at any depth, an object inheriting from P" is
	// not settled by the statement's "required references" wording
	holds := map[string][]string{}
	for _, t := range s.Types {
		if t.Root == nil {
			continue
		}
		t.Root.Walk(func(x *Node) {
			if r := x.Rule("allOf"); r != nil {
				holds[t.Name] = append(holds[t.Name], r.List...)
			}
		})
	}
	state := map[string]int{}
	var cyc func(n string) bool
	cyc = func(n string) bool {
		switch state[n] {
		case 1:
			return true
		case 2:
			return false
		}
		state[n] = 1
		for _, p := range holds[n] {
			if cyc(p) {
				return true
			}
		}
		state[n] = 2
		return false
	}
	for _, t := range s.Types {
		if cyc(t.Name) {
			return Unspec, "allOf cycle through an object nested in " + t.Name
		}
	}
	return Accept, ""
}

// Ambiguity estimates how many candidate validators a lock-step parallel validator keeps
// alive while reading the document: alternatives of a union multiply along the nesting. It
// is computed on the model only (never from the library's behaviour) and is used to keep
// documents of the known exponential class out of the deep-termination monitor.
func Ambiguity(s *Schema, v *Val) float64 {
	type key struct {
		n *Node
		v *Val
	}
	memo := map[key]float64{}
	var f func(n *Node, v *Val, depth int) float64
	sameClass := func(n *Node, v *Val) bool {
		switch n.Kind {
		case KObject:
			return v.K == VObj
		case KArray:
			return v.K == VArr
		}
		return v.K != VObj && v.K != VArr
	}
	f = func(n *Node, v *Val, depth int) float64 {
		if depth > 300 {
			return 1
		}
		k := key{n, v}
		if r, ok := memo[k]; ok {
			return r
		}
		memo[k] = 1
		res := 1.0
		if alts := alternatives(n); alts != nil {
			sum := 0.0
			for _, a := range alts {
				name := a.Name
				if a.Rules != nil {
					name = ""
					for _, rr := range a.Rules {
						if rr.Name == "type" {
							name = rr.Str
						}
					}
				}
				if t := s.Type(name); t != nil && t.Root != nil {
					sum += f(t.Root, v, depth+1)
				} else {
					sum++
				}
			}
			if sum > 1 {
				res = sum
			}
		} else if sameClass(n, v) {
			switch n.Kind {
			case KObject:
				props, ap, _ := (&Oracle{S: s}).EffProps(n) // own and allOf-inherited properties
				for _, m := range v.Members {
					for _, p := range props {
						if p.Key == m.Key || p.Shortcut {
							if x := f(p.Node, m.V, depth+1); x > res {
								res = x
							}
						}
					}
					// a member may (also) be judged by the type named in additionalProperties
					if ap != nil && ap.IsStr {
						if t := s.Type(ap.Str); t != nil && t.Root != nil {
							if x := f(t.Root, m.V, depth+1); x > res {
								res = x
							}
						}
					}
				}
			case KArray:
				for i, e := range v.Elems {
					if len(n.Items) == 0 {
						break
					}
					j := i
					if j >= len(n.Items) {
						j = len(n.Items) - 1
					}
					if x := f(n.Items[j], e, depth+1); x > res {
						res = x
					}
				}
			}
		}
		memo[k] = res
		return res
	}
	return f(s.Root, v, 0)
}

// RequiredEdgeInCycle reports whether some required object property (directly or through a
// union) references a type of its own strongly connected component of the type-reference graph
// (all edges). Used as the class predicate of the known finding "Example omits a required
// property at the recursion cut-off".
func RequiredEdgeInCycle(s *Schema) bool {
	// adjacency over all reference edges
	adj := map[string][]string{}
	for _, t := range s.Types {
		if t.Root != nil {
			adj[t.Name] = ReferencedTypes(t.Root)
		}
	}
	reach := func(from, to string) bool {
		seen := map[string]bool{}
		stack := []string{from}
		for len(stack) > 0 {
			x := stack[len(stack)-1]
			stack = stack[:len(stack)-1]
			for _, y := range adj[x] {
				if y == to {
					return true
				}
				if !seen[y] {
					seen[y] = true
					stack = append(stack, y)
				}
			}
		}
		return false
	}
	for _, t := range s.Types {
		if t.Root == nil {
			continue
		}
		found := false
		var walk func(n *Node, required bool)
		walk = func(n *Node, required bool) {
			if required {
				for _, a := range alternatives(n) {
					name := a.Name
					for _, rr := range a.Rules {
						if rr.Name == "type" {
							name = rr.Str
						}
					}
					if strings.HasPrefix(name, "@") && (name == t.Name || reach(name, t.Name)) {
						found = true
					}
				}
			}
			for _, p := range n.Props {
				opt := s.OptKeys
				if r := p.Node.Rule("optional"); r != nil {
					opt = r.Bool
				}
				walk(p.Node, !opt)
			}
			for _, it := range n.Items {
				walk(it, false)
			}
		}
		walk(t.Root, false)
		if found {
			return true
		}
	}
	return false
}

// ShortcutAmbiguous reports whether some object has a key shortcut whose own example key could
// also be taken by another entry of that object (an explicit key, or another key shortcut whose
// type does not clearly reject it). Which entry such a key belongs to is not decided by the
// statements, so Example/Validate round trips are not judged for these schemas.
func ShortcutAmbiguous(s *Schema) bool {
	o := &Oracle{S: s}
	amb := false
	visit := func(root *Node) {
		if root == nil {
			return
		}
		root.Walk(func(n *Node) {
			if n.Kind != KObject {
				return
			}
			props, _, ok := o.EffProps(n)
			if !ok {
				amb = true
				return
			}
			var shorts []*Prop
			for _, p := range props {
				if p.Shortcut {
					shorts = append(shorts, p)
				}
			}
			for _, p := range shorts {
				t := s.Type(p.Key)
				if t == nil || t.Root == nil {
					// regex type: its example key is generated by the library; ambiguous as soon
					// as anything else could take it
					if len(props) > 1 {
						amb = true
					}
					continue
				}
				k, okq := Unquote(t.Root.Lit)
				if !okq {
					amb = true
					continue
				}
				for _, q := range props {
					if q == p {
						continue
					}
					if !q.Shortcut {
						if q.Key == k {
							amb = true
						}
						continue
					}
					if o.keyAccepted(q.Key, k) != Reject {
						amb = true
					}
				}
			}
		})
	}
	visit(s.Root)
	for _, t := range s.Types {
		visit(t.Root)
	}
	return amb
}
