package model

import (
	"encoding/json"
	"testing"
)

// RespellLit must keep the decoded string.
func TestRespellLit(t *testing.T) {
	for _, lit := range []string{`"😀é"`, `"a\\ue"`, `"éea"`, `"😀eéa"`, `"a\"e\/\n"`, `""`, `"日本 café ae ae"`} {
		var a, b string
		if err := json.Unmarshal([]byte(lit), &a); err != nil {
			t.Fatal(err)
		}
		got := RespellLit(lit)
		if err := json.Unmarshal([]byte(got), &b); err != nil {
			t.Fatalf("%s -> %s: %v", lit, got, err)
		}
		if a != b {
			t.Errorf("%s -> %s decodes differently", lit, got)
		}
	}
}
