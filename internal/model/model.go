// Package model is the abstract schema model M from which schema texts are rendered and
// against which the reference oracles are evaluated. It never imports the library.
package model

import (
	"strconv"
	"strings"
)

type Kind int

const (
	KObject Kind = iota
	KArray
	KString
	KInteger
	KFloat
	KBoolean
	KNull
	KRef // value position holds a type shortcut: @a   or   @a | @b
)

func (k Kind) String() string {
	return [...]string{"object", "array", "string", "integer", "float", "boolean", "null", "reference"}[k]
}

// OrItem is one member of an or-rule: a type name ("@T" or a built-in such as "string"), or an
// inline rule-set.
type OrItem struct {
	Name  string  // "@T" | "string" | "integer" | … ; empty for an inline rule-set
	Rules []*Rule // inline rule-set, written order
}

// Rule is one rule of an annotation, in written order.
type Rule struct {
	Name string
	// exactly one of the following is meaningful, selected by the rule name
	Bool  bool     // optional nullable const exclusiveMinimum exclusiveMaximum; additionalProperties true/false
	Num   string   // min max (numeral text as written)
	Int   int      // precision minLength maxLength minItems maxItems
	Str   string   // regex (decoded pattern), type (name), additionalProperties ("any", "string", "@T"); enum by name ("@e")
	IsStr bool     // additionalProperties given as string rather than boolean
	List  []string // enum: literal texts as written (JSON scalars); allOf: type names
	Or    []OrItem // or
	// Raw, when non-empty, is written verbatim as the rule value (used to plant malformed values).
	Raw string
	// ItemNotes (enum with a literal list): per-value notes, written as `// note` after the value
	// when the annotation is rendered over several lines; NotesWritten is set by the renderer.
	ItemNotes    []string
	NotesWritten bool
}

// Node is one example value with its annotation.
type Node struct {
	Kind   Kind
	Lit    string   // scalars: the JSON literal as written ("abc" incl. quotes, 12, 1.50, true, null)
	Props  []*Prop  // objects
	Items  []*Node  // arrays
	Refs   []string // KRef: user type names of the shortcut
	Rules  []*Rule  // annotation rules in written order
	Note   string   // annotation note text
	Dash   bool     // rules followed by the note separator " -" and an EMPTY note
	RefSep string   // KRef with several names: the separator as written (default " | ")
	Split  int      // > 0: the first Split rules (and the note) form one annotation, the rest a second one on the same value

	// filled by the renderer
	Pos    int // byte offset of the value (first byte of literal / opening bracket / '@')
	KeyPos int // byte offset of the key (opening quote or '@'), -1 if none
}

// Prop is an object member of the example.
type Prop struct {
	Key      string // decoded key, or the type name (with @) when Shortcut
	Shortcut bool
	Node     *Node
}

// TypeDef is a named user type.
type TypeDef struct {
	Name  string // with @
	Root  *Node  // nil for regex types
	Regex string // pattern for /regex/ types (when Root == nil)
}

// EnumDef is a named enum rule.
type EnumDef struct {
	Name   string   // with @
	Values []string // literal texts
}

// Schema is a root schema with its environment.
type Schema struct {
	Root    *Node
	Types   []*TypeDef
	Enums   []*EnumDef
	OptKeys bool // KeysAreOptionalByDefault
	// Legal: the generator built this schema from a fixed shape that is legal by construction
	// (Check must accept it)
	Legal bool
}

func (s *Schema) Type(name string) *TypeDef {
	for _, t := range s.Types {
		if t.Name == name {
			return t
		}
	}
	return nil
}

func (s *Schema) Enum(name string) *EnumDef {
	for _, e := range s.Enums {
		if e.Name == name {
			return e
		}
	}
	return nil
}

// RefText is the type shortcut as written.
func (n *Node) RefText() string {
	sep := n.RefSep
	if sep == "" {
		sep = " | "
	}
	return strings.Join(n.Refs, sep)
}

// Rule returns the rule with that name, or nil.
func (n *Node) Rule(name string) *Rule {
	for _, r := range n.Rules {
		if r.Name == name {
			return r
		}
	}
	return nil
}

func (n *Node) BoolRule(name string) bool {
	r := n.Rule(name)
	return r != nil && r.Bool
}

func (n *Node) IsScalar() bool {
	return n.Kind != KObject && n.Kind != KArray && n.Kind != KRef
}

// ---- constructors used by generators ----

func Obj(props ...*Prop) *Node { return &Node{Kind: KObject, Props: props, KeyPos: -1} }
func Arr(items ...*Node) *Node { return &Node{Kind: KArray, Items: items, KeyPos: -1} }
func Str(decoded string) *Node { return &Node{Kind: KString, Lit: Quote(decoded), KeyPos: -1} }
func Int(text string) *Node    { return &Node{Kind: KInteger, Lit: text, KeyPos: -1} }
func Flt(text string) *Node    { return &Node{Kind: KFloat, Lit: text, KeyPos: -1} }
func Bool(b bool) *Node        { return &Node{Kind: KBoolean, Lit: strconv.FormatBool(b), KeyPos: -1} }
func Null() *Node              { return &Node{Kind: KNull, Lit: "null", KeyPos: -1} }
func Ref(names ...string) *Node {
	return &Node{Kind: KRef, Refs: names, KeyPos: -1}
}
func P(key string, n *Node) *Prop       { return &Prop{Key: key, Node: n} }
func PShort(name string, n *Node) *Prop { return &Prop{Key: name, Shortcut: true, Node: n} }

func (n *Node) With(rs ...*Rule) *Node { n.Rules = append(n.Rules, rs...); return n }

func RBool(name string, b bool) *Rule { return &Rule{Name: name, Bool: b} }
func RNum(name, text string) *Rule    { return &Rule{Name: name, Num: text} }
func RInt(name string, v int) *Rule   { return &Rule{Name: name, Int: v} }
func RStr(name, s string) *Rule       { return &Rule{Name: name, Str: s, IsStr: true} }
func REnum(values ...string) *Rule    { return &Rule{Name: "enum", List: values} }
func REnumRef(name string) *Rule      { return &Rule{Name: "enum", Str: name} }
func RAllOf(names ...string) *Rule    { return &Rule{Name: "allOf", List: names} }
func ROr(items ...OrItem) *Rule       { return &Rule{Name: "or", Or: items} }
func OrName(name string) OrItem       { return OrItem{Name: name} }
func OrSet(rules ...*Rule) OrItem     { return OrItem{Rules: rules} }
func RRaw(name, raw string) *Rule     { return &Rule{Name: name, Raw: raw} }

// Quote renders a decoded string as a JSON string literal using the shortest standard escapes.
func Quote(s string) string {
	var sb strings.Builder
	sb.WriteByte('"')
	for _, r := range s {
		switch {
		case r == '"':
			sb.WriteString(`\"`)
		case r == '\\':
			sb.WriteString(`\\`)
		case r == '\n':
			sb.WriteString(`\n`)
		case r == '\r':
			sb.WriteString(`\r`)
		case r == '\t':
			sb.WriteString(`\t`)
		case r == '\b':
			sb.WriteString(`\b`)
		case r == '\f':
			sb.WriteString(`\f`)
		case r < 0x20:
			sb.WriteString(`\u00`)
			sb.WriteByte("0123456789abcdef"[r>>4])
			sb.WriteByte("0123456789abcdef"[r&15])
		default:
			sb.WriteRune(r)
		}
	}
	sb.WriteByte('"')
	return sb.String()
}

// Clone deep-copies a node tree.
func (n *Node) Clone() *Node {
	if n == nil {
		return nil
	}
	c := *n
	c.Props = nil
	for _, p := range n.Props {
		c.Props = append(c.Props, &Prop{Key: p.Key, Shortcut: p.Shortcut, Node: p.Node.Clone()})
	}
	c.Items = nil
	for _, it := range n.Items {
		c.Items = append(c.Items, it.Clone())
	}
	c.Refs = append([]string(nil), n.Refs...)
	c.Rules = nil
	for _, r := range n.Rules {
		c.Rules = append(c.Rules, r.Clone())
	}
	return &c
}

func (r *Rule) Clone() *Rule {
	c := *r
	c.List = append([]string(nil), r.List...)
	c.ItemNotes = append([]string(nil), r.ItemNotes...)
	c.Or = nil
	for _, it := range r.Or {
		ci := OrItem{Name: it.Name}
		for _, rr := range it.Rules {
			ci.Rules = append(ci.Rules, rr.Clone())
		}
		c.Or = append(c.Or, ci)
	}
	return &c
}

func (s *Schema) Clone() *Schema {
	c := &Schema{Root: s.Root.Clone(), OptKeys: s.OptKeys, Legal: s.Legal}
	for _, t := range s.Types {
		c.Types = append(c.Types, &TypeDef{Name: t.Name, Root: t.Root.Clone(), Regex: t.Regex})
	}
	for _, e := range s.Enums {
		c.Enums = append(c.Enums, &EnumDef{Name: e.Name, Values: append([]string(nil), e.Values...)})
	}
	return c
}

// Walk visits every node of a tree (pre-order).
func (n *Node) Walk(f func(*Node)) {
	if n == nil {
		return
	}
	f(n)
	for _, p := range n.Props {
		p.Node.Walk(f)
	}
	for _, it := range n.Items {
		it.Walk(f)
	}
}
