package model

import (
	"fmt"
	"strconv"
	"strings"
)

// Coin is the source of per-site random choices of a style (nil = never).
type Coin interface{ Intn(n int) int }

// Style selects one surface spelling. The zero value is the canonical house style of the
// library's tests: LF, two-space indent, inline annotations, bare rule names.
type Style struct {
	NL            string // "\n" (default), "\r\n", "\r"
	Indent        string // default two spaces; "-" means no indentation
	MultiLine     int    // 0 inline `// {…}`; 1 `/* {…} */` on one line; 2 `/* {` … `} */` over several lines; 3 the same with the note / `*/` on a line of its own
	QuoteNames    bool   // rule names in quotes
	TrailingComma bool   // trailing comma inside the rule object
	Comments      bool   // user comments (# … and ### … ###) at legal places
	TightColon    bool   // no blank after ':' and inside annotation braces
	ExtraBlank    bool   // blank lines / trailing blanks
	Mixed         Coin   // when set, each site decides separately with probability 1/2 among the enabled features
	// OneLine writes the whole schema on one line; only note-only annotations in the /* */ form
	// are possible then (a rule needs its node alone on the line), rules are not written.
	OneLine bool
	// LitEscapes: string examples are written with \uXXXX escapes (non-ASCII characters, and the
	// letters a and e now and then): the same strings, another spelling.
	LitEscapes bool
	// BareAnnot: nodes without rules and note get an empty inline annotation (`//` and the line end).
	BareAnnot bool
	// Gaps: the blank after `//` / `/*` is a tab, nothing, or several blanks.
	Gaps bool
}

// RespellLit rewrites a JSON string literal: characters outside existing escape sequences become
// \uXXXX escapes (every non-ASCII character, every second "a" / "e"); the decoded string is the same.
func RespellLit(lit string) string {
	if len(lit) < 2 || lit[0] != '"' {
		return lit
	}
	var sb strings.Builder
	rs := []rune(lit)
	flip := false
	for i := 0; i < len(rs); i++ {
		c := rs[i]
		switch {
		case c == '\\' && i+1 < len(rs):
			sb.WriteRune(c)
			i++
			sb.WriteRune(rs[i])
			for k := 0; rs[i-k] == 'u' && k < 4 && i+1 < len(rs); k++ { // the four digits of \uXXXX
				i++
				sb.WriteRune(rs[i])
			}
		case c == 0xFFFD:
			sb.WriteRune(c) // may stand for bytes that are not UTF-8: left alone
		case c > 0xFFFF:
			c -= 0x10000
			fmt.Fprintf(&sb, "\\u%04x\\u%04X", 0xD800+(c>>10), 0xDC00+(c&0x3FF))
		case c > 0x7F:
			fmt.Fprintf(&sb, "\\u%04x", c)
		case c == 'a' || c == 'e':
			flip = !flip
			if flip {
				fmt.Fprintf(&sb, "\\u%04X", c)
			} else {
				sb.WriteRune(c)
			}
		default:
			sb.WriteRune(c)
		}
	}
	return sb.String()
}

type renderer struct {
	st     Style
	ncomm  int
	nblock int
	ngap   int
	sb     strings.Builder
	nl     string
	ind    string
}

func (r *renderer) on(enabled bool) bool {
	if !enabled {
		return false
	}
	if r.st.Mixed == nil {
		return true
	}
	return r.st.Mixed.Intn(2) == 0
}

// Render writes the schema text of a node tree and records byte positions in the nodes.
func (st Style) Render(root *Node) string {
	if st.OneLine {
		var sb strings.Builder
		oneLine(&sb, root)
		return sb.String()
	}
	r := &renderer{st: st, nl: st.NL, ind: st.Indent}
	if r.nl == "" {
		r.nl = "\n"
	}
	switch r.ind {
	case "":
		r.ind = "  "
	case "-":
		r.ind = ""
	}
	if r.on(st.Comments) {
		r.sb.WriteString("# leading comment" + r.nl + "#" + r.nl)
	}
	if r.on(st.Comments) {
		r.sb.WriteString("###" + r.nl + "block { [ \" comment" + r.nl + "###" + r.nl)
	}
	root.KeyPos = -1
	r.node(root, 0, false)
	if r.on(st.ExtraBlank) {
		r.sb.WriteString(r.nl + "  " + r.nl)
	}
	if r.on(st.Comments) {
		r.sb.WriteString(r.nl + "# trailing comment")
	}
	return r.sb.String()
}

func (r *renderer) indent(level int) {
	for i := 0; i < level; i++ {
		r.sb.WriteString(r.ind)
	}
}

// node writes a value at the current position; comma says whether a ',' follows the value.
func (r *renderer) node(n *Node, level int, comma bool) {
	n.Pos = r.sb.Len()
	switch n.Kind {
	case KObject:
		if len(n.Props) == 0 {
			if r.on(r.st.ExtraBlank) {
				r.sb.WriteString("{ }")
			} else {
				r.sb.WriteString("{}")
			}
			r.tail(n, comma, level)
			return
		}
		r.sb.WriteString("{")
		r.annotation(n, level)
		r.eol()
		for i, p := range n.Props {
			r.indent(level + 1)
			if r.st.Comments {
				r.nblock++
				if r.nblock%5 == 3 && r.on(true) {
					r.sb.WriteString("### k ### ")
				}
			}
			p.Node.KeyPos = r.sb.Len()
			if p.Shortcut {
				r.sb.WriteString(p.Key)
			} else {
				r.sb.WriteString(Quote(p.Key))
			}
			if r.on(r.st.TightColon) {
				r.sb.WriteString(":")
			} else {
				r.sb.WriteString(": ")
			}
			r.node(p.Node, level+1, i < len(n.Props)-1)
			r.eol()
		}
		r.indent(level)
		r.sb.WriteString("}")
		if comma {
			r.sb.WriteString(",")
		}
	case KArray:
		if len(n.Items) == 0 {
			if r.st.Comments && r.on(true) {
				r.sb.WriteString("[ ### no items ### ]") // a block comment between the brackets: still empty
			} else if r.on(r.st.ExtraBlank) {
				r.sb.WriteString("[ ]") // blanks between the brackets: as empty as []
			} else {
				r.sb.WriteString("[]")
			}
			r.tail(n, comma, level)
			return
		}
		r.sb.WriteString("[")
		r.annotation(n, level)
		r.eol()
		for i, it := range n.Items {
			r.indent(level + 1)
			it.KeyPos = -1
			r.node(it, level+1, i < len(n.Items)-1)
			r.eol()
		}
		r.indent(level)
		r.sb.WriteString("]")
		if comma {
			r.sb.WriteString(",")
		}
	case KRef:
		r.sb.WriteString(n.RefText())
		r.tail(n, comma, level)
	default:
		if n.Kind == KString && r.on(r.st.LitEscapes) {
			r.sb.WriteString(RespellLit(n.Lit))
		} else {
			r.sb.WriteString(n.Lit)
		}
		r.tail(n, comma, level)
	}
}

func (r *renderer) tail(n *Node, comma bool, level int) {
	if comma {
		r.sb.WriteString(",")
	}
	// a block comment closed on the line it was opened on, schema text (the annotation, if any)
	// follows on the same line
	if r.st.Comments {
		r.nblock++
		if r.nblock%4 == 2 && r.on(true) {
			r.sb.WriteString(" ### c ###")
		}
	}
	r.annotation(n, level)
}

func (r *renderer) eol() {
	if r.on(r.st.Comments) {
		// every third user comment is empty
		r.ncomm++
		if r.ncomm%3 == 2 {
			r.sb.WriteString(" #")
		} else {
			r.sb.WriteString(" # c")
		}
	}
	if r.on(r.st.ExtraBlank) {
		r.sb.WriteString("  ")
	}
	r.sb.WriteString(r.nl)
	if r.on(r.st.ExtraBlank) {
		r.sb.WriteString(r.nl)
	}
	if r.on(r.st.Comments) {
		r.sb.WriteString("###" + r.nl + "x" + r.nl + "###" + r.nl)
	}
}

func (r *renderer) annotation(n *Node, level int) {
	if n.Split > 0 && n.Split < len(n.Rules) {
		// two annotations on one value: `/* {first rules} - note */ // {remaining rules}`
		r.annotationForm(&Node{Rules: n.Rules[:n.Split], Note: n.Note, Dash: n.Dash}, level, 1)
		r.annotationForm(&Node{Rules: n.Rules[n.Split:]}, level, 0)
		return
	}
	r.annotationForm(n, level, -1)
}

// annotationForm writes one annotation; force >= 0 fixes the form (0 inline, 1 one-line /* */).
func (r *renderer) annotationForm(n *Node, level int, force int) {
	if len(n.Rules) == 0 && n.Note == "" {
		if r.st.BareAnnot && force < 0 && r.on(true) {
			r.sb.WriteString(" //") // an annotation that says nothing
		}
		return
	}
	ml := 0
	if r.st.MultiLine != 0 && r.on(true) {
		ml = r.st.MultiLine
	}
	if force >= 0 {
		ml = force
	}
	sp := " "
	if r.on(r.st.TightColon) {
		sp = ""
	}
	r.sb.WriteString(" ")
	gap := " "
	if r.st.Gaps {
		// blanks between the annotation marker and what follows: none, a tab, several
		r.ngap++
		gap = []string{"\t", "", "  ", " \t "}[(r.ngap+r.sb.Len())%4]
	}
	if ml == 0 {
		r.sb.WriteString("//" + gap)
	} else {
		r.sb.WriteString("/*" + gap)
	}
	if len(n.Rules) > 0 {
		sep := ", "
		open, close := "{", "}"
		if ml >= 2 {
			sep = "," + r.nl + strings.Repeat(r.ind, level+2)
			open = "{" + r.nl + strings.Repeat(r.ind, level+2)
			close = r.nl + strings.Repeat(r.ind, level+1) + "}"
		}
		if ml == 3 {
			// the note or the end marker starts on its own line
			close += r.nl + strings.Repeat(r.ind, level+1)
		}
		r.sb.WriteString(open)
		for i, rule := range n.Rules {
			if i > 0 {
				r.sb.WriteString(sep)
			}
			if r.on(r.st.QuoteNames) {
				r.sb.WriteString(`"` + rule.Name + `"`)
			} else {
				r.sb.WriteString(rule.Name)
			}
			r.sb.WriteString(":" + sp)
			rule.NotesWritten = false
			if ml >= 2 && rule.Name == "enum" && rule.Raw == "" && len(rule.ItemNotes) == len(rule.List) && len(rule.List) > 0 {
				// one value per line, each followed by its note
				rule.NotesWritten = true
				in := strings.Repeat(r.ind, level+3)
				r.sb.WriteString("[" + r.nl)
				for j, lit := range rule.List {
					r.sb.WriteString(in + lit)
					if j < len(rule.List)-1 {
						r.sb.WriteString(",")
					}
					if rule.ItemNotes[j] != "" {
						r.sb.WriteString(" // " + rule.ItemNotes[j])
					}
					r.sb.WriteString(r.nl)
				}
				r.sb.WriteString(strings.Repeat(r.ind, level+2) + "]")
				continue
			}
			if ml >= 2 && rule.Raw == "" && ((rule.Name == "allOf" && len(rule.List) > 1) || rule.Name == "or") && r.on(true) {
				// an array value spread over lines, one item per line
				in := strings.Repeat(r.ind, level+3)
				r.sb.WriteString("[" + r.nl)
				items := ruleItemTexts(rule, r.on(r.st.QuoteNames))
				for j, it := range items {
					r.sb.WriteString(in + it)
					if j < len(items)-1 {
						r.sb.WriteString(",")
					}
					r.sb.WriteString(r.nl)
				}
				r.sb.WriteString(strings.Repeat(r.ind, level+2) + "]")
				continue
			}
			r.sb.WriteString(RuleValueText(rule, r.on(r.st.QuoteNames)))
		}
		if r.on(r.st.TrailingComma) {
			r.sb.WriteString(",")
		}
		r.sb.WriteString(close)
	}
	if n.Note != "" {
		if len(n.Rules) > 0 {
			r.sb.WriteString(" - ")
		}
		r.sb.WriteString(n.Note)
	} else if n.Dash && len(n.Rules) > 0 {
		r.sb.WriteString(" -")
	}
	if ml != 0 {
		r.sb.WriteString(" */")
	}
}

// RuleValueText renders the value of a rule as it is written in an annotation.
func RuleValueText(rule *Rule, quoteNames bool) string {
	if rule.Raw != "" {
		return rule.Raw
	}
	switch rule.Name {
	case "optional", "nullable", "const", "exclusiveMinimum", "exclusiveMaximum":
		return strconv.FormatBool(rule.Bool)
	case "min", "max":
		return rule.Num
	case "precision", "minLength", "maxLength", "minItems", "maxItems":
		return strconv.Itoa(rule.Int)
	case "regex", "type":
		return Quote(rule.Str)
	case "additionalProperties":
		if rule.IsStr {
			return Quote(rule.Str)
		}
		return strconv.FormatBool(rule.Bool)
	case "enum":
		if rule.Str != "" {
			return rule.Str // @name, unquoted
		}
		return "[" + strings.Join(rule.List, ", ") + "]"
	case "allOf":
		if len(rule.List) == 1 {
			return Quote(rule.List[0])
		}
		q := make([]string, len(rule.List))
		for i, s := range rule.List {
			q[i] = Quote(s)
		}
		return "[" + strings.Join(q, ", ") + "]"
	case "or":
		return "[" + strings.Join(ruleItemTexts(rule, quoteNames), ", ") + "]"
	}
	return rule.Str
}

// ruleItemTexts: the items of an array-valued rule (allOf with several names, or) as written.
func ruleItemTexts(rule *Rule, quoteNames bool) []string {
	switch rule.Name {
	case "allOf":
		q := make([]string, len(rule.List))
		for i, s := range rule.List {
			q[i] = Quote(s)
		}
		return q
	case "or":
		parts := make([]string, len(rule.Or))
		for i, it := range rule.Or {
			if it.Rules == nil {
				parts[i] = Quote(it.Name)
				continue
			}
			rs := make([]string, len(it.Rules))
			for j, rr := range it.Rules {
				name := rr.Name
				if quoteNames {
					name = `"` + name + `"`
				}
				rs[j] = name + ": " + RuleValueText(rr, quoteNames)
			}
			parts[i] = "{" + strings.Join(rs, ", ") + "}"
		}
		return parts
	}
	return nil
}

// Canonical renders in the house style.
func Canonical(root *Node) string { return Style{}.Render(root) }

// oneLine renders a node tree on a single line with note-only annotations.
func oneLine(sb *strings.Builder, n *Node) {
	note := func() {
		if n.Note != "" {
			sb.WriteString(" /* " + n.Note + " */")
		}
	}
	n.Pos = sb.Len()
	switch n.Kind {
	case KObject:
		sb.WriteString("{")
		if len(n.Props) > 0 {
			note()
		}
		for i, p := range n.Props {
			if i > 0 {
				sb.WriteString(",")
			}
			sb.WriteString(" ")
			p.Node.KeyPos = sb.Len()
			if p.Shortcut {
				sb.WriteString(p.Key)
			} else {
				sb.WriteString(Quote(p.Key))
			}
			sb.WriteString(": ")
			oneLine(sb, p.Node)
		}
		if len(n.Props) > 0 {
			sb.WriteString(" ")
		}
		sb.WriteString("}")
		if len(n.Props) == 0 {
			note()
		}
	case KArray:
		sb.WriteString("[")
		if len(n.Items) > 0 {
			note()
		}
		for i, it := range n.Items {
			if i > 0 {
				sb.WriteString(", ")
			}
			oneLine(sb, it)
		}
		sb.WriteString("]")
		if len(n.Items) == 0 {
			note()
		}
	case KRef:
		sb.WriteString(n.RefText())
		note()
	default:
		sb.WriteString(n.Lit)
		note()
	}
}
