package model

// Reference acceptance oracle: accept(M, node, value) -> Accept | Reject | Unspec, written from
// the property statements (C01, C02, C03) and the calibration notes in DESIGN.md Appendix A.
// Unspec means the statements do not decide the cell; no verdict is compared for it.

import (
	"math/big"
	"regexp"
	"strings"
	"unicode/utf8"
)

type Verdict int

const (
	Accept Verdict = iota
	Reject
	Unspec
)

func (v Verdict) String() string { return [...]string{"accept", "reject", "unspecified"}[v] }

func and(a, b Verdict) Verdict {
	if a == Reject || b == Reject {
		return Reject
	}
	if a == Unspec || b == Unspec {
		return Unspec
	}
	return Accept
}

func or(a, b Verdict) Verdict {
	if a == Accept || b == Accept {
		return Accept
	}
	if a == Unspec || b == Unspec {
		return Unspec
	}
	return Reject
}

// Oracle evaluates documents against one schema model.
type Oracle struct {
	S *Schema
	// Why collects, for a Reject, the first reason found (diagnostics only).
	Why string
	// Mech counts the mechanisms that took part in the decision (evidence).
	Mech map[string]int
	memo map[memoKey]Verdict
}

func NewOracle(s *Schema) *Oracle { return &Oracle{S: s, Mech: map[string]int{}} }

func (o *Oracle) hit(m string) {
	if o.Mech != nil {
		o.Mech[m]++
	}
}

func (o *Oracle) reject(why string) Verdict {
	if o.Why == "" {
		o.Why = why
	}
	return Reject
}

// Accepts decides the whole document.
func (o *Oracle) Accepts(v *Val) Verdict {
	o.Why = ""
	o.memo = nil
	return o.node(o.S.Root, v, 0)
}

const maxDepth = 200

// alternatives returns the list of alternatives of a node that names types, or nil.
func alternatives(n *Node) []OrItem {
	if n.Kind == KRef {
		alts := make([]OrItem, len(n.Refs))
		for i, r := range n.Refs {
			alts[i] = OrItem{Name: r}
		}
		return alts
	}
	if r := n.Rule("or"); r != nil {
		return r.Or
	}
	if r := n.Rule("type"); r != nil && strings.HasPrefix(r.Str, "@") {
		return []OrItem{{Name: r.Str}}
	}
	return nil
}

type memoKey struct {
	n *Node
	v *Val
}

// node memoises on (schema node, value): unions nested along a cycle of the type graph would
// otherwise re-evaluate the same pair exponentially often.
func (o *Oracle) node(n *Node, v *Val, depth int) Verdict {
	k := memoKey{n, v}
	if r, ok := o.memo[k]; ok {
		return r
	}
	r := o.nodeUncached(n, v, depth)
	if o.memo == nil {
		o.memo = map[memoKey]Verdict{}
	}
	o.memo[k] = r
	return r
}

func (o *Oracle) nodeUncached(n *Node, v *Val, depth int) Verdict {
	if depth > maxDepth {
		return Unspec
	}
	if alts := alternatives(n); alts != nil {
		o.hit("type alternatives")
		if v.K == VNull && n.BoolRule("nullable") {
			o.hit("null via nullable on a reference")
			return Accept
		}
		res := Reject
		for _, a := range alts {
			res = or(res, o.alternative(a, n, v, depth+1))
			if res == Accept {
				return Accept
			}
		}
		if res == Reject {
			o.reject("no alternative accepts the value")
		}
		return res
	}
	if r := n.Rule("type"); r != nil && r.Str == "any" {
		o.hit("type any")
		return Accept
	}
	if v.K == VNull {
		if n.Kind == KNull && n.Rule("enum") == nil {
			return Accept
		}
		if n.BoolRule("nullable") {
			o.hit("null via nullable")
			return Accept
		}
		if n.Rule("enum") == nil {
			return o.reject("null where the example is neither null nor nullable")
		}
	}
	if er := n.Rule("enum"); er != nil {
		o.hit("enum")
		res := o.enum(er, v)
		if n.BoolRule("const") {
			res = and(res, constEq(n, v))
		}
		return res
	}
	// kind
	switch n.Kind {
	case KObject:
		if v.K != VObj {
			return o.reject("kind: object expected")
		}
		return o.object(n, v, depth)
	case KArray:
		if v.K != VArr {
			return o.reject("kind: array expected")
		}
		return o.array(n, v, depth)
	case KString:
		if v.K != VStr {
			return o.reject("kind: string expected")
		}
	case KInteger:
		if v.K != VNum {
			return o.reject("kind: integer expected")
		}
		if !IsIntegerNumeral(v.Num) {
			return o.reject("kind: integer expected, got float")
		}
	case KFloat:
		if v.K != VNum {
			return o.reject("kind: float expected")
		}
		if IsIntegerNumeral(v.Num) {
			o.hit("integer where the example is float")
		}
	case KBoolean:
		if v.K != VBool {
			return o.reject("kind: boolean expected")
		}
	case KNull:
		return o.reject("kind: null expected")
	}
	return o.scalarRules(n.Rules, n, v)
}

// alternative evaluates one member of a union.
func (o *Oracle) alternative(a OrItem, host *Node, v *Val, depth int) Verdict {
	if a.Rules == nil {
		if strings.HasPrefix(a.Name, "@") {
			t := o.S.Type(a.Name)
			if t == nil {
				return Unspec
			}
			if t.Root == nil { // regex type
				if v.K != VStr {
					return Reject
				}
				return matchRegex(t.Regex, v.S)
			}
			return o.node(t.Root, v, depth)
		}
		return builtinAccepts(a.Name, v)
	}
	// inline rule-set: judged only when it carries a built-in type or an enum
	var typ string
	for _, r := range a.Rules {
		if r.Name == "type" {
			typ = r.Str
		}
		if r.Name == "enum" {
			return o.enum(r, v)
		}
	}
	if typ == "" {
		return Unspec
	}
	if strings.HasPrefix(typ, "@") {
		return o.alternative(OrItem{Name: typ}, host, v, depth)
	}
	if v.K == VNull {
		for _, r := range a.Rules {
			if r.Name == "nullable" && r.Bool {
				return Accept
			}
		}
	}
	res := builtinAccepts(typ, v)
	if res != Accept {
		return res
	}
	pseudo := &Node{Rules: a.Rules, Lit: host.Lit}
	switch typ {
	case "string", "email", "uri", "uuid", "date", "datetime":
		pseudo.Kind = KString
	case "integer":
		pseudo.Kind = KInteger
	case "float", "decimal":
		pseudo.Kind = KFloat
	case "boolean":
		pseudo.Kind = KBoolean
	default:
		return res
	}
	return o.scalarRules(a.Rules, pseudo, v)
}

// builtinAccepts: a built-in type name used as an or-member or as additionalProperties.
func builtinAccepts(name string, v *Val) Verdict {
	switch name {
	case "any":
		return Accept
	case "string":
		return b2v(v.K == VStr)
	case "integer":
		return b2v(v.K == VNum && IsIntegerNumeral(v.Num))
	case "float":
		if v.K != VNum {
			return Reject
		}
		if IsIntegerNumeral(v.Num) {
			return Unspec // integer under a bare "float" name: not decided by the statements
		}
		return Accept
	case "boolean":
		return b2v(v.K == VBool)
	case "null":
		return b2v(v.K == VNull)
	case "object":
		if v.K != VObj {
			return Reject
		}
		if len(v.Members) == 0 {
			return Accept
		}
		return Unspec
	case "array":
		if v.K != VArr {
			return Reject
		}
		if len(v.Elems) == 0 {
			return Accept
		}
		return Unspec
	case "email", "uri", "uuid", "date", "datetime":
		if v.K != VStr {
			return Reject
		}
		return FormatAccepts(name, v.S)
	}
	return Unspec
}

func b2v(b bool) Verdict {
	if b {
		return Accept
	}
	return Reject
}

func (o *Oracle) enum(r *Rule, v *Val) Verdict {
	list := r.List
	if r.Str != "" {
		e := o.S.Enum(r.Str)
		if e == nil {
			return Unspec
		}
		list = e.Values
	}
	res := Reject
	for _, lit := range list {
		res = or(res, litEquals(lit, v))
	}
	if res == Reject {
		o.reject("not an enum member")
	}
	return res
}

// litEquals: type-sensitive equality between a JSON scalar literal text and a value.
func litEquals(lit string, v *Val) Verdict {
	lit = strings.TrimSpace(lit)
	switch {
	case strings.HasPrefix(lit, `"`):
		if v.K != VStr {
			return Reject
		}
		d, ok := Unquote(lit)
		if !ok {
			return Unspec
		}
		return b2v(d == v.S)
	case lit == "true" || lit == "false":
		return b2v(v.K == VBool && v.B == (lit == "true"))
	case lit == "null":
		return b2v(v.K == VNull)
	default:
		if v.K != VNum {
			return Reject
		}
		if lit == v.Num {
			return Accept
		}
		a, ok1 := Rat(lit)
		b, ok2 := Rat(v.Num)
		if !ok1 || !ok2 {
			return Unspec
		}
		if a.Cmp(b) != 0 {
			return Reject
		}
		return Unspec // numerically equal, textually different
	}
}

func constEq(n *Node, v *Val) Verdict { return litEquals(n.Lit, v) }

// scalarRules evaluates the scalar rules of a node (or inline rule-set) on a value whose kind
// has already been found admissible.
func (o *Oracle) scalarRules(rules []*Rule, n *Node, v *Val) Verdict {
	res := Accept
	get := func(name string) *Rule {
		for _, r := range rules {
			if r.Name == name {
				return r
			}
		}
		return nil
	}
	flag := func(name string) bool { r := get(name); return r != nil && r.Bool }
	if v.K == VNum {
		x, ok := Rat(v.Num)
		if !ok {
			return Unspec
		}
		if r := get("min"); r != nil {
			p, ok := Rat(r.Num)
			if !ok {
				return Unspec
			}
			c := x.Cmp(p)
			if c < 0 || (c == 0 && flag("exclusiveMinimum")) {
				res = and(res, o.reject("below min"))
			}
			o.hit("min")
		}
		if r := get("max"); r != nil {
			p, ok := Rat(r.Num)
			if !ok {
				return Unspec
			}
			c := x.Cmp(p)
			if c > 0 || (c == 0 && flag("exclusiveMaximum")) {
				res = and(res, o.reject("above max"))
			}
			o.hit("max")
		}
		if r := get("precision"); r != nil {
			if FracDigits(v.Num) > r.Int {
				res = and(res, o.reject("too many fractional digits"))
			}
			o.hit("precision")
		}
	}
	if v.K == VStr {
		nb, nr := len(v.S), utf8.RuneCountInString(v.S)
		if r := get("minLength"); r != nil {
			o.hit("minLength")
			switch {
			case nb < r.Int && nr < r.Int:
				res = and(res, o.reject("shorter than minLength"))
			case (nb < r.Int) != (nr < r.Int):
				res = and(res, Unspec)
			}
		}
		if r := get("maxLength"); r != nil {
			o.hit("maxLength")
			switch {
			case nb > r.Int && nr > r.Int:
				res = and(res, o.reject("longer than maxLength"))
			case (nb > r.Int) != (nr > r.Int):
				res = and(res, Unspec)
			}
		}
		if r := get("regex"); r != nil {
			o.hit("regex")
			m := matchRegex(r.Str, v.S)
			if m == Reject {
				o.reject("regex does not match")
			}
			res = and(res, m)
		}
		if r := get("type"); r != nil {
			switch r.Str {
			case "email", "uri", "uuid", "date", "datetime":
				o.hit("format " + r.Str)
				f := FormatAccepts(r.Str, v.S)
				if f == Reject {
					o.reject("format " + r.Str)
				}
				res = and(res, f)
			}
		}
	}
	if flag("const") {
		o.hit("const")
		c := litEquals(n.Lit, v)
		if c == Reject {
			o.reject("differs from the const example")
		}
		res = and(res, c)
	}
	return res
}

func matchRegex(pattern, s string) Verdict {
	re, err := regexp.Compile(pattern)
	if err != nil {
		return Unspec
	}
	return b2v(re.MatchString(s))
}

// FormatAccepts is the recogniser for format types; replaced by the C02 reference
// (formats.go). Unspec where the statement delegates the language to Go's std parsers.
var FormatAccepts = func(format, s string) Verdict { return Unspec }

// ---- objects ----

// EffProps returns the properties of an object node including those inherited through allOf
// (transitively), plus the effective additionalProperties rule. ok=false when the chain cannot
// be resolved (missing type, cycle, non-object parent).
func (o *Oracle) EffProps(n *Node) (props []*Prop, ap *Rule, ok bool) {
	seen := map[string]bool{}
	ok = true
	var walk func(n *Node)
	walk = func(n *Node) {
		if r := n.Rule("allOf"); r != nil {
			for _, name := range r.List {
				if seen[name] {
					continue
				}
				seen[name] = true
				t := o.S.Type(name)
				if t == nil || t.Root == nil || t.Root.Kind != KObject {
					ok = false
					return
				}
				walk(t.Root)
			}
		}
		props = append(props, n.Props...)
		if r := n.Rule("additionalProperties"); r != nil {
			if ap != nil && !(ap.IsStr == r.IsStr && ap.Str == r.Str && ap.Bool == r.Bool) {
				ok = false
			}
			ap = r
		}
	}
	walk(n)
	return props, ap, ok
}

// Optional tells whether a property may be absent.
func (o *Oracle) Optional(p *Prop) bool {
	if r := p.Node.Rule("optional"); r != nil {
		return r.Bool
	}
	return o.S.OptKeys
}

func (o *Oracle) object(n *Node, v *Val, depth int) Verdict {
	props, ap, ok := o.EffProps(n)
	if !ok {
		return Unspec
	}
	if n.Rule("allOf") != nil {
		o.hit("allOf inheritance")
	}
	res := Accept
	present := map[*Prop]bool{}
	seenKeys := map[string]int{}
	for _, m := range v.Members {
		seenKeys[m.Key]++
		if seenKeys[m.Key] == 2 {
			o.hit("repeated key in document")
		}
		var hitProp *Prop
		for _, p := range props {
			if !p.Shortcut && p.Key == m.Key {
				hitProp = p
				break
			}
		}
		if hitProp == nil {
			// key shortcuts
			var cands []*Prop
			unspec := false
			for _, p := range props {
				if !p.Shortcut {
					continue
				}
				switch o.keyAccepted(p.Key, m.Key) {
				case Accept:
					cands = append(cands, p)
				case Unspec:
					unspec = true
				}
			}
			switch {
			case len(cands) == 1 && !unspec:
				hitProp = cands[0]
				o.hit("key shortcut match")
			case len(cands) > 1 || unspec:
				res = and(res, Unspec)
				continue
			}
		}
		if hitProp != nil {
			present[hitProp] = true
			res = and(res, o.node(hitProp.Node, m.V, depth+1))
			continue
		}
		// additionalProperties
		switch {
		case ap == nil || (!ap.IsStr && !ap.Bool):
			res = and(res, o.reject("key "+m.Key+" not in the example"))
		case !ap.IsStr || ap.Str == "any":
			o.hit("additionalProperties any")
		case strings.HasPrefix(ap.Str, "@"):
			o.hit("additionalProperties user type")
			res = and(res, o.alternative(OrItem{Name: ap.Str}, n, m.V, depth+1))
		default:
			o.hit("additionalProperties kind")
			a := builtinAccepts(ap.Str, m.V)
			if ap.Str == "object" && m.V.K == VObj || ap.Str == "array" && m.V.K == VArr {
				a = Accept // any object / any array
			}
			if a == Reject {
				o.reject("additional property of the wrong kind")
			}
			res = and(res, a)
		}
	}
	for _, p := range props {
		if present[p] || o.Optional(p) {
			continue
		}
		if p.Shortcut {
			res = and(res, Unspec) // a required key shortcut with no matching key: not decided
			continue
		}
		res = and(res, o.reject("required key "+p.Key+" missing"))
	}
	return res
}

// keyAccepted: is the document key accepted by the string type @K of a key shortcut.
func (o *Oracle) keyAccepted(typeName, key string) Verdict {
	t := o.S.Type(typeName)
	if t == nil {
		return Unspec
	}
	if t.Root == nil {
		return matchRegex(t.Regex, key)
	}
	root := t.Root
	if root.Kind != KString || alternatives(root) != nil {
		return Unspec
	}
	judged := false
	for _, r := range root.Rules {
		switch r.Name {
		case "minLength", "maxLength", "regex", "enum":
			judged = true
		default:
			return Unspec
		}
	}
	if !judged {
		// rule-free string type: the pinned tests demand that only the example itself matches,
		// the statement says any string: undecided except for the example.
		if d, ok := Unquote(root.Lit); ok && d == key {
			return Accept
		}
		return Unspec
	}
	kv := VString(key)
	if er := root.Rule("enum"); er != nil {
		return (&Oracle{S: o.S}).enum(er, kv)
	}
	return (&Oracle{S: o.S}).scalarRules(root.Rules, root, kv)
}

// ---- arrays ----

func (o *Oracle) array(n *Node, v *Val, depth int) Verdict {
	res := Accept
	if r := n.Rule("minItems"); r != nil {
		o.hit("minItems")
		if len(v.Elems) < r.Int {
			res = and(res, o.reject("fewer than minItems"))
		}
	}
	if r := n.Rule("maxItems"); r != nil {
		o.hit("maxItems")
		if len(v.Elems) > r.Int {
			res = and(res, o.reject("more than maxItems"))
		}
	}
	if len(n.Items) == 0 {
		if len(v.Elems) != 0 {
			return o.reject("empty example array admits only the empty array")
		}
		return res
	}
	for i, e := range v.Elems {
		j := i
		if j >= len(n.Items) {
			j = len(n.Items) - 1
			o.hit("array index past example end")
		}
		res = and(res, o.node(n.Items[j], e, depth+1))
	}
	return res
}

// ---- numerals ----

// Rat converts an RFC 8259 numeral to an exact rational.
func Rat(num string) (*big.Rat, bool) {
	s := num
	neg := false
	if strings.HasPrefix(s, "-") {
		neg = true
		s = s[1:]
	}
	exp := 0
	if i := strings.IndexAny(s, "eE"); i >= 0 {
		e := s[i+1:]
		s = s[:i]
		sign := 1
		if strings.HasPrefix(e, "+") {
			e = e[1:]
		} else if strings.HasPrefix(e, "-") {
			sign = -1
			e = e[1:]
		}
		if e == "" || len(e) > 6 {
			return nil, false
		}
		for _, c := range e {
			if c < '0' || c > '9' {
				return nil, false
			}
			exp = exp*10 + int(c-'0')
		}
		exp *= sign
	}
	intPart, frac := s, ""
	if i := strings.IndexByte(s, '.'); i >= 0 {
		intPart, frac = s[:i], s[i+1:]
		if frac == "" {
			return nil, false
		}
	}
	if intPart == "" {
		return nil, false
	}
	for _, c := range intPart + frac {
		if c < '0' || c > '9' {
			return nil, false
		}
	}
	digits := new(big.Int)
	digits.SetString(intPart+frac, 10)
	r := new(big.Rat).SetInt(digits)
	shift := exp - len(frac)
	p := new(big.Int).Exp(big.NewInt(10), big.NewInt(int64(abs(shift))), nil)
	if shift >= 0 {
		r.Mul(r, new(big.Rat).SetInt(p))
	} else {
		r.Quo(r, new(big.Rat).SetInt(p))
	}
	if neg {
		r.Neg(r)
	}
	return r, true
}

func abs(x int) int {
	if x < 0 {
		return -x
	}
	return x
}

// FracDigits is the number of fractional digits of the normalised decimal expansion.
func FracDigits(num string) int {
	r, ok := Rat(num)
	if !ok {
		return 0
	}
	n := 0
	ten := big.NewRat(10, 1)
	x := new(big.Rat).Set(r)
	for !x.IsInt() && n < 2000 {
		x.Mul(x, ten)
		n++
	}
	return n
}

// IsIntegerNumeral classifies a document numeral: without exponent it is an integer iff it has
// no '.', with an exponent iff its exact value is integral.
func IsIntegerNumeral(num string) bool {
	if !strings.ContainsAny(num, "eE") {
		return !strings.Contains(num, ".")
	}
	r, ok := Rat(num)
	return ok && r.IsInt()
}

// Unquote decodes a JSON string literal.
func Unquote(lit string) (string, bool) {
	if len(lit) < 2 || lit[0] != '"' || lit[len(lit)-1] != '"' {
		return "", false
	}
	s := lit[1 : len(lit)-1]
	var sb strings.Builder
	for i := 0; i < len(s); i++ {
		c := s[i]
		if c != '\\' {
			sb.WriteByte(c)
			continue
		}
		i++
		if i >= len(s) {
			return "", false
		}
		switch s[i] {
		case '"', '\\', '/':
			sb.WriteByte(s[i])
		case 'b':
			sb.WriteByte('\b')
		case 'f':
			sb.WriteByte('\f')
		case 'n':
			sb.WriteByte('\n')
		case 'r':
			sb.WriteByte('\r')
		case 't':
			sb.WriteByte('\t')
		case 'u':
			if i+4 > len(s)-1 {
				return "", false
			}
			r, ok := hex4(s[i+1 : i+5])
			if !ok {
				return "", false
			}
			i += 4
			if r >= 0xd800 && r < 0xdc00 && i+6 <= len(s)-1 && s[i+1] == '\\' && s[i+2] == 'u' {
				if lo, ok := hex4(s[i+3 : i+7]); ok && lo >= 0xdc00 && lo < 0xe000 {
					r = 0x10000 + (r-0xd800)<<10 + (lo - 0xdc00)
					i += 6
				}
			}
			sb.WriteRune(r)
		default:
			return "", false
		}
	}
	return sb.String(), true
}

func hex4(s string) (rune, bool) {
	if len(s) != 4 {
		return 0, false
	}
	var r rune
	for _, c := range s {
		r <<= 4
		switch {
		case c >= '0' && c <= '9':
			r |= c - '0'
		case c >= 'a' && c <= 'f':
			r |= c - 'a' + 10
		case c >= 'A' && c <= 'F':
			r |= c - 'A' + 10
		default:
			return 0, false
		}
	}
	return r, true
}

// AcceptsNode decides one value against one node of the schema.
func (o *Oracle) AcceptsNode(n *Node, v *Val) Verdict {
	o.Why = ""
	o.memo = nil
	return o.node(n, v, 0)
}
