package model

import "strings"

// Reference for C08: does Check accept one annotated node, judged from the rule-applicability
// statement (DESIGN.md Appendix A "Rules"). The node's example is assumed to obey the in-range
// parameters the C08 generator uses, so that only applicability / consistency decides.

type Position int

const (
	PosRoot Position = iota
	PosProperty
	PosItem
)

func (p Position) String() string { return [...]string{"root", "property", "array item"}[p] }

var knownRules = map[string]bool{
	"optional": true, "nullable": true, "const": true, "min": true, "max": true, "exclusiveMinimum": true,
	"exclusiveMaximum": true, "precision": true, "minLength": true, "maxLength": true, "regex": true,
	"minItems": true, "maxItems": true, "type": true, "enum": true, "or": true, "allOf": true, "additionalProperties": true,
}

func isFormat(t string) bool {
	switch t {
	case "email", "uri", "uuid", "date", "datetime":
		return true
	}
	return false
}

// CheckOracle decides whether Check must accept the node n (with rules in any order) at the
// given position. Only the node's own annotation is judged; children are assumed legal.
func CheckOracle(n *Node, pos Position) (Verdict, string) {
	seen := map[string]*Rule{}
	for _, r := range n.Rules {
		if !knownRules[r.Name] {
			return Reject, "unknown rule " + r.Name
		}
		if seen[r.Name] != nil {
			return Reject, "duplicate rule " + r.Name
		}
		seen[r.Name] = r
	}
	has := func(name string) bool { return seen[name] != nil }
	// optional only on object properties (whatever its value)
	if has("optional") && pos != PosProperty {
		return Reject, "optional outside an object property"
	}
	// false-valued nullable / const are inert: drop them
	eff := map[string]*Rule{}
	for k, r := range seen {
		if (k == "nullable" || k == "const") && !r.Bool {
			continue
		}
		eff[k] = r
	}
	has = func(name string) bool { return eff[name] != nil }
	count := len(eff)
	only := func(allowed ...string) bool {
		n := 0
		for _, a := range allowed {
			if has(a) {
				n++
			}
		}
		return n == count
	}
	nonEmptyContainer := (n.Kind == KObject && len(n.Props) > 0) || (n.Kind == KArray && len(n.Items) > 0)
	container := n.Kind == KObject || n.Kind == KArray
	typ := ""
	if has("type") {
		typ = eff["type"].Str
	}

	// value position holding a type shortcut: only optional / nullable
	if n.Kind == KRef {
		if !only("optional", "nullable") {
			return Reject, "other rules next to a type reference"
		}
		return Accept, ""
	}
	if has("or") {
		if typ != "" && typ != "mixed" {
			return Reject, "or with a type other than mixed"
		}
		if !only("or", "optional", "nullable", "type") {
			return Reject, "foreign rule next to or"
		}
		if nonEmptyContainer {
			return Reject, "or on a non-empty container"
		}
		if container {
			for _, it := range eff["or"].Or {
				if strings.HasPrefix(it.Name, "@") {
					return Reject, "or with user types on a container"
				}
				for _, rr := range it.Rules {
					if rr.Name == "type" && strings.HasPrefix(rr.Str, "@") {
						return Reject, "or with user types on a container"
					}
				}
			}
		}
		return Accept, ""
	}
	if typ == "mixed" {
		return Reject, "type mixed without or"
	}
	if has("enum") {
		if typ != "" && typ != "enum" {
			return Reject, "enum with a type other than enum"
		}
		if !only("enum", "optional", "nullable", "const", "type") {
			return Reject, "foreign rule next to enum"
		}
		if container {
			return Unspec, ""
		}
		if has("const") {
			return Unspec, ""
		}
		return Accept, ""
	}
	if typ == "enum" {
		return Reject, "type enum without enum"
	}
	if typ == "any" {
		if has("const") {
			return Reject, "const next to any"
		}
		if !only("type", "optional", "nullable") {
			return Reject, "foreign rule next to any"
		}
		if nonEmptyContainer {
			return Reject, "any on a non-empty container"
		}
		return Accept, ""
	}
	if strings.HasPrefix(typ, "@") {
		if !only("type", "optional", "nullable") {
			return Reject, "foreign rule next to a type reference"
		}
		if container {
			return Reject, "type reference on a container"
		}
		return Accept, ""
	}
	// applicability by kind
	numeric := n.Kind == KInteger || n.Kind == KFloat
	for _, name := range []string{"min", "max", "exclusiveMinimum", "exclusiveMaximum"} {
		if has(name) && !numeric {
			return Reject, name + " on a non-number"
		}
	}
	if has("precision") && n.Kind != KFloat {
		return Reject, "precision on a non-float"
	}
	for _, name := range []string{"minLength", "maxLength", "regex"} {
		if has(name) && n.Kind != KString {
			return Reject, name + " on a non-string"
		}
	}
	for _, name := range []string{"minItems", "maxItems"} {
		if has(name) && n.Kind != KArray {
			return Reject, name + " on a non-array"
		}
	}
	for _, name := range []string{"additionalProperties", "allOf"} {
		if has(name) && n.Kind != KObject {
			return Reject, name + " on a non-object"
		}
	}
	if has("const") && container {
		return Reject, "const on a container"
	}
	if has("exclusiveMinimum") && !has("min") {
		return Reject, "exclusiveMinimum without min"
	}
	if has("exclusiveMaximum") && !has("max") {
		return Reject, "exclusiveMaximum without max"
	}
	// explicit built-in type
	if typ != "" {
		switch {
		case typ == "decimal":
			if !has("precision") {
				return Reject, "decimal without precision"
			}
		case isFormat(typ):
			if n.Kind != KString {
				return Reject, "format type on a non-string"
			}
			if has("minLength") || has("maxLength") || has("regex") {
				return Reject, "format type with length/regex rules"
			}
			// the example must be a value of that format; the generator guarantees it
		case typ == n.Kind.String():
		case typ == "string" || typ == "integer" || typ == "float" || typ == "boolean" || typ == "null" || typ == "object" || typ == "array":
			return Reject, "declared type differs from the example's kind"
		default:
			return Reject, "unknown type " + typ
		}
	}
	if has("precision") && typ != "" && typ != "decimal" {
		return Reject, "precision with a type other than decimal"
	}
	// pair ordering (parameters are compared as written)
	if has("min") && has("max") {
		a, ok1 := Rat(eff["min"].Num)
		b, ok2 := Rat(eff["max"].Num)
		if ok1 && ok2 {
			excl := (has("exclusiveMinimum") && eff["exclusiveMinimum"].Bool) || (has("exclusiveMaximum") && eff["exclusiveMaximum"].Bool)
			if c := a.Cmp(b); c > 0 || (c == 0 && excl) {
				return Reject, "min/max out of order"
			}
		}
	}
	if has("minLength") && has("maxLength") && eff["minLength"].Int > eff["maxLength"].Int {
		return Reject, "minLength > maxLength"
	}
	if has("minItems") && has("maxItems") && eff["minItems"].Int > eff["maxItems"].Int {
		return Reject, "minItems > maxItems"
	}
	// the example must obey its own rules (C04's clause, needed for the right verdict here)
	if n.Kind == KArray {
		if has("minItems") && len(n.Items) < eff["minItems"].Int {
			return Reject, "example has fewer items than minItems"
		}
		if has("maxItems") && len(n.Items) > eff["maxItems"].Int {
			return Reject, "example has more items than maxItems"
		}
	}
	if n.IsScalar() && n.Kind != KNull {
		var rules []*Rule
		for _, r := range eff {
			rules = append(rules, r)
		}
		var ex *Val
		switch n.Kind {
		case KString:
			d, _ := Unquote(n.Lit)
			ex = VString(d)
		case KBoolean:
			ex = VBoolean(n.Lit == "true")
		default:
			ex = VNumber(n.Lit)
		}
		o := &Oracle{S: &Schema{}}
		switch o.scalarRules(rules, n, ex) {
		case Reject:
			return Reject, "example violates its own rule: " + o.Why
		case Unspec:
			return Unspec, ""
		}
	}
	return Accept, ""
}
