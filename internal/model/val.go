package model

import (
	"strings"
)

type VKind int

const (
	VObj VKind = iota
	VArr
	VStr
	VNum
	VBool
	VNull
)

// Val is a JSON value as the document generator builds it (member order and repeated keys
// are kept; numbers keep their spelling).
type Val struct {
	K       VKind
	Members []Member
	Elems   []*Val
	S       string // decoded string
	Raw     string // strings: when set, the literal as written (quotes included); S is its decoded value
	Num     string // numeral text
	B       bool

	Pos int // filled by the renderer: first byte of the value
}

type Member struct {
	Key    string
	V      *Val
	KeyPos int
}

func VObject(ms ...Member) *Val { return &Val{K: VObj, Members: ms} }
func VArray(es ...*Val) *Val    { return &Val{K: VArr, Elems: es} }
func VString(s string) *Val     { return &Val{K: VStr, S: s} }

// VRawString is a string written exactly as lit (a JSON string literal); its value is what the
// reference decoder makes of it.
func VRawString(lit string) *Val {
	d, ok := Unquote(lit)
	if !ok {
		panic("model.VRawString: not a string literal: " + lit)
	}
	return &Val{K: VStr, S: d, Raw: lit}
}
func VNumber(text string) *Val    { return &Val{K: VNum, Num: text} }
func VBoolean(b bool) *Val        { return &Val{K: VBool, B: b} }
func VNullV() *Val                { return &Val{K: VNull} }
func M(key string, v *Val) Member { return Member{Key: key, V: v} }

func (v *Val) Clone() *Val {
	if v == nil {
		return nil
	}
	c := *v
	c.Members = nil
	for _, m := range v.Members {
		c.Members = append(c.Members, Member{Key: m.Key, V: m.V.Clone()})
	}
	c.Elems = nil
	for _, e := range v.Elems {
		c.Elems = append(c.Elems, e.Clone())
	}
	return &c
}

// DocStyle selects one spelling of a JSON document.
type DocStyle struct {
	Pretty  bool // line breaks and indentation
	WS      Coin // random extra whitespace (space, tab, CR, LF) between tokens
	Escapes Coin // random alternative escape spellings inside strings and keys
}

type docRenderer struct {
	st DocStyle
	sb strings.Builder
}

// Text renders compactly.
func (v *Val) Text() string { return DocStyle{}.Render(v) }

func (st DocStyle) Render(v *Val) string {
	r := &docRenderer{st: st}
	r.ws()
	r.val(v, 0)
	r.ws()
	return r.sb.String()
}

func (r *docRenderer) ws() {
	if r.st.WS == nil {
		return
	}
	for r.st.WS.Intn(3) == 0 {
		r.sb.WriteByte(" \t\n\r"[r.st.WS.Intn(4)])
	}
}

func (r *docRenderer) nl(level int) {
	if r.st.Pretty {
		r.sb.WriteByte('\n')
		for i := 0; i < level; i++ {
			r.sb.WriteString("  ")
		}
	}
}

// QuoteAlt spells a string literal with randomly chosen equivalent escapes.
func QuoteAlt(s string, c Coin) string {
	if c == nil {
		return Quote(s)
	}
	const hexL, hexU = "0123456789abcdef", "0123456789ABCDEF"
	var sb strings.Builder
	sb.WriteByte('"')
	for _, ru := range s {
		hex := hexL
		if c.Intn(2) == 0 {
			hex = hexU
		}
		u4 := func(x rune) {
			sb.WriteString(`\u`)
			sb.WriteByte(hex[(x>>12)&15])
			sb.WriteByte(hex[(x>>8)&15])
			sb.WriteByte(hex[(x>>4)&15])
			sb.WriteByte(hex[x&15])
		}
		switch {
		case ru == '"' || ru == '\\' || ru < 0x20:
			if c.Intn(3) == 0 {
				u4(ru)
			} else {
				q := Quote(string(ru))
				sb.WriteString(q[1 : len(q)-1])
			}
		case ru == '/' && c.Intn(2) == 0:
			sb.WriteString(`\/`)
		case ru > 0xffff && c.Intn(2) == 0:
			x := ru - 0x10000
			u4(0xd800 + (x >> 10))
			u4(0xdc00 + (x & 0x3ff))
		case ru <= 0xffff && ru != 0xfffd && c.Intn(4) == 0:
			u4(ru)
		default:
			sb.WriteRune(ru)
		}
	}
	sb.WriteByte('"')
	return sb.String()
}

func (r *docRenderer) val(v *Val, level int) {
	v.Pos = r.sb.Len()
	switch v.K {
	case VObj:
		r.sb.WriteByte('{')
		for i := range v.Members {
			m := &v.Members[i]
			if i > 0 {
				r.ws()
				r.sb.WriteByte(',')
			}
			r.nl(level + 1)
			r.ws()
			m.KeyPos = r.sb.Len()
			r.sb.WriteString(QuoteAlt(m.Key, r.st.Escapes))
			r.ws()
			r.sb.WriteByte(':')
			if r.st.Pretty {
				r.sb.WriteByte(' ')
			}
			r.ws()
			r.val(m.V, level+1)
		}
		if len(v.Members) > 0 {
			r.nl(level)
		}
		r.ws()
		r.sb.WriteByte('}')
	case VArr:
		r.sb.WriteByte('[')
		for i, e := range v.Elems {
			if i > 0 {
				r.ws()
				r.sb.WriteByte(',')
			}
			r.nl(level + 1)
			r.ws()
			r.val(e, level+1)
		}
		if len(v.Elems) > 0 {
			r.nl(level)
		}
		r.ws()
		r.sb.WriteByte(']')
	case VStr:
		if v.Raw != "" {
			r.sb.WriteString(v.Raw)
			break
		}
		r.sb.WriteString(QuoteAlt(v.S, r.st.Escapes))
	case VNum:
		r.sb.WriteString(v.Num)
	case VBool:
		if v.B {
			r.sb.WriteString("true")
		} else {
			r.sb.WriteString("false")
		}
	default:
		r.sb.WriteString("null")
	}
}
