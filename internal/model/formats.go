package model

import "strings"

// Format recognisers written from the property statement (C02): date is YYYY-MM-DD, datetime is
// RFC 3339, uuid has the four usual layouts. email and uri are defined by Go's std parsers in
// the library, so only hand-classified clear cases are judged; everything else is Unspec.

func init() { FormatAccepts = formatAccepts }

func formatAccepts(format, s string) Verdict {
	switch format {
	case "date":
		return dateAccepts(s)
	case "datetime":
		return datetimeAccepts(s)
	case "uuid":
		return uuidAccepts(s)
	case "email":
		return emailAccepts(s)
	case "uri":
		return uriAccepts(s)
	}
	return Unspec
}

func digits(s string) (int, bool) {
	if s == "" {
		return 0, false
	}
	n := 0
	for _, c := range s {
		if c < '0' || c > '9' {
			return 0, false
		}
		n = n*10 + int(c-'0')
	}
	return n, true
}

func daysIn(y, m int) int {
	switch m {
	case 4, 6, 9, 11:
		return 30
	case 2:
		if y%4 == 0 && (y%100 != 0 || y%400 == 0) {
			return 29
		}
		return 28
	}
	return 31
}

// dateParts: Accept/Reject/Unspec for "YYYY-MM-DD".
func dateAccepts(s string) Verdict {
	if len(s) != 10 || s[4] != '-' || s[7] != '-' {
		return Reject
	}
	y, ok1 := digits(s[0:4])
	m, ok2 := digits(s[5:7])
	d, ok3 := digits(s[8:10])
	if !ok1 || !ok2 || !ok3 {
		return Reject
	}
	if m < 1 || m > 12 || d < 1 || d > daysIn(y, m) {
		return Reject
	}
	if y == 0 {
		return Unspec
	}
	return Accept
}

func datetimeAccepts(s string) Verdict {
	// YYYY-MM-DDTHH:MM:SS[.frac](Z|+HH:MM|-HH:MM)
	if len(s) < 20 {
		return Reject
	}
	dv := dateAccepts(s[:10])
	if dv == Reject {
		return Reject
	}
	if s[10] != 'T' {
		if s[10] == 't' || s[10] == ' ' {
			return Unspec
		}
		return Reject
	}
	t := s[11:]
	if len(t) < 9 || t[2] != ':' || t[5] != ':' {
		return Reject
	}
	hh, ok1 := digits(t[0:2])
	mm, ok2 := digits(t[3:5])
	ss, ok3 := digits(t[6:8])
	if !ok1 || !ok2 || !ok3 {
		return Reject
	}
	if hh > 23 || mm > 59 || ss > 60 {
		return Reject
	}
	res := dv
	if ss == 60 {
		res = Unspec
	}
	rest := t[8:]
	if strings.HasPrefix(rest, ".") || strings.HasPrefix(rest, ",") {
		if rest[0] == ',' {
			res = Unspec
		}
		i := 1
		for i < len(rest) && rest[i] >= '0' && rest[i] <= '9' {
			i++
		}
		if i == 1 {
			return Reject
		}
		if i > 10 {
			res = Unspec
		}
		rest = rest[i:]
	}
	switch {
	case rest == "Z":
		return res
	case rest == "z":
		return Unspec
	case len(rest) == 6 && (rest[0] == '+' || rest[0] == '-') && rest[3] == ':':
		oh, ok1 := digits(rest[1:3])
		om, ok2 := digits(rest[4:6])
		if !ok1 || !ok2 {
			return Reject
		}
		if oh > 24 || om > 59 {
			return Reject
		}
		if oh == 24 {
			return Unspec
		}
		return res
	}
	return Reject
}

func isHex(s string) bool {
	for _, c := range s {
		if !((c >= '0' && c <= '9') || (c >= 'a' && c <= 'f') || (c >= 'A' && c <= 'F')) {
			return false
		}
	}
	return true
}

func uuidCanonical(s string) bool {
	if len(s) != 36 || s[8] != '-' || s[13] != '-' || s[18] != '-' || s[23] != '-' {
		return false
	}
	return isHex(s[0:8]) && isHex(s[9:13]) && isHex(s[14:18]) && isHex(s[19:23]) && isHex(s[24:36])
}

func uuidAccepts(s string) Verdict {
	switch len(s) {
	case 36:
		return b2v(uuidCanonical(s))
	case 45:
		return b2v(strings.EqualFold(s[:9], "urn:uuid:") && uuidCanonical(s[9:]))
	case 38:
		return b2v(s[0] == '{' && s[37] == '}' && uuidCanonical(s[1:37]))
	case 32:
		return b2v(isHex(s))
	}
	return Reject
}

func isAlnum(c byte) bool {
	return (c >= 'a' && c <= 'z') || (c >= 'A' && c <= 'Z') || (c >= '0' && c <= '9')
}

func emailAccepts(s string) Verdict {
	if s == "" {
		return Reject
	}
	if s[0] == ' ' || s[0] == '<' || s[len(s)-1] == ' ' || s[len(s)-1] == '>' {
		return Reject
	}
	if !strings.Contains(s, "@") {
		return Reject
	}
	// clear accept: alnum(.alnum)*@alnum(.alnum)+
	at := strings.IndexByte(s, '@')
	if strings.Count(s, "@") != 1 {
		return Unspec
	}
	local, dom := s[:at], s[at+1:]
	simple := func(p string, minLabels int) bool {
		labels := strings.Split(p, ".")
		if len(labels) < minLabels {
			return false
		}
		for _, l := range labels {
			if l == "" {
				return false
			}
			for i := 0; i < len(l); i++ {
				if !isAlnum(l[i]) {
					return false
				}
			}
		}
		return true
	}
	if simple(local, 1) && simple(dom, 2) {
		return Accept
	}
	if local == "" || dom == "" {
		return Reject
	}
	return Unspec
}

func uriAccepts(s string) Verdict {
	if s == "" {
		return Reject
	}
	i := strings.Index(s, "://")
	if i <= 0 {
		if !strings.Contains(s, ":") {
			return Reject // relative reference or bare word: no scheme
		}
		return Unspec
	}
	scheme := s[:i]
	for j := 0; j < len(scheme); j++ {
		c := scheme[j]
		if !(isAlnum(c) && (j > 0 || !(c >= '0' && c <= '9'))) {
			return Unspec
		}
	}
	rest := s[i+3:]
	host := rest
	if k := strings.IndexAny(rest, "/?#"); k >= 0 {
		host = rest[:k]
	}
	// authority = [userinfo@]hostname[:port]; a URI without a host NAME is in the same class as
	// "http://" (rejected by the pinned tests): an authority holding only userinfo and/or a port
	if k := strings.LastIndex(host, "@"); k >= 0 && !strings.ContainsAny(host[:k], "[]") {
		host = host[k+1:]
	}
	if k := strings.LastIndex(host, ":"); k >= 0 && !strings.Contains(host, "]") {
		port := host[k+1:]
		digits := true
		for j := 0; j < len(port); j++ {
			if port[j] < '0' || port[j] > '9' {
				digits = false
			}
		}
		if digits && len(port) <= 5 {
			host = host[:k]
		}
	}
	if host == "" {
		return Reject
	}
	for j := 0; j < len(host); j++ {
		c := host[j]
		if !(isAlnum(c) || c == '.' || c == '-') {
			return Unspec
		}
	}
	for j := 0; j < len(rest); j++ {
		c := rest[j]
		if c <= ' ' || c >= 0x7f || c == '%' || c == '"' || c == '<' || c == '>' || c == '\\' || c == '^' || c == '`' || c == '{' || c == '|' || c == '}' {
			return Unspec
		}
	}
	return Accept
}
