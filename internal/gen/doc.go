// Package gen holds the PRNG-driven generators: schema models of several fragments, JSON
// documents that conform by construction, near misses and unrelated documents.
package gen

import (
	"strconv"
	"strings"

	"verif/internal/model"
	"verif/internal/mon"
)

var keyPool = []string{"a", "b", "c", "d", "e"}
var oddKeys = []string{"", "k k", "é", "a\"b", "x\\y", "@id", "a/b", "\t", "ключ", "𝄞"}

// RandomScalar returns an arbitrary scalar value.
func RandomScalar(r *mon.Rng) *model.Val {
	switch r.Intn(7) {
	case 0:
		return model.VString(RandomString(r))
	case 1:
		return model.VNumber(RandomInteger(r))
	case 2:
		return model.VNumber(RandomFloat(r))
	case 3:
		return model.VBoolean(r.Bool())
	case 4:
		return model.VNullV()
	case 5:
		return model.VNumber(mon.Pick(r, []string{"1e2", "1E+2", "15e-1", "1.50", "-0", "0", "0.0", "-1.5e3", "2.5E-1", "100e-2"}))
	}
	return model.VString("")
}

var stringPool = []string{"", "a", "abc", "hello world", "é", "日本", "a\"b", "back\\slash", "line\nbreak", "tab\t", "/slash/", "𝄞 clef", "null", "true", "1", "@ref", "{}", "x y z 0123456789"}

func RandomString(r *mon.Rng) string {
	if r.Chance(2, 3) {
		return mon.Pick(r, stringPool)
	}
	n := r.Intn(12)
	var sb strings.Builder
	for i := 0; i < n; i++ {
		sb.WriteByte("abcxyz019 _-"[r.Intn(12)])
	}
	return sb.String()
}

func RandomInteger(r *mon.Rng) string {
	switch r.Intn(5) {
	case 0:
		if r.Chance(1, 4) {
			return "-0"
		}
		return "0"
	case 1:
		return strconv.Itoa(r.Intn(10))
	case 2:
		return "-" + strconv.Itoa(1+r.Intn(1000))
	case 3:
		return strconv.Itoa(r.Intn(100000))
	}
	return "12345678901234567890"
}

// RandomIntegerDoc: an integer for a DOCUMENT; one time in eight spelled with an exponent (and
// possibly a decimal point) - the schema notation refuses exponents, documents do not.
func RandomIntegerDoc(r *mon.Rng) string {
	if r.Chance(1, 8) {
		return mon.Pick(r, []string{"1.5E1", "2.0E0", "1.25E+2", "150e-1", "1e2", "12E0", "-3.0E1", "1.0e+1", "0.5E1", "-12.50E+1", "7E+0", "100E-2"})
	}
	return RandomInteger(r)
}

func RandomFloat(r *mon.Rng) string {
	if r.Chance(1, 16) {
		return mon.Pick(r, []string{"0.0", "-0.0", "-0.00", "0.50", "-0.5"})
	}
	s := strconv.Itoa(r.Intn(100)) + "." + strconv.Itoa(r.Intn(1000))
	if r.Chance(1, 4) {
		s = "-" + s
	}
	if r.Chance(1, 5) {
		s += "0"
	}
	return s
}

// RandomValue returns arbitrary JSON of bounded depth.
func RandomValue(r *mon.Rng, depth int) *model.Val {
	if depth <= 0 || r.Chance(1, 2) {
		return RandomScalar(r)
	}
	if r.Bool() {
		n := r.Intn(4)
		v := model.VObject()
		for i := 0; i < n; i++ {
			v.Members = append(v.Members, model.M(RandomKey(r), RandomValue(r, depth-1)))
		}
		return v
	}
	n := r.Intn(4)
	v := model.VArray()
	for i := 0; i < n; i++ {
		v.Elems = append(v.Elems, RandomValue(r, depth-1))
	}
	return v
}

func RandomKey(r *mon.Rng) string {
	if r.Chance(1, 8) {
		return mon.Pick(r, oddKeys)
	}
	return mon.Pick(r, keyPool)
}

// OtherKind returns a value of a JSON kind different from v's (float vs integer counts as
// different).
func OtherKind(r *mon.Rng, v *model.Val) *model.Val {
	for i := 0; i < 20; i++ {
		var c *model.Val
		switch r.Intn(8) {
		case 0:
			c = model.VObject()
		case 1:
			c = model.VArray()
		case 2:
			c = model.VObject(model.M("a", model.VNumber("1")))
		case 3:
			c = model.VArray(model.VNumber("1"))
		default:
			c = RandomScalar(r)
		}
		if c.K != v.K || (c.K == model.VNum && model.IsIntegerNumeral(c.Num) != model.IsIntegerNumeral(v.Num)) {
			return c
		}
	}
	return model.VNullV()
}

// Docs builds documents for a schema: conforming by construction, near misses, unrelated.
type Docs struct {
	S *model.Schema
	R *mon.Rng
	O *model.Oracle
	// Deep > 0: unroll optional properties and array items along every path down to this
	// depth, then stop (used to build documents that follow cycles of the type graph).
	Deep int
	// budget bounds the number of nodes a Deep document may get (branching cycles would
	// otherwise grow exponentially); when it is used up optional parts are omitted.
	budget int
}

func NewDocs(s *model.Schema, r *mon.Rng) *Docs {
	return &Docs{S: s, R: r, O: model.NewOracle(s)}
}

// Conform returns a document intended to be accepted (the oracle still judges it).
func (d *Docs) Conform() *model.Val {
	d.budget = 400
	return d.conform(d.S.Root, 0)
}

func (d *Docs) unroll(depth int) bool {
	return d.Deep > 0 && depth < d.Deep && d.budget > 0
}

func alternativesOf(n *model.Node) []model.OrItem {
	if n.Kind == model.KRef {
		var a []model.OrItem
		for _, x := range n.Refs {
			a = append(a, model.OrItem{Name: x})
		}
		return a
	}
	if r := n.Rule("or"); r != nil {
		return r.Or
	}
	if r := n.Rule("type"); r != nil && strings.HasPrefix(r.Str, "@") {
		return []model.OrItem{{Name: r.Str}}
	}
	return nil
}

func (d *Docs) conformBuiltin(name string, example string) *model.Val {
	r := d.R
	switch name {
	case "string":
		return model.VString(RandomString(r))
	case "integer":
		return model.VNumber(RandomIntegerDoc(r))
	case "float", "decimal":
		return model.VNumber(RandomFloat(r))
	case "boolean":
		return model.VBoolean(r.Bool())
	case "null":
		return model.VNullV()
	case "object":
		return model.VObject()
	case "array":
		return model.VArray()
	case "any":
		return RandomValue(r, 2)
	case "email":
		return model.VString(mon.Pick(r, []string{"a@b.co", "john.doe@example.com"}))
	case "uri":
		return model.VString(mon.Pick(r, []string{"http://example.com/", "https://a.b/c?d=e#f"}))
	case "uuid":
		return model.VString("550e8400-e29b-41d4-a716-446655440000")
	case "date":
		return model.VString(mon.Pick(r, []string{"2021-01-02", "2020-02-29"}))
	case "datetime":
		return model.VString(mon.Pick(r, []string{"2021-01-02T07:23:12+03:00", "2021-01-02T07:23:12Z"}))
	}
	return RandomScalar(r)
}

func litToVal(lit string) *model.Val {
	lit = strings.TrimSpace(lit)
	switch {
	case strings.HasPrefix(lit, `"`):
		s, _ := model.Unquote(lit)
		return model.VString(s)
	case lit == "true", lit == "false":
		return model.VBoolean(lit == "true")
	case lit == "null":
		return model.VNullV()
	}
	return model.VNumber(lit)
}

func (d *Docs) conform(n *model.Node, depth int) *model.Val {
	r := d.R
	d.budget--
	if depth > 12+d.Deep || d.budget < -600 {
		// too deep, or required references that branch along a cycle: cut (the document is then
		// judged as it is, like any other non-conforming one)
		return model.VNullV()
	}
	if d.Deep == 0 && n.BoolRule("nullable") && r.Chance(1, 6) {
		return model.VNullV()
	}
	if alts := alternativesOf(n); alts != nil {
		a := mon.Pick(r, alts)
		if a.Rules == nil {
			if strings.HasPrefix(a.Name, "@") {
				t := d.S.Type(a.Name)
				if t == nil {
					return RandomScalar(r)
				}
				if t.Root == nil {
					return model.VString(RegexSample(r, t.Regex))
				}
				return d.conform(t.Root, depth+1)
			}
			return d.conformBuiltin(a.Name, "")
		}
		pseudo := &model.Node{Rules: a.Rules, Lit: n.Lit, Kind: model.KString}
		for _, rr := range a.Rules {
			if rr.Name == "enum" {
				return d.enumMember(rr)
			}
			if rr.Name == "type" {
				if strings.HasPrefix(rr.Str, "@") {
					if t := d.S.Type(rr.Str); t != nil && t.Root != nil {
						return d.conform(t.Root, depth+1)
					}
				}
				v := d.conformBuiltin(rr.Str, "")
				if len(a.Rules) == 1 {
					return v
				}
				switch rr.Str {
				case "integer":
					pseudo.Kind = model.KInteger
				case "float", "decimal":
					pseudo.Kind = model.KFloat
				}
			}
		}
		return d.scalarWithin(pseudo)
	}
	if t := n.Rule("type"); t != nil && t.Str == "any" {
		return RandomValue(r, 3)
	}
	if er := n.Rule("enum"); er != nil {
		return d.enumMember(er)
	}
	switch n.Kind {
	case model.KObject:
		props, ap, _ := d.O.EffProps(n)
		v := model.VObject()
		for _, p := range props {
			if d.O.Optional(p) && ((d.Deep == 0 && r.Chance(1, 2)) || (d.Deep > 0 && !d.unroll(depth))) {
				continue
			}
			key := p.Key
			if p.Shortcut {
				key = d.keyFor(p.Key)
			}
			v.Members = append(v.Members, model.M(key, d.conform(p.Node, depth+1)))
			if r.Chance(1, 12) { // repeated key
				v.Members = append(v.Members, model.M(key, d.conform(p.Node, depth+1)))
			}
		}
		if ap != nil && (ap.IsStr || ap.Bool) && r.Chance(1, 2) {
			extra := 1 + r.Intn(2)
			for i := 0; i < extra; i++ {
				var ev *model.Val
				switch {
				case !ap.IsStr || ap.Str == "any":
					ev = RandomValue(r, 2)
				case strings.HasPrefix(ap.Str, "@"):
					if t := d.S.Type(ap.Str); t != nil && t.Root != nil {
						ev = d.conform(t.Root, depth+1)
					} else {
						ev = RandomScalar(r)
					}
				default:
					ev = d.conformBuiltin(ap.Str, "")
					if ap.Str == "object" && r.Bool() {
						ev = model.VObject(model.M("q", RandomScalar(r)))
					}
					if ap.Str == "array" && r.Bool() {
						ev = model.VArray(RandomScalar(r))
					}
				}
				v.Members = append(v.Members, model.M("zz"+strconv.Itoa(i), ev))
			}
		}
		mon.Shuffle(r, v.Members)
		return v
	case model.KArray:
		if len(n.Items) == 0 {
			return model.VArray()
		}
		lo, hi := 0, len(n.Items)+3
		if mr := n.Rule("minItems"); mr != nil {
			lo = mr.Int
		}
		if mr := n.Rule("maxItems"); mr != nil {
			hi = mr.Int
		}
		if hi < lo {
			hi = lo
		}
		if hi > lo+6 {
			hi = lo + 6
		}
		ln := r.Range(lo, hi)
		if d.Deep > 0 {
			ln = lo
			if d.unroll(depth) && ln == 0 {
				ln = 1
			}
		}
		v := model.VArray()
		for i := 0; i < ln; i++ {
			j := i
			if j >= len(n.Items) {
				j = len(n.Items) - 1
			}
			v.Elems = append(v.Elems, d.conform(n.Items[j], depth+1))
		}
		return v
	}
	return d.scalarWithin(n)
}

func (d *Docs) enumMember(er *model.Rule) *model.Val {
	list := er.List
	if er.Str != "" {
		if e := d.S.Enum(er.Str); e != nil {
			list = e.Values
		}
	}
	if len(list) == 0 {
		return model.VNullV()
	}
	return litToVal(mon.Pick(d.R, list))
}

// keyFor produces a key for a key shortcut @K.
func (d *Docs) keyFor(typeName string) string {
	t := d.S.Type(typeName)
	if t == nil {
		return "k"
	}
	if t.Root == nil {
		return RegexSample(d.R, t.Regex)
	}
	if er := t.Root.Rule("enum"); er != nil {
		if v := d.enumMember(er); v.K == model.VStr {
			return v.S
		}
	}
	if t.Root.Kind == model.KString && len(t.Root.Rules) == 0 {
		if ex, ok := model.Unquote(t.Root.Lit); ok {
			return ex // a string type without rules admits its example only
		}
	}
	v := d.scalarWithin(t.Root)
	if v.K == model.VStr {
		return v.S
	}
	return "k"
}

// scalarWithin returns a scalar of the node's kind that satisfies its rules (falls back to the
// example literal, which Check guarantees to satisfy them).
func (d *Docs) scalarWithin(n *model.Node) *model.Val {
	r := d.R
	hasRules := false
	for _, rr := range n.Rules {
		switch rr.Name {
		case "optional", "nullable":
		case "const", "exclusiveMinimum", "exclusiveMaximum":
			if rr.Bool {
				hasRules = true
			}
		default:
			hasRules = true
		}
	}
	ex := litToVal(n.Lit)
	if hasRules {
		if n.Lit == "" {
			return RandomScalar(r)
		}
		// try a few random candidates of the right kind, keep one the oracle accepts
		for i := 0; i < 4; i++ {
			var c *model.Val
			switch n.Kind {
			case model.KString:
				c = model.VString(RandomString(r))
			case model.KInteger:
				c = model.VNumber(RandomIntegerDoc(r))
			case model.KFloat:
				c = model.VNumber(RandomFloat(r))
			default:
				continue
			}
			probe := &model.Node{Kind: n.Kind, Lit: n.Lit, Rules: n.Rules}
			if (&model.Oracle{S: d.S}).AcceptsNode(probe, c) == model.Accept {
				return c
			}
		}
		return ex
	}
	switch n.Kind {
	case model.KString:
		return model.VString(RandomString(r))
	case model.KInteger:
		return model.VNumber(RandomIntegerDoc(r))
	case model.KFloat:
		if r.Chance(1, 3) {
			return model.VNumber(RandomIntegerDoc(r)) // integer where the example is float
		}
		if r.Chance(1, 5) {
			return model.VNumber(mon.Pick(r, []string{"1e2", "15e-1", "1.50", "2.5E-1", "-0.0"}))
		}
		return model.VNumber(RandomFloat(r))
	case model.KBoolean:
		return model.VBoolean(r.Bool())
	case model.KNull:
		return model.VNullV()
	}
	return ex
}

// RegexSample returns a string for a pattern from the small grammar of gen.RegexPattern: the
// generator stores a matching sample after a NUL-free marker table.
func RegexSample(r *mon.Rng, pattern string) string {
	if s, ok := regexSamples[pattern]; ok && len(s) > 0 {
		return mon.Pick(r, s)
	}
	return "a"
}

var regexSamples = map[string][]string{}

// RegisterRegexSamples lets pattern generators publish matching strings.
func RegisterRegexSamples(pattern string, samples []string) { regexSamples[pattern] = samples }

// Mutate returns a near miss: one random local change of a copy of v.
func (d *Docs) Mutate(v *model.Val) (*model.Val, string) {
	r := d.R
	c := v.Clone()
	// collect pointers to all sub-values
	var slots []**model.Val
	var conts []*model.Val
	var walk func(p **model.Val)
	walk = func(p **model.Val) {
		slots = append(slots, p)
		x := *p
		if x.K == model.VObj || x.K == model.VArr {
			conts = append(conts, x)
		}
		for i := range x.Members {
			walk(&x.Members[i].V)
		}
		for i := range x.Elems {
			walk(&x.Elems[i])
		}
	}
	walk(&c)
	switch op := r.Intn(10); {
	case op <= 2 || len(conts) == 0:
		p := slots[r.Intn(len(slots))]
		*p = OtherKind(r, *p)
		return c, "wrong kind at one position"
	case op == 3:
		p := slots[r.Intn(len(slots))]
		*p = model.VNullV()
		return c, "null at one position"
	case op == 4:
		p := slots[r.Intn(len(slots))]
		if (*p).K == model.VNum {
			if model.IsIntegerNumeral((*p).Num) && !strings.ContainsAny((*p).Num, "eE") {
				*p = model.VNumber((*p).Num + ".5")
			} else if model.IsIntegerNumeral((*p).Num) {
				*p = model.VNumber("7.25")
			} else {
				*p = model.VNumber("7")
			}
			return c, "integer/float flipped"
		}
		*p = OtherKind(r, *p)
		return c, "wrong kind at one position"
	default:
		x := conts[r.Intn(len(conts))]
		if x.K == model.VObj {
			switch r.Intn(4) {
			case 0:
				if len(x.Members) > 0 {
					i := r.Intn(len(x.Members))
					x.Members = append(x.Members[:i:i], x.Members[i+1:]...)
					return c, "one key dropped"
				}
				fallthrough
			case 1:
				if len(d.S.Types) > 0 && r.Chance(1, 3) {
					// a key spelled exactly like the name of a user type (key shortcuts are names
					// of types in the SCHEMA; in a document "@code" is a key like any other)
					t := d.S.Types[r.Intn(len(d.S.Types))]
					val := RandomScalar(r)
					if t.Root != nil && r.Bool() {
						val = d.conform(t.Root, 3)
					}
					x.Members = append(x.Members, model.M(t.Name, val))
					return c, "key spelled like a type name added"
				}
				x.Members = append(x.Members, model.M("unknown_"+RandomKey(r), RandomScalar(r)))
				return c, "unknown key added"
			case 2:
				if len(x.Members) > 0 {
					i := r.Intn(len(x.Members))
					x.Members = append(x.Members, model.M(x.Members[i].Key, OtherKind(r, x.Members[i].V)))
					return c, "key repeated with another kind"
				}
				fallthrough
			default:
				x.Members = append(x.Members, model.M(RandomKey(r), RandomValue(r, 1)))
				return c, "pool key added"
			}
		}
		switch r.Intn(4) {
		case 0:
			if len(x.Elems) > 0 {
				x.Elems = x.Elems[:len(x.Elems)-1]
				return c, "last element removed"
			}
			fallthrough
		case 1:
			x.Elems = append(x.Elems, RandomValue(r, 1))
			return c, "element appended"
		case 2:
			if len(x.Elems) > 0 {
				last := x.Elems[len(x.Elems)-1]
				x.Elems = append(x.Elems, last.Clone(), OtherKind(r, last))
				return c, "elements past the end, last of the wrong kind"
			}
			fallthrough
		default:
			x.Elems = nil
			return c, "array emptied"
		}
	}
}

// ConformNode returns a value intended to be accepted at one schema node.
func (d *Docs) ConformNode(n *model.Node) *model.Val {
	d.budget = 200
	return d.conform(n, 0)
}
