package gen

import (
	"verif/internal/model"
)

// C08 workload: node kinds x rule-name subsets x parameter variants.

// RuleNames is the rule vocabulary (plus one unknown name handled by the driver).
var RuleNames = []string{"optional", "nullable", "const", "min", "max", "exclusiveMinimum", "exclusiveMaximum", "precision",
	"minLength", "maxLength", "regex", "minItems", "maxItems", "type", "enum", "or", "allOf", "additionalProperties"}

// KindExamples are the annotated example nodes (fresh copies).
var KindNames = []string{"empty object", "object", "empty array", "array", "string", "integer", "float", "boolean", "null", "negative float", "zero", "reference"}

func KindExample(i int) *model.Node {
	switch i {
	case 0:
		return model.Obj()
	case 1:
		return model.Obj(model.P("z", model.Int("1")))
	case 2:
		return model.Arr()
	case 3:
		return model.Arr(model.Int("1"), model.Int("2"))
	case 4:
		return model.Str("a@b.co")
	case 5:
		return model.Int("5")
	case 6:
		return model.Flt("1.5")
	case 7:
		return model.Bool(true)
	case 8:
		return model.Null()
	case 9:
		return model.Flt("-1.3")
	case 10:
		return model.Int("0")
	}
	return model.Ref("@i")
}

// RuleEnv is the type environment every C08 schema is checked in.
func RuleEnv() []*model.TypeDef {
	return []*model.TypeDef{
		{Name: "@s", Root: model.Str("a@b.co")},
		{Name: "@i", Root: model.Int("5")},
		{Name: "@f", Root: model.Flt("1.5")},
		{Name: "@b", Root: model.Bool(true)},
		{Name: "@n", Root: model.Null()},
		{Name: "@o", Root: model.Obj(model.P("zz", model.Int("1")))},
		{Name: "@p", Root: model.Obj(model.P("pp", model.Int("2")))},
		{Name: "@q", Root: model.Obj(model.P("qq", model.Str("s")), model.P("qr", model.Bool(true).With(model.RBool("optional", true))))},
	}
}

// RuleEnums is the enum rule environment of the C08 schemas: @e lists the example of every
// scalar kind.
func RuleEnums() []*model.EnumDef {
	return []*model.EnumDef{{Name: "@e", Values: []string{`"a@b.co"`, "5", "1.5", "true", "null", "-1.3", "0", `"zz"`}}}
}

func typeForKind(n *model.Node) string {
	switch n.Kind {
	case model.KString:
		return "@s"
	case model.KInteger:
		return "@i"
	case model.KFloat:
		return "@f"
	case model.KBoolean:
		return "@b"
	case model.KNull:
		return "@n"
	}
	return "@o"
}

// RuleVariants returns the parameter variants of one rule for an example node.
func RuleVariants(name string, n *model.Node) []*model.Rule {
	num := n.Kind == model.KInteger || n.Kind == model.KFloat
	switch name {
	case "optional", "nullable", "const", "exclusiveMinimum", "exclusiveMaximum":
		return []*model.Rule{model.RBool(name, true), model.RBool(name, false)}
	case "min":
		if n.Lit == "0" {
			// zero in all its spellings: they are one number
			return []*model.Rule{model.RNum("min", "0"), model.RNum("min", "-0.0"), model.RNum("min", "0.00"), model.RNum("min", "-0"), model.RNum("min", "0.5")}
		}
		if n.Lit == "-1.3" {
			// negative bounds which differ in the fraction only, in and out of order / range
			return []*model.Rule{model.RNum("min", "-1.5"), model.RNum("min", "-1.3"), model.RNum("min", "-1.25")}
		}
		if num {
			return []*model.Rule{model.RNum("min", "1"), model.RNum("min", n.Lit), model.RNum("min", "9")}
		}
		return []*model.Rule{model.RNum("min", "1")}
	case "max":
		if n.Lit == "0" {
			return []*model.Rule{model.RNum("max", "-0.0"), model.RNum("max", "0"), model.RNum("max", "-0.00"), model.RNum("max", "0.0"), model.RNum("max", "-0.5")}
		}
		if n.Lit == "-1.3" {
			return []*model.Rule{model.RNum("max", "-1.25"), model.RNum("max", "-1.3"), model.RNum("max", "-1.5")}
		}
		if num {
			return []*model.Rule{model.RNum("max", "9"), model.RNum("max", n.Lit)}
		}
		return []*model.Rule{model.RNum("max", "9")}
	case "precision":
		return []*model.Rule{model.RInt("precision", 2)}
	case "minLength":
		return []*model.Rule{model.RInt("minLength", 1), model.RInt("minLength", 6)}
	case "maxLength":
		return []*model.Rule{model.RInt("maxLength", 9), model.RInt("maxLength", 6), model.RInt("maxLength", 3)}
	case "regex":
		return []*model.Rule{model.RStr("regex", "^a")}
	case "minItems":
		if n.Kind == model.KArray && len(n.Items) == 0 {
			return []*model.Rule{model.RInt("minItems", 0)}
		}
		return []*model.Rule{model.RInt("minItems", 1), model.RInt("minItems", 2), model.RInt("minItems", 3)}
	case "maxItems":
		if n.Kind == model.KArray && len(n.Items) == 0 {
			return []*model.Rule{model.RInt("maxItems", 0)}
		}
		return []*model.Rule{model.RInt("maxItems", 5), model.RInt("maxItems", 2)}
	case "type":
		own := n.Kind.String()
		if n.Kind == model.KRef {
			own = "integer"
		}
		other := "string"
		if n.Kind == model.KString {
			other = "integer"
		}
		return []*model.Rule{model.RStr("type", own), model.RStr("type", other), model.RStr("type", "any"), model.RStr("type", "decimal"),
			model.RStr("type", "enum"), model.RStr("type", "mixed"), model.RStr("type", typeForKind(n)), model.RStr("type", "email")}
	case "enum":
		if n.IsScalar() {
			// the list written in place, and the same list by the name of a rule (RuleEnums)
			return []*model.Rule{model.REnum(n.Lit, `"zz"`), model.REnumRef("@e")}
		}
		return []*model.Rule{model.REnum("1", `"zz"`)}
	case "or":
		if n.Kind == model.KObject || n.Kind == model.KArray {
			return []*model.Rule{
				model.ROr(model.OrSet(model.RStr("type", "object")), model.OrSet(model.RStr("type", "array"))),
				model.ROr(model.OrName("@o"), model.OrSet(model.RStr("type", "array"))),
			}
		}
		lit := n.Lit
		if !n.IsScalar() {
			lit = "1"
		}
		return []*model.Rule{
			model.ROr(model.OrName("string"), model.OrName("integer"), model.OrName("float"), model.OrName("boolean"), model.OrName("null")),
			model.ROr(model.OrName("@s"), model.OrName("@i"), model.OrName("@f"), model.OrName("@b"), model.OrName("@n")),
			// a rule-set holding an enum next to rule-sets of plain types
			model.ROr(model.OrSet(model.REnum(lit, `"zz"`)), model.OrSet(model.RStr("type", "string")), model.OrSet(model.RStr("type", "null"))),
		}
	case "allOf":
		// one parent, and three of them (each is applied once, in the order written)
		return []*model.Rule{model.RAllOf("@o"), model.RAllOf("@o", "@p", "@q"), model.RAllOf("@q", "@o", "@p")}
	case "additionalProperties":
		return []*model.Rule{model.RStr("additionalProperties", "any"), {Name: "additionalProperties", Bool: false}}
	case "bogus":
		// unknown names; among them known names padded with blanks INSIDE their quotes (the name
		// is what stands between the quotes)
		return []*model.Rule{model.RRaw("bogus", "1"), model.RRaw(`" min "`, "1"), model.RRaw(`"min\t"`, "1"), model.RRaw(`" optional "`, "true"), model.RRaw(`"nullable\u0020"`, "true")}
	}
	return nil
}

// Subsets enumerates all subsets of names of size 0..k (as index lists).
func Subsets(n, k int) [][]int {
	var out [][]int
	var rec func(start int, cur []int)
	rec = func(start int, cur []int) {
		out = append(out, append([]int{}, cur...))
		if len(cur) == k {
			return
		}
		for i := start; i < n; i++ {
			rec(i+1, append(cur, i))
		}
	}
	rec(0, nil)
	return out
}

// Permutations calls f with every permutation of xs (in place).
func Permutations[T any](xs []T, f func([]T)) {
	var rec func(k int)
	rec = func(k int) {
		if k == len(xs) {
			f(xs)
			return
		}
		for i := k; i < len(xs); i++ {
			xs[k], xs[i] = xs[i], xs[k]
			rec(k + 1)
			xs[k], xs[i] = xs[i], xs[k]
		}
	}
	rec(0)
}
