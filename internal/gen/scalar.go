package gen

import (
	"fmt"
	"math/big"
	"strconv"
	"strings"

	"verif/internal/model"
	"verif/internal/mon"
)

// RatText renders a rational with a power-of-ten denominator as an exponent-free numeral.
func RatText(r *big.Rat) string {
	neg := r.Sign() < 0
	x := new(big.Rat).Abs(r)
	n := 0
	ten := big.NewRat(10, 1)
	for !x.IsInt() && n < 500 {
		x.Mul(x, ten)
		n++
	}
	s := x.Num().String()
	if n > 0 {
		for len(s) <= n {
			s = "0" + s
		}
		s = s[:len(s)-n] + "." + s[len(s)-n:]
	}
	if neg {
		s = "-" + s
	}
	return s
}

func pow10(k int) *big.Rat {
	p := new(big.Int).Exp(big.NewInt(10), big.NewInt(int64(absInt(k))), nil)
	if k >= 0 {
		return new(big.Rat).SetInt(p)
	}
	return new(big.Rat).SetFrac(big.NewInt(1), p)
}

func absInt(k int) int {
	if k < 0 {
		return -k
	}
	return k
}

// Respell returns other RFC 8259 spellings of the same numeric value.
func Respell(r *mon.Rng, num string) []string {
	x, ok := model.Rat(num)
	if !ok {
		return nil
	}
	base := RatText(x)
	out := []string{base}
	if strings.Contains(base, ".") {
		out = append(out, base+"0", base+"000")
	} else {
		out = append(out, base+".0", base+".00")
	}
	for _, k := range []int{1, 2, -1, -3} {
		m := new(big.Rat).Mul(x, pow10(-k))
		e := "e"
		if r.Bool() {
			e = "E"
		}
		sign := ""
		if k >= 0 && r.Bool() {
			sign = "+"
		}
		out = append(out, RatText(m)+e+sign+strconv.Itoa(k))
	}
	if x.Sign() == 0 {
		out = append(out, "-0", "0.0", "-0.0", "0.00e5")
	}
	return out
}

// NumberProbes returns document numerals on, just inside and just outside the bound p.
func NumberProbes(r *mon.Rng, p string, fracHint int) []string {
	x, ok := model.Rat(p)
	if !ok {
		return nil
	}
	var out []string
	out = append(out, Respell(r, p)...)
	for k := 0; k <= fracHint+1; k++ {
		d := pow10(-k)
		lo := new(big.Rat).Sub(x, d)
		hi := new(big.Rat).Add(x, d)
		out = append(out, RatText(lo), RatText(hi))
		if r.Chance(1, 3) {
			out = append(out, mon.Pick(r, Respell(r, RatText(lo))), mon.Pick(r, Respell(r, RatText(hi))))
		}
	}
	return out
}

// Regex table: pattern, matching samples, non-matching samples (RE2, unanchored search).
type RegexCase struct {
	Pattern string
	Match   []string
	NoMatch []string
}

var RegexTable = []RegexCase{
	{`^a+$`, []string{"a", "aaa"}, []string{"", "ab", "ba", "b"}},
	{`b`, []string{"b", "abc", "xxb"}, []string{"", "a", "ac"}},
	{`^[0-9]{3}$`, []string{"123", "000"}, []string{"12", "1234", "12a", " 123"}},
	{`^(foo|bar)$`, []string{"foo", "bar"}, []string{"foobar", "fo", "", "baz"}},
	{`\d+`, []string{"1", "a1b", "007"}, []string{"", "abc", "-"}},
	{`^ID_[a-z]$`, []string{"ID_a", "ID_z"}, []string{"ID_A", "ID_", "ID_ab", "id_a"}},
	{`x.y`, []string{"xay", "x.y", "..x yy"}, []string{"xy", "x\ny", ""}},
	{`^$`, []string{""}, []string{"a", " "}},
	{`a/b`, []string{"a/b", "xa/by"}, []string{"ab", "a\\b"}},
	{`^\w+@\w+\.com$`, []string{"me@x.com"}, []string{"me@x.org", "@x.com", "me@x.comm"}},
	{`end$`, []string{"end", "the end"}, []string{"ending", "end "}},
	{`^start`, []string{"start", "started"}, []string{" start", "restart"}},
	{`"`, []string{`"`, `a"b`}, []string{"", "'"}},
	{`\\`, []string{`\`, `a\b`}, []string{"", "/"}},
	{`^[^@]+$`, []string{"abc", " "}, []string{"a@b", "", "@"}},
	{`(?i)abc`, []string{"ABC", "xAbCx"}, []string{"ab", "acb"}},
	{`^.{2,4}$`, []string{"ab", "abcd", "éé"}, []string{"a", "abcde", ""}},
	{`^\p{L}+$`, []string{"abc", "éß", "日本"}, []string{"", "a1", "a b"}},
	{`^(a|b)*c$`, []string{"c", "abac"}, []string{"", "abca", "d"}},
	{`\.json$`, []string{"a.json", ".json"}, []string{"ajson", "a.json ", "a.jsonx"}},
	// patterns holding characters of several bytes (offsets in the /P/ token are byte offsets)
	{`caf[eé]s?`, []string{"café", "cafes", "un café noir"}, []string{"caf", "CAFE"}},
	{`^[а-яё]+$`, []string{"кот", "ёж"}, []string{"cat", "", "кот1"}},
	{`€\d+`, []string{"€5", "price: €120"}, []string{"$5", "€"}},
	{`日本`, []string{"日本語", "in 日本"}, []string{"日", "本日"}},
}

func init() {
	for _, rc := range RegexTable {
		RegisterRegexSamples(rc.Pattern, rc.Match)
	}
}

// ScalarNode builds a scalar example with a rule set that Check is expected to accept.
// The returned probe list is aimed at the boundaries of the chosen rules.
type ScalarCase struct {
	Node   *model.Node
	Probes []*model.Val
	Enums  []*model.EnumDef
}

var formatSamples = map[string][]string{
	"email":    {"a@b.co", "john.doe@example.com", "x1@y2.z3.org"},
	"uri":      {"http://example.com", "https://a.b/c?d=e#f", "ftp://h.x/p"},
	"uuid":     {"550e8400-e29b-41d4-a716-446655440000", "{550e8400-e29b-41d4-a716-446655440000}", "urn:uuid:550e8400-e29b-41d4-a716-446655440000", "550e8400e29b41d4a716446655440000", "550E8400-E29B-41D4-A716-446655440000"},
	"date":     {"2021-01-02", "2020-02-29", "1999-12-31", "2000-02-29"},
	"datetime": {"2021-01-02T07:23:12+03:00", "2021-01-02T07:23:12Z", "2020-02-29T23:59:59.123-11:30", "2021-12-31T00:00:00.000000001Z"},
}

// FormatProbes: boundary strings per format (both sides and undecided ones).
var FormatProbes = map[string][]string{
	"email": {"a@b.co", "john.doe@example.com", "", " a@b.co", "a@b.co ", "<a@b.co>", "ab.co", "a@", "@b.co", "John <a@b.co>", "a b@c.de", "a@b", "a@@b.co", "a@b..co", "a+tag@b.co", "\"q\"@b.co"},
	"uri":   {"http://example.com", "https://a.b/c?d=e#f", "", "example.com", "/relative/path", "//host/path", "http://", "http:///path", "mailto:a@b.co", "http://h/ space", "HTTP://EXAMPLE.COM/", "x://y", "1http://a.b", "http://[::1]/", "http://a.b:8080/p", "file:///etc/passwd", "http://:8080/path", "https://:443/", "http://:/", "http://user:pw@:80/path", "http://user@/path", "http://user@h.x/path", "http://h.x:/p"},
	"uuid": {"550e8400-e29b-41d4-a716-446655440000", "{550e8400-e29b-41d4-a716-446655440000}", "urn:uuid:550e8400-e29b-41d4-a716-446655440000", "URN:UUID:550e8400-e29b-41d4-a716-446655440000", "550e8400e29b41d4a716446655440000",
		"550e8400-e29b-41d4-a716-44665544000", "550e8400-e29b-41d4-a716-4466554400000", "550e8400-e29b-41d4-a716-44665544000g", "550e8400_e29b-41d4-a716-446655440000", "[550e8400-e29b-41d4-a716-446655440000]", "urn:uuix:550e8400-e29b-41d4-a716-446655440000",
		"550e8400e29b41d4a71644665544000g", "550e8400-e29b41d4-a716-4466554400000", "", "{550e8400-e29b-41d4-a716-446655440000)", "550e8400-e29b-41d4-a716-4466-5440000"},
	"date":     {"2021-01-02", "2020-02-29", "2021-02-29", "2021-02-30", "1900-02-29", "2000-02-29", "2021-13-01", "2021-00-10", "2021-04-31", "2021-04-30", "2021-1-02", "21-01-02", "2021/01/02", "2021-01-02 ", " 2021-01-02", "2021-01-02T00:00:00Z", "2021-01-00", "2021-01-32", "", "0000-01-01", "2021-01-0a"},
	"datetime": {"2021-01-02T07:23:12+03:00", "2021-01-02T07:23:12Z", "2021-01-02T24:00:00Z", "2021-01-02T23:60:00Z", "2021-01-02T23:59:60Z", "2021-01-02T23:59:59", "2021-01-02 07:23:12Z", "2021-01-02t07:23:12z", "2021-01-02T07:23:12+0300", "2021-01-02T07:23:12+03", "2021-02-30T07:23:12Z", "2021-01-02T07:23:12.Z", "2021-01-02T07:23:12.5Z", "2021-01-02T07:23:12,5Z", "2021-01-02T07:23Z", "2021-01-02T7:23:12Z", "2021-01-02", "", "2021-01-02T07:23:12+24:00", "2021-01-02T07:23:12-23:59", "2021-01-02T07:23:12+03:60", "2021-01-02T07:23:12ZZ", "2021-01-02T07:23:12+03:00 "},
}

func withLen(n int, r *mon.Rng) []string {
	if n < 0 {
		return nil
	}
	out := []string{strings.Repeat("a", n)}
	if n >= 1 {
		out = append(out, strings.Repeat("a", n-1)+"\n", strings.Repeat("a", n-1)+"\"", strings.Repeat("a", n-1)+"\\")
		out = append(out, strings.Repeat("a", n-1)+"é") // n runes, n+1 bytes
	}
	if n >= 2 {
		out = append(out, strings.Repeat("a", n-2)+"é") // n bytes, n-1 runes
	}
	if n >= 4 {
		out = append(out, strings.Repeat("a", n-4)+"𝄞")
	}
	return out
}

// Scalar generates one scalar rule-set case.
func Scalar(r *mon.Rng) *ScalarCase {
	sc := &ScalarCase{}
	var n *model.Node
	var rules []*model.Rule
	addProbe := func(v *model.Val) { sc.Probes = append(sc.Probes, v) }
	switch kind := r.Intn(10); {
	case kind < 4: // numbers
		isFloat := r.Bool()
		var ex string
		if isFloat {
			ex = mon.Pick(r, []string{"1.5", "0.25", "-3.75", "10.0", "0.0", "99.999", "-0.5", "2.50", "12345.678"})
		} else {
			ex = mon.Pick(r, []string{"0", "1", "5", "-7", "100", "12345678901234567890", "-1", "42"})
		}
		x, _ := model.Rat(ex)
		frac := model.FracDigits(ex)
		if isFloat {
			n = model.Flt(ex)
		} else {
			n = model.Int(ex)
		}
		if r.Chance(1, 6) { // enum of numbers and colliding texts
			vals := []string{ex, `"` + ex + `"`, "true", `"true"`, "null", `"null"`, "7", "7.0", `""`}
			mon.Shuffle(r, vals)
			vals = vals[:r.Range(1, len(vals))]
			has := false
			for _, v := range vals {
				if v == ex {
					has = true
				}
			}
			if !has {
				vals = append(vals, ex)
			}
			rules = append(rules, model.REnum(vals...))
			if r.Chance(1, 3) {
				rules = append(rules, model.RBool("const", true)) // equality keeps the KIND next to an enum as well
			}
			for _, v := range []string{ex, `"` + ex + `"`, "true", `"true"`, "null", `"null"`, "7", "7.0", "7.00", `""`, "false", "8"} {
				addProbe(litToVal(v))
			}
			for _, s := range Respell(r, ex) {
				addProbe(model.VNumber(s))
			}
			break
		}
		fracHint := frac
		if r.Chance(2, 3) {
			off := mon.Pick(r, []string{"0", "0", "1", "0.5", "0.001", "10", "2.25"})
			o, _ := model.Rat(off)
			p := RatText(new(big.Rat).Sub(x, o))
			excl := off != "0" && r.Chance(1, 2)
			rules = append(rules, model.RNum("min", respellParam(r, p)))
			if excl || r.Chance(1, 4) {
				rules = append(rules, model.RBool("exclusiveMinimum", excl))
			}
			if f := model.FracDigits(p); f > fracHint {
				fracHint = f
			}
			for _, s := range NumberProbes(r, p, fracHint) {
				addProbe(model.VNumber(s))
			}
		}
		if r.Chance(2, 3) {
			off := mon.Pick(r, []string{"0", "0", "1", "0.5", "0.001", "10", "2.25"})
			o, _ := model.Rat(off)
			p := RatText(new(big.Rat).Add(x, o))
			excl := off != "0" && r.Chance(1, 2)
			rules = append(rules, model.RNum("max", respellParam(r, p)))
			if excl || r.Chance(1, 4) {
				rules = append(rules, model.RBool("exclusiveMaximum", excl))
			}
			if f := model.FracDigits(p); f > fracHint {
				fracHint = f
			}
			for _, s := range NumberProbes(r, p, fracHint) {
				addProbe(model.VNumber(s))
			}
		}
		if isFloat && r.Chance(1, 2) {
			prec := frac + r.Intn(3)
			if prec == 0 {
				prec = 1
			}
			rules = append(rules, model.RInt("precision", prec))
			if r.Bool() {
				rules = append(rules, model.RStr("type", "decimal"))
			}
			for _, k := range []int{prec - 1, prec, prec + 1} {
				if k < 0 {
					continue
				}
				s := "1"
				if k > 0 {
					s = "1." + strings.Repeat("0", k-1) + "1"
				}
				addProbe(model.VNumber(s))
				addProbe(model.VNumber(s + "0"))
				addProbe(model.VNumber(s + "000"))
				if k > 0 {
					addProbe(model.VNumber("1" + strings.Repeat("0", k-1) + "1" + "e-" + strconv.Itoa(k)))
					addProbe(model.VNumber("0.1" + strings.Repeat("0", k-1) + "1" + "E1"))
					// k fractional digits in the value, written as an integer part ending in zeros, a
					// fraction of zeros only and a negative exponent (15 = 150.0e-1, 1.5 = 1500.00e-3)
					addProbe(model.VNumber("1" + strings.Repeat("0", k-1) + "10.0e-" + strconv.Itoa(k+1)))
					addProbe(model.VNumber("1" + strings.Repeat("0", k-1) + "100.00E-" + strconv.Itoa(k+2)))
					addProbe(model.VNumber("100.0e-2"))
					addProbe(model.VNumber("0.0e-" + strconv.Itoa(k)))
				}
			}
		} else if r.Chance(1, 4) {
			if isFloat {
				rules = append(rules, model.RStr("type", "float"))
			} else {
				rules = append(rules, model.RStr("type", "integer"))
			}
		}
		if r.Chance(1, 6) {
			rules = append(rules, model.RBool("const", true))
		}
		for _, s := range Respell(r, ex) {
			addProbe(model.VNumber(s))
		}
		addProbe(model.VNumber(RatText(new(big.Rat).Add(x, big.NewRat(1, 2)))))
	case kind < 8: // strings
		if r.Chance(1, 3) { // formats
			f := mon.Pick(r, []string{"email", "uri", "uuid", "date", "datetime"})
			n = model.Str(mon.Pick(r, formatSamples[f]))
			rules = append(rules, model.RStr("type", f))
			if r.Chance(1, 8) {
				rules = append(rules, model.RBool("const", true))
			}
			for _, p := range FormatProbes[f] {
				addProbe(model.VString(p))
			}
			break
		}
		if r.Chance(1, 5) { // enum
			vals := []string{`"a"`, `"b"`, `"1"`, "1", `"true"`, "true", `"null"`, "null", `""`, `"a\"b"`, `"é"`, "1.0", `"A"`}
			mon.Shuffle(r, vals)
			vals = vals[:r.Range(1, 7)]
			var ex string
			for _, v := range vals {
				if strings.HasPrefix(v, `"`) {
					ex = v
				}
			}
			if ex == "" {
				ex = `"zz"`
				vals = append(vals, ex)
			}
			d, _ := model.Unquote(ex)
			n = model.Str(d)
			rules = append(rules, model.REnum(vals...))
			if r.Chance(1, 3) {
				rules = append(rules, model.RBool("const", true))
			}
			for _, v := range []string{`"a"`, `"b"`, `"1"`, "1", `"true"`, "true", `"null"`, "null", `""`, `"a\"b"`, `"é"`, "1.0", `"A"`, `"zz"`, `"B"`, "false", "1.00", `"a "`} {
				addProbe(litToVal(v))
			}
			break
		}
		ex := mon.Pick(r, []string{"abc", "", "hello", "a", "x y", "0123456789", "tab\t", "q\"q", "éa"})
		pat := ""
		if r.Chance(1, 2) {
			rc := mon.Pick(r, RegexTable)
			pat = rc.Pattern
			ex = mon.Pick(r, rc.Match)
			for _, s := range append(append([]string{}, rc.Match...), rc.NoMatch...) {
				addProbe(model.VString(s))
			}
		}
		n = model.Str(ex)
		L := len(ex)
		if pat != "" {
			rules = append(rules, model.RStr("regex", pat))
		}
		if r.Chance(1, 2) {
			lo := L - r.Intn(3)
			if lo < 0 {
				lo = 0
			}
			rules = append(rules, model.RInt("minLength", lo))
			for _, k := range []int{lo - 1, lo, lo + 1} {
				for _, s := range withLen(k, r) {
					addProbe(model.VString(s))
				}
			}
		}
		if r.Chance(1, 2) {
			hi := L + r.Intn(3)
			rules = append(rules, model.RInt("maxLength", hi))
			for _, k := range []int{hi - 1, hi, hi + 1} {
				for _, s := range withLen(k, r) {
					addProbe(model.VString(s))
				}
			}
		}
		if r.Chance(1, 6) {
			rules = append(rules, model.RBool("const", true))
			addProbe(model.VString(ex + " "))
			addProbe(model.VString(strings.ToUpper(ex)))
		}
		if r.Chance(1, 6) {
			rules = append(rules, model.RStr("type", "string"))
		}
		addProbe(model.VString(ex))
		// escapes the decoder must take one at a time: an unpaired surrogate followed by another
		// escape, a pair after a lone high surrogate, the example's first character as \uXXXX
		for _, lit := range []string{`"\ud800\u0041"`, `"\ud800\ud83d\ude00"`, `"a\udc00"`, `"\ud800A"`, `"\u0041\u0042\u0043"`} {
			addProbe(model.VRawString(lit))
		}
		if ex != "" && ex[0] < 0x80 && ex[0] >= 0x20 {
			addProbe(model.VRawString(`"\ud800` + fmt.Sprintf("\\u%04x", ex[0]) + model.Quote(ex[1:])[1:]))
			addProbe(model.VRawString(`"` + fmt.Sprintf("\\u%04X", ex[0]) + model.Quote(ex[1:])[1:]))
		}
	case kind < 9: // booleans
		b := r.Bool()
		n = model.Bool(b)
		if r.Chance(1, 2) {
			rules = append(rules, model.RBool("const", true))
		}
		if r.Chance(1, 3) {
			rules = append(rules, model.RStr("type", "boolean"))
		}
		if len(rules) == 0 || r.Chance(1, 4) {
			rules = []*model.Rule{model.REnum(strconv.FormatBool(b), `"`+strconv.FormatBool(b)+`"`, "1")}
			if r.Bool() {
				rules = append(rules, model.RBool("const", true))
			}
		}
		addProbe(model.VBoolean(true))
		addProbe(model.VBoolean(false))
		addProbe(model.VString("true"))
		addProbe(model.VString("false"))
		addProbe(model.VNumber("1"))
		addProbe(model.VNumber("0"))
	default: // null example
		n = model.Null()
		if r.Bool() {
			rules = append(rules, model.RBool("const", true))
		}
		if r.Chance(1, 3) {
			rules = append(rules, model.RStr("type", "null"))
		}
		if r.Chance(1, 3) {
			rules = []*model.Rule{model.REnum("null", `"null"`, "0")}
			if r.Bool() {
				rules = append(rules, model.RBool("const", true))
			}
		}
		addProbe(model.VString("null"))
		addProbe(model.VNumber("0"))
		addProbe(model.VBoolean(false))
	}
	if r.Chance(1, 3) {
		rules = append(rules, model.RBool("nullable", true))
	}
	mon.Shuffle(r, rules)
	n.Rules = rules
	sc.Node = n
	// common probes: null, other kinds, the example itself
	addProbe(model.VNullV())
	addProbe(litToVal(n.Lit))
	addProbe(model.VObject())
	addProbe(model.VArray())
	addProbe(model.VString(""))
	addProbe(model.VNumber("0"))
	addProbe(model.VBoolean(true))
	return sc
}

// FalseRuleVariants returns copies of the node with one false-valued rule inserted at every
// position (only those whose companion rule exists).
func FalseRuleVariants(n *model.Node) []*model.Node {
	var out []*model.Node
	cands := []string{}
	if n.Rule("nullable") == nil {
		cands = append(cands, "nullable")
	}
	if n.Rule("const") == nil && n.Rule("type") == nil || (n.Rule("const") == nil && n.Rule("type").Str != "any") {
		cands = append(cands, "const")
	}
	if n.Rule("min") != nil && n.Rule("exclusiveMinimum") == nil {
		cands = append(cands, "exclusiveMinimum")
	}
	if n.Rule("max") != nil && n.Rule("exclusiveMaximum") == nil {
		cands = append(cands, "exclusiveMaximum")
	}
	for _, name := range cands {
		for pos := 0; pos <= len(n.Rules); pos++ {
			c := n.Clone()
			rs := append([]*model.Rule{}, c.Rules[:pos]...)
			rs = append(rs, model.RBool(name, false))
			rs = append(rs, c.Rules[pos:]...)
			c.Rules = rs
			out = append(out, c)
		}
	}
	// two false-valued rules side by side (every pair, both orders), at every position
	for i, a := range cands {
		for j, b := range cands {
			if i == j {
				continue
			}
			for pos := 0; pos <= len(n.Rules); pos++ {
				c := n.Clone()
				rs := append([]*model.Rule{}, c.Rules[:pos]...)
				rs = append(rs, model.RBool(a, false), model.RBool(b, false))
				rs = append(rs, c.Rules[pos:]...)
				c.Rules = rs
				out = append(out, c)
			}
		}
	}
	return out
}

// AddFalseRules inserts EVERY applicable false-valued rule (nullable, const, exclusive flags
// whose bound exists) at random positions of the node's rule list, in place. They are inert for
// validation whatever their order; null is among the documents worth probing afterwards.
func AddFalseRules(r *mon.Rng, n *model.Node) {
	var names []string
	if n.Rule("nullable") == nil {
		names = append(names, "nullable")
	}
	if n.Rule("const") == nil && (n.Rule("type") == nil || n.Rule("type").Str != "any") && n.IsScalar() {
		names = append(names, "const")
	}
	if n.Rule("min") != nil && n.Rule("exclusiveMinimum") == nil {
		names = append(names, "exclusiveMinimum")
	}
	if n.Rule("max") != nil && n.Rule("exclusiveMaximum") == nil {
		names = append(names, "exclusiveMaximum")
	}
	mon.Shuffle(r, names)
	for _, name := range names {
		pos := r.Intn(len(n.Rules) + 1)
		rs := append([]*model.Rule{}, n.Rules[:pos]...)
		rs = append(rs, model.RBool(name, false))
		n.Rules = append(rs, n.Rules[pos:]...)
	}
}

// respellParam sometimes writes a bound with trailing zeros (1.50, 2.0): the rule text must be
// reproduced as written while its value stays the same. Exponents are not allowed in schemas.
func respellParam(r *mon.Rng, p string) string {
	if !r.Chance(1, 3) {
		return p
	}
	if strings.Contains(p, ".") {
		return p + mon.Pick(r, []string{"0", "00"})
	}
	return p + mon.Pick(r, []string{".0", ".00"})
}
