package gen

import (
	"strconv"

	"verif/internal/model"
	"verif/internal/mon"
)

// EverythingOpts steers the all-features generator.
type EverythingOpts struct {
	MaxDepth int
	MaxWidth int
	Plain    bool // plain-JSON example: no type shortcuts in value or key position, no allOf
	// NoUnions: no or / enum-by-name / {type: "@T"} / additionalProperties: exactly one validator is
	// alive at every position (needed where error positions must be exact).
	NoUnions bool
}

// EveryCase is a generated schema plus the scalar cases (with boundary probes) embedded in it.
type EveryCase struct {
	S       *model.Schema
	Scalars map[*model.Node]*ScalarCase
}

type everyGen struct {
	r   *mon.Rng
	o   EverythingOpts
	out *EveryCase
}

// Everything generates a schema using all features, biased towards Check-accepted schemas.
func Everything(r *mon.Rng, o EverythingOpts) *EveryCase {
	g := &everyGen{r: r, o: o, out: &EveryCase{S: &model.Schema{}, Scalars: map[*model.Node]*ScalarCase{}}}
	s := g.out.S
	// environment: a few named types and one enum rule
	s.Types = []*model.TypeDef{
		{Name: "@str", Root: model.Str("abc").With(model.RInt("minLength", 1))},
		{Name: "@int", Root: model.Int("5").With(model.RNum("min", "0"))},
		{Name: "@obj", Root: model.Obj(model.P("id", model.Int("1")), model.P("tag", model.Str("t").With(model.RBool("optional", true))))},
		{Name: "@key", Root: model.Str("k1").With(model.RStr("regex", "^k[0-9]$"))},
		{Name: "@rx", Regex: "^[a-c]+$"},
	}
	s.Enums = []*model.EnumDef{{Name: "@colors", Values: []string{`"red"`, `"green"`, "1", "null"}}}
	s.Root = g.node(o.MaxDepth, false)
	return g.out
}

func (g *everyGen) scalar() *model.Node {
	r := g.r
	if r.Chance(1, 3) {
		return scalarExample(r)
	}
	if g.o.NoUnions {
		sc := Scalar(r)
		g.out.Scalars[sc.Node] = sc
		return sc.Node
	}
	if r.Chance(1, 8) {
		n := model.Str("green").With(model.REnumRef("@colors"))
		if r.Bool() {
			n = model.Int("1").With(model.REnumRef("@colors"))
		}
		return n
	}
	if r.Chance(1, 8) {
		// or rule on a literal example (inline rule-sets / built-ins / names)
		items := []model.OrItem{model.OrSet(model.RStr("type", "integer"), model.RNum("min", "0")), model.OrName("string")}
		if r.Bool() {
			items = append(items, model.OrName("@obj"))
		}
		if r.Bool() {
			items = append(items, model.OrSet(model.REnum("true", `"x"`)))
		}
		mon.Shuffle(r, items)
		if r.Bool() {
			return model.Int(strconv.Itoa(r.Intn(9))).With(model.ROr(items...))
		}
		return model.Str(RandomString(r)).With(model.ROr(items...))
	}
	if r.Chance(1, 10) {
		if r.Bool() {
			return model.Str("abc").With(model.RStr("type", "@str"))
		}
		return model.Int("7").With(model.RStr("type", "@int"))
	}
	sc := Scalar(r)
	g.out.Scalars[sc.Node] = sc
	return sc.Node
}

func (g *everyGen) node(depth int, isProp bool) *model.Node {
	r := g.r
	var n *model.Node
	switch k := r.Intn(12); {
	case depth > 0 && k < 3:
		n = model.Obj()
		used := map[string]bool{}
		w := r.Intn(g.o.MaxWidth + 1)
		for i := 0; i < w; i++ {
			key := mon.Pick(r, keyPool)
			if r.Chance(1, 8) {
				key = mon.Pick(r, oddKeys)
			}
			if used[key] || key == "@id" {
				continue
			}
			used[key] = true
			n.Props = append(n.Props, model.P(key, g.node(depth-1, true)))
		}
		if !g.o.Plain && r.Chance(1, 6) {
			n.Props = append(n.Props, model.PShort("@key", scalarExample(r)))
		}
		apChoice := r.Intn(8)
		if g.o.NoUnions {
			apChoice = 7
		}
		switch apChoice {
		case 0:
			n.Rules = append(n.Rules, model.RStr("additionalProperties", mon.Pick(r, []string{"any", "string", "integer", "boolean", "@int"})))
		case 1:
			n.Rules = append(n.Rules, &model.Rule{Name: "additionalProperties", Bool: r.Bool()})
		case 2:
			if !g.o.Plain && !used["id"] && !used["tag"] {
				n.Rules = append(n.Rules, model.RAllOf("@obj"))
			}
		}
	case depth > 0 && k < 6:
		n = model.Arr()
		w := r.Intn(g.o.MaxWidth + 1)
		for i := 0; i < w; i++ {
			n.Items = append(n.Items, g.node(depth-1, false))
		}
		if r.Chance(1, 3) {
			lo := w - r.Intn(2)
			if lo < 0 || w == 0 {
				lo = 0
			}
			n.Rules = append(n.Rules, model.RInt("minItems", lo))
		}
		if r.Chance(1, 3) {
			hi := w + r.Intn(3)
			if w == 0 {
				hi = 0
			}
			n.Rules = append(n.Rules, model.RInt("maxItems", hi))
		}
	case !g.o.Plain && k < 8:
		switch r.Intn(4) {
		case 0:
			n = model.Ref("@obj")
		case 1:
			n = model.Ref("@str", "@int")
		case 2:
			n = model.Ref("@rx")
		default:
			n = model.Ref("@int", "@obj", "@str")
		}
	default:
		n = g.scalar()
	}
	if !g.o.NoUnions && len(n.Rules) == 0 && ((n.Kind == model.KObject && len(n.Props) == 0) || (n.Kind == model.KArray && len(n.Items) == 0)) && r.Chance(1, 2) {
		// empty container with an or-rule of built-in kinds that admits its own kind
		own, other := "object", "array"
		if n.Kind == model.KArray {
			own, other = other, own
		}
		items := []model.OrItem{model.OrSet(model.RStr("type", own)), model.OrSet(model.RStr("type", mon.Pick(r, []string{"string", "integer", other})))}
		mon.Shuffle(r, items)
		n.Rules = append(n.Rules, model.ROr(items...))
	}
	if isProp && r.Chance(1, 4) {
		n.Rules = append(n.Rules, model.RBool("optional", r.Chance(4, 5)))
	}
	if r.Chance(1, 6) && n.Rule("nullable") == nil {
		n.Rules = append(n.Rules, model.RBool("nullable", r.Chance(4, 5)))
	}
	if r.Chance(1, 3) {
		mon.Shuffle(r, n.Rules)
	}
	if r.Chance(1, 5) {
		n.Note = mon.Pick(r, []string{"a note", "id of the thing", "x", "note with } brace", "50% - of it"})
	}
	return n
}

// ExampleVal converts the example of a plain-JSON schema into a document value.
func ExampleVal(n *model.Node) *model.Val {
	switch n.Kind {
	case model.KObject:
		v := model.VObject()
		for _, p := range n.Props {
			v.Members = append(v.Members, model.M(p.Key, ExampleVal(p.Node)))
		}
		return v
	case model.KArray:
		v := model.VArray()
		for _, it := range n.Items {
			v.Elems = append(v.Elems, ExampleVal(it))
		}
		return v
	}
	return litToVal(n.Lit)
}

// LitToVal exposes the literal-to-value conversion.
func LitToVal(lit string) *model.Val { return litToVal(lit) }
