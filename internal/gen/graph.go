package gen

import (
	"strconv"

	"verif/internal/model"
	"verif/internal/mon"
)

// Graph generates a root schema with up to maxTypes user types using every reference
// construct (C03). Required references only point to lower-numbered types (so every type is
// inhabited); optional properties and array items may point anywhere (legal recursion).
type graphGen struct {
	total int
	r     *mon.Rng
	s     *model.Schema
	kinds []string // per type: "object" "array" "string" "integer" "or" "regex" "enum" ...
}

func tname(i int) string { return "@t" + strconv.Itoa(i) }

// stringTypes usable as key shortcuts
func (g *graphGen) stringTypeIdx(below int) []int {
	var out []int
	for i := 0; i < below && i < len(g.kinds); i++ {
		if g.kinds[i] == "keystring" || g.kinds[i] == "regex" {
			out = append(out, i)
		}
	}
	return out
}

func (g *graphGen) scalarTypeIdx(below int) []int {
	var out []int
	for i := 0; i < below && i < len(g.kinds); i++ {
		switch g.kinds[i] {
		case "keystring", "regex", "string", "integer", "enum", "float", "orlit":
			out = append(out, i)
		}
	}
	return out
}

func (g *graphGen) objectTypeIdx(below int) []int {
	var out []int
	for i := 0; i < below && i < len(g.kinds); i++ {
		if g.kinds[i] == "object" {
			out = append(out, i)
		}
	}
	return out
}

// refValue builds a value position naming types; anyIdx=true allows forward/self references.
func (g *graphGen) refValue(self int, anyIdx bool) *model.Node {
	r := g.r
	n := len(g.kinds)
	limit := self
	if anyIdx {
		limit = g.total
	}
	_ = n
	if limit == 0 {
		return scalarExample(r)
	}
	pick := func() string {
		if anyIdx {
			return tname(r.Intn(maxInt(limit, 1)))
		}
		return tname(r.Intn(limit))
	}
	switch r.Intn(6) {
	case 0, 1:
		return model.Ref(pick())
	case 2:
		a, b := pick(), pick()
		if a == b {
			return model.Ref(a)
		}
		if r.Chance(1, 4) {
			c := pick()
			if c != a && c != b {
				return model.Ref(a, b, c)
			}
		}
		return model.Ref(a, b)
	case 3:
		n := model.Ref(pick())
		n.Rules = append(n.Rules, model.RBool("nullable", true))
		return n
	case 4:
		// literal example with an or-rule mixing names, built-ins and inline rule-sets; the
		// example is an integer satisfied by the inline integer member
		items := []model.OrItem{model.OrSet(model.RStr("type", "integer"), model.RNum("min", "0"))}
		if sc := g.scalarTypeIdx(limit); len(sc) > 0 && r.Bool() {
			items = append(items, model.OrName(tname(mon.Pick(r, sc))))
		}
		switch r.Intn(4) {
		case 0:
			items = append(items, model.OrName("string"))
		case 1:
			items = append(items, model.OrSet(model.REnum(`"x"`, `"y"`, "true")))
		case 2:
			items = append(items, model.OrSet(model.RStr("type", "string"), model.RInt("maxLength", 3)))
		default:
			items = append(items, model.OrName("boolean"))
		}
		if r.Chance(1, 3) {
			items = append(items, model.OrSet(model.RStr("type", "float"), model.RNum("max", "-0.5")))
		}
		mon.Shuffle(r, items)
		n := model.Int(strconv.Itoa(r.Intn(50))).With(model.ROr(items...))
		if r.Chance(1, 4) {
			n.Rules = append(n.Rules, model.RBool("nullable", true))
		}
		return n
	default:
		// {type: "@T"} on a literal example: only for scalar types, example = the type's own example
		if sc := g.scalarTypeIdx(limit); len(sc) > 0 {
			ti := mon.Pick(r, sc)
			t := g.s.Types[ti]
			if t.Root != nil && t.Root.IsScalar() {
				return &model.Node{Kind: t.Root.Kind, Lit: t.Root.Lit, KeyPos: -1, Rules: []*model.Rule{model.RStr("type", t.Name)}}
			}
		}
		return model.Ref(pick())
	}
}

func maxInt(a, b int) int {
	if a > b {
		return a
	}
	return b
}

func (g *graphGen) objectBody(self int, total int, usedKeys map[string]bool) *model.Node {
	r := g.r
	o := model.Obj()
	w := r.Range(0, 4)
	for i := 0; i < w; i++ {
		key := mon.Pick(r, keyPool) + strconv.Itoa(self+1) // keys differ between types so allOf chains do not collide
		if usedKeys[key] {
			continue
		}
		usedKeys[key] = true
		var v *model.Node
		opt := false
		switch r.Intn(6) {
		case 0, 1:
			v = scalarExample(r)
		case 2:
			v = g.refValue(self, false)
		case 3:
			// optional property: may reference anything, incl. itself (legal recursion)
			v = g.refValue(self, true)
			if v.Kind == model.KRef || v.Rule("type") != nil || v.Rule("or") != nil {
				opt = true
			}
		case 4:
			// array of references: may reference anything
			v = model.Arr(g.refValue(self, true))
			if r.Chance(1, 3) {
				v.Items = append(v.Items, scalarExample(r))
			}
		default:
			v = model.Obj(model.P("n", scalarExample(r)))
		}
		if opt || r.Chance(1, 5) {
			v.Rules = append(v.Rules, model.RBool("optional", true))
		}
		o.Props = append(o.Props, model.P(key, v))
	}
	// key shortcut next to ordinary keys
	if st := g.stringTypeIdx(self); len(st) > 0 && r.Chance(1, 3) {
		k := tname(mon.Pick(r, st))
		o.Props = append(o.Props, model.PShort(k, scalarExample(r)))
		// a second (third) key shortcut of another key type: every one of them has to work,
		// whichever is declared first
		for extra := 0; extra < 2 && len(st) > 1 && r.Chance(1, 2); extra++ {
			k2 := tname(mon.Pick(r, st))
			dup := false
			for _, p := range o.Props {
				dup = dup || (p.Shortcut && p.Key == k2)
			}
			if dup {
				break
			}
			v2 := scalarExample(r)
			if r.Bool() {
				v2.Rules = append(v2.Rules, model.RBool("optional", true))
			}
			o.Props = append(o.Props, model.PShort(k2, v2))
		}
		if r.Chance(1, 3) {
			mon.Shuffle(r, o.Props)
		}
	}
	// additionalProperties
	switch r.Intn(8) {
	case 0:
		o.Rules = append(o.Rules, model.RStr("additionalProperties", "any"))
	case 1:
		o.Rules = append(o.Rules, &model.Rule{Name: "additionalProperties", Bool: r.Bool()})
	case 2:
		o.Rules = append(o.Rules, model.RStr("additionalProperties", mon.Pick(r, []string{"string", "integer", "float", "boolean", "null", "object", "array"})))
	case 3:
		if self > 0 {
			o.Rules = append(o.Rules, model.RStr("additionalProperties", tname(r.Intn(self))))
		}
	}
	return o
}

// Graph builds the schema.
func Graph(r *mon.Rng, maxTypes int) *model.Schema {
	if maxTypes >= 5 {
		switch r.Intn(16) {
		case 0:
			return allOfMotif(r)
		case 1:
			return arrayUnionMotif(r)
		case 2:
			if r.Bool() {
				return keyDiamondMotif(r)
			}
			return apUnionMotif(r)
		}
	}
	g := &graphGen{r: r, s: &model.Schema{}}
	n := r.Range(1, maxTypes)
	g.total = n
	for i := 0; i < n; i++ {
		var t *model.TypeDef
		kind := mon.Pick(r, []string{"object", "object", "object", "array", "keystring", "string", "integer", "integer", "or", "or", "regex", "enum", "float", "uarray", "uarray", "orlit", "orlit"})
		if kind == "orlit" {
			ok := false
			for _, j := range g.scalarTypeIdx(i) {
				ok = ok || g.kinds[j] != "regex"
			}
			if !ok {
				kind = "float"
			}
		}
		if kind == "uarray" && len(g.scalarTypeIdx(i)) < 2 {
			kind = "integer"
		}
		if i == 0 && kind == "or" {
			kind = "object"
		}
		switch kind {
		case "object":
			used := map[string]bool{}
			o := g.objectBody(i, n, used)
			// allOf: parents among lower object types (keys are disjoint by construction)
			if objs := g.objectTypeIdx(i); len(objs) > 0 && r.Chance(1, 3) {
				ps := []string{tname(mon.Pick(r, objs))}
				if len(objs) > 1 && r.Chance(1, 3) {
					q := tname(mon.Pick(r, objs))
					if q != ps[0] {
						ps = append(ps, q)
					}
					if len(objs) > 2 && r.Bool() {
						q3 := tname(mon.Pick(r, objs))
						if q3 != ps[0] && q3 != ps[len(ps)-1] {
							ps = append(ps, q3)
						}
					}
				}
				// additionalProperties of child and parents must not conflict: drop the child's
				var rs []*model.Rule
				for _, rr := range o.Rules {
					if rr.Name != "additionalProperties" {
						rs = append(rs, rr)
					}
				}
				o.Rules = append(rs, model.RAllOf(ps...))
				if r.Bool() {
					// the inheriting object has no required key of its own
					for _, pr := range o.Props {
						if pr.Node.Rule("optional") == nil {
							pr.Node.Rules = append(pr.Node.Rules, model.RBool("optional", true))
						}
					}
				}
			}
			t = &model.TypeDef{Name: tname(i), Root: o}
		case "array":
			a := model.Arr(g.refValue(i, true))
			if r.Chance(1, 3) {
				a.Items = append(a.Items, scalarExample(r))
			}
			t = &model.TypeDef{Name: tname(i), Root: a}
		case "keystring":
			switch r.Intn(9) {
			case 8: // no rules at all: the example is the one key (however a document spells it)
				t = &model.TypeDef{Name: tname(i), Root: model.Str(mon.Pick(r, []string{"kf", "key one", "k/é", "Kf"}) + strconv.Itoa(i))}
			case 7: // an or rule on a string example; one of its alternatives is not a string (and can never match a key)
				sets := []model.OrItem{model.OrSet(model.RStr("type", mon.Pick(r, []string{"integer", "boolean", "float"}))), model.OrSet(model.RStr("type", "string"), model.RInt("minLength", 2), model.RInt("maxLength", 6))}
				if r.Bool() {
					sets[0], sets[1] = sets[1], sets[0]
				}
				t = &model.TypeDef{Name: tname(i), Root: model.Str("kk" + strconv.Itoa(i)).With(model.ROr(sets...))}
			case 3: // exactly one key
				t = &model.TypeDef{Name: tname(i), Root: model.Str("only" + strconv.Itoa(i)).With(model.RBool("const", true))}
			case 4: // a format
				t = &model.TypeDef{Name: tname(i), Root: model.Str("k" + strconv.Itoa(i) + "@b.co").With(model.RStr("type", "email"))}
			case 5, 6: // an alias / a union of key-string types declared before
				if ks := g.stringTypeIdx(i); len(ks) > 0 {
					a, b := tname(mon.Pick(r, ks)), tname(mon.Pick(r, ks))
					if a == b || r.Bool() {
						t = &model.TypeDef{Name: tname(i), Root: model.Ref(a)}
					} else {
						t = &model.TypeDef{Name: tname(i), Root: model.Ref(a, b)}
					}
					break
				}
				t = &model.TypeDef{Name: tname(i), Root: model.Str("kk"+strconv.Itoa(i)).With(model.RInt("minLength", 3), model.RInt("maxLength", 4))}
			case 0:
				rc := mon.Pick(r, RegexTable)
				t = &model.TypeDef{Name: tname(i), Root: model.Str(mon.Pick(r, rc.Match)).With(model.RStr("regex", rc.Pattern))}
			case 1:
				t = &model.TypeDef{Name: tname(i), Root: model.Str("K" + strconv.Itoa(i)).With(model.REnum(`"K`+strconv.Itoa(i)+`"`, `"L`+strconv.Itoa(i)+`"`))}
			default:
				t = &model.TypeDef{Name: tname(i), Root: model.Str("kk"+strconv.Itoa(i)).With(model.RInt("minLength", 3), model.RInt("maxLength", 4))}
			}
		case "string":
			t = &model.TypeDef{Name: tname(i), Root: model.Str(RandomString(r))}
		case "uarray":
			// array whose items are unions of (often overlapping) scalar types, with several
			// example items and item-count rules
			sc := g.scalarTypeIdx(i)
			a, b := tname(mon.Pick(r, sc)), tname(mon.Pick(r, sc))
			first := model.Ref(a, b)
			if a == b {
				first = model.Ref(a)
			}
			arr := model.Arr(first)
			switch r.Intn(3) {
			case 0:
				arr.Items = append(arr.Items, model.Str("s"))
			case 1:
				arr.Items = append(arr.Items, model.Bool(true), model.Ref(b, a))
			}
			if r.Bool() {
				arr.Rules = append(arr.Rules, model.RInt("maxItems", len(arr.Items)+r.Intn(3)))
			}
			if r.Chance(1, 3) {
				arr.Rules = append(arr.Rules, model.RInt("minItems", r.Intn(len(arr.Items)+1)))
			}
			t = &model.TypeDef{Name: tname(i), Root: arr}
			kind = "uarray"
		case "orlit":
			// a literal example with an or rule naming scalar-valued types (other such types
			// included: the same type is then reached on several branches)
			sc := g.scalarTypeIdx(i)
			var first int
			for {
				first = mon.Pick(r, sc)
				if g.kinds[first] != "regex" {
					break
				}
			}
			ex := g.s.Types[first].Root
			items := []model.OrItem{model.OrName(tname(first))}
			for n := r.Range(1, 2); n > 0; n-- {
				if r.Chance(1, 4) {
					items = append(items, model.OrName(mon.Pick(r, []string{"string", "boolean", "integer", "null"})))
				} else if j := mon.Pick(r, sc); j != first {
					items = append(items, model.OrName(tname(j)))
				}
			}
			if len(items) == 1 {
				items = append(items, model.OrName("boolean"))
			}
			if r.Chance(1, 4) {
				// a rule-set for a container kind that also admits null (the literal example
				// belongs to another alternative; null reaches this one)
				items = append(items, model.OrSet(model.RStr("type", mon.Pick(r, []string{"array", "object"})), model.RBool("nullable", true)))
			}
			if r.Bool() {
				items[0], items[len(items)-1] = items[len(items)-1], items[0]
			}
			t = &model.TypeDef{Name: tname(i), Root: (&model.Node{Kind: ex.Kind, Lit: ex.Lit, KeyPos: -1}).With(model.ROr(items...))}
		case "integer":
			if r.Bool() {
				t = &model.TypeDef{Name: tname(i), Root: model.Int("3").With(model.RNum("min", "0"))}
				break
			}
			t = &model.TypeDef{Name: tname(i), Root: model.Int("5").With(model.RNum("min", "1"), model.RNum("max", "9"))}
		case "float":
			t = &model.TypeDef{Name: tname(i), Root: model.Flt("1.5")}
		case "or":
			a, b := tname(r.Intn(i)), tname(r.Intn(i))
			// unions of array types whose items are unions themselves
			var uarrs []int
			for j, kd := range g.kinds {
				if kd == "uarray" || kd == "array" {
					uarrs = append(uarrs, j)
				}
			}
			if len(uarrs) >= 2 && r.Bool() {
				a, b = tname(uarrs[r.Intn(len(uarrs))]), tname(uarrs[r.Intn(len(uarrs))])
			}
			if a == b {
				t = &model.TypeDef{Name: tname(i), Root: model.Ref(a)}
			} else {
				t = &model.TypeDef{Name: tname(i), Root: model.Ref(a, b)}
			}
			// an alias / union type may itself be nullable: null then belongs to every union
			// that names this type
			if r.Chance(1, 3) {
				t.Root.Rules = append(t.Root.Rules, model.RBool("nullable", true))
			}
		case "regex":
			rc := mon.Pick(r, RegexTable[:12])
			if rc.Pattern == "a/b" {
				rc = RegexTable[0]
			}
			t = &model.TypeDef{Name: tname(i), Regex: rc.Pattern}
		case "enum":
			t = &model.TypeDef{Name: tname(i), Root: model.Int("2").With(model.REnum("1", "2", `"2"`, "null", "2.5"))}
		}
		g.kinds = append(g.kinds, kind)
		g.s.Types = append(g.s.Types, t)
	}
	// root
	switch r.Intn(5) {
	case 0:
		g.s.Root = g.refValue(n, false)
	case 1:
		g.s.Root = model.Arr(g.refValue(n, false))
	default:
		g.s.Root = g.objectBody(n, n, map[string]bool{})
		if len(g.s.Root.Props) == 0 {
			g.s.Root.Props = append(g.s.Root.Props, model.P("r", g.refValue(n, false)))
		}
		if objs := g.objectTypeIdx(n); len(objs) > 0 && r.Chance(1, 3) {
			var rs []*model.Rule
			for _, rr := range g.s.Root.Rules {
				if rr.Name != "additionalProperties" {
					rs = append(rs, rr)
				}
			}
			g.s.Root.Rules = append(rs, model.RAllOf(tname(mon.Pick(r, objs))))
		}
	}
	// a rule written with the value false next to a type reference says what leaving it out says
	// (null stays outside the union, the key stays required)
	inert := func(n *model.Node) {
		n.Walk(func(x *model.Node) {
			if x.Kind != model.KRef || !r.Chance(1, 6) {
				return
			}
			if x.Rule("nullable") == nil {
				x.Rules = append(x.Rules, model.RBool("nullable", false))
			}
		})
	}
	inert(g.s.Root)
	for _, t := range g.s.Types {
		if t.Root != nil && t.Root.Kind != model.KRef {
			inert(t.Root)
		}
	}
	return g.s
}

// allOfMotif: object types inheriting from one or two parents (own keys often all optional) used
// next to direct uses of the parents themselves, and a three-level chain; what a parent requires
// must not leak between a parent and the types built from it.
func allOfMotif(r *mon.Rng) *model.Schema {
	opt := func(n *model.Node) *model.Node {
		if r.Chance(2, 3) {
			n.Rules = append(n.Rules, model.RBool("optional", true))
		}
		return n
	}
	b := model.Obj(model.P("b", model.Int("1")))
	if r.Chance(1, 3) {
		b.Props = append(b.Props, model.P("b2", model.Str("x").With(model.RBool("optional", true))))
	}
	cc := model.Obj(model.P("c", model.Int("2")))
	if r.Chance(1, 3) {
		cc.Props = append(cc.Props, model.P("c2", model.Bool(true)))
	}
	if r.Chance(1, 3) {
		// both parents admit undeclared keys of the same kind; the children say nothing about it
		ap := mon.Pick(r, []string{"string", "integer", "any", "boolean"})
		b.Rules = append(b.Rules, model.RStr("additionalProperties", ap))
		cc.Rules = append(cc.Rules, model.RStr("additionalProperties", ap))
	}
	d := model.Obj(model.P("d", opt(model.Int("3")))).With(model.RAllOf("@t0", "@t1"))
	m := model.Obj(model.P("m", opt(model.Int("4")))).With(model.RAllOf("@t0"))
	n := model.Obj(model.P("n", opt(model.Int("5")))).With(model.RAllOf("@t3", "@t1"))
	if r.Bool() {
		n.Rules = []*model.Rule{model.RAllOf("@t1", "@t3")}
	}
	e := model.Obj(model.P("e", model.Int("6")))
	if r.Chance(1, 3) {
		e = model.Obj().With(&model.Rule{Name: "additionalProperties", IsStr: true, Str: "any"})
		e.Rules = nil // an empty parent
	}
	three := [][]string{{"@t0", "@t1", "@t5"}, {"@t5", "@t0", "@t1"}, {"@t1", "@t5", "@t0"}, {"@t0", "@t5", "@t1"}}[r.Intn(4)]
	f := model.Obj(model.P("f", opt(model.Int("7")))).With(model.RAllOf(three...))
	s := &model.Schema{Types: []*model.TypeDef{
		{Name: "@t0", Root: b}, {Name: "@t1", Root: cc}, {Name: "@t2", Root: d}, {Name: "@t3", Root: m}, {Name: "@t4", Root: n},
		{Name: "@t5", Root: e}, {Name: "@t6", Root: f},
	}}
	if r.Chance(1, 4) {
		// declaration order: children before their parents
		s.Types[0], s.Types[1], s.Types[2], s.Types[3], s.Types[4] = s.Types[4], s.Types[3], s.Types[2], s.Types[1], s.Types[0]
	}
	ref := func() *model.Node {
		x := tname(r.Intn(7))
		if r.Chance(1, 5) {
			if y := tname(r.Intn(7)); y != x {
				return model.Ref(x, y)
			}
		}
		return model.Ref(x)
	}
	switch r.Intn(4) {
	case 0:
		s.Root = model.Arr(ref(), ref(), ref())
	default:
		s.Root = model.Obj(model.P("first", ref()), model.P("second", ref()))
		if r.Bool() {
			s.Root.Props = append(s.Root.Props, model.P("third", opt(ref())))
		}
	}
	s.Legal = true
	return s
}

// arrayUnionMotif: a union of array types that differ in their item-count rules and item types,
// one of them with item positions that are unions of overlapping scalar types: a candidate killed
// by a later item or by the closing bracket must not take the surviving candidate with it.
func arrayUnionMotif(r *mon.Rng) *model.Schema {
	k := r.Range(1, 3)
	item := func() *model.Node {
		if r.Chance(1, 6) {
			return model.Ref("@t1", "@t0")
		}
		return model.Ref("@t0", "@t1")
	}
	fixed := func(k int) *model.Node {
		a := model.Arr()
		for i := 0; i < k; i++ {
			a.Items = append(a.Items, item())
		}
		a.Rules = append(a.Rules, model.RInt("minItems", k), model.RInt("maxItems", k))
		return a
	}
	s := &model.Schema{Types: []*model.TypeDef{
		{Name: "@t0", Root: model.Int("1")},
		{Name: "@t1", Root: model.Flt("2.5")},
		{Name: "@t2", Root: model.Int("1").With(model.RNum("max", strconv.Itoa(r.Range(3, 6))))},
		{Name: "@t3", Root: fixed(k)},
		{Name: "@t4", Root: fixed(k + 1)},
		{Name: "@t5", Root: model.Arr(model.Ref("@t2"))},
	}}
	a, b := "@t3", "@t5"
	switch r.Intn(4) {
	case 0:
		a = "@t4"
	case 1:
		a, b = b, a
	}
	switch r.Intn(4) {
	case 0:
		s.Root = model.Ref(a, b)
	case 1:
		s.Root = model.Obj(model.P("v", model.Str("s").With(model.ROr(model.OrSet(model.RStr("type", b)), model.OrName("string"), model.OrName(a)))))
	case 2:
		s.Root = model.Arr(model.Ref(a, b))
	default:
		s.Root = model.Obj(model.P("v", model.Ref(a, b)))
		if r.Bool() {
			s.Root.Props = append(s.Root.Props, model.P("w", model.Ref("@t4", "@t3", "@t5").With(model.RBool("optional", true))))
		}
	}
	s.Legal = true
	return s
}

// keyDiamondMotif: the type of a key shortcut is a union of aliases which reach the same string
// type on two branches (no cycle anywhere): every key one of the string types accepts is a key
// of that entry.
func keyDiamondMotif(r *mon.Rng) *model.Schema {
	rc := RegexTable[0]
	id := model.Str(rc.Match[0]).With(model.RStr("regex", rc.Pattern))
	name := model.Str("K1").With(model.REnum(`"K1"`, `"L1"`))
	s := &model.Schema{Types: []*model.TypeDef{
		{Name: "@t0", Root: id},
		{Name: "@t1", Root: name},
		{Name: "@t2", Root: model.Ref("@t0")},
		{Name: "@t3", Root: model.Ref("@t0", "@t1")},
		{Name: "@t4", Root: model.Ref("@t2", "@t3")},
	}}
	if r.Bool() {
		s.Types[4].Root = model.Ref("@t3", "@t2")
	}
	key := mon.Pick(r, []string{"@t4", "@t3", "@t2"})
	val := model.Int("1")
	if r.Bool() {
		val = val.With(model.RBool("optional", true))
	}
	s.Root = model.Obj(model.PShort(key, val), model.P("total", model.Int("2")))
	if r.Chance(1, 3) {
		s.Root = model.Obj(model.P("m", s.Root))
	}
	s.Legal = true
	return s
}

// apUnionMotif: a union of object types that differ (only, or mostly) in the kind their
// additionalProperties rule admits for undeclared keys: a document is told apart by the VALUE of
// an undeclared key, which fails one alternative and suits another.
func apUnionMotif(r *mon.Rng) *model.Schema {
	kinds := []string{"array", "object", "string", "integer", "boolean", "null", "float"}
	mon.Shuffle(r, kinds)
	n := r.Range(2, 3)
	s := &model.Schema{}
	var names []string
	for i := 0; i < n; i++ {
		o := model.Obj()
		if r.Chance(1, 3) {
			o = model.Obj(model.P("id", model.Int("1").With(model.RBool("optional", true))))
		}
		o.Rules = append(o.Rules, model.RStr("additionalProperties", kinds[i]))
		name := "@t" + strconv.Itoa(i)
		s.Types = append(s.Types, &model.TypeDef{Name: name, Root: o})
		names = append(names, name)
	}
	u := model.Ref(names...)
	switch r.Intn(3) {
	case 0:
		s.Root = u
	case 1:
		s.Root = model.Obj(model.P("u", u), model.P("n", model.Int("1")))
	default:
		s.Root = model.Arr(u)
	}
	s.Legal = true
	return s
}
