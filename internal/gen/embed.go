package gen

// Generators shared by C14 (Len of embedded texts) and C18 (named enum rules / regex types):
// enum rule texts in many layouts with the entry list they denote, and a printable-ASCII RE2
// pattern generator that produces a matching sample together with every pattern.

import (
	"regexp"
	"strings"

	"verif/internal/model"
	"verif/internal/mon"
)

// ---- enum rule texts ---------------------------------------------------------------

// EnumEntry is one expected entry of enum.Values(): a literal (with the comment attached to it)
// or a stand-alone comment.
type EnumEntry struct {
	Value     string `json:"value,omitempty"` // literal text exactly as written
	Comment   string `json:"comment,omitempty"`
	IsComment bool   `json:"is_comment,omitempty"`
}

// EnumText is a rendered enum rule.
type EnumText struct {
	Text    string
	Layout  string
	Entries []EnumEntry // literals in source order, comments where the layout makes attachment unambiguous
	// CommentsDecided: every comment of the text either follows exactly one literal on its own
	// line (attached) or stands on lines without any literal (stand-alone entry).
	CommentsDecided bool
	HasComments     bool
}

var enumCommentPool = []string{
	"Comment for 1", "c", "x y z", `"quoted"`, "{not: rules}", "a, b", "[1]", "with // inside", "unicode é",
	"dash - note", "@ref", "#hash", "two  blanks", "/ slash", "* star", "1", "null", "] bracket", "TYPE @x",
}

// EnumStrings / EnumNumbers … : literal pools with kind-colliding texts.
var EnumLiteralPool = []string{
	`"a"`, `"b"`, `"A"`, `"1"`, `"1.0"`, `"true"`, `"false"`, `"null"`, `""`, `"a\"b"`, `"é"`, `"a b"`, `"a "`, `"/"`, `"a\\b"`, `"\u0062c"`, `"[1]"`, `"// x"`, `"text\/plain"`, `"\/"`, `"\b\f\n\r\t"`, `"\u00e9\u00E9"`,
	"1", "0", "-1", "7", "42", "12345678901234567890",
	"1.0", "1.5", "-0.5", "7.0", "3.14", "0.0", "0.5", "0.50", "2.5", "2.50", "-0",
	"true", "false", "null",
}

// EnumKey is the identity of a member: (JSON kind, decoded text).
func EnumKey(lit string) string {
	switch {
	case strings.HasPrefix(lit, `"`):
		d, _ := model.Unquote(lit)
		return "s:" + d
	case lit == "true" || lit == "false":
		return "b:" + lit
	case lit == "null":
		return "n:"
	case strings.ContainsAny(lit, ".eE"):
		return "f:" + lit
	}
	return "i:" + lit
}

// EnumList draws a list of pairwise different members (near-duplicates are welcome).
func EnumList(r *mon.Rng, max int) []string {
	n := r.Range(1, max)
	seen := map[string]bool{}
	var out []string
	for tries := 0; len(out) < n && tries < 60; tries++ {
		l := mon.Pick(r, EnumLiteralPool)
		if r.Chance(1, 3) { // favour the colliding family
			l = mon.Pick(r, []string{"1", `"1"`, "1.0", `"1.0"`, "true", `"true"`, "null", `"null"`, `"a"`, `"A"`})
		}
		if seen[EnumKey(l)] {
			continue
		}
		seen[EnumKey(l)] = true
		out = append(out, l)
	}
	return out
}

// EnumDuplicateOf returns another spelling (or the same one) of the member: same kind and the
// same decoded text.
func EnumDuplicateOf(r *mon.Rng, lit string) string {
	if strings.HasPrefix(lit, `"`) && r.Bool() {
		d, _ := model.Unquote(lit)
		if alt := model.QuoteAlt(d, r); alt != lit {
			return alt
		}
		if d != "" {
			// force a \u spelling of the first rune when it is in the BMP
			rs := []rune(d)
			if rs[0] < 0x10000 {
				const hex = "0123456789abcdef"
				x := rs[0]
				u := `\u` + string([]byte{hex[(x>>12)&15], hex[(x>>8)&15], hex[(x>>4)&15], hex[x&15]})
				return `"` + u + strings.TrimPrefix(model.Quote(string(rs[1:])), `"`)
			}
		}
	}
	return lit
}

// EnumLayouts lists the layout names of EnumLayout.
var EnumLayouts = []string{"compact", "lines", "commented", "packed"}

// EnumLayout writes the literal list in one of the layouts. The text always ends with ']'.
func EnumLayout(r *mon.Rng, lits []string, layout string) EnumText {
	et := EnumText{Layout: layout, CommentsDecided: true}
	nl := mon.Pick(r, []string{"\n", "\n", "\n", "\r\n", "\r"}) // a lone CR is a line end too
	ind := mon.Pick(r, []string{"  ", "\t", "", "    ", "\t\t"})
	var sb strings.Builder
	blank := func(p, q int) string {
		if r.Chance(p, q) {
			return mon.Pick(r, []string{" ", "  ", "\t", " \t"})
		}
		return ""
	}
	lit := func(l string) { et.Entries = append(et.Entries, EnumEntry{Value: l}) }
	switch layout {
	case "compact":
		sb.WriteString(blank(1, 5))
		sb.WriteString("[")
		for i, l := range lits {
			if i > 0 {
				sb.WriteString(blank(1, 4) + "," + blank(2, 3))
			} else {
				sb.WriteString(blank(1, 4))
			}
			sb.WriteString(l)
			lit(l)
		}
		sb.WriteString(blank(1, 4) + "]")
	case "lines":
		if r.Chance(1, 5) {
			sb.WriteString(nl)
		}
		sb.WriteString("[" + blank(1, 6) + nl)
		for i, l := range lits {
			if r.Chance(1, 6) {
				sb.WriteString(blank(1, 2) + nl)
			}
			sb.WriteString(ind + l)
			lit(l)
			if i < len(lits)-1 {
				sb.WriteString(blank(1, 6) + ",")
			}
			sb.WriteString(blank(1, 5) + nl)
		}
		sb.WriteString(blank(1, 5) + "]")
	case "commented", "packed":
		et.HasComments = true
		comment := func() (text, body string) { // text as written, body as expected (trimmed)
			body = mon.Pick(r, enumCommentPool)
			if r.Chance(1, 12) { // empty comments
				return mon.Pick(r, []string{"//", "// ", "//\t ", "/**/", "/* */"}), ""
			}
			switch r.Intn(6) {
			case 5: // a comment closed by **/ (stars next to the closing marker belong to the text)
				if r.Bool() {
					return "/** " + body + " **/", "* " + body + " *"
				}
				return "/* " + body + " **/", body + " *"
			case 0: // multi-line comment on one line
				return "/* " + body + " */", body
			case 1: // multi-line comment over two lines
				second := mon.Pick(r, enumCommentPool)
				inner := body + nl + ind + "   " + second
				return "/* " + inner + blank(1, 2) + "*/", inner
			}
			pad := mon.Pick(r, []string{" ", "", "  ", "\t"})
			return "//" + pad + body + blank(1, 4), body
		}
		interline := func() {
			if r.Chance(1, 3) {
				t, b := comment()
				sb.WriteString(ind + t + nl)
				if b == "" {
					et.CommentsDecided = false // whether an empty comment is an entry of its own is anybody's guess
				} else {
					et.Entries = append(et.Entries, EnumEntry{Comment: b, IsComment: true})
				}
			}
			if r.Chance(1, 5) {
				sb.WriteString(blank(1, 2) + nl)
			}
		}
		sb.WriteString("[")
		if r.Chance(1, 4) { // comment on the line of the opening bracket
			t, b := comment()
			sb.WriteString(mon.Pick(r, []string{" ", "", "\t"}) + t)
			if b == "" {
				et.CommentsDecided = false
			} else {
				et.Entries = append(et.Entries, EnumEntry{Comment: b, IsComment: true})
			}
		}
		sb.WriteString(nl)
		i := 0
		for i < len(lits) {
			interline()
			sb.WriteString(ind)
			onLine := 1
			if layout == "packed" {
				onLine = r.Range(1, 3)
			}
			for k := 0; k < onLine && i < len(lits); k++ {
				if k > 0 {
					sb.WriteString(" ")
					if r.Chance(1, 3) { // a comment between two literals of one line
						t, b := comment()
						if strings.HasPrefix(t, "/*") && !strings.Contains(t, nl) {
							sb.WriteString(t + " ")
							et.Entries[len(et.Entries)-1].Comment = b
							et.CommentsDecided = false
						}
					}
				}
				sb.WriteString(lits[i])
				lit(lits[i])
				if i < len(lits)-1 {
					sb.WriteString(blank(1, 8) + ",")
				}
				i++
			}
			if r.Chance(1, 2) {
				t, b := comment()
				sb.WriteString(mon.Pick(r, []string{" ", "  ", "\t", ""}) + t)
				et.Entries[len(et.Entries)-1].Comment = b
				if onLine > 1 {
					et.CommentsDecided = false
				}
			}
			sb.WriteString(nl)
		}
		interline()
		sb.WriteString("]")
	default:
		panic("unknown enum layout " + layout)
	}
	et.Text = sb.String()
	return et
}

// ---- regex patterns ---------------------------------------------------------------

// rxNode is a pattern fragment with a sampler of matching strings.
type rxNode struct {
	pat    string
	sample func(r *mon.Rng) string
	atomic bool // can take a repetition operator without a group
}

const rxPrintable = "abcdefghijklmnopqrstuvwxyzABCDEFGHIJKLMNOPQRSTUVWXYZ0123456789 !\"#$%&'()*+,-./:;<=>?@[\\]^_`{|}~"

func rxConst(pat, s string) *rxNode {
	return &rxNode{pat: pat, atomic: true, sample: func(*mon.Rng) string { return s }}
}

func rxOneOf(pat, chars string) *rxNode {
	return &rxNode{pat: pat, atomic: true, sample: func(r *mon.Rng) string { return string(chars[r.Intn(len(chars))]) }}
}

func rxNotOf(pat, excluded string) *rxNode {
	var ok []byte
	for i := 0; i < len(rxPrintable); i++ {
		if !strings.ContainsRune(excluded, rune(rxPrintable[i])) {
			ok = append(ok, rxPrintable[i])
		}
	}
	return rxOneOf(pat, string(ok))
}

const (
	rxLower  = "abcdefghijklmnopqrstuvwxyz"
	rxUpper  = "ABCDEFGHIJKLMNOPQRSTUVWXYZ"
	rxDigits = "0123456789"
	rxWord   = rxLower + rxUpper + rxDigits + "_"
)

// RegexOpts selects optional atom families.
type RegexOpts struct {
	Control  bool // escapes that denote control characters (\v \x01 \a): the pattern text stays printable
	Boundary bool // a \b assertion next to a class of which half the members satisfy it
}

func rxAtom(r *mon.Rng, o RegexOpts) *rxNode {
	switch r.Intn(22) {
	case 0, 1:
		c := "abcxyzABZ019 -_@#%\"'<,:;!~=&`"
		ch := string(c[r.Intn(len(c))])
		return rxConst(ch, ch)
	case 2: // escaped metacharacters, the slash among them
		m := `.*+?()[]{}|^$\/`
		ch := string(m[r.Intn(len(m))])
		return rxConst(`\`+ch, ch)
	case 3:
		return rxConst(`\/`, "/")
	case 4:
		return rxConst(`\\`, `\`)
	case 5:
		return rxConst(`"`, `"`)
	case 6:
		w := mon.Pick(r, []string{"abc", "foo", "ID_", "x-y", "a b", "http:\\/\\/", "\"q\"", "C:\\\\"})
		s := strings.NewReplacer(`\/`, "/", `\\`, `\`).Replace(w)
		return &rxNode{pat: w, sample: func(*mon.Rng) string { return s }}
	case 7:
		return rxOneOf("[a-c]", "abc")
	case 8:
		return rxOneOf("[0-9]", rxDigits)
	case 9:
		return rxOneOf("[a-zA-Z_]", rxLower+rxUpper+"_")
	case 10:
		return rxOneOf(`[\w.-]`, rxWord+".-")
	case 11:
		return rxOneOf(`[\/"\\]`, `/"\`)
	case 12:
		return rxNotOf("[^abc]", "abc")
	case 13:
		return rxNotOf(`[^\/]`, "/")
	case 14:
		switch r.Intn(6) {
		case 0:
			return rxOneOf(`\d`, rxDigits)
		case 1:
			return rxOneOf(`\w`, rxWord)
		case 2:
			return rxOneOf(`\s`, " \t\n")
		case 3:
			return rxNotOf(`\D`, rxDigits)
		case 4:
			return rxNotOf(`\W`, rxWord)
		}
		return rxNotOf(`\S`, " ")
	case 15:
		return rxOneOf(".", strings.ReplaceAll(rxPrintable, "\n", ""))
	case 16:
		switch r.Intn(4) {
		case 0:
			return rxOneOf("[[:alpha:]]", rxLower+rxUpper)
		case 1:
			return rxOneOf("[[:digit:]]", rxDigits)
		case 2:
			return rxOneOf("[ -~]", rxPrintable)
		}
		return rxOneOf("[[:punct:]]", "!-/:@[`{~")
	case 17:
		switch r.Intn(4) {
		case 0:
			return rxConst(`\t`, "\t")
		case 1:
			return rxConst(`\n`, "\n")
		case 2:
			return rxConst(`\x41`, "A")
		}
		return rxConst(`\x2f`, "/")
	case 18:
		if o.Control {
			switch r.Intn(4) {
			case 0:
				return rxConst(`\v`, "\v")
			case 1:
				return rxConst(`\x01`, "\x01")
			case 2:
				return rxConst(`\a`, "\a")
			}
			return rxConst(`\x7f`, "\x7f")
		}
		return rxOneOf("[xyz]", "xyz")
	case 19:
		// a word between word boundaries, fenced by non-word literals so that the boundaries hold
		// whatever the neighbours are
		l, t := mon.Pick(r, []string{" ", "-", ",", ":", "#"}), mon.Pick(r, []string{" ", "-", ",", ";", "!"})
		return &rxNode{pat: l + `\bword\b` + t, sample: func(*mon.Rng) string { return l + "word" + t }}
	}
	return rxOneOf("[A-F0-9]", "ABCDEF0123456789")
}

func rxRepeat(r *mon.Rng, n *rxNode) *rxNode {
	p := n.pat
	if !n.atomic {
		p = "(?:" + p + ")"
	}
	rep := func(lo, hi int) func(*mon.Rng) string {
		return func(r *mon.Rng) string {
			var sb strings.Builder
			for i, k := 0, r.Range(lo, hi); i < k; i++ {
				sb.WriteString(n.sample(r))
			}
			return sb.String()
		}
	}
	switch r.Intn(8) {
	case 0:
		return &rxNode{pat: p + "*", sample: rep(0, 3)}
	case 1:
		return &rxNode{pat: p + "+", sample: rep(1, 3)}
	case 2:
		return &rxNode{pat: p + "?", sample: rep(0, 1)}
	case 3:
		return &rxNode{pat: p + "{2}", sample: rep(2, 2)}
	case 4:
		return &rxNode{pat: p + "{1,3}", sample: rep(1, 3)}
	case 5:
		return &rxNode{pat: p + "{2,}", sample: rep(2, 4)}
	case 6:
		return &rxNode{pat: p + "*?", sample: rep(0, 2)}
	}
	return &rxNode{pat: p + "{0,2}", sample: rep(0, 2)}
}

func rxSeq(r *mon.Rng, o RegexOpts, depth int) *rxNode {
	k := r.Range(1, 4)
	var parts []*rxNode
	for i := 0; i < k; i++ {
		var n *rxNode
		if depth > 0 && r.Chance(1, 4) {
			n = rxGroup(r, o, depth-1)
		} else {
			n = rxAtom(r, o)
		}
		if r.Chance(1, 3) {
			n = rxRepeat(r, n)
		}
		parts = append(parts, n)
	}
	var sb strings.Builder
	for _, p := range parts {
		sb.WriteString(p.pat)
	}
	return &rxNode{pat: sb.String(), sample: func(r *mon.Rng) string {
		var s strings.Builder
		for _, p := range parts {
			s.WriteString(p.sample(r))
		}
		return s.String()
	}}
}

func rxAlt(r *mon.Rng, o RegexOpts, depth int) *rxNode {
	k := 1
	if r.Chance(1, 3) {
		k = r.Range(2, 3)
	}
	var alts []*rxNode
	for i := 0; i < k; i++ {
		alts = append(alts, rxSeq(r, o, depth))
	}
	if k == 1 {
		return alts[0]
	}
	ps := make([]string, k)
	for i, a := range alts {
		ps[i] = a.pat
	}
	return &rxNode{pat: strings.Join(ps, "|"), sample: func(r *mon.Rng) string { return alts[r.Intn(len(alts))].sample(r) }}
}

func rxGroup(r *mon.Rng, o RegexOpts, depth int) *rxNode {
	inner := rxAlt(r, o, depth)
	open := mon.Pick(r, []string{"(", "(", "(?:", "(?P<n>"})
	return &rxNode{pat: open + inner.pat + ")", atomic: true, sample: inner.sample}
}

// RegexPattern generates a pattern over printable ASCII in which every '/' is written '\/',
// together with strings that match it (checked with Go's regexp) and strings that do not.
// The pattern is at most ~60 bytes long.
func RegexPattern(r *mon.Rng, o RegexOpts) RegexCase {
	for {
		body := rxAlt(r, o, 2)
		if o.Boundary {
			// a word boundary next to a class that mixes word and non-word characters: half of
			// the strings the class admits satisfy the assertion
			pre := mon.Pick(r, []string{"[a-]", "[-z]", "[ x]", "[.a]", "(?:a|-)"})
			nonWord := map[string]string{"[a-]": "-", "[-z]": "-", "[ x]": " ", "[.a]": ".", "(?:a|-)": "-"}[pre]
			body = &rxNode{pat: pre + `\bword\b`, sample: func(*mon.Rng) string { return nonWord + "word" }}
			if r.Bool() {
				body = &rxNode{pat: `\bword\b` + pre, sample: func(*mon.Rng) string { return "word" + nonWord }}
			}
		}
		pat := body.pat
		alt := strings.Contains(pat, "|")
		wrap := func(p string) string {
			if alt {
				return "(?:" + p + ")"
			}
			return p
		}
		switch r.Intn(6) {
		case 0:
			pat = "^" + wrap(pat) + "$"
		case 1:
			pat = "^" + wrap(pat)
		case 2:
			pat = wrap(pat) + "$"
		}
		if r.Chance(1, 12) {
			pat = "(?i)" + pat
		}
		if r.Chance(1, 8) {
			// a named group in either spelling (the pattern text must stay as written)
			pat = mon.Pick(r, []string{"(?<part>", "(?P<part>", "(?<a1>"}) + pat + ")"
			if r.Bool() {
				pat += mon.Pick(r, []string{"-(?<n>\\d{2})", "(?P<tail>x?)"})
			}
		}
		if len(pat) == 0 || len(pat) > 60 {
			continue
		}
		re, err := regexp.Compile(pat)
		if err != nil {
			continue
		}
		rc := RegexCase{Pattern: pat}
		seen := map[string]bool{}
		add := func(s string) {
			if seen[s] || len(s) > 80 {
				return
			}
			seen[s] = true
			if re.MatchString(s) {
				rc.Match = append(rc.Match, s)
			} else {
				rc.NoMatch = append(rc.NoMatch, s)
			}
		}
		for i := 0; i < 4; i++ {
			m := body.sample(r)
			add(m)
			add("zz" + m)          // match at the end
			add(m + "zz")          // match at the start
			add("zz " + m + " zz") // match in the middle
			if len(m) > 0 {
				add(m[:len(m)-1])
				add(m[1:])
				add(strings.ToUpper(m))
			}
		}
		for _, s := range []string{"", " ", "zz", "/", `\`, `"`, "a", "0", "word", "é"} {
			add(s)
		}
		if len(rc.Match) == 0 {
			continue // sampler and anchors did not get along; draw again
		}
		return rc
	}
}
