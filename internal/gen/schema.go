package gen

import (
	"fmt"
	"strconv"
	"strings"
	"verif/internal/model"
	"verif/internal/mon"
)

// ShapeOpts bounds the rule-free fragment generator (C01).
type ShapeOpts struct {
	MaxDepth int
	MaxWidth int
	OddKeys  bool
}

// Shape generates a schema of the rule-free fragment: objects/arrays/scalars, each node
// independently optional (properties only) / nullable / type any.
func Shape(r *mon.Rng, o ShapeOpts) *model.Node {
	return shapeNode(r, o, o.MaxDepth, false)
}

func scalarExample(r *mon.Rng) *model.Node {
	switch r.Intn(6) {
	case 0:
		return model.Str(RandomString(r))
	case 1:
		return model.Int(RandomInteger(r))
	case 2:
		return model.Flt(RandomFloat(r))
	case 3:
		return model.Bool(r.Bool())
	case 4:
		return model.Null()
	}
	return model.Str("s")
}

func shapeNode(r *mon.Rng, o ShapeOpts, depth int, isProp bool) *model.Node {
	var n *model.Node
	switch k := r.Intn(10); {
	case depth > 0 && k < 3:
		w := r.Intn(o.MaxWidth + 1)
		n = model.Obj()
		used := map[string]bool{}
		for i := 0; i < w; i++ {
			key := mon.Pick(r, keyPool)
			if o.OddKeys && r.Chance(1, 8) {
				key = mon.Pick(r, oddKeys)
			}
			if o.OddKeys && i == 0 && r.Chance(1, 4) {
				key = "" // the empty property name is a name like any other (and required unless marked)
			}
			if used[key] {
				continue
			}
			used[key] = true
			n.Props = append(n.Props, model.P(key, shapeNode(r, o, depth-1, true)))
		}
	case depth > 0 && k < 6:
		w := r.Intn(o.MaxWidth + 1)
		n = model.Arr()
		for i := 0; i < w; i++ {
			n.Items = append(n.Items, shapeNode(r, o, depth-1, false))
		}
	default:
		n = scalarExample(r)
	}
	// flags, in random written order
	var rules []*model.Rule
	if isProp && r.Chance(1, 3) {
		rules = append(rules, model.RBool("optional", r.Chance(4, 5)))
	}
	if r.Chance(1, 4) {
		rules = append(rules, model.RBool("nullable", r.Chance(4, 5)))
	}
	empty := (n.Kind == model.KObject && len(n.Props) == 0) || (n.Kind == model.KArray && len(n.Items) == 0) || n.IsScalar()
	if empty && r.Chance(1, 7) {
		rules = append(rules, model.RStr("type", "any"))
	}
	mon.Shuffle(r, rules)
	n.Rules = rules
	return n
}

// BigShape is a schema of the rule-free fragment that is large in every direction: a chain of
// objects and arrays a dozen levels deep, an object with thirty keys, an array with twenty
// example items, long strings and keys (several hundred bytes of text).
func BigShape(r *mon.Rng) *model.Node {
	leaf := func() *model.Node {
		n := scalarExample(r)
		if r.Chance(1, 5) {
			n.Rules = append(n.Rules, model.RBool("nullable", true))
		}
		return n
	}
	// the deep chain
	deep := leaf()
	for d := 0; d < r.Range(9, 14); d++ {
		if r.Bool() {
			deep = model.Obj(model.P("d"+strconv.Itoa(d), deep))
			if r.Chance(1, 3) {
				deep.Props = append(deep.Props, model.P("s"+strconv.Itoa(d), leaf().With(model.RBool("optional", true))))
			}
		} else {
			deep = model.Arr(deep)
		}
	}
	// the wide object
	wide := model.Obj()
	for i := 0; i < r.Range(18, 32); i++ {
		p := model.P(fmt.Sprintf("key_%02d_%s", i, strings.Repeat("x", i%7)), leaf())
		if i%3 == 0 {
			p.Node.Rules = append(p.Node.Rules, model.RBool("optional", true))
		}
		wide.Props = append(wide.Props, p)
	}
	// the long array
	long := model.Arr()
	for i := 0; i < r.Range(14, 24); i++ {
		long.Items = append(long.Items, leaf())
	}
	text := model.Str(strings.Repeat("long string é ", r.Range(20, 40)))
	return model.Obj(model.P("deep", deep), model.P("wide", wide), model.P("long", long), model.P("text", text))
}
