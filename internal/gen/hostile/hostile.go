// Package hostile derives hostile inputs (<= MaxLen bytes) from seed texts: truncations,
// dictionary mutations (insert / substitute / delete of JSight-relevant tokens and byte
// classes), splices between seeds and random byte strings. Pure functions of their arguments;
// no import of the library under test.
package hostile

// MaxLen is the size bound of the property's quantifier ("byte strings up to 4 KiB").
const MaxLen = 4096

// Rand is the part of the deterministic PRNG the derivations need (mon.Rng satisfies it).
type Rand interface {
	Intn(n int) int
}

// Dict is the mutation dictionary: tokens of the JSight schema language, of JSON, of the enum
// and regex notations, and representatives of byte classes the scanners distinguish.
var Dict = []string{
	// annotations and comments
	"//", "/*", "*/", "/", "*", "#", "##", "###", " // ", " /* ", " */ ", " # ", " - ", "// {", "/* {",
	// type and key shortcuts, unions
	"@", "|", " | ", "@t", "@e", "@t | @t", "@t |", "| @t", "@t:", "@-", "@_",
	// structure
	"{", "}", "[", "]", "\"", "\\", ":", ",", "{}", "[]", "\"\"", "{\"", "\":", ",]", ",}", "[[", "]]",
	// numbers and literals
	"-", ".", "e", "E", "+", "0", "1", "9", "-0", "1.", ".5", "1e", "1e+", "1E-1", "00", "t", "f", "n", "true", "false", "null", "tru", "nul", "fals",
	// string escapes
	"\\\"", "\\\\", "\\/", "\\u", "\\u12", "\\u0000", "\\ud800", "\\x",
	// white space and line ends
	"\n", "\r", "\r\n", "\t", " ", "\n\n", " \n", "\n ",
	// byte classes: NUL, control, DEL, UTF-8 lead without continuation, invalid bytes, BOM
	"\x00", "\x01", "\x1f", "\x7f", "\xc3", "\xc3\xa9", "\xff", "\xef\xbb\xbf", "\xe2\x80\xa8",
	// runs of invalid UTF-8 (each byte decodes to U+FFFD: the decoded text is LONGER than the source)
	"\xff\xfe\xff\xfe\xff\xfe", "\x80\x80\x80\x80\x80\x80\x80\x80\x80\x80\x80\x80", "\"\xff\xff\xff\xff\xff\xff\xff\"",
	// exponents beyond int range
	"E+99999999999999999999", "e-99999999999999999999", "1e99999999999999999999",
	// comments right after an opening bracket inside rules
	"[ // c\n", "{enum: [ // c\n1, 2]}", "[ /* c */",
	// rule fragments
	"{min: 1}", "{enum: @e}", "{enum: [", "{or: [", "{type: \"", "{allOf: \"@t\"}", "{additionalProperties: ", "{regex: \"", "optional: true", "nullable: true", "const: true", ", }", "{ ,",
	// regex notation
	"/a/", "\\/", "(", ")", "[^", "{1,", "?", "+?", "\\p{", "(?i)", "[^\\x00-\\x{10FFFF}]", "[^\\s\\S]", "\\b", "$a", "a^",
}

// Truncate returns the prefix of s of length k (clamped).
func Truncate(s []byte, k int) []byte {
	if k < 0 {
		k = 0
	}
	if k > len(s) {
		k = len(s)
	}
	return clone(s[:k])
}

// Suffix returns s[k:].
func Suffix(s []byte, k int) []byte {
	if k < 0 {
		k = 0
	}
	if k > len(s) {
		k = len(s)
	}
	return clone(s[k:])
}

// Insert returns s with tok inserted before offset k (k may equal len(s)).
func Insert(s []byte, k int, tok string) []byte {
	k = clampOff(k, len(s))
	out := make([]byte, 0, len(s)+len(tok))
	out = append(out, s[:k]...)
	out = append(out, tok...)
	out = append(out, s[k:]...)
	return bound(out)
}

// Substitute returns s with n bytes at offset k replaced by tok.
func Substitute(s []byte, k, n int, tok string) []byte {
	k = clampOff(k, len(s))
	if n < 0 {
		n = 0
	}
	if k+n > len(s) {
		n = len(s) - k
	}
	out := make([]byte, 0, len(s)+len(tok))
	out = append(out, s[:k]...)
	out = append(out, tok...)
	out = append(out, s[k+n:]...)
	return bound(out)
}

// Delete returns s without the n bytes at offset k.
func Delete(s []byte, k, n int) []byte { return Substitute(s, k, n, "") }

// TokenLenAt returns the length of the lexical token of s that starts at offset k: a run of
// name/number bytes, a quoted string, a comment opener, or one byte.
func TokenLenAt(s []byte, k int) int {
	if k >= len(s) {
		return 0
	}
	isWord := func(c byte) bool {
		return c == '_' || c == '-' || c == '.' || c == '@' || (c >= '0' && c <= '9') || (c >= 'a' && c <= 'z') || (c >= 'A' && c <= 'Z')
	}
	c := s[k]
	switch {
	case isWord(c):
		n := 1
		for k+n < len(s) && isWord(s[k+n]) {
			n++
		}
		return n
	case c == '"':
		n := 1
		for k+n < len(s) {
			if s[k+n] == '\\' {
				n += 2
				continue
			}
			if s[k+n] == '"' {
				return n + 1
			}
			if s[k+n] == '\n' {
				break
			}
			n++
		}
		if k+n > len(s) {
			n = len(s) - k
		}
		return n
	case c == '/' && k+1 < len(s) && (s[k+1] == '/' || s[k+1] == '*'):
		return 2
	case c == '#':
		n := 1
		for k+n < len(s) && s[k+n] == '#' && n < 3 {
			n++
		}
		return n
	}
	return 1
}

// Splice joins a prefix of a with a suffix of b.
func Splice(a []byte, i int, b []byte, j int) []byte {
	i = clampOff(i, len(a))
	j = clampOff(j, len(b))
	out := make([]byte, 0, i+len(b)-j)
	out = append(out, a[:i]...)
	out = append(out, b[j:]...)
	return bound(out)
}

// alphabet of the JSight-biased random strings
var alphabet = []byte("{}[]\",:/*#@|-.0159eEtfnrualse \n\r\t\\x_{}[]\"\"::,,//")

// Random returns a random byte string: kind 0 uniform bytes, kind 1 over the JSight alphabet,
// kind 2 a concatenation of dictionary tokens.
func Random(r Rand, kind, n int) []byte {
	if n > MaxLen {
		n = MaxLen
	}
	out := make([]byte, 0, n)
	switch kind {
	case 0:
		for len(out) < n {
			out = append(out, byte(r.Intn(256)))
		}
	case 1:
		for len(out) < n {
			out = append(out, alphabet[r.Intn(len(alphabet))])
		}
	default:
		for len(out) < n {
			out = append(out, Dict[r.Intn(len(Dict))]...)
		}
	}
	return bound(out)
}

func clampOff(k, n int) int {
	if k < 0 {
		return 0
	}
	if k > n {
		return n
	}
	return k
}

func bound(b []byte) []byte {
	if len(b) > MaxLen {
		return b[:MaxLen]
	}
	return b
}

func clone(b []byte) []byte { return append([]byte{}, b...) }
