package props

import (
	"fmt"
	"sort"
	"strings"

	jschema "github.com/jsightapi/jsight-schema-go-library"
)

// astOpts selects what a canonical rendering of an AST includes.
type astOpts struct {
	IgnoreComments bool
	RulesAsSet     bool
}

// astString renders an AST node tree canonically (used for structural comparison).
func astString(n jschema.ASTNode, o astOpts) string {
	var sb strings.Builder
	writeAST(&sb, n, o, 0)
	return sb.String()
}

func writeAST(sb *strings.Builder, n jschema.ASTNode, o astOpts, depth int) {
	ind := strings.Repeat(" ", depth)
	fmt.Fprintf(sb, "%snode key=%q shortcut=%v token=%s type=%s value=%q", ind, n.Key, n.IsKeyShortcut, n.TokenType, n.SchemaType, n.Value)
	if !o.IgnoreComments {
		fmt.Fprintf(sb, " comment=%q", n.Comment)
	}
	sb.WriteByte('\n')
	if n.Rules != nil {
		writeRules(sb, n.Rules, o, depth+1)
	}
	for _, c := range n.Children {
		writeAST(sb, c, o, depth+1)
	}
}

func writeRules(sb *strings.Builder, rs *jschema.RuleASTNodes, o astOpts, depth int) {
	var lines []string
	rs.EachSafe(func(k string, v jschema.RuleASTNode) {
		var b strings.Builder
		writeRule(&b, k, v, o, depth)
		lines = append(lines, b.String())
	})
	if o.RulesAsSet {
		sort.Strings(lines)
	}
	for _, l := range lines {
		sb.WriteString(l)
	}
}

func writeRule(sb *strings.Builder, name string, r jschema.RuleASTNode, o astOpts, depth int) {
	ind := strings.Repeat(" ", depth)
	fmt.Fprintf(sb, "%srule %s token=%s value=%q source=%d", ind, name, r.TokenType, r.Value, r.Source)
	if !o.IgnoreComments {
		fmt.Fprintf(sb, " comment=%q", r.Comment)
	}
	sb.WriteByte('\n')
	if r.Properties != nil {
		writeRules(sb, r.Properties, astOpts{IgnoreComments: o.IgnoreComments}, depth+1)
	}
	for i, it := range r.Items {
		writeRule(sb, fmt.Sprintf("[%d]", i), it, astOpts{IgnoreComments: o.IgnoreComments}, depth+1)
	}
}

// ASTString is the exported canonical rendering (debug tools).
func ASTString(n jschema.ASTNode) string { return astString(n, astOpts{}) }
