package props

// C13 — meaning is invariant under surface syntax of schema and document.
//
// Real-vs-real metamorphic monitor: one abstract schema is rendered in the canonical style,
// in every single rewrite and in random compositions of the rewrites; Check's verdict, the AST
// (comments aside) and every validation verdict must coincide. One JSON value is rendered in
// several spellings (whitespace, member order, escape sequences); verdicts must coincide.

import (
	"encoding/json"
	"fmt"

	"verif/internal/gen"
	"verif/internal/lib"
	"verif/internal/model"
	"verif/internal/mon"
)

type c13Spelling struct {
	Name  string
	Style model.Style
	// Shuffle: permute the rules of every annotation (AST rules then compare as a set)
	Shuffle bool
}

func c13Single() []c13Spelling {
	return []c13Spelling{
		{"CRLF line ends", model.Style{NL: "\r\n"}, false},
		{"CR line ends", model.Style{NL: "\r"}, false},
		{"tab indentation", model.Style{Indent: "\t"}, false},
		{"no indentation", model.Style{Indent: "-"}, false},
		{"user comments", model.Style{Comments: true}, false},
		{"multi-line annotation syntax on one line", model.Style{MultiLine: 1}, false},
		{"multi-line annotations over several lines", model.Style{MultiLine: 2}, false},
		{"multi-line annotations, note / end marker on a line of its own", model.Style{MultiLine: 3}, false},
		{"multi-line annotations over several lines, CRLF", model.Style{MultiLine: 2, NL: "\r\n"}, false},
		{"multi-line annotations, end marker on its own line, CRLF", model.Style{MultiLine: 3, NL: "\r\n"}, false},
		{"multi-line annotations, end marker on its own line, CR", model.Style{MultiLine: 3, NL: "\r"}, false},
		{"user comments, CRLF", model.Style{Comments: true, NL: "\r\n"}, false},
		{"user comments, CR", model.Style{Comments: true, NL: "\r"}, false},
		{"quoted rule names", model.Style{QuoteNames: true}, false},
		{"trailing comma in the rule object", model.Style{TrailingComma: true}, false},
		{"no blanks after colons", model.Style{TightColon: true}, false},
		{"extra blank lines and trailing blanks", model.Style{ExtraBlank: true}, false},
		{"string examples written with \\u escapes", model.Style{LitEscapes: true}, false},
		{"tab / no blank / several blanks after the annotation marker", model.Style{Gaps: true}, false},
		{"other blanks after the annotation marker, /* */ form", model.Style{Gaps: true, MultiLine: 1}, false},
		{"empty inline annotations", model.Style{BareAnnot: true}, false},
		{"empty inline annotations, CRLF", model.Style{BareAnnot: true, NL: "\r\n"}, false},
		{"rule order permuted", model.Style{}, true},
	}
}

func c13Random(r *mon.Rng) c13Spelling {
	st := model.Style{
		NL:            mon.Pick(r, []string{"\n", "\n", "\r\n", "\r"}),
		Indent:        mon.Pick(r, []string{"", "\t", "-", "    "}),
		MultiLine:     r.Intn(4),
		QuoteNames:    r.Bool(),
		TrailingComma: r.Bool(),
		Comments:      r.Bool(),
		TightColon:    r.Bool(),
		ExtraBlank:    r.Bool(),
		LitEscapes:    r.Bool(),
		BareAnnot:     r.Chance(1, 3),
		Gaps:          r.Chance(1, 3),
		Mixed:         r.Fork(),
	}
	return c13Spelling{"random composition", st, r.Bool()}
}

func shuffleRules(r *mon.Rng, s *model.Schema) *model.Schema {
	c := s.Clone()
	f := func(n *model.Node) {
		n.Walk(func(x *model.Node) { mon.Shuffle(r, x.Rules) })
	}
	f(c.Root)
	for _, t := range c.Types {
		if t.Root != nil {
			f(t.Root)
		}
	}
	return c
}

func c13Sizes(tier string) (units, per, random, docs int) {
	if tier == "thorough" {
		return 8000, 16, 6, 24
	}
	return 320, 8, 3, 16
}

type c13Case struct {
	A   lib.Spec `json:"canonical"`
	B   lib.Spec `json:"respelled"`
	Doc string   `json:"doc,omitempty"`
	How string   `json:"rewrite"`
}

func c13AST(b *builtSchema, sp lib.Spec, o astOpts) (string, lib.Obs) {
	s, bo := lib.Build(sp)
	if !bo.OK {
		return "", bo
	}
	an, ao := lib.SafeVal(s.GetAST)
	if !ao.OK {
		return "", ao
	}
	return astString(an, o), ao
}

func c13Run(c *mon.Ctx, unit int) {
	_, per, nrand, ndocs := c13Sizes(c.Tier)
	r := c.Rng(13)
	for k := 0; k < per; k++ {
		var s *model.Schema
		switch k % 3 {
		case 0:
			s = gen.Graph(r, 5)
		default:
			s = gen.Everything(r, gen.EverythingOpts{MaxDepth: r.Range(1, 4), MaxWidth: 4}).S
		}
		if k == 2 && unit%4 == 0 {
			s = &model.Schema{Root: gen.BigShape(r)}
		}
		var extra []*model.Val
		switch {
		case k == 3:
			// a scalar with its rule set: the documents sit on, just inside and just outside every
			// bound (where the order of a bound and its exclusive flag would show)
			sc := gen.Scalar(r)
			s = &model.Schema{Root: sc.Node, Enums: sc.Enums}
			extra = sc.Probes
			if len(extra) > 24 {
				extra = extra[:24]
			}
		case k == 4 && unit%2 == 0:
			// two key shortcuts whose key types overlap and whose values differ: a key that fits
			// both belongs to the one declared first, wherever it stands in the document
			s = &model.Schema{
				Root: model.Obj(model.PShort("@aKey", model.Int("1")), model.PShort("@bKey", model.Str("s"))),
				Types: []*model.TypeDef{
					{Name: "@aKey", Root: model.Str("a1").With(model.RStr("regex", "^a"))},
					{Name: "@bKey", Root: model.Str("xb").With(model.RStr("regex", "b$"))},
				},
			}
			if r.Bool() {
				s.Root.Props[0], s.Root.Props[1] = s.Root.Props[1], s.Root.Props[0]
			}
			for _, ms := range [][]model.Member{
				{model.M("ab", model.VNumber("1")), model.M("xb", model.VString("s"))},
				{model.M("xb", model.VString("s")), model.M("ab", model.VNumber("1"))},
				{model.M("ab", model.VString("s")), model.M("xb", model.VString("s")), model.M("a1", model.VNumber("1"))},
				{model.M("a1", model.VNumber("1")), model.M("xb", model.VString("s")), model.M("ab", model.VString("s"))},
				{model.M("xb", model.VString("s")), model.M("a1", model.VNumber("1")), model.M("ab", model.VNumber("2"))},
			} {
				extra = append(extra, model.VObject(ms...))
			}
		}
		s.OptKeys = r.Chance(1, 8)
		if k%4 == 1 {
			// false-valued rules, several on one node: inert whatever their order
			s.Root.Walk(func(n *model.Node) {
				if n.IsScalar() && n.Rule("or") == nil && n.Rule("enum") == nil && r.Chance(1, 2) {
					gen.AddFalseRules(r, n)
				}
			})
		}
		canon := specOf(s, model.Style{})
		base := buildSchema(canon)
		if base.check.Panic != "" {
			c.Violate("check-panic", c13Case{A: canon, B: canon, How: "canonical"}, "no panic", base.check.String(), "Check panicked")
			continue
		}
		key, _ := json.Marshal(canon)
		c.Distinct(string(key))
		if base.ok {
			c.Count("schemas accepted by Check", 1)
		} else {
			c.Count("schemas rejected by Check (verdict invariance still compared)", 1)
		}
		// documents (values) for this schema
		dg := gen.NewDocs(s, r.Fork())
		var vals []*model.Val
		for j := 0; j < ndocs; j++ {
			v := dg.Conform()
			if j%2 == 1 {
				v, _ = dg.Mutate(v)
			}
			vals = append(vals, v)
		}
		vals = append(vals, extra...)
		baseVerdicts := make([]string, len(vals))
		for j, v := range vals {
			baseVerdicts[j] = base.validate(v.Text()).Verdict()
		}
		spellings := c13Single()
		for i := 0; i < nrand; i++ {
			spellings = append(spellings, c13Random(r))
		}
		for _, spg := range spellings {
			s2 := s
			if spg.Shuffle {
				s2 = shuffleRules(r, s)
			}
			sp := specOf(s2, spg.Style)
			b := buildSchema(sp)
			c.Eval(1)
			c.Count("spellings compared: "+spg.Name, 1)
			if b.check.Panic != "" {
				c.Violate("check-panic", c13Case{A: canon, B: sp, How: spg.Name}, "no panic", b.check.String(), "Check panicked")
				continue
			}
			if b.ok != base.ok {
				c.Violate("check", c13Case{A: canon, B: sp, How: spg.Name}, "same Check verdict",
					fmt.Sprintf("canonical: %s; respelled: %s", base.check, b.check), "Check verdict changes under a meaning-preserving rewrite: "+spg.Name)
				continue
			}
			if !base.ok {
				continue
			}
			ao := astOpts{IgnoreComments: true, RulesAsSet: spg.Shuffle}
			a1, o1 := c13AST(base, canon, ao)
			a2, o2 := c13AST(b, sp, ao)
			c.Eval(1)
			if !o1.OK || !o2.OK || a1 != a2 {
				c.Violate("ast", c13Case{A: canon, B: sp, How: spg.Name}, "same AST (comments aside)", "AST differs: "+firstDiff(a1, a2)+o1.String()+o2.String(),
					"GetAST changes under a meaning-preserving rewrite: "+spg.Name)
			}
			for j, v := range vals {
				got := b.validate(v.Text()).Verdict()
				c.Eval(1)
				if got != baseVerdicts[j] {
					c.Violate("validate", c13Case{A: canon, B: sp, Doc: v.Text(), How: spg.Name}, "same verdict",
						fmt.Sprintf("canonical: %s; respelled: %s", baseVerdicts[j], got), "a validation verdict changes under a meaning-preserving schema rewrite: "+spg.Name)
					break
				}
			}
		}
		// document re-spellings
		if base.ok {
			for j, v := range vals {
				for t := 0; t < 4; t++ {
					v2 := v.Clone()
					how := ""
					switch t {
					case 0:
						how = "whitespace"
					case 1:
						how = "member order"
						v2 = permuteMembers(r, v2)
					case 2:
						how = "escape sequences"
					default:
						how = "all"
						v2 = permuteMembers(r, v2)
					}
					st := model.DocStyle{}
					if t == 0 || t == 3 {
						st.WS = r
						st.Pretty = r.Bool()
					}
					if t == 2 || t == 3 {
						st.Escapes = r
					}
					text := st.Render(v2)
					got := base.validate(text).Verdict()
					c.Eval(1)
					c.Count("document re-spellings compared: "+how, 1)
					if got != baseVerdicts[j] {
						c.Violate("doc", map[string]any{"spec": canon, "doc_a": v.Text(), "doc_b": text, "rewrite": how}, "same verdict",
							fmt.Sprintf("%s vs %s", baseVerdicts[j], got), "a validation verdict changes when the document is re-spelled: "+how)
					}
				}
			}
		}
		if k == 0 && unit < 5 {
			c.Sample("schema in two spellings", map[string]any{"canonical": canon.Text, "respelled": specOf(s, c13Random(r).Style).Text})
		}
	}
}

// permuteMembers shuffles the members of every object. Repeated keys keep their relative
// order (each occurrence is validated on its own, so order among equals must not matter for
// the verdict either, but the statement speaks of property order).
func permuteMembers(r *mon.Rng, v *model.Val) *model.Val {
	mon.Shuffle(r, v.Members)
	for i := range v.Members {
		permuteMembers(r, v.Members[i].V)
	}
	for _, e := range v.Elems {
		permuteMembers(r, e)
	}
	return v
}

func firstDiff(a, b string) string {
	la, lb := splitLines(a), splitLines(b)
	for i := 0; i < len(la) || i < len(lb); i++ {
		x, y := "", ""
		if i < len(la) {
			x = la[i]
		}
		if i < len(lb) {
			y = lb[i]
		}
		if x != y {
			return fmt.Sprintf("line %d: %q vs %q ", i, x, y)
		}
	}
	return ""
}

func splitLines(s string) []string {
	var out []string
	cur := ""
	for _, ch := range s {
		if ch == '\n' {
			out = append(out, cur)
			cur = ""
			continue
		}
		cur += string(ch)
	}
	return append(out, cur)
}

func c13ReplayPair(raw json.RawMessage) (c13Case, *builtSchema, *builtSchema) {
	var cs c13Case
	json.Unmarshal(raw, &cs)
	return cs, buildSchema(cs.A), buildSchema(cs.B)
}

func init() {
	mon.Register(&mon.Prop{
		ID:    "C13",
		Level: "exploration",
		Rule: "schemas from the type-graph and all-features generators, each rendered canonically, in each of 12 single rewrites (LF/CRLF/CR, indentation, # and ### comments, inline vs multi-line annotations, " +
			"quoted rule names, trailing comma, tight colons, blank lines, rule order) and in random per-site compositions; compared: Check verdict, AST ignoring comments (rules as a set under rule-order rewrite), " +
			"verdicts on a document set; each document value additionally in 4 re-spellings (whitespace, member order, escapes, all). Non-trivial = distinct schema (hashed canonical spec).",
		Assumptions: []string{
			"a change that breaks all spellings alike is invisible to this relation by construction (C01-C04/C08 have absolute oracles)",
			"the renderer only produces spellings the language allows (DESIGN.md Appendix A 'Surface syntax')",
		},
		Units: func(tier string, seed uint64) int { u, _, _, _ := c13Sizes(tier); return u },
		Run:   c13Run,
		Replay: map[string]func(json.RawMessage) string{
			"check-panic": func(raw json.RawMessage) string {
				cs, _, b := c13ReplayPair(raw)
				_ = cs
				return noPanic(b.check)
			},
			"check": func(raw json.RawMessage) string {
				_, a, b := c13ReplayPair(raw)
				if a.ok == b.ok {
					return "same Check verdict"
				}
				return fmt.Sprintf("canonical: %s; respelled: %s", a.check, b.check)
			},
			"ast": func(raw json.RawMessage) string {
				cs, a, b := c13ReplayPair(raw)
				ao := astOpts{IgnoreComments: true, RulesAsSet: cs.How == "rule order permuted" || cs.How == "random composition"}
				x, o1 := c13AST(a, cs.A, ao)
				y, o2 := c13AST(b, cs.B, ao)
				if o1.OK && o2.OK && x == y {
					return "same AST (comments aside)"
				}
				return "AST differs: " + firstDiff(x, y)
			},
			"validate": func(raw json.RawMessage) string {
				cs, a, b := c13ReplayPair(raw)
				x, y := a.validate(cs.Doc).Verdict(), b.validate(cs.Doc).Verdict()
				if x == y {
					return "same verdict"
				}
				return fmt.Sprintf("canonical: %s; respelled: %s", x, y)
			},
			"doc": func(raw json.RawMessage) string {
				var m struct {
					Spec lib.Spec `json:"spec"`
					A    string   `json:"doc_a"`
					B    string   `json:"doc_b"`
				}
				json.Unmarshal(raw, &m)
				x, y := lib.Validate(m.Spec, m.A).Verdict(), lib.Validate(m.Spec, m.B).Verdict()
				if x == y {
					return "same verdict"
				}
				return x + " vs " + y
			},
		},
	})
}
