package props

// C08 — Check enforces rule applicability and mutual consistency, order-independently.
//
// Monitors: (1) order independence, real vs real: every permutation of one rule set gives the
// same Check verdict; (2) applicability-matrix oracle (model.CheckOracle) for the verdict.

import (
	"encoding/json"
	"fmt"

	"verif/internal/gen"
	"verif/internal/lib"
	"verif/internal/model"
	"verif/internal/mon"
)

type c08Case struct {
	Spec lib.Spec `json:"spec"`
}

func c08MaxSize(tier string) int {
	if tier == "thorough" {
		return 4
	}
	return 3
}

func c08VariantCap(tier string) int {
	if tier == "thorough" {
		return 32
	}
	return 10
}

var c08Names = append(append([]string{}, gen.RuleNames...), "bogus")

const c08Chunks = 8 // subset list is cut into this many units per (kind, position)

func c08Wrap(n *model.Node, pos model.Position) *model.Node {
	switch pos {
	case model.PosProperty:
		return model.Obj(model.P("k", n))
	case model.PosItem:
		return model.Arr(n)
	}
	return n
}

// c08Spec writes the annotated node at its position in the root; for every third rule text (by
// hash) the wrapped node is the text of an ADDED TYPE @host instead and the root only names it, and
// for half of those another root over the same type objects is checked first (lib.Spec.PreRoot):
// where a rule set is written and what was compiled before do not change what Check decides.
// c08Enums: the enum rule environment, for the nodes that name a rule.
func c08Enums(n *model.Node) []*model.EnumDef {
	for _, r := range n.Rules {
		if r.Name == "enum" && r.Str != "" {
			return gen.RuleEnums()
		}
	}
	return nil
}

func c08Spec(n *model.Node, pos model.Position) lib.Spec {
	w := c08Wrap(n, pos)
	h := mon.HashString(model.Canonical(w))
	// one text in four writes the rule names (also inside or rule-sets) in quotes
	st := model.Style{QuoteNames: h%4 == 1}
	if len(n.Rules) >= 2 && h%5 == 2 {
		// the rule set written as two annotations of the one node (`/* {first rules} */ // {others}`):
		// the node carries the union of the rules, wherever each of them is written
		n.Split = 1 + int(h/5)%(len(n.Rules)-1)
		defer func() { n.Split = 0 }()
	}
	switch h % 7 {
	case 3:
		st.MultiLine = 1 // the annotation as /* {…} */ on the line of its node
	case 5:
		st.Gaps = true // a tab, nothing or several blanks between the annotation marker and the rule object
	}
	if h%3 != 0 || (pos == model.PosRoot && n.Rule("optional") != nil) {
		return specOf(&model.Schema{Root: w, Types: gen.RuleEnv(), Enums: c08Enums(n)}, st)
	}
	types := append(gen.RuleEnv(), &model.TypeDef{Name: "@host", Root: w})
	sp := specOf(&model.Schema{Root: model.Obj(model.P("h", model.Ref("@host"))), Types: types, Enums: c08Enums(n)}, st)
	sp.PreRoot = h%6 == 0
	return sp
}

var c08Applicable = [][]string{
	{"optional", "nullable", "additionalProperties", "allOf", "type"},                                            // empty object
	{"optional", "nullable", "additionalProperties", "allOf", "type"},                                            // object
	{"optional", "nullable", "minItems", "maxItems", "type"},                                                     // empty array
	{"optional", "nullable", "minItems", "maxItems", "type"},                                                     // array
	{"optional", "nullable", "const", "minLength", "maxLength", "regex", "type"},                                 // string
	{"optional", "nullable", "const", "min", "max", "exclusiveMinimum", "exclusiveMaximum", "type"},              // integer
	{"optional", "nullable", "const", "min", "max", "exclusiveMinimum", "exclusiveMaximum", "precision", "type"}, // float
	{"optional", "nullable", "const", "type", "enum"},                                                            // boolean
	{"optional", "nullable", "const", "type", "enum"},                                                            // null
	{"optional", "nullable", "const", "min", "max", "exclusiveMinimum", "exclusiveMaximum", "precision", "type"}, // negative float
	{"optional", "nullable", "const", "min", "max", "exclusiveMinimum", "exclusiveMaximum", "type"},              // zero
	{"optional", "nullable"}, // reference
}

// c08RunApplicable: subsets of the rules that can apply to the kind (accept-biased family).
func c08RunApplicable(c *mon.Ctx, kind int, pos model.Position) {
	names := c08Applicable[kind]
	maxSize := 5
	if c.Tier == "thorough" {
		maxSize = len(names)
	}
	r := c.Rng(88)
	vcap := c08VariantCap(c.Tier)
	for si, sub := range gen.Subsets(len(names), maxSize) {
		base := gen.KindExample(kind)
		lists := make([][]*model.Rule, len(sub))
		total := 1
		for i, ni := range sub {
			lists[i] = gen.RuleVariants(names[ni], base)
			total *= len(lists[i])
			if total > 1<<20 {
				total = 1 << 20
			}
		}
		seen := map[int]bool{}
		for k := 0; k < vcap && k < total; k++ {
			x := k
			if total > vcap {
				x = r.Intn(total)
				if seen[x] {
					continue
				}
				seen[x] = true
			}
			rules := make([]*model.Rule, len(sub))
			for i := range sub {
				rules[i] = lists[i][x%len(lists[i])]
				x /= len(lists[i])
			}
			c08Judge(c, kind, pos, rules, si == 3)
		}
	}
}

// c08RunOrRuleSets: paired bounds inside the rule-sets of an or rule must be ordered too,
// whatever the kind of the annotated example (the rule-set describes an alternative of its own).
// c08RunOrBans: what may not stand next to a format type / type any / enum stays forbidden inside
// an or rule-set; the same rule-set without the banned rule is the control.
func c08RunOrBans(c *mon.Ctx) {
	formats := []struct{ typ, ex string }{
		{"email", "a@b.cc"}, {"uri", "http://a.b/c"}, {"uuid", "550e8400-e29b-41d4-a716-446655440000"}, {"date", "2021-01-02"}, {"datetime", "2021-01-02T03:04:05Z"},
	}
	type cs struct {
		ex    *model.Node
		set   []*model.Rule
		want  string
		why   string
		other string // type of the second alternative (default "null")
	}
	var cases []cs
	for _, f := range formats {
		for _, banned := range []*model.Rule{model.RInt("minLength", 3), model.RInt("maxLength", 60), model.RStr("regex", ".")} {
			cases = append(cases,
				cs{ex: model.Str(f.ex), set: []*model.Rule{model.RStr("type", f.typ), banned}, want: "reject", why: "format type with " + banned.Name + " inside an or rule-set"},
				cs{ex: model.Str(f.ex), set: []*model.Rule{banned, model.RStr("type", f.typ)}, want: "reject", why: "format type with " + banned.Name + " inside an or rule-set (other order)"})
		}
		cases = append(cases, cs{ex: model.Str(f.ex), set: []*model.Rule{model.RStr("type", f.typ)}, want: "accept", why: "format type alone inside an or rule-set"})
	}
	cases = append(cases,
		cs{ex: model.Int("5"), set: []*model.Rule{model.RStr("type", "any"), model.RBool("const", true)}, want: "reject", why: "const next to any inside an or rule-set"},
		cs{ex: model.Int("5"), set: []*model.Rule{model.RStr("type", "any"), model.RNum("min", "1")}, want: "reject", why: "min next to any inside an or rule-set"},
		cs{ex: model.Int("5"), set: []*model.Rule{model.RStr("type", "any")}, want: "accept", why: "any alone inside an or rule-set"},
		cs{ex: model.Flt("1.5"), set: []*model.Rule{model.RStr("type", "decimal")}, want: "reject", why: "decimal without precision inside an or rule-set"},
		cs{ex: model.Flt("1.5"), set: []*model.Rule{model.RStr("type", "decimal"), model.RInt("precision", 2)}, want: "accept", why: "decimal with precision inside an or rule-set"},
		cs{ex: model.Int("5"), set: []*model.Rule{model.RNum("min", "1"), model.RBool("exclusiveMaximum", true)}, want: "reject", why: "exclusiveMaximum without max inside an or rule-set"},
		cs{ex: model.Str("abc"), set: []*model.Rule{model.RStr("type", "string"), model.RNum("min", "1")}, want: "reject", why: "min on a string inside an or rule-set"},
	)
	// rules of the wrong kind in a rule-set that declares its type, while the EXAMPLE belongs to the
	// other alternative (nothing but the rule-set itself is at fault); well-suited rule-sets as controls
	wrong := []struct {
		typ  string
		rule *model.Rule
	}{
		{"string", model.RNum("min", "1")}, {"string", model.RNum("max", "9")}, {"string", model.RInt("minItems", 1)},
		{"integer", model.RInt("minLength", 5)}, {"integer", model.RStr("regex", "a")}, {"integer", model.RInt("maxItems", 2)},
		{"float", model.RInt("maxLength", 5)}, {"boolean", model.RInt("minLength", 1)}, {"boolean", model.RNum("min", "0")},
		{"null", model.RNum("max", "1")}, {"array", model.RInt("minLength", 5)}, {"array", model.RNum("min", "1")},
		{"object", model.RInt("minItems", 1)}, {"object", model.RStr("regex", "a")},
	}
	right := []struct {
		typ  string
		rule *model.Rule
	}{
		{"string", model.RInt("minLength", 1)}, {"string", model.RStr("regex", "a")}, {"integer", model.RNum("min", "1")},
		{"float", model.RNum("max", "9.5")}, {"array", model.RInt("minItems", 1)}, {"boolean", model.RBool("nullable", true)},
	}
	exFor := func(declared string) (*model.Node, string) { // an example of ANOTHER kind than the declared one
		if declared == "integer" || declared == "float" {
			return model.Str("abc"), "string"
		}
		return model.Int("5"), "integer"
	}
	for _, w := range wrong {
		ex, other := exFor(w.typ)
		cases = append(cases,
			cs{ex: ex, set: []*model.Rule{model.RStr("type", w.typ), w.rule}, want: "reject", why: w.rule.Name + " in a rule-set declaring " + w.typ + " (the example fits the other alternative)", other: other},
			cs{ex: ex.Clone(), set: []*model.Rule{w.rule.Clone(), model.RStr("type", w.typ)}, want: "reject", why: w.rule.Name + " in a rule-set declaring " + w.typ + " (rule written first)", other: other})
	}
	for _, g := range right {
		ex, other := exFor(g.typ)
		cases = append(cases, cs{ex: ex, set: []*model.Rule{model.RStr("type", g.typ), g.rule}, want: "accept", why: g.rule.Name + " in a rule-set declaring " + g.typ, other: other})
	}
	for _, k := range cases {
		for _, pos := range []model.Position{model.PosRoot, model.PosProperty, model.PosItem} {
			for order := 0; order < 2; order++ {
				n := k.ex.Clone()
				other := k.other
				if other == "" {
					other = "null"
				}
				items := []model.OrItem{model.OrSet(k.set...), model.OrSet(model.RStr("type", other))}
				if order == 1 {
					items[0], items[1] = items[1], items[0]
				}
				n.Rules = []*model.Rule{model.ROr(items...)}
				sp := c08Spec(n, pos)
				obs := c08Check(sp)
				c.Eval(1)
				c.DistinctByConstruction(1)
				c.Count("or rule-set ban cases", 1)
				if obs.Panic != "" {
					c.Violate("check", c08Case{sp}, "no panic", obs.String(), "Check panicked")
					continue
				}
				c.Count(fmt.Sprintf("verdict expected=%s observed=%s", k.want, obs.Verdict()), 1)
				if obs.Verdict() != k.want {
					c.Violate("matrix", c08Case{sp}, k.want, obs.String(), "Check verdict differs for a rule-set of an or rule: "+k.why)
				}
			}
		}
	}
}

func c08RunOrRuleSets(c *mon.Ctx) {
	c08RunOrBans(c)
	type pair struct {
		lo, hi, typ string
	}
	pairs := []pair{{"min", "max", "integer"}, {"minLength", "maxLength", "string"}, {"minItems", "maxItems", "array"}}
	examples := []func() *model.Node{func() *model.Node { return model.Str("abc") }, func() *model.Node { return model.Int("5") }, func() *model.Node { return model.Bool(true) }}
	for ei, mk := range examples {
		for _, p := range pairs {
			for _, withType := range []bool{false, true} {
				for _, vals := range [][2]int{{1, 5}, {5, 1}, {3, 3}, {0, 0}, {2, 1}} {
					for _, pos := range []model.Position{model.PosRoot, model.PosProperty, model.PosItem} {
						for order := 0; order < 2; order++ {
							n := mk()
							var set []*model.Rule
							mkRule := func(name string, v int) *model.Rule {
								if name == "min" || name == "max" {
									return model.RNum(name, fmt.Sprint(v))
								}
								return model.RInt(name, v)
							}
							set = append(set, mkRule(p.lo, vals[0]), mkRule(p.hi, vals[1]))
							if order == 1 {
								set[0], set[1] = set[1], set[0]
							}
							if withType {
								set = append([]*model.Rule{model.RStr("type", p.typ)}, set...)
							}
							own := model.OrSet(model.RStr("type", n.Kind.String()))
							items := []model.OrItem{own, model.OrSet(set...)}
							if order == 1 {
								items[0], items[1] = items[1], items[0]
							}
							n.Rules = []*model.Rule{model.ROr(items...)}
							sp := c08Spec(n, pos)
							obs := c08Check(sp)
							c.Eval(1)
							c.DistinctByConstruction(1)
							c.Count("or rule-set pair cases", 1)
							want := "accept"
							if vals[0] > vals[1] {
								want = "reject"
							}
							if obs.Panic != "" {
								c.Violate("check", c08Case{sp}, "no panic", obs.String(), "Check panicked")
								continue
							}
							c.Count(fmt.Sprintf("verdict expected=%s observed=%s", want, obs.Verdict()), 1)
							if obs.Verdict() != want {
								c.Violate("matrix", c08Case{sp}, want, obs.String(),
									fmt.Sprintf("Check verdict differs for a paired bound inside an or rule-set (%s/%s = %d/%d)", p.lo, p.hi, vals[0], vals[1]))
							}
							if ei == 0 && pos == model.PosRoot && order == 0 && withType && vals[0] == 5 {
								c.Sample("or rule-set with a reversed pair", map[string]any{"schema": sp.Text, "expected": want})
							}
						}
					}
				}
			}
		}
	}
}

// c08Check is Check on a fresh schema; for every fourth schema text (by hash) the same object is
// first asked for UsedUserTypes() (result ignored): the loading step has then already run - and
// possibly failed - when Check is called, and the verdict must be the same.
func c08Check(sp lib.Spec) lib.Obs {
	if mon.HashString(sp.Text)%4 != 0 {
		return lib.Check(sp)
	}
	s, o := lib.Build(sp)
	if !o.OK {
		// AddRule / AddType already reported that the root does not load: Check on the same object
		// must refuse it as well
		if s != nil {
			if chk := lib.Safe(s.Check); chk.OK || chk.Panic != "" {
				return chk
			}
		}
		return o
	}
	lib.SafeVal(s.UsedUserTypes)
	return lib.CheckObs(s)
}

func c08Run(c *mon.Ctx, unit int) {
	nk := len(gen.KindNames)
	if base := nk * 3 * c08Chunks; unit >= base {
		u := unit - base
		if u == nk*3 {
			c08RunOrRuleSets(c)
			return
		}
		c08RunApplicable(c, u%nk, model.Position(u/nk))
		return
	}
	kind := unit % nk
	pos := model.Position((unit / nk) % 3)
	chunk := unit / (nk * 3)
	subsets := gen.Subsets(len(c08Names), c08MaxSize(c.Tier))
	r := c.Rng(8)
	vcap := c08VariantCap(c.Tier)
	for si := chunk; si < len(subsets); si += c08Chunks {
		sub := subsets[si]
		base := gen.KindExample(kind)
		// parameter variants: cross product, sampled when large
		lists := make([][]*model.Rule, len(sub))
		total := 1
		for i, ni := range sub {
			lists[i] = gen.RuleVariants(c08Names[ni], base)
			total *= len(lists[i])
		}
		picks := make([]int, 0, vcap)
		if total <= vcap {
			for i := 0; i < total; i++ {
				picks = append(picks, i)
			}
		} else {
			seen := map[int]bool{}
			for len(picks) < vcap {
				x := r.Intn(total)
				if !seen[x] {
					seen[x] = true
					picks = append(picks, x)
				}
			}
		}
		for _, code := range picks {
			rules := make([]*model.Rule, len(sub))
			x := code
			for i := range sub {
				rules[i] = lists[i][x%len(lists[i])]
				x /= len(lists[i])
			}
			c08Judge(c, kind, pos, rules, si == chunk)
		}
	}
	// duplicates: every rule written twice (same value) next to nothing else
	if chunk == 0 {
		for _, name := range gen.RuleNames {
			base := gen.KindExample(kind)
			vs := gen.RuleVariants(name, base)
			c08Judge(c, kind, pos, []*model.Rule{vs[0], vs[0].Clone()}, false)
		}
	}
}

func c08Judge(c *mon.Ctx, kind int, pos model.Position, rules []*model.Rule, sample bool) {
	n := gen.KindExample(kind)
	n.Rules = rules
	want, why := model.CheckOracle(n, pos)
	type res struct {
		sp  lib.Spec
		obs lib.Obs
	}
	var all []res
	perm := append([]*model.Rule{}, rules...)
	if len(perm) <= 4 {
		gen.Permutations(perm, func(p []*model.Rule) {
			m := gen.KindExample(kind)
			m.Rules = append([]*model.Rule{}, p...)
			sp := c08Spec(m, pos)
			all = append(all, res{sp, c08Check(sp)})
		})
	} else {
		// larger sets: the written order, its reverse, all rotations and 12 seeded shuffles
		r := mon.NewRng(mon.HashString(fmt.Sprint(kind, pos, len(rules), model.RuleValueText(rules[0], false))))
		orders := [][]*model.Rule{append([]*model.Rule{}, perm...)}
		rev := append([]*model.Rule{}, perm...)
		for i, j := 0, len(rev)-1; i < j; i, j = i+1, j-1 {
			rev[i], rev[j] = rev[j], rev[i]
		}
		orders = append(orders, rev)
		for k := 1; k < len(perm); k++ {
			orders = append(orders, append(append([]*model.Rule{}, perm[k:]...), perm[:k]...))
		}
		for k := 0; k < 12; k++ {
			sh := append([]*model.Rule{}, perm...)
			mon.Shuffle(r, sh)
			orders = append(orders, sh)
		}
		for _, p := range orders {
			m := gen.KindExample(kind)
			m.Rules = p
			sp := c08Spec(m, pos)
			all = append(all, res{sp, c08Check(sp)})
		}
	}
	c.Eval(len(all))
	c.Count("Check calls", len(all))
	c.Count(fmt.Sprintf("rule sets of size %d", len(rules)), 1)
	c.DistinctByConstruction(1)
	first := all[0]
	for _, a := range all {
		if a.obs.Panic != "" {
			c.Violate("check", c08Case{a.sp}, "no panic", a.obs.String(), "Check panicked")
			return
		}
	}
	for _, a := range all[1:] {
		if a.obs.Verdict() != first.obs.Verdict() {
			c.Violate("order", map[string]any{"a": first.sp, "b": a.sp}, "same verdict",
				fmt.Sprintf("%s vs %s", first.obs, a.obs), "Check verdict depends on the order of the rules")
			return
		}
		if !a.obs.OK && a.obs.Code != first.obs.Code {
			c.Count("permutations rejecting with different codes (recorded, not judged)", 1)
		}
	}
	if len(all) > 1 {
		c.Count("rule sets compared across all permutations", 1)
	}
	if want == model.Unspec {
		c.Count("oracle unspecified (not compared)", 1)
		return
	}
	c.Count(fmt.Sprintf("verdict expected=%s observed=%s", want, first.obs.Verdict()), 1)
	if !first.obs.OK {
		c.Count(fmt.Sprintf("rejection code %d", first.obs.Code), 1)
	}
	if first.obs.Verdict() != want.String() {
		c.Violate("matrix", c08Case{first.sp}, want.String(), first.obs.String(),
			fmt.Sprintf("Check verdict differs from the applicability matrix (%s at %s; oracle: %s)", gen.KindNames[kind], pos, why))
	}
	if sample {
		c.Sample(fmt.Sprintf("%s at %s", gen.KindNames[kind], pos), map[string]any{"schema": first.sp.Text, "expected": want.String(), "permutations": len(all)})
	}
}

func init() {
	mon.Register(&mon.Prop{
		ID:    "C08",
		Level: "exploration",
		Rule: "10 node kinds (empty/non-empty object and array, string, integer, float, boolean, null, type reference) x 3 positions (root, property, array item) x every subset of the 18 rule names " +
			"+ one unknown name of size <=3 (quick) / <=4 (thorough) x parameter variants (in-range, equal bounds, out-of-range, true/false flags, 8 type values, user-type and built-in or-lists) x ALL permutations of the written order, " +
			"plus every rule written twice. Non-trivial = each (kind, position, rule set with parameters), distinct by construction.",
		Assumptions: []string{
			"the matrix oracle (internal/model/checkoracle.go) is an independent reading of the statement; enum on containers and enum+const are Unspecified",
			"differing error codes among rejecting permutations are recorded, not judged (the statement speaks of the verdict)",
		},
		Exhaustive: func(string) bool { return true },
		Units:      func(tier string, seed uint64) int { return len(gen.KindNames)*3*c08Chunks + len(gen.KindNames)*3 + 1 },
		Run:        c08Run,
		Replay: map[string]func(json.RawMessage) string{
			"matrix": func(raw json.RawMessage) string {
				var cs c08Case
				json.Unmarshal(raw, &cs)
				return c08Check(cs.Spec).Verdict()
			},
			"check": func(raw json.RawMessage) string {
				var cs c08Case
				json.Unmarshal(raw, &cs)
				if o := c08Check(cs.Spec); o.Panic != "" {
					return o.String()
				}
				return "no panic"
			},
			"order": func(raw json.RawMessage) string {
				var m struct{ A, B lib.Spec }
				json.Unmarshal(raw, &m)
				a, b := c08Check(m.A), c08Check(m.B)
				if a.Verdict() == b.Verdict() {
					return "same verdict"
				}
				return fmt.Sprintf("%s vs %s", a, b)
			},
		},
		Final: func(ev *mon.Evidence) error {
			if ev.Counters["verdict expected=accept observed=accept"] == 0 || ev.Counters["verdict expected=reject observed=reject"] == 0 {
				return fmt.Errorf("verdict histogram is one-sided")
			}
			return nil
		},
	})
}
