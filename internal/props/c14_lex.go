package props

// A small lexer of the JSight schema surface syntax, written from the language description
// (DESIGN.md Appendix A, "Surface syntax"), not from the library's scanner. It answers two
// questions about a schema text produced by the renderer:
//   * how does the text end (which foreign texts clearly cannot continue it)?
//   * at which byte offsets is the text clearly incomplete when cut there (inside a string
//     literal of the example or of an annotation object, inside a root keyword / numeral, or
//     while a bracket of the example or of an annotation object is open)?

import "strings"

type c14Info struct {
	class string // closer | number | literal | shortcut | inline | multi | comment | ""
	cuts  []int  // offsets p such that text[:p] is lexically incomplete whatever upper-case directive text follows
}

func c14ScanSchema(s string) c14Info {
	const (
		code = iota
		str
		lineComment
		blockComment
		annStart // after // or /*, before the rule object or the note
		annObj
		annText
	)
	var info c14Info
	state, back := code, code
	depth := 0        // open { [ of the example and of annotation objects
	annDepth := 0     // brackets open inside the current annotation object
	inline := false   // current annotation is // (ends at the line break)
	closedMulti := -1 // offset just behind the last */
	valueSeen := false
	add := func(p int) {
		if p > 0 && p < len(s) {
			info.cuts = append(info.cuts, p)
		}
	}
	n := len(s)
	for i := 0; i < n; i++ {
		ch := s[i]
		// cut point before byte i
		switch {
		case state == str:
			add(i)
		case depth > 0:
			add(i)
		}
		switch state {
		case code:
			switch {
			case ch == '"':
				state, back = str, code
				valueSeen = true
			case ch == '#':
				if strings.HasPrefix(s[i:], "###") {
					state = blockComment
					i += 2
				} else {
					state = lineComment
				}
			case ch == '/' && i+1 < n && s[i+1] == '/':
				state, inline = annStart, true
				i++
			case ch == '/' && i+1 < n && s[i+1] == '*':
				state, inline = annStart, false
				i++
			case ch == '{' || ch == '[':
				depth++
				valueSeen = true
			case ch == '}' || ch == ']':
				depth--
			case ch != ' ' && ch != '\t' && ch != '\n' && ch != '\r':
				valueSeen = true
			}
		case str:
			switch ch {
			case '\\':
				i++
				if i < n {
					add(i)
				}
			case '"':
				state = back
			}
		case lineComment:
			if ch == '\n' || ch == '\r' {
				state = code
			}
		case blockComment:
			if strings.HasPrefix(s[i:], "###") {
				state = code
				i += 2
			}
		case annStart:
			switch {
			case ch == ' ' || ch == '\t':
			case (ch == '\n' || ch == '\r') && !inline:
			case (ch == '\n' || ch == '\r') && inline:
				state = code
			case ch == '{':
				state = annObj
				annDepth = 1
				depth++
			default:
				state = annText
				i--
			}
		case annObj:
			switch ch {
			case '"':
				state, back = str, annObj
			case '{', '[':
				annDepth++
				depth++
			case '}', ']':
				annDepth--
				depth--
				if annDepth == 0 {
					state = annText
				}
			}
		case annText:
			if inline {
				if ch == '\n' || ch == '\r' {
					state = code
				}
			} else if ch == '*' && i+1 < n && s[i+1] == '/' {
				state = code
				i++
				closedMulti = i + 1
			}
		}
	}
	_ = valueSeen
	if depth != 0 || state == str || state == blockComment || state == annObj || (state == annText && !inline) || (state == annStart && !inline) {
		return c14Info{} // not a complete text by this lexer's reading: do not judge it
	}
	switch {
	case state == lineComment:
		info.class = "comment"
	case state == annText || state == annStart:
		info.class = "inline"
	case closedMulti == n:
		info.class = "multi"
	case n == 0:
		info.class = ""
	default:
		last := s[n-1]
		switch {
		case last == '}' || last == ']' || last == '"':
			info.class = "closer"
		default:
			// last token: walk back over the bytes of a scalar or of a type shortcut
			j := n
			for j > 0 && strings.IndexByte(" \t\r\n", s[j-1]) < 0 {
				j--
			}
			tok := s[j:]
			lineStart := strings.LastIndexAny(s[:j], "\r\n") + 1
			switch {
			case strings.HasPrefix(tok, "@") || strings.Contains(s[lineStart:], "@"):
				info.class = "shortcut"
			case tok == "true" || tok == "false" || tok == "null":
				info.class = "literal"
				if depth == 0 {
					for p := j + 1; p < n; p++ {
						info.cuts = append(info.cuts, p)
					}
				}
			case tok != "" && (tok[0] == '-' || (tok[0] >= '0' && tok[0] <= '9')) && strings.Trim(tok, "-.0123456789") == "":
				info.class = "number"
				if tok[0] == '-' {
					info.cuts = append(info.cuts, j+1)
				}
				if d := strings.IndexByte(tok, '.'); d >= 0 {
					info.cuts = append(info.cuts, j+d+1)
				}
			}
		}
	}
	// a root keyword or numeral that is followed by an annotation: cut inside it as well
	if info.class == "inline" || info.class == "multi" {
		t := strings.TrimLeft(s, " \t\r\n")
		off := len(s) - len(t)
		for _, kw := range []string{"true", "false", "null"} {
			if strings.HasPrefix(t, kw+" ") {
				for p := 1; p < len(kw); p++ {
					info.cuts = append(info.cuts, off+p)
				}
			}
		}
	}
	info.cuts = append(info.cuts, 0)
	return info
}

// c14JSONCuts: offsets at which a valid JSON text is clearly incomplete when cut there.
func c14JSONCuts(s string) []int {
	var cuts []int
	depth := 0
	inStr := false
	start := -1
	for i := 0; i < len(s); i++ {
		ch := s[i]
		if start < 0 && strings.IndexByte(" \t\r\n", ch) < 0 {
			start = i
		}
		if (inStr || depth > 0) && i > 0 {
			cuts = append(cuts, i)
		}
		if inStr {
			switch ch {
			case '\\':
				i++
				if i < len(s) {
					cuts = append(cuts, i)
				}
			case '"':
				inStr = false
			}
			continue
		}
		switch ch {
		case '"':
			inStr = true
		case '{', '[':
			depth++
		case '}', ']':
			depth--
		}
	}
	if start >= 0 {
		tok := s[start:]
		switch {
		case tok == "true" || tok == "false" || tok == "null":
			for p := 1; p < len(tok); p++ {
				cuts = append(cuts, start+p)
			}
		case tok[0] == '-' || (tok[0] >= '0' && tok[0] <= '9'):
			for p := 1; p < len(tok); p++ {
				if strings.IndexByte("-.eE+", tok[p-1]) >= 0 {
					cuts = append(cuts, start+p)
				}
			}
		}
	}
	cuts = append(cuts, 0)
	return cuts
}
