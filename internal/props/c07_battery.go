package props

// C07 — role batteries and per-call monitors.
//
// One hostile input is used in one role (root schema, user type, enum rule, regex type,
// document); the battery calls every public constructor/method combination of that role. Every
// call runs under the panic monitor; every returned error goes through the error-shape,
// position and rendering monitors.

import (
	"bytes"
	stdjson "encoding/json"
	stderrors "errors"
	"fmt"
	"io"
	"os"
	"regexp"
	"runtime"
	"runtime/debug"
	"strconv"
	"strings"

	jschema "github.com/jsightapi/jsight-schema-go-library"
	liberrors "github.com/jsightapi/jsight-schema-go-library/errors"
	"github.com/jsightapi/jsight-schema-go-library/formats/json"
	"github.com/jsightapi/jsight-schema-go-library/fs"
	"github.com/jsightapi/jsight-schema-go-library/kit"
	njs "github.com/jsightapi/jsight-schema-go-library/notations/jschema"
	"github.com/jsightapi/jsight-schema-go-library/notations/regex"
	"github.com/jsightapi/jsight-schema-go-library/rules/enum"
)

const c07Expected = "every call returns nil or a structured library error (code, message, position inside its source) that renders"

// Roles.
const (
	c07RoleSchema = "schema"
	c07RoleType   = "type"
	c07RoleEnum   = "enum"
	c07RoleRegex  = "regex"
	c07RoleDoc    = "document"
)

var c07Roles = []string{c07RoleSchema, c07RoleType, c07RoleEnum, c07RoleRegex, c07RoleDoc}

// Helper texts (fixed, valid): what a hostile input is combined with.
const (
	c07HelpT    = "{\n  \"id\": 1,\n  \"name\": \"x\" // {optional: true}\n}"
	c07HelpS    = "\"abc\" // {minLength: 1}"
	c07HelpU    = "{\n  \"u\": true\n}"
	c07HelpR    = "/^[a-z]{1,4}$/"
	c07HelpEnum = "[1, \"a\", true]"
)

// Roots that reference the hostile user type @t in every reference form.
var c07TypeRoots = []string{
	"@t",
	"{\n  \"a\": @t,\n  \"b\": [@t | @s]\n}",
	"{ // {allOf: \"@t\"}\n  \"z\": 1\n}",
	"1 // {or: [\"@t\", {type: \"integer\"}]}",
	"{ // {additionalProperties: \"@t\"}\n  \"a\": 1\n}",
	"{\n  @t: 1\n}",
	"[\n  @t, // {optional: false}\n  @t | @u\n]",
	"1 // {type: \"@t\"}",
	"{\n  \"k\": @a\n}", // @a: a helper type inheriting from @t, its name sorts before @t
}

// c07HelpA inherits from the hostile type: what the checker finds in an inherited property lies
// in the PARENT's text.
const c07HelpA = "{ // {allOf: \"@t\"}\n  \"o\": 1\n}"

// Schemas a hostile enum rule @e is used from.
var c07EnumRoots = []string{
	"1 // {enum: @e}",
	"{\n  \"k\": \"a\" // {enum: @e, optional: true}\n}",
}

// Schemas a hostile document is validated against (types @t @s @u @r and rule @e available).
var c07DocSchemas = []struct {
	text    string
	optKeys bool
}{
	{"1 // {type: \"any\"}", false},
	{"{\n  \"a\": 1,\n  \"b\": {\n    \"c\": [\n      true\n    ]\n  },\n  \"d\": \"s\" // {optional: true}\n}", false},
	{"{\n  \"a\": 1,\n  \"b\": {\n    \"c\": [\n      true\n    ]\n  }\n}", true},
	{"[\n  @t | @s,\n  \"a\" // {enum: @e}\n]", false},
	{"{ // {additionalProperties: \"any\"}\n  @r: 1.5 // {precision: 2}\n}", false},
	{"\"x\" // {or: [{type: \"string\", maxLength: 3}, {type: \"integer\", min: 0}, {type: \"boolean\"}, {type: \"null\"}, {type: \"float\"}]}", false},
}

// c07Finding is one monitor firing.
type c07Finding struct {
	Monitor string // panic | termination | shape | position | render
	Method  string
	Detail  string
}

func (f c07Finding) String() string { return f.Monitor + " monitor, " + f.Method + ": " + f.Detail }

var c07Digits = regexp.MustCompile(`[0-9]+`)

// key identifies the class of a finding (used for shrinking): monitor, method and the detail
// with numbers abstracted.
func (f c07Finding) key() string {
	d := f.Detail
	if i := strings.Index(d, " at "); i >= 0 && f.Monitor == "panic" {
		d = d[:i]
	}
	return f.Monitor + "|" + c07MethodClass(f.Method) + "|" + c07Digits.ReplaceAllString(d, "N")
}

// c07MethodClass drops the variant suffix "[...]" of a method label.
func c07MethodClass(m string) string {
	for {
		i := strings.IndexByte(m, '[')
		if i < 0 {
			return m
		}
		j := strings.IndexByte(m[i:], ']')
		if j < 0 {
			return m
		}
		m = m[:i] + m[i+j+1:]
	}
}

// c07Runner executes batteries and collects what the monitors see.
type c07Runner struct {
	full bool // every variant (thorough tier and replay)
	pick uint64

	findings []c07Finding
	calls    map[string]int // method class -> calls
	codes    map[int]int    // library error code -> count
	notes    map[string]int // other observations
	libErr   bool           // some method returned a structured library error
	okCalls  int
	masked   []string
	sources  map[string][]byte // file name -> text, for the position monitor
	cur      *c07Current
}

func newC07Runner(full bool, pick uint64) *c07Runner {
	return &c07Runner{full: full, pick: pick, calls: map[string]int{}, codes: map[int]int{}, notes: map[string]int{}}
}

func (r *c07Runner) find(mon, method, detail string) {
	if len(r.findings) < 8 {
		r.findings = append(r.findings, c07Finding{mon, method, detail})
	}
}

func (r *c07Runner) src(name string, text []byte) { r.sources[name] = text }

// c07PanicLine renders a recovered panic: value plus the innermost library frame.
func c07PanicLine(v any, stack []byte) string {
	text := c07SafeSprint(v)
	if i := strings.IndexByte(text, '\n'); i >= 0 {
		text = text[:i] // first line: a rendered document error continues with the source excerpt
	}
	val := oneLineC07(text)
	if _, ok := v.(runtime.Error); ok {
		val = "runtime error value: " + val
	} else if _, ok := v.(error); !ok {
		val = fmt.Sprintf("non-error panic value (%T): %s", v, val)
	}
	frame := ""
	lines := strings.Split(string(stack), "\n")
	seenPanic := false
	for i := 0; i+1 < len(lines); i++ {
		if strings.HasPrefix(lines[i], "panic(") {
			seenPanic = true
			continue
		}
		if !seenPanic {
			continue
		}
		if strings.Contains(lines[i], "jsight-schema-go-library") && strings.HasPrefix(lines[i+1], "\t") {
			fn := lines[i]
			if k := strings.LastIndex(fn, "("); k > 0 {
				fn = fn[:k]
			}
			if k := strings.LastIndex(fn, "/"); k >= 0 {
				fn = fn[k+1:]
			}
			loc := strings.TrimSpace(lines[i+1])
			if k := strings.Index(loc, " +0x"); k >= 0 {
				loc = loc[:k]
			}
			if k := strings.LastIndex(loc, "/"); k >= 0 {
				loc = loc[k+1:]
			}
			frame = " at " + fn + " " + loc
			break
		}
	}
	return val + frame
}

// c07SafeSprint formats a panic value; formatting itself may panic (an error whose Error() panics).
func c07SafeSprint(v any) (s string) {
	defer func() {
		if r := recover(); r != nil {
			s = fmt.Sprintf("<%T whose formatting panics>", v)
		}
	}()
	return fmt.Sprintf("%v", v)
}

func oneLineC07(s string) string {
	s = strings.NewReplacer("\n", "\\n", "\r", "\\r", "\t", "\\t").Replace(s)
	if len(s) > 240 {
		s = s[:240] + "…"
	}
	return s
}

// guard runs f under the panic monitor. It returns false when f panicked.
func (r *c07Runner) guard(method string, f func()) (ok bool) { return r.guardOpt(method, true, f) }

// guardRender is guard for the rendering methods of an error value: the panic value is enough
// (the code is the renderer of errors/document.go), no stack is formatted.
func (r *c07Runner) guardRender(method string, f func()) (ok bool) {
	return r.guardOpt(method, false, f)
}

func (r *c07Runner) guardOpt(method string, stack bool, f func()) (ok bool) {
	defer func() {
		if rec := recover(); rec != nil {
			ok = false
			var st []byte
			if stack {
				st = debug.Stack()
			}
			r.find("panic", method, c07PanicLine(rec, st))
		}
	}()
	if r.cur != nil {
		r.cur.method.Store(&method)
		if r.cur.mirror != "" {
			os.WriteFile(r.cur.mirror, []byte("C07: the worker died while executing\n"+c07Describe(r.cur)+"\n"), 0o644)
		}
	}
	f()
	return true
}

// call runs one library call under the panic monitor and judges the error it returns.
func (r *c07Runner) call(method string, f func() error) (err error, returned bool) {
	r.calls[c07MethodClass(method)]++
	returned = r.guard(method, func() { err = f() })
	if !returned {
		return nil, false
	}
	r.judge(method, err)
	return err, true
}

// judge applies the error-shape, position and rendering monitors to one returned error.
func (r *c07Runner) judge(method string, err error) {
	if err == nil {
		r.okCalls++
		return
	}
	if strings.HasSuffix(c07MethodClass(method), "NextLexeme") && stderrors.Is(err, io.EOF) {
		r.okCalls++ // documented end-of-stream marker
		return
	}
	var pe jschema.ParsingError
	var ve jschema.ValidationError
	var de liberrors.DocumentError
	isDoc := false
	r.guard(method+" errors.As", func() {
		isDoc = stderrors.As(err, &de)
		if !stderrors.As(err, &pe) {
			pe = nil
		}
		if !stderrors.As(err, &ve) {
			ve = nil
		}
	})
	switch {
	case pe != nil:
		r.libErr = true
		code := -1
		pos := uint(0)
		if r.guard(method+" error.ErrCode/Position", func() { code = pe.ErrCode(); pos = pe.Position() }) {
			r.codes[code]++
			if code == 0 {
				// ErrGeneric is how the library wraps foreign panics into positioned errors (the
				// mechanism the property names); a wrapped Go runtime error is counted, not judged
				msg := ""
				r.guardRender(method+" error.Message", func() { msg = pe.Message() })
				if strings.HasPrefix(msg, "runtime error") {
					r.notes["ErrGeneric errors that wrap a Go runtime error (masked internal fault)"]++
					r.masked = append(r.masked, method+": "+oneLineC07(msg))
				} else {
					r.notes["ErrGeneric errors with another text"]++
				}
			}
			r.position(method, pe, de, isDoc, pos)
		}
	case ve != nil:
		r.libErr = true
		code := -1
		if r.guard(method+" error.ErrCode", func() { code = ve.ErrCode() }) {
			r.codes[code]++
			r.notes["validation errors (code and message, no position by interface)"]++
		}
	default:
		// not a library error with code, message and position
		kind := "an error without code/message/position"
		var re runtime.Error
		var le liberrors.Err
		switch {
		case stderrors.As(err, &re):
			kind = "a leaked Go runtime error"
		case stderrors.As(err, &le):
			kind = "a bare library error code (no position, no Message())"
		}
		text := "<Error() panicked>"
		r.guard(method+" error.Error", func() { text = err.Error() })
		r.find("shape", method, fmt.Sprintf("returned %s: %T %q", kind, err, oneLineC07(text)))
		return
	}
	r.render(method, err, pe, ve, de, isDoc)
}

func (r *c07Runner) position(method string, pe jschema.ParsingError, de liberrors.DocumentError, isDoc bool, pos uint) {
	if !isDoc {
		r.notes["position unchecked: positioned error that is not a DocumentError"]++
		return
	}
	name := de.Filename()
	text, known := r.sources[name]
	if !known {
		r.notes["position unchecked: error names a source synthesised by the library"]++
		return
	}
	limit := uint(len(text))
	if limit < 1 {
		limit = 1
	}
	r.notes["positions checked"]++
	if pos >= limit {
		r.find("position", method, fmt.Sprintf("Position()=%d is outside source %q of %d bytes (code %d)", pos, name, len(text), pe.ErrCode()))
	}
}

// render runs every rendering method of the error under the panic monitor.
func (r *c07Runner) render(method string, err error, pe jschema.ParsingError, ve jschema.ValidationError, de liberrors.DocumentError, isDoc bool) {
	r.guardRender(method+" error.Error", func() { _ = err.Error() })
	if pe != nil {
		r.guardRender(method+" error.Message", func() { _ = pe.Message() })
	}
	if ve != nil {
		r.guardRender(method+" error.Error", func() { _ = ve.Error() })
		r.guardRender(method+" error.Message", func() { _ = ve.Message() })
	}
	var file *fs.File
	if isDoc {
		d := de
		r.guardRender(method+" error.Line", func() { _ = d.Line() })
		d = de
		r.guardRender(method+" error.SourceSubString", func() { _ = d.SourceSubString() })
		d = de
		r.guardRender(method+" error.String", func() { _ = d.String() })
		r.guardRender(method+" error.IncorrectUserType", func() { _ = de.IncorrectUserType(); _ = de.Code(); _ = de.Index() })
		if text, ok := r.sources[de.Filename()]; ok {
			file = fs.NewFile(de.Filename(), text)
		}
	}
	if file == nil {
		file = fs.NewFile("unknown", "")
	}
	r.guardRender(method+" kit.ConvertError", func() {
		ke := kit.ConvertError(file, err)
		_ = ke.Filename()
		_ = ke.Position()
		_ = ke.Message()
		_ = ke.ErrCode()
		_ = ke.IncorrectUserType()
		if e, ok := ke.(error); ok {
			_ = e.Error()
		}
		// the converted error still refers to the same place: the position keeps its file
		if isDoc && pe != nil {
			r.notes["kit.ConvertError: position and file compared with the error's own"]++
			if ke.Position() != de.Position() || ke.Filename() != de.Filename() || ke.ErrCode() != pe.ErrCode() {
				r.find("position", method, fmt.Sprintf("kit.ConvertError gives (file %q, position %d, code %d), the error itself (file %q, position %d, code %d)",
					ke.Filename(), ke.Position(), ke.ErrCode(), de.Filename(), de.Position(), pe.ErrCode()))
			}
		}
	})
}

// ---- role batteries -------------------------------------------------------------------

func (r *c07Runner) want(variant int, always bool) bool {
	if r.full || always {
		return true
	}
	// quick tier: a deterministic third of the optional variants per input
	return (r.pick>>uint(variant%32))&3 == 0
}

func c07Opts(opt bool) []njs.Option {
	if opt {
		return []njs.Option{njs.KeysAreOptionalByDefault()}
	}
	return nil
}

// furnish adds the helper rule and types to s (rule first: AddRule is only legal before load).
func (r *c07Runner) furnish(label string, s *njs.Schema, opt bool, skipT bool) bool {
	if _, ok := r.call(label+".AddRule(@e helper)", func() error { return s.AddRule("@e", enum.New("h-e", c07HelpEnum)) }); !ok {
		return false
	}
	add := func(name, file, text string) bool {
		t := njs.New(file, text, c07Opts(opt)...)
		err, ok := r.call(label+".AddType("+name+" helper)", func() error { return s.AddType(name, t) })
		return ok && err == nil
	}
	if !skipT && !add("@t", "h-t", c07HelpT) {
		return false
	}
	if !add("@s", "h-s", c07HelpS) || !add("@u", "h-u", c07HelpU) {
		return false
	}
	err, ok := r.call(label+".AddType(@r helper)", func() error { return s.AddType("@r", regex.New("h-r", c07HelpR)) })
	return ok && err == nil
}

func (r *c07Runner) helperSources() {
	r.src("h-t", []byte(c07HelpT))
	r.src("h-s", []byte(c07HelpS))
	r.src("h-u", []byte(c07HelpU))
	r.src("h-r", []byte(c07HelpR))
	r.src("h-e", []byte(c07HelpEnum))
}

// rootMethods calls every method of a root schema object: shared object, fixed order.
func (r *c07Runner) rootMethods(label string, s *njs.Schema, input []byte) {
	r.call(label+".Len", func() error { _, err := s.Len(); return err })
	r.call(label+".Check", s.Check)
	var example []byte
	r.call(label+".Example", func() error {
		b, err := s.Example()
		example = append([]byte{}, b...)
		return err
	})
	r.call(label+".GetAST", func() error {
		ast, err := s.GetAST()
		if err == nil {
			c07WalkAST(ast, 0)
		}
		return err
	})
	r.call(label+".UsedUserTypes", func() error { _, err := s.UsedUserTypes(); return err })
	valid := example
	if len(valid) == 0 {
		valid = []byte("{}")
	}
	r.src("doc-valid", valid)
	r.call(label+".Validate(valid doc)", func() error { return s.Validate(json.New("doc-valid", valid)) })
	r.src("doc-input", input)
	r.call(label+".Validate(input as doc)", func() error { return s.Validate(json.New("doc-input", input)) })
	r.call(label+".Check(again)", s.Check)
	r.call(label+".Build", s.Build)
}

// c07WalkAST touches every part of a returned AST (marshals the rule maps).
func c07WalkAST(n jschema.ASTNode, depth int) {
	if depth > 10000 {
		return
	}
	if n.Rules != nil {
		_, _ = n.Rules.MarshalJSON()
		n.Rules.EachSafe(func(string, jschema.RuleASTNode) {})
	}
	for _, c := range n.Children {
		c07WalkAST(c, depth+1)
	}
}

func (r *c07Runner) roleSchema(input []byte) {
	hasAt := bytes.IndexByte(input, '@') >= 0
	v := 0
	for _, furnished := range []bool{false, true} {
		for _, opt := range []bool{false, true} {
			v++
			if !r.want(v, v == 1) {
				continue
			}
			if furnished && !hasAt {
				continue // without an '@' the text cannot refer to a helper type or rule
			}
			label := fmt.Sprintf("schema[furnished=%v,optkeys=%v]", furnished, opt)
			mk := func() (*njs.Schema, bool) {
				r.sources = map[string][]byte{"root": input}
				r.helperSources()
				var s *njs.Schema
				if !r.guard(label+".New", func() { s = njs.New("root", input, c07Opts(opt)...) }) {
					return nil, false
				}
				if furnished && !r.furnish(label, s, opt, false) {
					return s, false
				}
				return s, true
			}
			s, ok := mk()
			if s == nil {
				continue
			}
			if ok || furnished {
				// a furnished root whose own text is broken answers AddType with its load error;
				// the remaining methods are still legal calls
				r.rootMethods(label, s, input)
			}
			// each of the other methods as the first call on a fresh object
			if (v == 1 || v == 4) && (r.full || r.pick&0x300 == 0) {
				if s, ok := mk(); ok {
					r.call(label+".Example(first)", func() error { _, err := s.Example(); return err })
				}
				if s, ok := mk(); ok {
					r.call(label+".GetAST(first)", func() error { _, err := s.GetAST(); return err })
				}
				if s, ok := mk(); ok {
					r.call(label+".UsedUserTypes(first)", func() error { _, err := s.UsedUserTypes(); return err })
				}
				if s, ok := mk(); ok {
					r.src("doc-input", input)
					r.call(label+".Validate(first)", func() error { return s.Validate(json.New("doc-input", input)) })
				}
			}
		}
	}
}

func (r *c07Runner) roleType(input []byte) {
	for i, rootText := range c07TypeRoots {
		for _, opt := range []bool{false, true} {
			v := i*2 + 1
			if opt {
				v++
			}
			if !r.want(v, i == 0 && !opt) {
				continue
			}
			label := fmt.Sprintf("type[root=%d,optkeys=%v]", i, opt)
			rootName := "root"
			if i == 2 && opt {
				rootName = "" // a schema whose file has no name (the inheriting root, so that allOf errors arise in it)
			}
			r.sources = map[string][]byte{rootName: []byte(rootText), "type": input}
			r.helperSources()
			var root, typ *njs.Schema
			if !r.guard(label+".New", func() {
				root = njs.New(rootName, rootText, c07Opts(opt)...)
				typ = njs.New("type", input, c07Opts(opt)...)
			}) {
				continue
			}
			// the type may say {enum: @e}: rules belong to the schema object that uses them
			if _, ok := r.call(label+".type.AddRule(@e helper)", func() error { return typ.AddRule("@e", enum.New("h-e", c07HelpEnum)) }); !ok {
				continue
			}
			if !r.furnish(label+".root", root, opt, true) {
				continue
			}
			r.call(label+".root.AddType(@t hostile)", func() error { return root.AddType("@t", typ) })
			if strings.Contains(rootText, "@a") {
				r.src("h-a", []byte(c07HelpA))
				r.call(label+".root.AddType(@a helper)", func() error { return root.AddType("@a", njs.New("h-a", c07HelpA, c07Opts(opt)...)) })
			}
			// whatever AddType answered, the root stays a legal object to use
			r.rootMethods(label+".root", root, input)
			r.call(label+".type.Check", typ.Check)
			r.call(label+".type.Example", func() error { _, err := typ.Example(); return err })
		}
	}
	// the schema registered as a type of itself (the repository's tests do this with @main)
	if r.want(31, false) {
		label := "type[self]"
		r.sources = map[string][]byte{"root": input}
		r.helperSources()
		var s *njs.Schema
		if r.guard(label+".New", func() { s = njs.New("root", input) }) {
			if r.furnish(label+".root", s, false, true) {
				r.call(label+".root.AddType(@t self)", func() error { return s.AddType("@t", s) })
				r.rootMethods(label+".root", s, input)
			}
		}
	}
}

func (r *c07Runner) roleEnum(input []byte) {
	r.sources = map[string][]byte{"enum": input}
	r.helperSources()
	mk := func() *enum.Enum {
		var e *enum.Enum
		r.guard("enum.New", func() { e = enum.New("enum", input) })
		return e
	}
	values := func(e *enum.Enum) func() error {
		return func() error {
			vs, err := e.Values()
			for _, v := range vs {
				_ = v.Value.String()
			}
			return err
		}
	}
	ast := func(e *enum.Enum) func() error {
		return func() error {
			a, err := e.GetAST()
			if err == nil {
				c07WalkAST(a, 0)
			}
			return err
		}
	}
	if e := mk(); e != nil {
		r.call("enum.Check", e.Check)
		r.call("enum.Len", func() error { _, err := e.Len(); return err })
		r.call("enum.GetAST", ast(e))
		r.call("enum.Values", values(e))
	}
	if e := mk(); e != nil {
		r.call("enum.Len(first)", func() error { _, err := e.Len(); return err })
	}
	if e := mk(); e != nil {
		r.call("enum.GetAST(first)", ast(e))
	}
	if e := mk(); e != nil {
		r.call("enum.Values(first)", values(e))
	}
	for i, rootText := range c07EnumRoots {
		if !r.want(i+1, i == 0) {
			continue
		}
		label := fmt.Sprintf("enum[root=%d]", i)
		r.sources = map[string][]byte{"enum": input, "root": []byte(rootText)}
		var s *njs.Schema
		e := mk()
		if e == nil || !r.guard(label+".New", func() { s = njs.New("root", rootText) }) {
			continue
		}
		err, ok := r.call(label+".root.AddRule(@e hostile)", func() error { return s.AddRule("@e", e) })
		if !ok || err != nil {
			continue // the rule was refused: using @e afterwards would be caller misuse
		}
		r.rootMethods(label+".root", s, input)
	}
}

func (r *c07Runner) roleRegex(input []byte) {
	r.sources = map[string][]byte{"regex": input}
	mk := func() *regex.Schema {
		var x *regex.Schema
		r.guard("regex.New", func() { x = regex.New("regex", input) })
		return x
	}
	var example []byte
	if x := mk(); x != nil {
		r.call("regex.Check", x.Check)
		r.call("regex.Len", func() error { _, err := x.Len(); return err })
		r.call("regex.Pattern", func() error { _, err := x.Pattern(); return err })
		r.call("regex.Example", func() error {
			b, err := x.Example()
			example = append([]byte{}, b...)
			return err
		})
		r.call("regex.GetAST", func() error { _, err := x.GetAST(); return err })
		r.call("regex.UsedUserTypes", func() error { _, err := x.UsedUserTypes(); return err })
	}
	if x := mk(); x != nil {
		r.call("regex.Len(first)", func() error { _, err := x.Len(); return err })
	}
	if x := mk(); x != nil {
		r.call("regex.Pattern(first)", func() error { _, err := x.Pattern(); return err })
	}
	if x := mk(); x != nil {
		r.call("regex.Example(first)", func() error { _, err := x.Example(); return err })
	}
	if x := mk(); x != nil {
		r.call("regex.GetAST(first)", func() error { _, err := x.GetAST(); return err })
	}
	for i, rootText := range []string{"@t", "{\n  @t: 1,\n  \"k\": @t\n}"} {
		if !r.want(i+1, i == 0) {
			continue
		}
		label := fmt.Sprintf("regex[root=%d]", i)
		r.sources = map[string][]byte{"regex": input, "root": []byte(rootText)}
		var s *njs.Schema
		x := mk()
		if x == nil || !r.guard(label+".New", func() { s = njs.New("root", rootText) }) {
			continue
		}
		r.call(label+".root.AddType(@t hostile regex)", func() error { return s.AddType("@t", x) })
		r.rootMethods(label+".root", s, input)
		if i == 0 {
			doc, _ := stdjson.Marshal(string(example))
			r.src("doc-example", doc)
			r.call(label+".root.Validate(regex example)", func() error { return s.Validate(json.New("doc-example", doc)) })
		}
	}
}

func (r *c07Runner) drain(label string, d jschema.Document, n int) {
	limit := 4*n + 64
	for k := 0; ; k++ {
		if k > limit {
			r.find("termination", label+".NextLexeme", fmt.Sprintf("no end of stream after %d lexemes of a %d byte document", k, n))
			return
		}
		err, ok := r.call(label+".NextLexeme", func() error {
			lex, err := d.NextLexeme()
			if err == nil {
				_ = lex.Type()
				_ = lex.Begin()
				_ = lex.End()
				_ = lex.String()
				_ = lex.Value()
			}
			return err
		})
		if !ok || err != nil {
			return
		}
	}
}

func (r *c07Runner) roleDoc(input []byte) {
	for _, trailing := range []bool{false, true} {
		label := fmt.Sprintf("document[trailing=%v]", trailing)
		r.sources = map[string][]byte{"doc": input}
		mk := func() jschema.Document {
			var d jschema.Document
			r.guard(label+".New", func() {
				if trailing {
					d = json.New("doc", input, json.AllowTrailingNonSpaceCharacters())
				} else {
					d = json.New("doc", input)
				}
			})
			return d
		}
		if d := mk(); d != nil {
			r.call(label+".Check", d.Check)
			r.call(label+".Len", func() error { _, err := d.Len(); return err })
			r.drain(label, d, len(input))
			r.call(label+".Check(after drain)", d.Check)
			r.call(label+".Len(after drain)", func() error { _, err := d.Len(); return err })
		}
		if d := mk(); d != nil {
			r.call(label+".Len(first)", func() error { _, err := d.Len(); return err })
		}
		if d := mk(); d != nil {
			r.drain(label+"(first)", d, len(input))
		}
	}
	for i, sc := range c07DocSchemas {
		if !r.want(i+1, i == 1) {
			continue
		}
		label := fmt.Sprintf("document[schema=%d]", i)
		r.sources = map[string][]byte{"doc": input, "root": []byte(sc.text)}
		r.helperSources()
		var s *njs.Schema
		if !r.guard(label+".New", func() { s = njs.New("root", sc.text, c07Opts(sc.optKeys)...) }) {
			continue
		}
		if !r.furnish(label+".schema", s, sc.optKeys, false) {
			continue
		}
		r.call(label+".schema.Validate(hostile doc)", func() error { return s.Validate(json.New("doc", input)) })
		r.call(label+".schema.Validate(hostile doc, trailing allowed)", func() error {
			return s.Validate(json.New("doc", input, json.AllowTrailingNonSpaceCharacters()))
		})
	}
}

// run executes the battery of one role.
func (r *c07Runner) run(role string, input []byte) {
	switch role {
	case c07RoleSchema:
		r.roleSchema(input)
	case c07RoleType:
		r.roleType(input)
	case c07RoleEnum:
		r.roleEnum(input)
	case c07RoleRegex:
		r.roleRegex(input)
	case c07RoleDoc:
		r.roleDoc(input)
	}
}

// c07Case is the self-contained replay input of one violation.
type c07Case struct {
	Role  string `json:"role"`
	Input []byte `json:"input"` // base64: inputs are arbitrary bytes
	Text  string `json:"input_quoted"`
}

func c07MakeCase(role string, input []byte) c07Case {
	return c07Case{Role: role, Input: input, Text: strconv.QuoteToASCII(string(input))}
}

// c07Judge runs the complete battery (every variant) of a role on one input and returns the
// first finding, nil if every monitor is satisfied.
func c07Judge(role string, input []byte) *c07Finding {
	return c07JudgeAs(&c07Current{role: role, input: input})
}

// c07JudgeAs is c07Judge for a battery described by cur (which may carry the mirror file of the
// single-unit mode).
func c07JudgeAs(cur *c07Current) *c07Finding {
	role, input := cur.role, cur.input
	r, hung := c07Guarded(role, input, true, 0, cur)
	if hung != nil {
		return &c07Finding{hung.Monitor, hung.Method, "the call did not return within the CPU/wall budget of one call"}
	}
	if len(r.findings) == 0 {
		return nil
	}
	return &r.findings[0]
}
