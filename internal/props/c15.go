package props

// C15 — Example() emits well-formed JSON that its own schema accepts.
//
// Monitors on every Check-accepted generated schema: encoding/json.Valid(Example());
// Validate(Example()) == nil on the same schema object and on a fresh one; for plain-JSON
// schemas Example() equals the example with annotations and insignificant whitespace removed.
// The result is copied at return time (C11's aliasing defect must not mask or fake a verdict).

import (
	"encoding/json"
	"fmt"
	"strings"

	"verif/internal/gen"
	"verif/internal/lib"
	"verif/internal/model"
	"verif/internal/mon"
)

type c15Case struct {
	Spec lib.Spec `json:"spec"`
}

func c15Sizes(tier string) (units, per int) {
	if tier == "thorough" {
		return 40000, 60
	}
	return 400, 48
}

// c15Recursive builds optional recursion of depth 1..3 with the recursive member first,
// in the middle or last among its siblings, optionally through arrays and unions.
// c15ShortcutRecursion: a type referring to itself (or to a partner type) from the value of a key
// shortcut; optional shortcuts make the recursion legal, required ones do not - then Check must
// refuse the schema and nothing is judged here (what Check accepts, Example must honour).
func c15ShortcutRecursion(r *mon.Rng) *model.Schema {
	s := &model.Schema{Types: []*model.TypeDef{{Name: "@childName", Root: model.Str("child-1").With(model.RStr("regex", "^child-"))}}}
	target := "@node"
	if r.Chance(1, 3) {
		target = "@other"
		s.Types = append(s.Types, &model.TypeDef{Name: "@other", Root: model.Obj(model.P("back", model.Ref("@node")))})
	}
	val := model.Ref(target)
	switch r.Intn(4) {
	case 0:
		val = val.With(model.RBool("optional", true))
	case 1:
		val = model.Arr(model.Ref(target))
	case 2:
		val = model.Ref(target, "@leaf")
		s.Types = append(s.Types, &model.TypeDef{Name: "@leaf", Root: model.Int("7")})
	}
	node := model.Obj(model.P("value", model.Int("1")), model.PShort("@childName", val))
	if r.Bool() {
		node.Props[0], node.Props[1] = node.Props[1], node.Props[0]
	}
	s.Types = append(s.Types, &model.TypeDef{Name: "@node", Root: node})
	s.Root = model.Obj(model.P("tree", model.Ref("@node")))
	return s
}

// c15Borderline: shapes Check refuses on the pinned tree for reasons of type resolution (a key
// type that names itself in its union, an empty container whose or rule admits no container, an
// empty container whose or rule names a user type next to a built-in). Whatever Check decides
// about them is C08's / C09's subject; HERE only the consequence counts: when Check accepts one,
// its Example must be well-formed and must validate.
func c15Borderline(r *mon.Rng) *model.Schema {
	person := &model.TypeDef{Name: "@person", Root: model.Obj(model.P("name", model.Str("Tom")), model.P("age", model.Int("3")))}
	pet := &model.TypeDef{Name: "@pet", Root: model.Obj(model.P("id", model.Int("1")))}
	list := &model.TypeDef{Name: "@list", Root: model.Arr(model.Int("1")).With(model.RInt("minItems", 1))}
	word := &model.TypeDef{Name: "@word", Root: model.Str("abc").With(model.RStr("regex", "^[a-z]+$"))}
	empty := func() *model.Node {
		if r.Bool() {
			return model.Obj()
		}
		return model.Arr()
	}
	switch r.Intn(5) {
	case 4:
		// string values spelled with escape sequences JSON does not have: should Check accept
		// one, Example (which copies literals) still owes well-formed JSON
		lit := &model.Node{Kind: model.KString, KeyPos: -1, Lit: mon.Pick(r, []string{`"it\'s"`, `"a\xb"`, `"\a"`, `"\u12"`, `"x\ "`, `"\'"`, `"q\0"`})}
		switch r.Intn(3) {
		case 0:
			return &model.Schema{Root: lit}
		case 1:
			return &model.Schema{Root: model.Obj(model.P("id", model.Int("1")), model.P("name", lit))}
		}
		return &model.Schema{Root: model.Arr(model.Int("1"), lit)}
	case 0:
		// key type naming itself before (or after) a real string alternative
		refs := []string{"@key", "@word"}
		if r.Bool() {
			refs = []string{"@word", "@key"}
		}
		if r.Chance(1, 3) {
			refs = []string{"@key2", "@word"}
		}
		s := &model.Schema{Types: []*model.TypeDef{word, {Name: "@key", Root: model.Ref(refs...)}, {Name: "@key2", Root: model.Ref("@key", "@word")}}}
		s.Root = model.Obj(model.P("total", model.Int("2")), model.PShort("@key", model.Int("1")))
		return s
	case 1:
		// empty container with an or of scalar built-ins, checked after a type reference
		e := empty().With(model.ROr(model.OrSet(model.RStr("type", "string")), model.OrSet(model.RStr("type", "integer"))))
		s := &model.Schema{Types: []*model.TypeDef{person}}
		s.Root = model.Obj(model.P("owner", model.Ref("@person")), model.P("extra", e))
		if r.Bool() {
			s.Root = model.Obj(model.P("owner", model.Ref("@person", "@person")), model.P("list", model.Arr(model.Ref("@person"))), model.P("extra", e))
		}
		return s
	case 2:
		// empty container whose or names a user type that does not accept it, a built-in last
		e := model.Obj().With(model.ROr(model.OrName("@pet"), model.OrName("string")))
		if r.Bool() {
			e = model.Arr().With(model.ROr(model.OrSet(model.RStr("type", "@list")), model.OrSet(model.RStr("type", "string"))))
		}
		return &model.Schema{Types: []*model.TypeDef{pet, list}, Root: model.Obj(model.P("id", e))}
	}
	// a union declaring {type: "mixed"} itself
	s := &model.Schema{Types: []*model.TypeDef{pet, word}}
	s.Root = model.Obj(model.P("x", model.Ref("@pet", "@word").With(model.RStr("type", "mixed"))))
	return s
}

func c15Recursive(r *mon.Rng) *model.Schema {
	s := &model.Schema{}
	mk := func(self, target string, pos int, form int) *model.Node {
		var rec *model.Node
		switch form {
		case 0:
			rec = model.Ref(target).With(model.RBool("optional", true))
		case 1:
			rec = model.Arr(model.Ref(target))
		case 2:
			rec = model.Ref(target, "@leaf").With(model.RBool("optional", true))
		default:
			rec = model.Ref(target).With(model.RBool("optional", true), model.RBool("nullable", true))
		}
		props := []*model.Prop{model.P("a", model.Int("1")), model.P("b", model.Str("x"))}
		if r.Chance(1, 3) {
			props = props[:1]
		}
		if r.Chance(1, 5) {
			props = nil
		}
		rp := model.P("rec", rec)
		switch pos {
		case 0:
			props = append([]*model.Prop{rp}, props...)
		case 1:
			if len(props) >= 2 {
				props = []*model.Prop{props[0], rp, props[1]}
			} else {
				props = append(props, rp)
			}
		default:
			props = append(props, rp)
		}
		return model.Obj(props...)
	}
	s.Types = append(s.Types, &model.TypeDef{Name: "@leaf", Root: model.Int("7")})
	n := r.Range(1, 3)
	for i := 0; i < n; i++ {
		self := fmt.Sprintf("@r%d", i)
		target := fmt.Sprintf("@r%d", (i+1)%n)
		s.Types = append(s.Types, &model.TypeDef{Name: self, Root: mk(self, target, r.Intn(3), r.Intn(4))})
	}
	// alias types: another name for a type of the cycle, used both inside the cycle and by a
	// required sibling of the root
	alias := ""
	if r.Chance(1, 2) {
		alias = "@alias"
		target := fmt.Sprintf("@r%d", r.Intn(n))
		s.Types = append(s.Types, &model.TypeDef{Name: alias, Root: model.Ref(target)})
		for _, t := range s.Types {
			if t.Root == nil || t.Root.Kind != model.KObject || !r.Bool() {
				continue
			}
			t.Root.Props = append(t.Root.Props, model.P("via1", model.Ref(alias).With(model.RBool("optional", true))))
			if r.Bool() {
				t.Root.Props = append(t.Root.Props, model.P("via2", model.Ref(alias).With(model.RBool("optional", true))))
			}
			mon.Shuffle(r, t.Root.Props)
		}
	}
	switch r.Intn(3) {
	case 0:
		s.Root = model.Ref("@r0")
	case 1:
		s.Root = model.Obj(model.P("x", model.Ref("@r0")), model.P("y", model.Ref("@r0").With(model.RBool("optional", true))))
	default:
		s.Root = model.Arr(model.Ref("@r0"), model.Int("1"))
	}
	if alias != "" && s.Root.Kind == model.KObject {
		s.Root.Props = append(s.Root.Props, model.P("extra", model.Ref(alias)))
	} else if alias != "" {
		s.Root = model.Obj(model.P("tree", s.Root), model.P("extra", model.Ref(alias)))
	}
	return s
}

// c15Keys: keys containing quotes, backslashes, control characters and non-ASCII.
// c15RawMarker (a private-use character) is replaced by the single byte 0xE9 in the rendered text.
const c15RawMarker = "\uE000"

func c15Keys(r *mon.Rng) *model.Schema {
	keys := []string{"caf" + c15RawMarker, c15RawMarker + c15RawMarker + "x", "a\"b", "back\\slash", "tab\there", "nl\nx", "é", "日本", "𝄞", "", " ", "a/b", "\u0001", "q\"\\\"", "ü\"", "{", "}", ":", ",", "vt\u000b", "\u001f", "so\u000e\u000f", "bs\bff\f", "\u001a\u001e"}
	mon.Shuffle(r, keys)
	o := model.Obj()
	for _, k := range keys[:r.Range(1, 5)] {
		o.Props = append(o.Props, model.P(k, scalarOrNested(r, k)))
	}
	s := &model.Schema{Root: o}
	if r.Chance(1, 3) {
		// key shortcut whose rule-free string type spells its example with escapes that are not
		// the shortest ones: Example must keep a key the schema itself accepts
		lit := mon.Pick(r, []string{`"a\/b"`, `"caf\u00e9"`, `"tab\u0009stop"`, `"q\u0022q"`, `"plain"`, `"\u0041BC"`})
		s.Types = append(s.Types, &model.TypeDef{Name: "@ks", Root: &model.Node{Kind: model.KString, Lit: lit, KeyPos: -1}})
		o.Props = append(o.Props, model.PShort("@ks", model.Int("1")))
		if r.Bool() {
			// next to the shortcut, an ordinary key spelled like the name of its type (a key like
			// any other: the quotes tell them apart)
			lit := model.P("@ks", model.Str("literal"))
			if r.Bool() {
				o.Props = append([]*model.Prop{lit}, o.Props...)
			} else {
				o.Props = append(o.Props, lit)
			}
		}
	}
	return s
}

func scalarOrNested(r *mon.Rng, k string) *model.Node {
	if r.Chance(1, 5) {
		// string values spelled with every short escape JSON has
		return &model.Node{Kind: model.KString, KeyPos: -1, Lit: mon.Pick(r, []string{`"x\b\fy"`, `"\b"`, `"form\ffeed"`, `"all \" \\ \/ \b \f \n \r \t"`, `"\u000B\u001F"`})}
	}
	if r.Chance(1, 4) {
		return model.Obj(model.P(k+"'", model.Int("1")))
	}
	return gen.Scalar(r).Node
}

func isPlain(s *model.Schema) bool {
	plain := true
	s.Root.Walk(func(n *model.Node) {
		if n.Kind == model.KRef || n.Rule("allOf") != nil {
			plain = false
		}
		for _, p := range n.Props {
			if p.Shortcut {
				plain = false
			}
		}
	})
	return plain
}

// c15CutoffWitness probes the canonical witness of the known finding.
func c15CutoffWitness(c *mon.Ctx) {
	s := &model.Schema{
		Root: model.Ref("@b"),
		Types: []*model.TypeDef{
			{Name: "@a", Root: model.Obj(model.P("b", model.Ref("@b")))},
			{Name: "@b", Root: model.Obj(model.P("n", model.Int("1")), model.P("list", model.Arr(model.Ref("@a"))))},
		},
	}
	sp := specOf(s, model.Style{})
	sch, bo := lib.Build(sp)
	if !bo.OK || !lib.Safe(sch.Check).OK {
		c.Inconclusive("cut-off witness schema is not accepted by Check any more")
		return
	}
	exb, eo := lib.SafeVal(sch.Example)
	ex := string(exb)
	c.Eval(1)
	if !eo.OK {
		return
	}
	if vo := lib.ValidateOn(sch, ex); !vo.OK {
		c.Violate("cutoff-known", map[string]any{"class": "required property inside a legal cycle", "witness": sp}, "well-formed JSON accepted by the schema",
			"rejected: "+vo.String()+" example: "+ex, "Example leaves out a required property at the recursion cut-off")
	}
}

func c15Run(c *mon.Ctx, unit int) {
	_, per := c15Sizes(c.Tier)
	r := c.Rng(15)
	if unit == 0 {
		c15CutoffWitness(c)
	}
	for k := 0; k < per; k++ {
		var s *model.Schema
		class := ""
		switch k % 6 {
		case 0:
			s, class = gen.Graph(r, 6), "type graph"
			if k%12 == 6 {
				s, class = c15ShortcutRecursion(r), "type graph (recursion below a key shortcut)"
			}
			if k%12 == 0 && r.Bool() {
				s, class = c15Borderline(r), "borderline shapes (judged only when Check accepts them)"
			}
		case 1:
			s, class = c15Recursive(r), "optional recursion"
		case 2:
			s, class = c15Keys(r), "unusual keys"
		case 3:
			s, class = gen.Everything(r, gen.EverythingOpts{MaxDepth: r.Range(1, 4), MaxWidth: 4, Plain: true}).S, "all features, plain JSON"
		default:
			s, class = gen.Everything(r, gen.EverythingOpts{MaxDepth: r.Range(1, 4), MaxWidth: 4}).S, "all features"
		}
		if k == 1 {
			s, class = &model.Schema{Root: gen.BigShape(r)}, "large rule-free schema"
		}
		s.OptKeys = r.Chance(1, 8)
		sp := specOf(s, model.Style{})
		rawBytes := false
		if strings.Contains(sp.Text, c15RawMarker) {
			// a key written in a foreign encoding: bytes that are not UTF-8 (the schema file was
			// saved as Latin-1); whatever key Example writes for it, the schema must accept
			sp.Text = strings.ReplaceAll(sp.Text, c15RawMarker, "\xe9")
			rawBytes = true
			c.Count("schemas with a key holding bytes that are not UTF-8", 1)
		}
		sch, bo := lib.Build(sp)
		if !bo.OK {
			c.Count("schemas whose construction failed (skipped)", 1)
			c.Count(fmt.Sprintf("construction failed: %s, code %d", class, bo.Code), 1)
			if bo.Panic != "" {
				c.Violate("panic", c15Case{sp}, "no panic", bo.String(), "AddType / AddRule panicked")
			}
			continue
		}
		if co := lib.CheckObs(sch); !co.OK {
			c.Count("generated schema rejected by Check (skipped): "+class, 1)
			if co.Panic != "" {
				c.Violate("panic", c15Case{sp}, "no panic", co.String(), "Check panicked")
			}
			continue
		}
		key, _ := json.Marshal(sp)
		c.Distinct(string(key))
		c.Count("accepted schemas: "+class, 1)
		exb, eo := lib.SafeVal(sch.Example)
		ex := string(exb) // copy at return time
		c.Eval(1)
		if eo.OK && len(exb) > 0 && k%3 == 0 {
			// the returned bytes belong to the caller: writing into them (buffer reuse) must not
			// change what the next call returns
			for i := range exb {
				exb[i] = 'X'
			}
			again, ao := lib.SafeVal(sch.Example)
			c.Count("Example() called again after the caller overwrote the returned bytes", 1)
			if !ao.OK || string(again) != ex {
				c.Violate("example-again", c15Case{sp}, ex, string(again)+" "+ao.String(), "the second Example() differs after the caller wrote into the bytes the first one returned ("+class+")")
				continue
			}
		}
		if eo.Panic != "" {
			c.Violate("panic", c15Case{sp}, "no panic", eo.String(), "Example panicked")
			continue
		}
		if !eo.OK {
			c.Violate("example", c15Case{sp}, "well-formed JSON accepted by the schema", "Example failed: "+eo.String(), "Example returns an error on a schema Check accepts ("+class+")")
			continue
		}
		if !json.Valid([]byte(ex)) {
			c.Violate("example", c15Case{sp}, "well-formed JSON accepted by the schema", "not JSON: "+ex, "Example is not well-formed JSON ("+class+")")
			continue
		}
		if model.ShortcutAmbiguous(s) {
			c.Count("schemas with ambiguous key shortcuts (Validate(Example) unspecified, not judged)", 1)
			continue
		}
		illegal := false
		if strings.HasPrefix(class, "type graph") {
			// Check accepted a graph the recursion oracle rejects (and not for the known two-type
			// reason): not the known class - its example is judged like any other
			v, why := model.RecursionVerdict(s)
			illegal = v == model.Reject && why != model.KnownTwoTypeRecursion
		}
		if model.RequiredEdgeInCycle(s) && !illegal {
			// known finding C15/cutoff-required: the recursion cut-off counts visits per type and
			// may then leave out a REQUIRED property whose type is in progress. The class is
			// decided on the model; its canonical witness is probed in unit 0.
			c.Count("schemas in the known class: required property inside a legal cycle (Validate(Example) not judged)", 1)
			continue
		}
		c.Eval(2)
		if vo := lib.ValidateOn(sch, ex); !vo.OK {
			c.Violate("example", c15Case{sp}, "well-formed JSON accepted by the schema", "rejected by the same schema object: "+vo.String()+" example: "+ex, "Validate rejects the schema's own Example ("+class+")")
			continue
		}
		if vo := lib.Validate(sp, ex); !vo.OK {
			c.Violate("example", c15Case{sp}, "well-formed JSON accepted by the schema", "rejected by a fresh schema: "+vo.String()+" example: "+ex, "Validate rejects the schema's own Example ("+class+")")
			continue
		}
		if isPlain(s) && !rawBytes {
			want := gen.ExampleVal(s.Root).Text()
			// literals byte-identical: rebuild the expected text from the literals as written
			want = plainExampleText(s.Root)
			c.Eval(1)
			c.Count("plain-JSON examples compared byte for byte", 1)
			if ex != want {
				c.Violate("plain", c15Case{sp}, want, ex, "Example of a plain-JSON schema is not the example with annotations and whitespace removed")
			}
		}
		if k < 2 && unit < 4 {
			c.Sample(class, map[string]any{"spec": sp, "example": ex})
		}
	}
}

// plainExampleText: the example with annotations and insignificant whitespace removed,
// literals byte-identical, keys as written by the canonical renderer.
func plainExampleText(n *model.Node) string {
	switch n.Kind {
	case model.KObject:
		s := "{"
		for i, p := range n.Props {
			if i > 0 {
				s += ","
			}
			s += model.Quote(p.Key) + ":" + plainExampleText(p.Node)
		}
		return s + "}"
	case model.KArray:
		s := "["
		for i, it := range n.Items {
			if i > 0 {
				s += ","
			}
			s += plainExampleText(it)
		}
		return s + "]"
	}
	return n.Lit
}

func mustJSON(v any) json.RawMessage {
	b, _ := json.Marshal(v)
	return b
}

func c15Replay(raw json.RawMessage) string {
	var cs c15Case
	json.Unmarshal(raw, &cs)
	sch, bo := lib.Build(cs.Spec)
	if !bo.OK || !lib.Safe(sch.Check).OK {
		return "well-formed JSON accepted by the schema" // vacuous now
	}
	exb, eo := lib.SafeVal(sch.Example)
	ex := string(exb)
	switch {
	case eo.Panic != "":
		return eo.String()
	case !eo.OK:
		return "Example failed: " + eo.String()
	case !json.Valid([]byte(ex)):
		return "not JSON: " + ex
	}
	if vo := lib.ValidateOn(sch, ex); !vo.OK {
		return "rejected by the same schema object: " + vo.String() + " example: " + ex
	}
	if vo := lib.Validate(cs.Spec, ex); !vo.OK {
		return "rejected by a fresh schema: " + vo.String() + " example: " + ex
	}
	return "well-formed JSON accepted by the schema"
}

func init() {
	mon.Register(&mon.Prop{
		ID:    "C15",
		Level: "exploration",
		Rule: "Check-accepted schemas from: the type-graph generator (user types, or, key shortcuts, allOf, legal recursion), optional recursion of depth 1..3 with the recursive member first / middle / last " +
			"(through optional references, arrays, unions, nullable references), objects with keys containing quotes, backslashes, control characters and non-ASCII, the all-features generator (plain and not). " +
			"Monitors: json.Valid(Example()), Validate(Example()) on the same and a fresh schema, byte equality with the stripped example for plain-JSON schemas. Non-trivial = distinct accepted schema.",
		Assumptions: []string{"plain-JSON comparison assumes the canonical renderer's key spelling (shortest standard escapes) is what Example should reproduce; keys are compared after this normalisation only through byte equality of the whole text"},
		Units:       func(tier string, seed uint64) int { u, _ := c15Sizes(tier); return u },
		Run:         c15Run,
		Replay: map[string]func(json.RawMessage) string{
			"example": c15Replay,
			"example-again": func(raw json.RawMessage) string {
				var cs c15Case
				json.Unmarshal(raw, &cs)
				sch, bo := lib.Build(cs.Spec)
				if !bo.OK {
					return bo.String()
				}
				b, o := lib.SafeVal(sch.Example)
				if !o.OK {
					return o.String()
				}
				for i := range b {
					b[i] = 'X'
				}
				b2, o2 := lib.SafeVal(sch.Example)
				return string(b2) + " " + o2.String()
			},
			"cutoff-known": func(raw json.RawMessage) string {
				var m struct {
					Witness lib.Spec `json:"witness"`
				}
				json.Unmarshal(raw, &m)
				return c15Replay(mustJSON(c15Case{m.Witness}))
			},
			"panic": func(raw json.RawMessage) string {
				var cs c15Case
				json.Unmarshal(raw, &cs)
				sch, bo := lib.Build(cs.Spec)
				if !bo.OK {
					return "no panic"
				}
				if o := lib.Safe(sch.Check); o.Panic != "" {
					return o.String()
				}
				_, eo := lib.SafeVal(sch.Example)
				return noPanic(eo)
			},
			"plain": func(raw json.RawMessage) string {
				var cs c15Case
				json.Unmarshal(raw, &cs)
				sch, _ := lib.Build(cs.Spec)
				exb, _ := lib.SafeVal(sch.Example)
				return string(exb)
			},
		},
	})
}
