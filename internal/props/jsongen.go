package props

// Generator of VALID JSON texts shared by C05 (seeds of the mutational part) and C06 (trace
// monitor workload). Pure function of the Rng handed in. Written from RFC 8259; validity of
// every generated text is re-checked by the callers with refjson and encoding/json.

import (
	"strconv"
	"strings"

	"verif/internal/mon"
)

type jsonGenOpts struct {
	MaxDepth int  // container nesting bound (≤ 8)
	MaxWidth int  // members / items per container (≤ 8)
	MaxNodes int  // budget of values per text
	NoExp    bool // no exponent numerals (schema and enum scanners refuse them by design)
	// WS: 0 compact, 1 sparse single blanks, 2 arbitrary runs of SP/TAB/LF/CR around every token
	WS int
	// ScalarArray: the root is an array of pairwise distinct scalars (enum-rule shape)
	ScalarArray bool
	// MaxBytes: regenerate with a smaller budget until the text fits (0 = 4096)
	MaxBytes int
}

type jsonGen struct {
	r     *mon.Rng
	o     jsonGenOpts
	sb    strings.Builder
	nodes int
}

var jgStringPieces = []string{
	"a", "b", "Z", "key", "value", "0", "42", " ", "  ", "_", "-", ".", "e", "E", "+",
	"{", "}", "[", "]", ":", ",", "/", "//", "/*", "*/", "#", "###", "@", "|", "'", "true", "null",
	`\"`, `\\`, `\/`, `\b`, `\f`, `\n`, `\r`, `\t`,
	`\u0041`, `\u00e9`, `\u00E9`, `\u20ac`, `\ud83d\ude00`, `\uD83D\uDE00`, `\u0000`, `\u001f`, `\uffff`, `\ud800`, `\uDBFF\uDFFF`,
	"\xc3\xa9", "\xc3\x9f", "\xe2\x82\xac", "\xe4\xb8\xad", "\xf0\x9f\x98\x80", "\x7f", "\xc2\xa0", "\xe2\x80\xa8",
}

func (g *jsonGen) ws() {
	switch g.o.WS {
	case 0:
		return
	case 1:
		if g.r.Chance(1, 3) {
			g.sb.WriteByte(' ')
		}
		return
	}
	if g.r.Chance(2, 5) {
		return
	}
	n := 1
	if g.r.Chance(1, 3) {
		n = g.r.Range(2, 5)
	}
	for i := 0; i < n; i++ {
		switch g.r.Intn(6) {
		case 0, 1:
			g.sb.WriteByte(' ')
		case 2:
			g.sb.WriteByte('\t')
		case 3:
			g.sb.WriteByte('\n')
		case 4:
			g.sb.WriteByte('\r')
		default:
			g.sb.WriteString("\r\n")
		}
	}
}

func (g *jsonGen) digits(lo, hi int) {
	n := g.r.Range(lo, hi)
	for i := 0; i < n; i++ {
		g.sb.WriteByte(byte('0' + g.r.Intn(10)))
	}
}

func (g *jsonGen) number() {
	if g.r.Chance(1, 3) {
		g.sb.WriteByte('-')
	}
	switch g.r.Intn(5) {
	case 0:
		g.sb.WriteByte('0')
	case 1:
		g.sb.WriteByte(byte('1' + g.r.Intn(9)))
	case 4:
		g.sb.WriteByte(byte('1' + g.r.Intn(9)))
		g.digits(8, 30)
	default:
		g.sb.WriteByte(byte('1' + g.r.Intn(9)))
		g.digits(0, 5)
	}
	if g.r.Chance(2, 5) {
		g.sb.WriteByte('.')
		if g.r.Chance(1, 6) {
			g.digits(10, 24)
		} else {
			g.digits(1, 4)
		}
	}
	if !g.o.NoExp && g.r.Chance(1, 3) {
		g.sb.WriteByte("eE"[g.r.Intn(2)])
		switch g.r.Intn(3) {
		case 0:
			g.sb.WriteByte('+')
		case 1:
			g.sb.WriteByte('-')
		}
		g.digits(1, 3)
	}
}

func (g *jsonGen) str() {
	g.sb.WriteByte('"')
	n := 0
	switch g.r.Intn(6) {
	case 0:
	case 1, 2:
		n = 1
	case 3, 4:
		n = g.r.Range(2, 4)
	default:
		n = g.r.Range(5, 10)
	}
	for i := 0; i < n; i++ {
		g.sb.WriteString(mon.Pick(g.r, jgStringPieces))
	}
	g.sb.WriteByte('"')
}

func (g *jsonGen) scalar() {
	g.nodes++
	switch g.r.Intn(10) {
	case 0:
		g.sb.WriteString("true")
	case 1:
		g.sb.WriteString("false")
	case 2:
		g.sb.WriteString("null")
	case 3, 4, 5:
		g.str()
	default:
		g.number()
	}
}

func (g *jsonGen) value(depth int) {
	if depth >= g.o.MaxDepth || g.nodes >= g.o.MaxNodes || (depth > 0 && g.r.Chance(2, 5)) || (depth == 0 && g.r.Chance(1, 12)) {
		g.scalar()
		return
	}
	g.nodes++
	w := 0
	switch g.r.Intn(6) {
	case 0:
	case 1:
		w = 1
	case 5:
		w = g.o.MaxWidth
	default:
		w = g.r.Range(1, g.o.MaxWidth)
	}
	if g.r.Bool() {
		g.sb.WriteByte('[')
		g.ws()
		for i := 0; i < w && (i == 0 || g.nodes < g.o.MaxNodes); i++ {
			if i > 0 {
				g.sb.WriteByte(',')
				g.ws()
			}
			g.value(depth + 1)
			g.ws()
		}
		g.sb.WriteByte(']')
		return
	}
	g.sb.WriteByte('{')
	g.ws()
	for i := 0; i < w && (i == 0 || g.nodes < g.o.MaxNodes); i++ {
		if i > 0 {
			g.sb.WriteByte(',')
			g.ws()
		}
		g.str()
		g.ws()
		g.sb.WriteByte(':')
		g.ws()
		g.value(depth + 1)
		g.ws()
	}
	g.sb.WriteByte('}')
}

// spine: containers nested to exactly MaxDepth around one scalar.
func (g *jsonGen) spine() {
	closers := make([]byte, 0, g.o.MaxDepth)
	for d := 0; d < g.o.MaxDepth; d++ {
		if g.r.Bool() {
			g.sb.WriteByte('[')
			g.ws()
			closers = append(closers, ']')
		} else {
			g.sb.WriteByte('{')
			g.ws()
			g.str()
			g.ws()
			g.sb.WriteByte(':')
			g.ws()
			closers = append(closers, '}')
		}
		g.nodes++
	}
	g.scalar()
	for i := len(closers) - 1; i >= 0; i-- {
		g.ws()
		g.sb.WriteByte(closers[i])
	}
}

// scalarArray: `[` pairwise distinct scalars `]`. Distinctness is by construction: every string
// starts with its own index, every number has its own integer part, literals occur once.
func (g *jsonGen) scalarArray() {
	n := 0
	if !g.r.Chance(1, 8) {
		n = g.r.Range(1, g.o.MaxWidth)
	}
	usedLit := map[string]bool{}
	g.sb.WriteByte('[')
	g.ws()
	for i := 0; i < n; i++ {
		if i > 0 {
			g.sb.WriteByte(',')
			g.ws()
		}
		g.nodes++
		k := g.r.Intn(8)
		if k < 3 {
			lit := []string{"true", "false", "null"}[k]
			if usedLit[lit] {
				k = 5
			} else {
				usedLit[lit] = true
				g.sb.WriteString(lit)
			}
		}
		switch {
		case k < 3:
		case k < 6 && g.r.Chance(1, 3):
			// a string whose content spells a literal of another kind (same text, different member)
			lit := mon.Pick(g.r, []string{"true", "false", "null", strconv.Itoa(i + 1), "-" + strconv.Itoa(i+1)})
			if usedLit["s:"+lit] {
				lit = strconv.Itoa(i+1) + ".0"
			}
			usedLit["s:"+lit] = true
			g.sb.WriteString(`"` + lit + `"`)
		case k < 6:
			g.sb.WriteByte('"')
			g.sb.WriteString(strconv.Itoa(i))
			g.sb.WriteByte('_')
			for j := g.r.Intn(4); j > 0; j-- {
				g.sb.WriteString(mon.Pick(g.r, jgStringPieces))
			}
			g.sb.WriteByte('"')
		default:
			if g.r.Chance(1, 3) {
				g.sb.WriteByte('-')
			}
			g.sb.WriteString(strconv.Itoa(i + 1))
			g.digits(0, 3)
			if g.r.Chance(2, 5) {
				g.sb.WriteByte('.')
				g.digits(1, 4)
			}
		}
		g.ws()
	}
	g.sb.WriteByte(']')
}

// genJSON returns one valid JSON text.
func genJSON(r *mon.Rng, o jsonGenOpts) []byte {
	if o.MaxBytes == 0 {
		o.MaxBytes = 4096
	}
	for {
		g := &jsonGen{r: r, o: o}
		g.ws()
		switch {
		case o.ScalarArray:
			g.scalarArray()
		case r.Chance(1, 12):
			g.spine()
		case r.Chance(1, 8):
			g.scalar() // root scalar (with WS possibly ending exactly at the end of input)
		default:
			g.value(0)
		}
		if !r.Chance(1, 3) { // one time in three nothing follows the value
			g.ws()
		}
		if g.sb.Len() <= o.MaxBytes {
			return []byte(g.sb.String())
		}
		o.MaxNodes = o.MaxNodes*2/3 + 1
		if o.MaxWidth > 2 {
			o.MaxWidth--
		}
	}
}
