package props

// C10 — numeric rules use exact decimal arithmetic on every JSON numeral.
//
// Unit level (hook vh_num → internal/json.Number through the virtual package verifhook):
// differential against math/big on the exhaustive set of short numerals, on all pairs of the
// shortest ones, against a boundary set, and on random long triples (x, x ± one unit, x
// re-spelled). API level (no hook): Validate of `example // {min|max|exclusive…|precision}`
// schemas against document numerals of every form; the verdict must equal the exact rational
// comparison / the fractional length of the normalised expansion / the integer-float
// classification of DESIGN Appendix A.

import (
	"encoding/json"
	"fmt"
	"math/big"
	"strconv"
	"strings"
	"sync"

	jschema "github.com/jsightapi/jsight-schema-go-library"
	njs "github.com/jsightapi/jsight-schema-go-library/notations/jschema"

	"verif/internal/lib"
	"verif/internal/mon"
	refnum "verif/internal/ref/num"
)

// ---- hook interface (filled in by c10_unit.go when vh_num is compiled in) -------------

type c10Rel struct {
	Cmp                     int
	Equal, GT, GTE, LT, LTE bool
}

type c10UnitAPI struct {
	info  func(s string) (str string, frac int, errs string)
	cmp   func(a, b string) (c10Rel, string)
	class func(s string) (isInt, isFloat bool, jsonType string, errs string)
}

var c10Unit *c10UnitAPI

const c10NoHook = "hook vh_num unavailable: unit-level differential of internal/json.Number against math/big not run (API level decides alone)"

// ---- the one known class ----------------------------------------------------------------

// c10ZeroExp: the whole numeral is -?0[eE][+-]?digits (zero mantissa directly followed by an
// exponent). The pinned tree does not recognise these as numbers and the repository's own
// test (TestNewNumber/negative: 0e0, 0e2) pins that, so it is a known finding, reported as ONE
// canonical case. Everything else about these numerals is judged normally.
func c10ZeroExp(s string) bool {
	i := 0
	if i < len(s) && s[i] == '-' {
		i++
	}
	if i >= len(s) || s[i] != '0' {
		return false
	}
	i++
	if i >= len(s) || (s[i] != 'e' && s[i] != 'E') {
		return false
	}
	i++
	if i < len(s) && (s[i] == '+' || s[i] == '-') {
		i++
	}
	if i >= len(s) {
		return false
	}
	for ; i < len(s); i++ {
		if s[i] < '0' || s[i] > '9' {
			return false
		}
	}
	return true
}

var c10KnownClass = map[string]string{"class": "zero mantissa directly followed by exponent", "witness": "0e1"}

const c10KnownCounter = "zero-mantissa-exponent numerals not recognised (known class)"

func c10ReportZeroExp(c *mon.Ctx) {
	c.Count(c10KnownCounter, 1)
	c.Violate("recognise", c10KnownClass, "recognised", "not recognised",
		"numerals with a zero mantissa directly followed by an exponent (0e1, -0E-2) are not recognised as numbers")
}

// c10Recognised: does the public API treat d as a number at all (rule-free float schema)?
func c10Recognised(d string) bool {
	return lib.Validate(lib.Spec{Text: "1.5"}, d).Verdict() == "accept"
}

func c10ReplayRecognise(json.RawMessage) string {
	w := c10KnownClass["witness"]
	if !c10Recognised(w) {
		return "not recognised"
	}
	if t, err := c10SchemaType(w); err != "" || t != "integer" {
		return "not recognised"
	}
	if c10Unit != nil {
		if _, _, errs := c10Unit.info(w); errs != "" {
			return "not recognised"
		}
	}
	return "recognised"
}

// ---- workload: numerals -----------------------------------------------------------------

const c10Alphabet = "-0159.eE+"

var (
	c10NumOnce sync.Once
	c10Num7    []string // all RFC numerals of <= 7 characters over the alphabet, by length then text order
)

// c10Numerals enumerates by depth-first search over viable prefixes; the recogniser is
// refnum.Valid (a prefix is viable iff it is a numeral or becomes one by appending "0").
func c10Numerals(maxLen int) []string {
	c10NumOnce.Do(func() {
		byLen := make([][]string, 8)
		var rec func(p []byte)
		rec = func(p []byte) {
			s := string(p)
			if len(p) > 0 && refnum.Valid(s) {
				byLen[len(p)] = append(byLen[len(p)], s)
			}
			if len(p) == 7 {
				return
			}
			for i := 0; i < len(c10Alphabet); i++ {
				q := append(p, c10Alphabet[i])
				if refnum.Valid(string(q)) || refnum.Valid(string(q)+"0") {
					rec(q)
				}
			}
		}
		rec(make([]byte, 0, 8))
		for _, l := range byLen {
			c10Num7 = append(c10Num7, l...)
		}
	})
	n := 0
	for n < len(c10Num7) && len(c10Num7[n]) <= maxLen {
		n++
	}
	return c10Num7[:n]
}

// boundary set: zeros of every spelling, ±1, 5, powers of ten, values around them, values that
// binary floating point cannot tell apart, extreme exponents.
var c10Boundary = []string{
	"0", "-0", "0.0", "-0.0", "0e0", "0E1", "-0e-1", "0.00e+5", "-0.0E-0",
	"1", "-1", "1.0", "-1.0", "1e0", "1E0", "10e-1", "0.1e1", "1E+0", "1e-0",
	"0.1", "-0.1", "1e-1", "0.10", "0.01", "1e-2", "0.09", "0.11",
	"5", "-5", "5.0", "5e0", "50e-1", "0.5e1", "4.9", "4.99", "5.01", "5.1", "-4.9", "-5.1",
	"9", "10", "1e1", "1E+1", "9.9", "9.99", "10.01", "99", "100", "1e2", "1E2", "1.0e2", "100.0", "99.9", "100.1", "101",
	"0.5", "-0.5", "5e-1", "0.50", "0.49", "0.51", "15e-1", "1.5", "1.5e0", "1.50", "0.15e1", "150e-2", "1.5e1",
	"1e9", "999999999", "1000000000", "1000000001", "1e10", "1e-9", "0.000000001", "0.0000000011",
	"1e400", "1e-400", "-1e400", "-1e-400", "9e399", "1.1e400", "0.1e-400",
	"123456789012345678901234567890", "123456789012345678901234567890.5", "123456789012345678901234567891", "1.2345678901234567890123456789e29",
	"0.30000000000000004", "0.3", "3e-1",
	"9007199254740993", "9007199254740992", "9007199254740992.5", "18446744073709551616", "18446744073709551615",
	"1.7976931348623157e308", "1.7976931348623158e308", "2e308", "4.9e-324", "5e-324",
}

// c10BoundaryCore: the leading entries of c10Boundary (zeros of every spelling and ±1).
const c10BoundaryCore = 13

var (
	c10BoundOnce sync.Once
	c10BoundNums []*refnum.Num
)

func c10BoundaryNums() []*refnum.Num {
	c10BoundOnce.Do(func() {
		for _, s := range c10Boundary {
			c10BoundNums = append(c10BoundNums, refnum.MustParse(s))
		}
	})
	return c10BoundNums
}

// ---- random numerals --------------------------------------------------------------------

func c10Digits(r *mon.Rng, n int) string {
	b := make([]byte, n)
	for i := range b {
		switch r.Intn(6) {
		case 0:
			b[i] = '0'
		case 1:
			b[i] = '9'
		default:
			b[i] = byte('0' + r.Intn(10))
		}
	}
	return string(b)
}

// c10Plain: a random exponent-free value as (neg, integer digits normalised, fraction digits
// possibly with trailing zeros), at most maxDigits digits.
func c10Plain(r *mon.Rng, maxDigits int) (neg bool, ip, fp string) {
	total := r.Range(1, maxDigits)
	if r.Chance(1, 3) {
		total = r.Range(1, 6)
	}
	ni := r.Range(0, total)
	if ni == 0 {
		ip = "0"
	} else {
		ip = strings.TrimLeft(c10Digits(r, ni), "0")
		if ip == "" {
			ip = "0"
		}
	}
	if nf := total - ni; nf > 0 && !r.Chance(1, 4) {
		fp = c10Digits(r, nf)
	}
	return r.Chance(2, 5), ip, fp
}

// c10Spell renders the value (neg, D with the point after position P) in a random RFC
// spelling: exponent of either case and sign, point moved by the exponent, trailing zeros in
// the fraction, leading "0.", "-0" for zero. D are digits, 0 <= P <= len(D); the value is
// D-with-point-at-P times 10^B. The written exponent stays within ±(|B|+len(D)+12).
func c10Spell(r *mon.Rng, neg bool, D string, P int, B int) string {
	E := 0
	useExp := r.Chance(3, 5)
	if useExp {
		switch r.Intn(4) {
		case 0:
			E = r.Range(-80, 80)
		case 1:
			E = r.Range(-3, 3)
		default:
			E = r.Range(-len(D)-2, len(D)+2)
		}
	}
	// keep the mantissa short: at most 12 padding zeros
	p := P - E
	if p < -12 {
		E -= -12 - p
		p = -12
	}
	if p > len(D)+12 {
		E += p - (len(D) + 12)
		p = len(D) + 12
	}
	var ip, fp string
	switch {
	case p <= 0:
		ip, fp = "0", strings.Repeat("0", -p)+D
	case p >= len(D):
		ip, fp = D+strings.Repeat("0", p-len(D)), ""
	default:
		ip, fp = D[:p], D[p:]
	}
	ip = strings.TrimLeft(ip, "0")
	if ip == "" {
		ip = "0"
	}
	switch r.Intn(4) {
	case 0:
		fp = strings.TrimRight(fp, "0")
	case 1:
		fp += strings.Repeat("0", r.Range(1, 3))
	}
	var sb strings.Builder
	if neg {
		sb.WriteByte('-')
	}
	sb.WriteString(ip)
	if fp != "" {
		sb.WriteByte('.')
		sb.WriteString(fp)
	}
	if useExp || E+B != 0 {
		sb.WriteByte("eE"[r.Intn(2)])
		a := E + B
		if a < 0 {
			sb.WriteByte('-')
			a = -a
		} else if r.Bool() {
			sb.WriteByte('+')
		} else if a == 0 && r.Chance(1, 4) {
			sb.WriteByte('-')
		}
		switch {
		case r.Chance(1, 8):
			sb.WriteString(strings.Repeat("0", r.Range(1, 2)))
		case r.Chance(1, 24):
			// an exponent padded beyond the width of any machine integer (still the same number)
			sb.WriteString(strings.Repeat("0", r.Range(17, 40)))
		}
		sb.WriteString(strconv.Itoa(a))
	}
	return sb.String()
}

// c10Triple builds (x, y, z): x a random spelling, y = x ± one unit in a random decimal
// place, z = the value of x in another spelling. Self-checked against the reference.
func c10Triple(r *mon.Rng, maxDigits, maxExp int) (x, y, z *refnum.Num) {
	neg, ip, fp := c10Plain(r, maxDigits)
	D, P := ip+fp, len(ip)
	zero := strings.Trim(D, "0") == ""
	B := 0
	if r.Bool() {
		B = r.Range(-(maxExp - maxDigits - 14), maxExp-maxDigits-14)
	}
	x = refnum.MustParse(c10Spell(r, neg, D, P, B))
	z = refnum.MustParse(c10Spell(r, neg != (zero && r.Bool()), D, P, B))
	// y: mantissa ± 10^j with 0..2 extra low digits
	pad := r.Intn(3)
	m, _ := new(big.Int).SetString(D+strings.Repeat("0", pad), 10)
	if neg {
		m.Neg(m)
	}
	j := r.Intn(len(D) + pad)
	u := new(big.Int).Exp(big.NewInt(10), big.NewInt(int64(j)), nil)
	if r.Bool() {
		m.Add(m, u)
	} else {
		m.Sub(m, u)
	}
	yneg := m.Sign() < 0
	yd := new(big.Int).Abs(m).String()
	fl := len(fp) + pad
	if len(yd) < fl+1 {
		yd = strings.Repeat("0", fl+1-len(yd)) + yd
	}
	y = refnum.MustParse(c10Spell(r, yneg, yd, len(yd)-fl, B))
	if refnum.Cmp(x, z) != 0 || refnum.Cmp(x, y) == 0 {
		panic(fmt.Sprintf("C10 harness bug: triple %q %q %q", x.Text, y.Text, z.Text))
	}
	return x, y, z
}

// ---- unit-level comparisons ---------------------------------------------------------------

func c10InfoExpect(n *refnum.Num) string {
	t := "integer"
	if n.IsFloat() {
		t = "float"
	}
	return fmt.Sprintf("str=%s frac=%d int=%v float=%v type=%s", n.String(), n.FracLen(), n.IsInteger(), n.IsFloat(), t)
}

// c10InfoObserve returns the rendering of what the library says about one numeral and
// whether the numeral was not recognised at all (no Number, neither integer nor float).
func c10InfoObserve(s string) (obs string, unrecognised bool) {
	str, frac, e1 := c10Unit.info(s)
	isInt, isFloat, jt, e2 := c10Unit.class(s)
	if e1 != "" || e2 != "" {
		unrec := strings.HasPrefix(e1, "error:") && !isInt && !isFloat
		return fmt.Sprintf("NewNumber: %q; classification: int=%v float=%v %q", e1, isInt, isFloat, e2), unrec
	}
	return fmt.Sprintf("str=%s frac=%d int=%v float=%v type=%s", str, frac, isInt, isFloat, jt), false
}

func c10CheckInfo(c *mon.Ctx, n *refnum.Num) {
	c.Eval(1)
	want := c10InfoExpect(n)
	got, unrec := c10InfoObserve(n.Text)
	if got == want {
		return
	}
	if unrec && c10ZeroExp(n.Text) {
		c10ReportZeroExp(c)
		return
	}
	c.Violate("unit-info", map[string]string{"numeral": n.Text}, want, got,
		"internal/json.Number/Guess disagree with the exact decimal expansion of "+n.Text)
}

func c10RelExpect(a, b *refnum.Num) string {
	k := refnum.Cmp(a, b)
	return c10RelString(c10Rel{Cmp: k, Equal: k == 0, GT: k > 0, GTE: k >= 0, LT: k < 0, LTE: k <= 0})
}

func c10RelString(r c10Rel) string {
	return fmt.Sprintf("cmp=%d eq=%v gt=%v gte=%v lt=%v lte=%v", r.Cmp, r.Equal, r.GT, r.GTE, r.LT, r.LTE)
}

func c10CmpObserve(a, b string) (obs string, failed bool) {
	r, errs := c10Unit.cmp(a, b)
	if errs != "" {
		return errs, true
	}
	return c10RelString(r), false
}

func c10CheckCmp(c *mon.Ctx, a, b *refnum.Num) {
	c.Eval(1)
	want := c10RelExpect(a, b)
	got, failed := c10CmpObserve(a.Text, b.Text)
	if got == want {
		return
	}
	if failed && strings.HasPrefix(got, "error:") {
		// attribute the failure: collapse only if every operand that is not parsed is of the known class
		onlyKnown, any := true, false
		for _, s := range []string{a.Text, b.Text} {
			if _, _, e := c10Unit.info(s); e != "" {
				any = true
				if !(c10ZeroExp(s) && strings.HasPrefix(e, "error:")) {
					onlyKnown = false
				}
			}
		}
		if any && onlyKnown {
			c10ReportZeroExp(c)
			return
		}
	}
	c.Violate("unit-cmp", map[string]string{"a": a.Text, "b": b.Text}, want, got,
		fmt.Sprintf("Number.Cmp(%s, %s) disagrees with the exact rational comparison", a.Text, b.Text))
}

func c10Float64Blind(a, b *refnum.Num) bool {
	fa, e1 := strconv.ParseFloat(a.Text, 64)
	fb, e2 := strconv.ParseFloat(b.Text, 64)
	return e1 == nil && e2 == nil && fa == fb && refnum.Cmp(a, b) != 0
}

func c10CountNumeral(c *mon.Ctx, n *refnum.Num) {
	if n.HasExp {
		c.Count("numerals with an exponent", 1)
	}
	if n.IsZero() && strings.HasPrefix(n.Text, "-") {
		c.Count("negative-zero spellings", 1)
	}
	if c10ZeroExp(n.Text) {
		c.Count("zero-mantissa-exponent numerals seen", 1)
	}
}

func c10NonTrivial(n *refnum.Num) bool { return n.Text != n.String() }

// ---- API level ----------------------------------------------------------------------------

type c10APICase struct {
	Schema string `json:"schema"`
	Doc    string `json:"doc"`
}

func c10SchemaType(s string) (t string, errs string) {
	defer func() {
		if r := recover(); r != nil {
			t, errs = "", fmt.Sprintf("panic: %v", r)
		}
	}()
	st, err := jschema.GuessSchemaType([]byte(s))
	if err != nil {
		return "", "error: " + err.Error()
	}
	return string(st), ""
}

// c10Rule describes one schema under test.
type c10Rule struct {
	typ  string // "integer" | "float": kind of the example
	rule string // "", "min", "xmin", "max", "xmax", "precision"
	p    *refnum.Num
	prec int
	text string
	far  *refnum.Num // band rules: the other bound, 1000 away, exclusive
}

func (r c10Rule) expect(d *refnum.Num) bool {
	if r.typ == "integer" && !d.IsInteger() {
		return false
	}
	switch r.rule {
	case "min":
		return refnum.Cmp(d, r.p) >= 0
	case "xmin":
		return refnum.Cmp(d, r.p) > 0
	case "max":
		return refnum.Cmp(d, r.p) <= 0
	case "xmax":
		return refnum.Cmp(d, r.p) < 0
	case "precision":
		return d.FracLen() <= r.prec
	case "band-max": // max: p (explicitly NOT exclusive) next to an exclusive minimum far below
		return refnum.Cmp(d, r.p) <= 0 && refnum.Cmp(d, r.far) > 0
	case "band-min": // min: p (explicitly NOT exclusive) next to an exclusive maximum far above
		return refnum.Cmp(d, r.p) >= 0 && refnum.Cmp(d, r.far) < 0
	}
	return true
}

func c10Floor(r *big.Rat) *big.Int {
	return new(big.Int).Div(r.Num(), r.Denom()) // Euclidean division, denominator > 0: floor
}

func c10Ceil(r *big.Rat) *big.Int {
	f := c10Floor(new(big.Rat).Neg(r))
	return f.Neg(f)
}

// c10Schemas builds the eight bound schemas for parameter text p (exponent-free): example is a
// value that satisfies the rule — the bound itself for the inclusive rules (so Check also sits on
// the boundary), the nearest integer strictly inside (±.5 for floats) for the exclusive ones.
func c10Schemas(r *mon.Rng, ptext string) []c10Rule {
	p := refnum.MustParse(ptext)
	var out []c10Rule
	one := big.NewInt(1)
	intLit := func(v *big.Int) string {
		if v.Sign() == 0 && r.Chance(1, 3) {
			return "-0"
		}
		return v.String()
	}
	floatOf := func(n *refnum.Num) string {
		s := n.String()
		if n.IsZero() && r.Chance(1, 3) {
			s = "-0"
		}
		if !strings.Contains(s, ".") {
			s += ".0"
		}
		return s
	}
	half := func(v *big.Int, up bool) string { // v+0.5 or v-0.5
		t := new(big.Int).Mul(v, big.NewInt(10))
		if up {
			t.Add(t, big.NewInt(5))
		} else {
			t.Sub(t, big.NewInt(5))
		}
		neg := t.Sign() < 0
		d := t.Abs(t).String()
		if len(d) < 2 {
			d = "0" + d
		}
		s := d[:len(d)-1] + "." + d[len(d)-1:]
		if neg {
			s = "-" + s
		}
		return s
	}
	for _, rule := range []string{"min", "xmin", "max", "xmax"} {
		var iex, fex, body string
		switch rule {
		case "min":
			iex, fex = intLit(c10Ceil(p.Rat())), floatOf(p)
			body = "{min: " + ptext + "}"
		case "xmin":
			v := new(big.Int).Add(c10Floor(p.Rat()), one)
			iex, fex = intLit(v), half(v, true)
			body = "{min: " + ptext + ", exclusiveMinimum: true}"
		case "max":
			iex, fex = intLit(c10Floor(p.Rat())), floatOf(p)
			body = "{max: " + ptext + "}"
		case "xmax":
			v := new(big.Int).Sub(c10Ceil(p.Rat()), one)
			iex, fex = intLit(v), half(v, false)
			body = "{max: " + ptext + ", exclusiveMaximum: true}"
		}
		out = append(out,
			c10Rule{typ: "integer", rule: rule, p: p, text: iex + " // " + body},
			c10Rule{typ: "float", rule: rule, p: p, text: fex + " // " + body})
	}
	// both bounds on one node, one flag true and the other explicitly false: the flags are
	// independent of each other, in either written order
	lowI := new(big.Int).Sub(c10Floor(p.Rat()), big.NewInt(1000))
	highI := new(big.Int).Add(c10Ceil(p.Rat()), big.NewInt(1000))
	low, high := refnum.MustParse(lowI.String()), refnum.MustParse(highI.String())
	bmax := "{min: " + low.Text + ", exclusiveMinimum: true, max: " + ptext + ", exclusiveMaximum: false}"
	bmin := "{min: " + ptext + ", exclusiveMinimum: false, max: " + high.Text + ", exclusiveMaximum: true}"
	if r.Bool() {
		bmax = "{max: " + ptext + ", exclusiveMaximum: false, exclusiveMinimum: true, min: " + low.Text + "}"
		bmin = "{exclusiveMaximum: true, max: " + high.Text + ", min: " + ptext + ", exclusiveMinimum: false}"
	}
	out = append(out,
		c10Rule{typ: "integer", rule: "band-max", p: p, far: low, text: intLit(c10Floor(p.Rat())) + " // " + bmax},
		c10Rule{typ: "float", rule: "band-max", p: p, far: low, text: floatOf(p) + " // " + bmax},
		c10Rule{typ: "integer", rule: "band-min", p: p, far: high, text: intLit(c10Ceil(p.Rat())) + " // " + bmin},
		c10Rule{typ: "float", rule: "band-min", p: p, far: high, text: floatOf(p) + " // " + bmin})
	return out
}

// fixed exponent-free parameters (the schema language forbids exponents in rule values)
var c10Params = []string{
	"0", "-0", "0.0", "-0.0", "0.00", "1", "-1", "1.0", "5", "-5", "5.0", "5.00", "0.5", "-0.5", "0.50", "0.05", "-0.05",
	"10", "100", "-100", "99.99", "-99.99", "0.001", "1.50", "2.5", "-2.5", "9", "9.9", "0.1", "0.3", "0.30000000000000004",
	"9007199254740992", "9007199254740993", "-9007199254740993", "18446744073709551616", "0.000000000000000000001",
	"123456789012345678901234567890", "123456789012345678901234567890.5", "-123456789012345678901234567890.000000000000000000001",
	"179769313486231570000000000000000000000000000000000000000000", "0.1000000000000000055511151231257827", "1000000",
}

// c10RunSchema validates docs on one schema (built once); every disagreement is re-run on a
// fresh schema before it is reported.
func c10RunSchema(c *mon.Ctx, r c10Rule, docs []*refnum.Num) {
	sp := lib.Spec{Text: r.text}
	c.Eval(1)
	s, o := lib.Build(sp)
	if o.OK {
		o = lib.Safe(s.Check)
	}
	if !o.OK {
		c.Violate("api-check", map[string]string{"schema": r.text}, "accept", o.String(),
			"Check refuses a schema whose example satisfies its numeric rule exactly")
		return
	}
	c.Count("schemas "+r.typ+" "+r.rule, 1)
	for _, d := range docs {
		c10JudgeDoc(c, s, r, d)
	}
}

func c10JudgeDoc(c *mon.Ctx, s *njs.Schema, r c10Rule, d *refnum.Num) {
	c.Eval(1)
	want := "reject"
	if r.expect(d) {
		want = "accept"
	}
	o := lib.ValidateOn(s, d.Text)
	got := o.Verdict()
	c.Count("api expected "+want+", observed "+got, 1)
	if r.p != nil && refnum.Cmp(d, r.p) == 0 && d.Text != r.p.Text {
		c.Count("api documents equal to the bound in another spelling", 1)
	}
	if got == want {
		return
	}
	fresh := lib.Validate(lib.Spec{Text: r.text}, d.Text)
	if fresh.Verdict() == want {
		// the statement: the verdict depends ONLY on the number's value - not on the numerals
		// this schema object has seen before
		c.Violate("api-reused", c10APICase{r.text, d.Text}, want, got,
			fmt.Sprintf("Validate(%s) under `%s` on a schema object that validated other numerals before: %s; a fresh object and exact arithmetic say %s", d.Text, r.text, o.String(), want))
		return
	}
	if want == "accept" && fresh.Verdict() == "reject" && c10ZeroExp(d.Text) && !c10Recognised(d.Text) {
		c10ReportZeroExp(c)
		return
	}
	c.Violate("api", c10APICase{r.text, d.Text}, want, fresh.Verdict(),
		fmt.Sprintf("Validate(%s) under `%s`: %s, exact arithmetic says %s", d.Text, r.text, fresh.String(), want))
}

// c10DocsFor: documents around parameter p — the bound in other spellings, one unit away in
// random places, and the boundary set.
func c10DocsFor(r *mon.Rng, p *refnum.Num, nspell int) []*refnum.Num {
	var docs []*refnum.Num
	D, P := p.Int+p.Frac, len(p.Int)
	for i := 0; i < nspell; i++ {
		neg := p.Neg
		if p.IsZero() {
			neg = r.Bool()
		}
		docs = append(docs, refnum.MustParse(c10Spell(r, neg, D, P, 0)))
	}
	for i := 0; i < nspell; i++ {
		pad := r.Intn(3)
		m, _ := new(big.Int).SetString(D+strings.Repeat("0", pad), 10)
		if p.Neg {
			m.Neg(m)
		}
		u := new(big.Int).Exp(big.NewInt(10), big.NewInt(int64(r.Intn(len(D)+pad))), nil)
		if r.Bool() {
			m.Add(m, u)
		} else {
			m.Sub(m, u)
		}
		neg := m.Sign() < 0
		yd := m.Abs(m).String()
		fl := len(p.Frac) + pad
		if len(yd) < fl+1 {
			yd = strings.Repeat("0", fl+1-len(yd)) + yd
		}
		docs = append(docs, refnum.MustParse(c10Spell(r, neg, yd, len(yd)-fl, 0)))
	}
	return docs
}

// ---- unit layout ----------------------------------------------------------------------------

type c10Layout struct {
	exLen, boundLen, pairLen           int
	nEx, nPair, nRand, perRand         int
	nRecog, nParamRand, nPrec, perPrec int
}

func c10LayoutOf(tier string) c10Layout {
	if tier == "thorough" {
		return c10Layout{exLen: 7, boundLen: 7, pairLen: 5, nEx: 128, nPair: 128, nRand: 1000, perRand: 2000,
			nRecog: 128, nParamRand: 4000, nPrec: 64, perPrec: 400}
	}
	return c10Layout{exLen: 7, boundLen: 6, pairLen: 4, nEx: 64, nPair: 16, nRand: 64, perRand: 1600,
		nRecog: 64, nParamRand: 80, nPrec: 16, perPrec: 120}
}

func (l c10Layout) total() int {
	return l.nEx + l.nPair + l.nRand + l.nRecog + len(c10Params) + l.nParamRand + l.nPrec
}

func c10Slice(n, parts, k int) (lo, hi int) { return k * n / parts, (k + 1) * n / parts }

func c10Run(c *mon.Ctx, unit int) {
	l := c10LayoutOf(c.Tier)
	switch {
	case unit < l.nEx:
		c10UnitExhaustive(c, l, unit)
	case unit < l.nEx+l.nPair:
		c10UnitPairs(c, l, unit-l.nEx)
	case unit < l.nEx+l.nPair+l.nRand:
		c10UnitRandom(c, l, unit-l.nEx-l.nPair)
	case unit < l.nEx+l.nPair+l.nRand+l.nRecog:
		c10APIRecognise(c, l, unit-l.nEx-l.nPair-l.nRand)
	case unit < l.nEx+l.nPair+l.nRand+l.nRecog+len(c10Params)+l.nParamRand:
		c10APIBounds(c, l, unit-l.nEx-l.nPair-l.nRand-l.nRecog)
	default:
		c10APIPrecision(c, l, unit-l.nEx-l.nPair-l.nRand-l.nRecog-len(c10Params)-l.nParamRand)
	}
}

// every numeral of <= exLen characters: expansion, fractional length, classification; and
// Cmp in both directions against the boundary set.
func c10UnitExhaustive(c *mon.Ctx, l c10Layout, k int) {
	if c10Unit == nil {
		c.Inconclusive(c10NoHook)
		return
	}
	all := c10Numerals(l.exLen)
	lo, hi := c10Slice(len(all), l.nEx, k)
	bound := c10BoundaryNums()
	for ni, s := range all[lo:hi] {
		n := refnum.MustParse(s)
		c10CountNumeral(c, n)
		c.Count("unit: numerals checked (exhaustive)", 1)
		c10CheckInfo(c, n)
		if c10NonTrivial(n) {
			c.DistinctByConstruction(1)
		}
		bs := bound
		if len(s) > l.boundLen {
			bs = bound[:c10BoundaryCore] // longest numerals in the quick tier: the zeros and ±1 only
		}
		for j, b := range bs {
			// thorough: both directions; quick: alternating direction (the core zeros/±1 always both)
			if !c.Quick() || j < c10BoundaryCore || (ni+j)%2 == 0 {
				c10CheckCmp(c, n, b)
				c.Count("unit: comparisons against the boundary set", 1)
			}
			if !c.Quick() || j < c10BoundaryCore || (ni+j)%2 == 1 {
				c10CheckCmp(c, b, n)
				c.Count("unit: comparisons against the boundary set", 1)
			}
			if c10Float64Blind(n, b) {
				c.Count("unit: pairs that float64 cannot tell apart", 1)
			}
		}
	}
	if k == 0 {
		for _, b := range bound {
			c10CheckInfo(c, b)
			c10CountNumeral(c, b)
		}
		c.Sample("unit exhaustive", map[string]any{"alphabet": c10Alphabet, "max_len": l.exLen, "numerals": len(all),
			"first": all[:6], "last": all[len(all)-3:], "boundary_set": len(bound)})
	}
}

// all ordered pairs of numerals of <= pairLen characters
func c10UnitPairs(c *mon.Ctx, l c10Layout, k int) {
	if c10Unit == nil {
		c.Inconclusive(c10NoHook)
		return
	}
	texts := c10Numerals(l.pairLen)
	nums := make([]*refnum.Num, len(texts))
	for i, s := range texts {
		nums[i] = refnum.MustParse(s)
	}
	lo, hi := c10Slice(len(nums), l.nPair, k)
	for _, a := range nums[lo:hi] {
		for _, b := range nums {
			c10CheckCmp(c, a, b)
			if a.Text != b.Text && (c10NonTrivial(a) || c10NonTrivial(b)) {
				c.DistinctByConstruction(1)
			}
			switch refnum.Cmp(a, b) {
			case 0:
				if a.Text != b.Text {
					c.Count("unit: equal values in different spellings (all pairs)", 1)
				}
			}
		}
		c.Count("unit: ordered pairs compared (all pairs)", len(nums))
	}
	if k == 0 {
		c.Sample("unit all pairs", map[string]any{"max_len": l.pairLen, "numerals": len(nums), "ordered_pairs": len(nums) * len(nums)})
	}
}

func c10UnitRandom(c *mon.Ctx, l c10Layout, k int) {
	if c10Unit == nil {
		c.Inconclusive(c10NoHook)
		return
	}
	r := c.Rng(10)
	for i := 0; i < l.perRand; i++ {
		x, y, z := c10Triple(r, 60, 400)
		for _, n := range []*refnum.Num{x, y, z} {
			c10CheckInfo(c, n)
			c10CountNumeral(c, n)
		}
		c10CheckCmp(c, x, y)
		c10CheckCmp(c, y, x)
		c10CheckCmp(c, x, z)
		c10CheckCmp(c, z, x)
		c10CheckCmp(c, y, z)
		c10CheckCmp(c, x, x)
		c.Count("unit: random triples (x, x±unit, x re-spelled)", 1)
		if c10Float64Blind(x, y) {
			c.Count("unit: pairs that float64 cannot tell apart", 1)
		}
		c.Distinct("t" + x.Text + " " + y.Text + " " + z.Text)
		if k == 0 && i < 2 {
			c.Sample("unit random triple", map[string]string{"x": x.Text, "x_plus_minus_unit": y.Text, "x_respelled": z.Text,
				"cmp(x,y)": strconv.Itoa(refnum.Cmp(x, y))})
		}
	}
}

// every short numeral must be recognised by the public API: accepted by a rule-free float
// schema, accepted by a rule-free integer schema iff it classifies as integer, and typed by
// GuessSchemaType.
func c10APIRecognise(c *mon.Ctx, l c10Layout, k int) {
	all := c10Numerals(l.exLen)
	lo, hi := c10Slice(len(all), l.nRecog, k)
	fs, o1 := lib.Build(lib.Spec{Text: "1.5"})
	is, o2 := lib.Build(lib.Spec{Text: "1"})
	if !o1.OK || !o2.OK || !lib.Safe(fs.Check).OK || !lib.Safe(is.Check).OK {
		c.Violate("api-check", map[string]string{"schema": "1.5"}, "accept", "reject", "the rule-free schemas `1.5` / `1` do not build")
		return
	}
	fr := c10Rule{typ: "float", text: "1.5"}
	ir := c10Rule{typ: "integer", text: "1"}
	docs := all[lo:hi]
	if k == 0 {
		docs = append(append([]string{}, docs...), c10Boundary...)
	}
	for _, s := range docs {
		d := refnum.MustParse(s)
		c10JudgeDoc(c, fs, fr, d)
		c10JudgeDoc(c, is, ir, d)
		c.Eval(1)
		want := "integer"
		if d.IsFloat() {
			want = "float"
		}
		t, errs := c10SchemaType(s)
		got := t
		if errs != "" {
			got = errs
		}
		if got != want {
			if strings.HasPrefix(errs, "error:") && c10ZeroExp(s) {
				c10ReportZeroExp(c)
			} else {
				c.Violate("api-type", map[string]string{"numeral": s}, want, got, "GuessSchemaType("+s+") disagrees with the integer/float classification")
			}
		}
		c.Count("api: numerals checked for recognition and type", 1)
		if c10NonTrivial(d) {
			c.DistinctByConstruction(1)
		}
	}
	if k == 0 {
		c.Sample("api recognise", map[string]any{"schemas": []string{"1.5", "1"}, "numerals": len(all), "example_docs": docs[:5]})
	}
}

func c10APIBounds(c *mon.Ctx, l c10Layout, k int) {
	r := c.Rng(1010)
	var ptext string
	nspell := 14
	if k < len(c10Params) {
		ptext = c10Params[k]
	} else {
		neg, ip, fp := c10Plain(r, 60)
		ptext = ip
		if fp != "" {
			ptext += "." + fp
		}
		if neg {
			ptext = "-" + ptext
		}
		nspell = 8
	}
	rules := c10Schemas(r, ptext)
	p := rules[0].p
	docs := c10DocsFor(r, p, nspell)
	if k < len(c10Params) || r.Chance(1, 8) {
		docs = append(docs, c10BoundaryNums()...)
	} else {
		b := c10BoundaryNums()
		for i := 0; i < 6; i++ {
			docs = append(docs, b[r.Intn(len(b))])
		}
	}
	for _, d := range docs {
		c10CountNumeral(c, d)
	}
	for _, rl := range rules {
		c10RunSchema(c, rl, docs)
		for _, d := range docs {
			if c10NonTrivial(d) || c10NonTrivial(p) {
				c.Distinct("a" + rl.text + " " + d.Text)
			}
		}
	}
	if k < 2 || k == len(c10Params) {
		c.Sample("api bounds", map[string]any{"schemas": []string{rules[0].text, rules[3].text, rules[6].text},
			"docs": []string{docs[0].Text, docs[1].Text, docs[nspell].Text, docs[nspell+1].Text}, "docs_per_schema": len(docs)})
	}
}

var c10Precisions = []int{1, 2, 3, 5, 17, 40}

func c10APIPrecision(c *mon.Ctx, l c10Layout, k int) {
	r := c.Rng(101010)
	n := c10Precisions[k%len(c10Precisions)]
	ex := []string{"1.5", "-0.5", "0.0", "2.0", "-0.0"}[r.Intn(5)]
	rl := c10Rule{typ: "float", rule: "precision", prec: n, text: fmt.Sprintf("%s // {precision: %d}", ex, n)}
	var docs []*refnum.Num
	for i := 0; i < l.perPrec; i++ {
		// values whose normalised fraction length sits around n: D digits with the point placed so
		// that the fraction has n-1, n, n+1 digits, ending or not in zeros, spelled at random
		fl := n + r.Range(-1, 1)
		if r.Chance(1, 4) {
			fl = r.Range(0, 8)
		}
		if fl < 0 {
			fl = 0
		}
		ni := r.Range(0, 6)
		digits := c10Digits(r, ni+fl)
		if fl > 0 && r.Chance(2, 3) {
			digits = digits[:len(digits)-1] + string(byte('1'+r.Intn(9)))
		}
		if digits == "" {
			digits = "0"
		}
		P := len(digits) - fl
		if P < 0 {
			P = 0
		}
		ipart := strings.TrimLeft(digits[:P], "0")
		if ipart == "" {
			ipart = "0"
		}
		D := ipart + digits[P:]
		docs = append(docs, refnum.MustParse(c10Spell(r, r.Chance(1, 3), D, len(ipart), 0)))
	}
	if k < len(c10Precisions) {
		docs = append(docs, c10BoundaryNums()...)
	}
	// zero written with a decimal point and an exponent: its normalised expansion has no
	// fractional digit whatever the exponent says
	for _, z := range []string{"0.0e-3", "-0.0E-5", "0.000e-12", "0.0e5", "0.00E+2", "-0.0e-1", "0.0e-0", "0.0E-40"} {
		docs = append(docs, refnum.MustParse(z))
	}
	for _, d := range docs {
		c10CountNumeral(c, d)
		if d.FracLen() == n && d.Text != d.String() {
			c.Count("api precision: fraction length exactly n in a non-normal spelling", 1)
		}
		c.Distinct("p" + rl.text + " " + d.Text)
	}
	c10RunSchema(c, rl, docs)
	if k < 2 {
		c.Sample("api precision", map[string]any{"schema": rl.text, "docs": []string{docs[0].Text, docs[1].Text, docs[2].Text}})
	}
}

func c10ReplayStr(raw json.RawMessage) (map[string]string, string) {
	var m map[string]string
	if err := json.Unmarshal(raw, &m); err != nil {
		return nil, "bad replay: " + err.Error()
	}
	return m, ""
}

func init() {
	mon.Register(&mon.Prop{
		ID:    "C10",
		Level: "exploration",
		Rule: "unit level (hook vh_num): every RFC 8259 numeral of <= 7 characters over {- 0 1 5 9 . e E +} (recogniser: refnum.Valid) — String(), LengthOfFractionalPart, IsInteger/IsFloat/LiteralJsonType " +
			"against the schoolbook decimal expansion; Cmp/Equal/GT/GTE/LT/LTE in both directions against a boundary set of ~100 values and on ALL ordered pairs of numerals of <= 4 (quick) / 5 (thorough) characters; " +
			"random triples (x, x ± one unit in a random decimal place, x re-spelled) with <= 60 digits and |exponent| <= 400; oracle = math/big.Rat. " +
			"API level: `example // {min|max[,exclusive…]: p}` for integer and float examples and `{precision: n}`, exponent-free p (fixed boundary list + random up to 60 digits) x documents = p re-spelled, p ± one unit, boundary set; " +
			"every short numeral against rule-free `1.5` and `1` and through GuessSchemaType. Non-trivial = a numeral whose text differs from its normalised expansion (exhaustive parts: distinct by construction; random parts: hashed).",
		Assumptions: []string{
			"integer/float classification as in DESIGN Appendix A: without exponent float iff the text contains '.', with exponent float iff the exact value is non-integral; a float example admits integers, an integer example rejects floats",
			"precision n bounds the fractional digits of the normalised expansion; String() of a Number is the normalised expansion",
			"numerals -?0[eE][+-]?digits not being recognised is one known finding (pinned by the repository's own TestNewNumber/negative); everything else about them is judged",
			"exponents are drawn with absolute value below a few hundred; the library expands exponents into digits and (since fix 4d45563) rejects numerals whose exponent exceeds 2^20 in absolute value instead of exhausting memory - those are outside the explored domain",
		},
		Exhaustive: func(string) bool { return true },
		Units:      func(tier string, seed uint64) int { return c10LayoutOf(tier).total() },
		Run:        c10Run,
		Replay: map[string]func(json.RawMessage) string{
			"recognise": c10ReplayRecognise,
			"unit-info": func(raw json.RawMessage) string {
				m, e := c10ReplayStr(raw)
				if e != "" {
					return e
				}
				if c10Unit == nil {
					return "hook vh_num unavailable"
				}
				got, _ := c10InfoObserve(m["numeral"])
				return got
			},
			"unit-cmp": func(raw json.RawMessage) string {
				m, e := c10ReplayStr(raw)
				if e != "" {
					return e
				}
				if c10Unit == nil {
					return "hook vh_num unavailable"
				}
				got, _ := c10CmpObserve(m["a"], m["b"])
				return got
			},
			"api-reused": func(json.RawMessage) string {
				return "needs the history of the schema object: not replayable from the case alone"
			},
			"api": func(raw json.RawMessage) string {
				var cs c10APICase
				if err := json.Unmarshal(raw, &cs); err != nil {
					return "bad replay: " + err.Error()
				}
				return lib.Validate(lib.Spec{Text: cs.Schema}, cs.Doc).Verdict()
			},
			"api-check": func(raw json.RawMessage) string {
				m, e := c10ReplayStr(raw)
				if e != "" {
					return e
				}
				o := lib.Check(lib.Spec{Text: m["schema"]})
				if o.OK {
					return "accept"
				}
				return o.String()
			},
			"api-type": func(raw json.RawMessage) string {
				m, e := c10ReplayStr(raw)
				if e != "" {
					return e
				}
				t, errs := c10SchemaType(m["numeral"])
				if errs != "" {
					return errs
				}
				return t
			},
		},
		Final: func(ev *mon.Evidence) error {
			if c10Unit == nil {
				ev.Inconcl[c10NoHook]++
			} else if ev.Counters["unit: numerals checked (exhaustive)"] == 0 {
				return fmt.Errorf("unit-level monitor observed nothing")
			}
			if ev.Counters["api expected accept, observed accept"] == 0 || ev.Counters["api expected reject, observed reject"] == 0 {
				if ev.Violations == 0 {
					return fmt.Errorf("API-level monitor saw no accepted or no rejected document")
				}
			}
			return nil
		},
	})
}
