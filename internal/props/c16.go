package props

// C16 — GetAST mirrors the schema text.
//
// Reference-model monitor: the expected AST is computed from the generator's abstract schema
// (one node per example value in source order, key / shortcut flag, token kind, literal value,
// schema type by precedence enum > or > type rule > precision => decimal > JSON kind, rules in
// written order with nested items, generated marking for rules synthesised from shortcuts, note
// text, no inherited allOf properties) and compared with GetAST() of every spelling.

import (
	"encoding/json"
	"fmt"
	"strconv"
	"strings"

	"verif/internal/gen"
	"verif/internal/lib"
	"verif/internal/model"
	"verif/internal/mon"
)

const (
	srcManual    = 1
	srcGenerated = 2
)

func refTokenOfLit(lit string) (token, value string) {
	switch {
	case strings.HasPrefix(lit, `"`):
		d, _ := model.Unquote(lit)
		return "string", d
	case lit == "true" || lit == "false":
		return "boolean", lit
	case lit == "null":
		return "null", "null"
	}
	return "number", lit
}

func refRule(sb *strings.Builder, name string, token, value string, source int, depth int) {
	fmt.Fprintf(sb, "%srule %s token=%s value=%q source=%d comment=%q\n", strings.Repeat(" ", depth), name, token, value, source, "")
}

func refNameToken(name string) string {
	if strings.HasPrefix(name, "@") {
		return "reference"
	}
	return "string"
}

func refRuleValue(sb *strings.Builder, name string, r *model.Rule, depth int) {
	switch r.Name {
	case "optional", "nullable", "const", "exclusiveMinimum", "exclusiveMaximum":
		refRule(sb, name, "boolean", strconv.FormatBool(r.Bool), srcManual, depth)
	case "min", "max":
		refRule(sb, name, "number", r.Num, srcManual, depth)
	case "precision", "minLength", "maxLength", "minItems", "maxItems":
		if r.Raw != "" {
			refRule(sb, name, "number", r.Raw, srcManual, depth) // a count beyond the range of int
			return
		}
		refRule(sb, name, "number", strconv.Itoa(r.Int), srcManual, depth)
	case "regex":
		refRule(sb, name, "string", r.Str, srcManual, depth)
	case "type":
		refRule(sb, name, refNameToken(r.Str), r.Str, srcManual, depth)
	case "additionalProperties":
		if r.IsStr {
			refRule(sb, name, "string", r.Str, srcManual, depth)
		} else {
			refRule(sb, name, "boolean", strconv.FormatBool(r.Bool), srcManual, depth)
		}
	case "enum":
		if r.Str != "" {
			refRule(sb, name, "reference", r.Str, srcManual, depth)
			return
		}
		refRule(sb, name, "array", "", srcManual, depth)
		for i, lit := range r.List {
			t, v := refTokenOfLit(lit)
			note := ""
			if r.NotesWritten {
				note = strings.TrimSpace(r.ItemNotes[i])
			}
			fmt.Fprintf(sb, "%srule %s token=%s value=%q source=%d comment=%q\n", strings.Repeat(" ", depth+1), fmt.Sprintf("[%d]", i), t, v, srcManual, note)
		}
	case "allOf":
		if len(r.List) == 1 {
			refRule(sb, name, "reference", r.List[0], srcManual, depth)
			return
		}
		refRule(sb, name, "array", "", srcManual, depth)
		for i, n := range r.List {
			refRule(sb, fmt.Sprintf("[%d]", i), "reference", n, srcManual, depth+1)
		}
	case "or":
		refRule(sb, name, "array", "", srcManual, depth)
		for i, it := range r.Or {
			in := fmt.Sprintf("[%d]", i)
			if it.Rules == nil {
				refRule(sb, in, refNameToken(it.Name), it.Name, srcManual, depth+1)
				continue
			}
			refRule(sb, in, "object", "", srcManual, depth+1)
			for _, rr := range it.Rules {
				refRuleValue(sb, rr.Name, rr, depth+2)
			}
		}
	}
}

func refSchemaType(n *model.Node) string {
	if n.Rule("enum") != nil {
		return "enum"
	}
	if n.Rule("or") != nil || (n.Kind == model.KRef && len(n.Refs) > 1) {
		return "mixed"
	}
	if r := n.Rule("type"); r != nil {
		return r.Str
	}
	if n.Kind == model.KRef {
		return n.Refs[0]
	}
	if n.Rule("precision") != nil {
		return "decimal"
	}
	return n.Kind.String()
}

func refAST(sb *strings.Builder, n *model.Node, key string, shortcut bool, depth int) {
	token, value := "", ""
	switch n.Kind {
	case model.KObject:
		token = "object"
	case model.KArray:
		token = "array"
	case model.KRef:
		token, value = "reference", n.RefText()
	default:
		token, value = refTokenOfLit(n.Lit)
	}
	fmt.Fprintf(sb, "%snode key=%q shortcut=%v token=%s type=%s value=%q comment=%q\n", strings.Repeat(" ", depth), key, shortcut, token, refSchemaType(n), value, n.Note)
	// rules synthesised from shortcuts come first (they are added when the value is read)
	if n.Kind == model.KRef {
		if len(n.Refs) == 1 {
			refRule(sb, "type", "reference", n.Refs[0], srcGenerated, depth+1)
		} else {
			refRule(sb, "or", "array", "", srcGenerated, depth+1)
			for i, r := range n.Refs {
				refRule(sb, fmt.Sprintf("[%d]", i), "string", r, srcGenerated, depth+2)
			}
		}
	}
	for _, r := range n.Rules {
		refRuleValue(sb, r.Name, r, depth+1)
	}
	for _, p := range n.Props {
		refAST(sb, p.Node, p.Key, p.Shortcut, depth+1)
	}
	for _, it := range n.Items {
		refAST(sb, it, "", false, depth+1)
	}
}

func refASTString(root *model.Node) string {
	var sb strings.Builder
	refAST(&sb, root, "", false, 0)
	return sb.String()
}

type c16Case struct {
	Spec lib.Spec `json:"spec"`
	Want string   `json:"expected_ast"`
}

func c16Sizes(tier string) (units, per int) {
	if tier == "thorough" {
		return 40000, 60
	}
	return 400, 48
}

// c16Observe: for every second schema text (by hash) the root is created from a []byte which is
// overwritten after GetAST: the tree handed out must not live on the caller's buffer.
func c16Observe(sp lib.Spec) (string, lib.Obs) {
	fromBytes := mon.HashString(sp.Text)%2 == 0
	s, buf, bo := lib.BuildWithBuffer(sp, fromBytes)
	if !bo.OK {
		return "", bo
	}
	an, ao := lib.SafeVal(s.GetAST)
	if !ao.OK {
		return "", ao
	}
	for i := range buf {
		buf[i] = '#'
	}
	first := astString(an, astOpts{})
	// asked again - after Check and Example were used on the same object for every third schema -
	// the AST is the same tree, and the tree handed out before has not changed
	if mon.HashString(sp.Text)%3 == 0 {
		lib.Safe(s.Check)
		lib.SafeVal(s.Example)
	}
	an2, ao2 := lib.SafeVal(s.GetAST)
	if !ao2.OK {
		return first, lib.Obs{Code: -1, Pos: -1, Panic: "the second GetAST() on the same schema object fails: " + ao2.String()}
	}
	if second := astString(an2, astOpts{}); second != first {
		return first, lib.Obs{Code: -1, Pos: -1, Panic: "the second GetAST() on the same schema object differs from the first: " + firstDiff(first, second)}
	}
	if again := astString(an, astOpts{}); again != first {
		return first, lib.Obs{Code: -1, Pos: -1, Panic: "the AST handed out by the first GetAST() changed after later calls: " + firstDiff(first, again)}
	}
	return first, ao
}

func c16Run(c *mon.Ctx, unit int) {
	_, per := c16Sizes(c.Tier)
	r := c.Rng(16)
	for k := 0; k < per; k++ {
		var s *model.Schema
		switch k % 4 {
		case 0:
			s = gen.Graph(r, 5)
		case 1:
			sc := gen.Scalar(r)
			s = &model.Schema{Root: sc.Node}
			if r.Bool() {
				s.Root.Note = "a note"
			}
		default:
			s = gen.Everything(r, gen.EverythingOpts{MaxDepth: r.Range(1, 4), MaxWidth: 4}).S
		}
		// false-valued rules are part of the text too: insert some (they are inert for validation,
		// not for the AST)
		if k%3 == 0 {
			s.Root.Walk(func(n *model.Node) {
				if !n.IsScalar() || !r.Chance(1, 3) {
					return
				}
				if vs := gen.FalseRuleVariants(n); len(vs) > 0 {
					n.Rules = mon.Pick(r, vs).Rules
				}
			})
		}
		// surface forms the AST must mirror: notes of enum values (written when the annotation is
		// spread over several lines), an empty note after the separator, a type named twice in a
		// shortcut union
		s.Root.Walk(func(n *model.Node) {
			if e := n.Rule("enum"); e != nil && len(e.List) > 0 && r.Bool() {
				e.ItemNotes = make([]string, len(e.List))
				for i := range e.ItemNotes {
					e.ItemNotes[i] = mon.Pick(r, []string{"", "C# (.NET)", "F# is functional", "Go", "the first", "50% - of all", "see @x #1", "a, b", "x: [1]", "{y}"})
				}
			}
			if len(n.Rules) > 0 && n.Note == "" && r.Chance(1, 8) {
				n.Dash = true
			}
			// counts in the upper half of the unsigned range (legal: "at most 2^64-1 characters")
			big := mon.Pick(r, []string{"18446744073709551615", "9223372036854775808", "9223372036854775807", "4294967296"})
			switch {
			case n.Kind == model.KString && len(n.Rules) == 0 && r.Chance(1, 6):
				n.Rules = append(n.Rules, &model.Rule{Name: "maxLength", Raw: big})
			case n.Kind == model.KArray && n.Rule("maxItems") == nil && n.Rule("or") == nil && n.Rule("enum") == nil && r.Chance(1, 8):
				n.Rules = append(n.Rules, &model.Rule{Name: "maxItems", Raw: big})
			}
			if n.Kind == model.KRef && n.Rule("or") == nil && r.Chance(1, 6) {
				n.Refs = append(n.Refs, n.Refs[r.Intn(len(n.Refs))])
			}
			// two annotations on one value: rules and note first, further rules second
			if len(n.Rules) >= 2 && n.IsScalar() && r.Chance(1, 6) {
				n.Split = r.Range(1, len(n.Rules)-1)
				if n.Note == "" && r.Bool() {
					n.Note = "the note"
				}
			}
			// a union written with other blanks around the bars, or declaring {type: "mixed"} itself
			if n.Kind == model.KRef && len(n.Refs) > 1 && n.Rule("or") == nil {
				if r.Chance(1, 5) {
					n.RefSep = mon.Pick(r, []string{"|", " |", "| ", "  |  ", "\t|\t"})
				}
				if n.Rule("type") == nil && r.Chance(1, 8) {
					n.Rules = append(n.Rules, model.RStr("type", "mixed"))
				}
			}
			// notes beginning / ending with white space that is not an ASCII blank (kept as written)
			if n.Note != "" && r.Chance(1, 5) {
				if r.Bool() {
					n.Note = "\u00a0" + n.Note
				} else {
					n.Note += mon.Pick(r, []string{"\u3000", "\u00a0", "\u2003"})
				}
			}
			// rule-free strings spelled with escapes the decoder must take one at a time
			if n.Kind == model.KString && len(n.Rules) == 0 && r.Chance(1, 8) {
				n.Lit = mon.Pick(r, []string{`"caf\ud83d\u00e9"`, `"\ud800\u0041"`, `"a\udc00\u0062"`, `"\ud83d\ude00\u00e9"`})
			}
			// a QUOTED key that looks like a type name is an ordinary property
			for _, p := range n.Props {
				if !p.Shortcut && !strings.HasPrefix(p.Key, "@") && r.Chance(1, 10) {
					p.Key = "@" + p.Key
				}
			}
		})
		// a key shortcut after a property that carries an annotation (the annotation swallows the
		// line break after the comma)
		if s.Type("@key") != nil && r.Chance(1, 3) {
			s.Root.Walk(func(n *model.Node) {
				if n.Kind != model.KObject || len(n.Props) == 0 || !r.Chance(1, 2) {
					return
				}
				for _, p := range n.Props {
					if p.Shortcut {
						return
					}
				}
				last := n.Props[len(n.Props)-1].Node
				if last.IsScalar() && len(last.Rules) == 0 && last.Note == "" {
					last.Note = "a note"
				}
				n.Props = append(n.Props, model.PShort("@key", model.Int("1")))
			})
		}
		// all styles that do not change meaning (rule order is kept: the AST lists rules as written)
		st := model.Style{}
		if k%2 == 1 {
			st = c13Random(r).Style
		}
		switch k % 16 {
		case 3:
			st = model.Style{MultiLine: 1} // every annotation as /* {…} */ on one line
		case 7:
			st = model.Style{MultiLine: 3, NL: "\r\n"}
		case 11:
			st = model.Style{MultiLine: 1, QuoteNames: true}
		}
		if k%8 == 5 {
			// one-line spelling with note-only annotations on any node (several nodes per line)
			s = &model.Schema{Root: gen.Shape(r, gen.ShapeOpts{MaxDepth: 3, MaxWidth: 3})}
			s.Root.Walk(func(n *model.Node) {
				n.Rules = nil
				n.Note = ""
				if r.Chance(1, 2) {
					n.Note = mon.Pick(r, []string{"first", "the id", "x y z", "note 2"})
				}
			})
			st = model.Style{OneLine: true}
		}
		legal := false
		if k == 2 {
			s = &model.Schema{Root: gen.BigShape(r)}
			st, legal = model.Style{}, true
		}
		if k%8 == 1 {
			// the rule-free fragment (example values, optional / nullable marks, notes; empty
			// containers annotated wherever they stand): every such schema is legal and has an AST
			s = &model.Schema{Root: gen.Shape(r, gen.ShapeOpts{MaxDepth: r.Range(1, 4), MaxWidth: 4, OddKeys: r.Chance(1, 4)})}
			s.Root.Walk(func(n *model.Node) {
				if n.Note == "" && (len(n.Rules) > 0 || n.IsScalar() || (n.Kind == model.KArray && len(n.Items) == 0) || (n.Kind == model.KObject && len(n.Props) == 0)) && r.Chance(1, 3) {
					n.Note = mon.Pick(r, []string{"first", "the id", "x y z", "note 2", "width * height", "*required*", "a/b * c / d", "2 ** 8"})
				}
			})
			st, legal = mon.Pick(r, []model.Style{{}, {}, {MultiLine: 1}, {MultiLine: 3}, {MultiLine: 2, NL: "\r\n"}}), true
		}
		sp := specOf(s, st)
		got, o := c16Observe(sp)
		if legal && !o.OK && o.Panic == "" {
			c.Violate("ast-spelling", c16Case{sp, ""}, "an AST (as for the same schema in another spelling)", o.String(), "GetAST fails for a schema of the rule-free fragment")
			continue
		}
		if o.Panic != "" {
			c.Violate("panic", c16Case{sp, ""}, "no panic", o.String(), "GetAST panicked")
			continue
		}
		if !o.OK {
			// the same schema in another spelling (house style / every annotation as /* */): when
			// that one has an AST, the refusal is a matter of spelling
			// (not for the one-line family, whose several notes per line the language refuses, nor for
			// item notes opening with "{", which only the multi-line spellings write at all)
			refused := true
			for _, alt := range []model.Style{{}, {MultiLine: 1}} {
				if alt == st || st.OneLine || c16BraceItemNote(s) {
					continue
				}
				if _, ao := c16Observe(specOf(s, alt)); ao.OK {
					c.Violate("ast-spelling", c16Case{sp, ""}, "an AST (as for the same schema in another spelling)", o.String(), "GetAST fails for one spelling of a schema and succeeds for another")
					refused = false
					break
				}
			}
			if refused {
				c.Count("schemas rejected (no AST; skipped)", 1)
			}
			continue
		}
		key, _ := json.Marshal(sp)
		c.Distinct(string(key))
		want := refASTString(s.Root)
		c.Eval(1)
		c.Count("AST nodes compared", strings.Count(want, "node key="))
		c.Count("AST rule entries compared", strings.Count(want, "rule "))
		if got != want {
			c.Violate("ast", c16Case{sp, want}, want, got, "GetAST differs from the AST the schema text describes: "+firstDiff(want, got))
		}
		if k < 2 && unit < 3 {
			c.Sample("schema and expected AST", map[string]any{"schema": sp.Text, "expected_ast": want})
		}
	}
}

func init() {
	mon.Register(&mon.Prop{
		ID:    "C16",
		Level: "exploration",
		Rule: "schemas from the type-graph, scalar rule-set and all-features generators, in the canonical style and in random meaning-preserving spellings; the expected AST is built from the abstract model and compared " +
			"node by node and rule by rule (key, shortcut flag, token type, value, schema type, comment, rule names / token types / values / order / nested items / generated-vs-manual source). " +
			"Non-trivial = distinct accepted schema text. A schema refused in one legal spelling and accepted in another is a violation (ast-spelling); every second schema is built from a []byte overwritten after GetAST; counts up to 2^64-1.",
		Assumptions: []string{
			"the reference AST builder was calibrated once against the pinned behaviour for value spellings the statement leaves open (rule values keep their written spelling, strings are decoded, a single allOf name is a reference node, generated or-items are string tokens)",
		},
		Units: func(tier string, seed uint64) int { u, _ := c16Sizes(tier); return u },
		Run:   c16Run,
		Replay: map[string]func(json.RawMessage) string{
			"ast": func(raw json.RawMessage) string {
				var cs c16Case
				json.Unmarshal(raw, &cs)
				got, _ := c16Observe(cs.Spec)
				return got
			},
			"panic": func(raw json.RawMessage) string {
				var cs c16Case
				json.Unmarshal(raw, &cs)
				_, o := c16Observe(cs.Spec)
				return noPanic(o)
			},
			"ast-spelling": func(raw json.RawMessage) string {
				var cs c16Case
				json.Unmarshal(raw, &cs)
				if _, o := c16Observe(cs.Spec); !o.OK {
					return o.String()
				}
				return "an AST (as for the same schema in another spelling)"
			},
		},
	})
}

// c16BraceItemNote: some enum value carries a note that opens with "{".
func c16BraceItemNote(s *model.Schema) bool {
	found := false
	visit := func(n *model.Node) {
		for _, r := range n.Rules {
			for _, note := range r.ItemNotes {
				if strings.HasPrefix(strings.TrimSpace(note), "{") {
					found = true
				}
			}
		}
	}
	if s.Root != nil {
		s.Root.Walk(visit)
	}
	for _, t := range s.Types {
		if t.Root != nil {
			t.Root.Walk(visit)
		}
	}
	return found
}
