package props

// C07 — every API call returns a structured error instead of panicking.
//
// Workload: hostile byte strings (<= 4 KiB) derived from a frozen corpus and a hand list of
// lexer edge cases (verbatim, every truncation, dictionary insert/substitute/delete, splices,
// random strings), each used in every role (root schema, user type, enum rule, regex type,
// document). Monitors per call: panic, error shape, position, rendering (c07_battery.go);
// termination through the driver's crash/hang isolation plus an in-process watchdog that turns
// a stuck or memory-eating call into a prompt worker death. Static part: every error
// construction site of the current source tree is replayed through the real formatter
// (c07_sites.go).

import (
	"encoding/json"
	"fmt"
	"os"
	"path/filepath"
	"runtime"
	"sort"
	"strconv"
	"strings"
	"sync"
	"sync/atomic"
	"syscall"
	"time"

	"verif/internal/gen/hostile"
	"verif/internal/mon"
)

// ---- seeds ------------------------------------------------------------------------------

type c07Seed struct {
	Kind string // directory under corpus/
	Name string
	Data []byte
}

var (
	c07SeedsOnce sync.Once
	c07SeedList  []c07Seed
	c07SeedErr   error
)

func c07Seeds() []c07Seed {
	c07SeedsOnce.Do(func() {
		dir := filepath.Join(mon.VerifDir(), "corpus")
		kinds, err := os.ReadDir(dir)
		if err != nil {
			c07SeedErr = err
			return
		}
		for _, k := range kinds {
			if !k.IsDir() {
				continue
			}
			files, err := os.ReadDir(filepath.Join(dir, k.Name()))
			if err != nil {
				c07SeedErr = err
				return
			}
			for _, f := range files {
				if f.IsDir() {
					continue
				}
				b, err := os.ReadFile(filepath.Join(dir, k.Name(), f.Name()))
				if err != nil {
					c07SeedErr = err
					return
				}
				if len(b) > hostile.MaxLen {
					continue
				}
				c07SeedList = append(c07SeedList, c07Seed{k.Name(), f.Name(), b})
			}
		}
		sort.Slice(c07SeedList, func(i, j int) bool {
			if c07SeedList[i].Kind != c07SeedList[j].Kind {
				return c07SeedList[i].Kind < c07SeedList[j].Kind
			}
			return c07SeedList[i].Name < c07SeedList[j].Name
		})
	})
	return c07SeedList
}

// ---- units ------------------------------------------------------------------------------

// Derivation families.
const (
	c07FamSites  = iota // static construction-site replay (one unit)
	c07FamSeed          // the seed verbatim and with other line ends
	c07FamTrunc         // every prefix
	c07FamSuffix        // suffixes
	c07FamInsert        // dictionary token inserted at an offset
	c07FamSubst         // token at an offset replaced by a dictionary token
	c07FamDelete        // bytes / token deleted at an offset
	c07FamSplice        // prefix of this seed + suffix of another
	c07FamRandom        // random byte strings
)

var c07FamNames = []string{"sites", "seed", "truncation", "suffix", "insert", "substitute", "delete", "splice", "random"}

// c07Unit is one shardable work unit: (seed, family) and, to keep units small enough for cheap
// crash bisection, a block [Lo,Hi) of the family's positions.
type c07Unit struct {
	Seed   int32
	Fam    uint8
	Lo, Hi int32
}

type c07Plan struct {
	truncBlock   int // prefixes per unit
	suffixEvery  int // 0: sampled (suffixN per seed); 1: every offset
	suffixN      int
	mutEvery     bool // true: every offset; false: mutN sampled offsets per seed and operator
	mutN         int
	tokensPerOff int // dictionary tokens tried per offset and operator
	offPerUnit   int // offsets per mutation unit
	spliceN      int
	randomN      int
}

func c07PlanFor(tier string) c07Plan {
	if tier == "thorough" {
		return c07Plan{truncBlock: 24, suffixEvery: 1, mutEvery: true, tokensPerOff: 6, offPerUnit: 5, spliceN: 48, randomN: 48}
	}
	return c07Plan{truncBlock: 24, suffixN: 6, mutN: 10, tokensPerOff: 1, offPerUnit: 10, spliceN: 4, randomN: 4}
}

var (
	c07UnitsMu    sync.Mutex
	c07UnitsCache = map[string][]c07Unit{}
)

func c07Units(tier string) []c07Unit {
	if tier != "thorough" {
		tier = "quick"
	}
	c07UnitsMu.Lock()
	defer c07UnitsMu.Unlock()
	if u, ok := c07UnitsCache[tier]; ok {
		return u
	}
	p := c07PlanFor(tier)
	seeds := c07Seeds()
	units := []c07Unit{{Seed: -1, Fam: c07FamSites, Lo: 0, Hi: 1}}
	blocks := func(si, fam, n, per int) {
		for lo := 0; lo < n; lo += per {
			hi := lo + per
			if hi > n {
				hi = n
			}
			units = append(units, c07Unit{int32(si), uint8(fam), int32(lo), int32(hi)})
		}
	}
	for si, s := range seeds {
		n := len(s.Data)
		blocks(si, c07FamSeed, 1, 1)
		blocks(si, c07FamTrunc, n, p.truncBlock) // prefix lengths 0..n-1
		if p.suffixEvery == 1 {
			blocks(si, c07FamSuffix, n, p.truncBlock)
		} else {
			blocks(si, c07FamSuffix, min(n, p.suffixN), p.truncBlock)
		}
		for _, fam := range []int{c07FamInsert, c07FamSubst, c07FamDelete} {
			positions := n + 1
			if fam != c07FamInsert {
				positions = n
			}
			if !p.mutEvery {
				positions = min(positions, p.mutN)
			}
			blocks(si, fam, positions, p.offPerUnit)
		}
		blocks(si, c07FamSplice, p.spliceN, 12)
		blocks(si, c07FamRandom, p.randomN, 12)
	}
	c07UnitsCache[tier] = units
	return units
}

// c07Inputs derives the hostile inputs of one unit.
func c07Inputs(c *mon.Ctx, u c07Unit) [][]byte {
	seeds := c07Seeds()
	p := c07PlanFor(c.Tier)
	s := seeds[u.Seed].Data
	n := len(s)
	rng := c.Rng(uint64(u.Fam))
	var out [][]byte
	// sampled positions of the quick tier: the first and last ones plus random ones
	samplePos := func(i, total, limit int) int {
		if total <= limit {
			return i
		}
		switch {
		case i < 2:
			return i
		case i < 4:
			return total - 1 - (i - 2)
		}
		return rng.Intn(total)
	}
	switch u.Fam {
	case c07FamSeed:
		out = append(out, s)
		out = append(out, append(append([]byte{}, s...), '\n'))
		out = append(out, []byte(strings.ReplaceAll(strings.ReplaceAll(string(s), "\r\n", "\n"), "\n", "\r\n")))
		out = append(out, []byte(strings.ReplaceAll(strings.ReplaceAll(string(s), "\r\n", "\n"), "\n", "\r")))
		out = append(out, []byte(strings.TrimSpace(string(s))))
		out = append(out, append([]byte(" \n\t"), s...))
	case c07FamTrunc:
		for k := int(u.Lo); k < int(u.Hi); k++ {
			out = append(out, hostile.Truncate(s, k))
		}
	case c07FamSuffix:
		for i := int(u.Lo); i < int(u.Hi); i++ {
			k := i + 1
			if p.suffixEvery != 1 {
				k = 1 + samplePos(i, n-1, p.suffixN)
			}
			if k < n {
				out = append(out, hostile.Suffix(s, k))
			}
		}
	case c07FamInsert, c07FamSubst, c07FamDelete:
		total := n + 1
		if u.Fam != c07FamInsert {
			total = n
		}
		for i := int(u.Lo); i < int(u.Hi); i++ {
			k := i
			if !p.mutEvery {
				k = samplePos(i, total, p.mutN)
			}
			switch u.Fam {
			case c07FamDelete:
				out = append(out, hostile.Delete(s, k, 1))
				if t := hostile.TokenLenAt(s, k); t > 1 {
					out = append(out, hostile.Delete(s, k, t))
				}
				if p.mutEvery || rng.Chance(1, 2) {
					out = append(out, hostile.Delete(s, k, rng.Range(2, 12)))
				}
			default:
				for t := 0; t < p.tokensPerOff; t++ {
					tok := hostile.Dict[rng.Intn(len(hostile.Dict))]
					if u.Fam == c07FamInsert {
						out = append(out, hostile.Insert(s, k, tok))
					} else {
						w := 1
						if rng.Bool() {
							w = hostile.TokenLenAt(s, k)
						}
						out = append(out, hostile.Substitute(s, k, w, tok))
					}
				}
			}
		}
	case c07FamSplice:
		for i := int(u.Lo); i < int(u.Hi); i++ {
			o := seeds[rng.Intn(len(seeds))].Data
			if rng.Chance(2, 3) { // mostly a seed of the same kind
				for try := 0; try < 8; try++ {
					j := rng.Intn(len(seeds))
					if seeds[j].Kind == seeds[u.Seed].Kind {
						o = seeds[j].Data
						break
					}
				}
			}
			out = append(out, hostile.Splice(s, rng.Intn(n+1), o, rng.Intn(len(o)+1)))
		}
	case c07FamRandom:
		for i := int(u.Lo); i < int(u.Hi); i++ {
			ln := rng.Range(1, 48)
			if rng.Chance(1, 6) {
				ln = rng.Range(48, 600)
			}
			if rng.Chance(1, 40) {
				ln = hostile.MaxLen
			}
			b := hostile.Random(rng, rng.Intn(3), ln)
			if rng.Chance(1, 3) { // give the scanners a plausible start
				b = append([]byte(mon.Pick(rng, []string{"{", "[", "\"", "1 // ", "1 /* ", "@a ", "/", "[1, ", "{\"a\": "})), b...)
				if len(b) > hostile.MaxLen {
					b = b[:hostile.MaxLen]
				}
			}
			out = append(out, b)
		}
	}
	return out
}

// ---- in-process watchdog ----------------------------------------------------------------

// c07Current is what the worker is executing right now; read by the watchdog goroutine.
type c07Current struct {
	role   string
	input  []byte
	unit   int
	mirror string // single-unit mode: file that mirrors what is being executed
	method atomic.Pointer[string]
}

var (
	c07Now     atomic.Pointer[c07Current]
	c07Beat    atomic.Uint64
	c07DogOnce sync.Once
	// Budget of ONE library call, whose legitimate cost is micro- to milliseconds: user CPU
	// time of the process (a spinning call; immune to an overloaded or swapping machine, where
	// wall time and kernel time of a starved process grow without any progress) and, for a
	// call that blocks without spinning, a very generous wall time.
	c07GuardCPU  = 8.0
	c07GuardWall = 600 * time.Second
	// Backstop limits of the watchdog goroutine per battery (it ends the worker process).
	c07StuckCPU = 40.0
	c07StuckS   = 1500
	c07HeapGiB  = 3
	// c07Abandoned is set when a battery was abandoned (its goroutine still runs): the worker
	// skips the rest of its units so that its findings are written out promptly.
	c07Abandoned atomic.Bool
	c07SideOnce  sync.Once
	c07Single    bool
)

func c07Describe(cur *c07Current) string {
	m := ""
	if p := cur.method.Load(); p != nil {
		m = *p
	}
	return fmt.Sprintf("unit=%d role=%s method=%q input=%s", cur.unit, cur.role, m, strconv.QuoteToASCII(string(cur.input)))
}

// c07ProcessCPU is the user CPU time of the process in seconds.
func c07ProcessCPU() float64 {
	var ru syscall.Rusage
	if syscall.Getrusage(syscall.RUSAGE_SELF, &ru) != nil {
		return 0
	}
	return float64(ru.Utime.Sec) + float64(ru.Utime.Usec)/1e6
}

// c07Guarded runs one battery in its own goroutine under the termination monitor: when ONE
// call of the battery has used c07GuardCPU seconds of user CPU time or c07GuardWall of wall
// time without returning, the battery is abandoned (a goroutine cannot be killed; it keeps
// running) and a finding naming that call is produced. Progress from call to call resets the
// budget, so a slow machine cannot trip it. The runner of an abandoned battery must not be
// read any more. Clocks are used for this bound only.
func c07Guarded(role string, in []byte, full bool, pick uint64, cur *c07Current) (*c07Runner, *c07Finding) {
	r := newC07Runner(full, pick)
	r.cur = cur
	done := make(chan struct{})
	start, cpu0 := time.Now(), c07ProcessCPU()
	go func() {
		defer close(done)
		r.run(role, in)
	}()
	tick := time.NewTicker(200 * time.Millisecond)
	defer tick.Stop()
	lastCall := cur.method.Load()
	for {
		select {
		case <-done:
			return r, nil
		case <-tick.C:
			if p := cur.method.Load(); p != lastCall { // another call has started: progress
				lastCall, start, cpu0 = p, time.Now(), c07ProcessCPU()
				continue
			}
			used, wall := c07ProcessCPU()-cpu0, time.Since(start)
			if used > c07GuardCPU || wall > c07GuardWall {
				c07Abandoned.Store(true)
				m := ""
				if lastCall != nil {
					m = *lastCall
				}
				fmt.Fprintf(os.Stderr, "C07: abandoned %s after %.1f s user CPU, %.0f s wall: %s\n", m, used, wall.Seconds(), c07Describe(cur))
				return nil, &c07Finding{"termination", m, fmt.Sprintf("the call did not return (abandoned after %.0f s of CPU time, %.0f s of wall time, on a %d byte input)", used, wall.Seconds(), len(in))}
			}
		}
	}
}

// c07Watchdog is the backstop behind c07Guarded for what cannot be abandoned: runaway
// allocation, or a process that makes no progress at all. The worker dies with a message
// naming the input, and the driver's crash isolation narrows it down to the unit and reports
// it (after confirming it three times in fresh processes).
func c07Watchdog() {
	c07DogOnce.Do(func() {
		go func() {
			last, since, cpu0 := c07Beat.Load(), time.Now(), c07ProcessCPU()
			var ms runtime.MemStats
			for tick := 0; ; tick++ {
				time.Sleep(250 * time.Millisecond)
				cur := c07Now.Load()
				if b := c07Beat.Load(); b != last || cur == nil {
					last, since, cpu0 = b, time.Now(), c07ProcessCPU()
					continue
				}
				if used := c07ProcessCPU() - cpu0; used > c07StuckCPU {
					fmt.Fprintf(os.Stderr, "C07 WATCHDOG: a library call did not return after %.0f s of CPU time: %s\n", used, c07Describe(cur))
					os.Exit(7)
				}
				if time.Since(since) > time.Duration(c07StuckS)*time.Second {
					fmt.Fprintf(os.Stderr, "C07 WATCHDOG: a library call did not return within %d s: %s\n", c07StuckS, c07Describe(cur))
					os.Exit(7)
				}
				if tick%4 == 0 {
					runtime.ReadMemStats(&ms)
					if ms.HeapAlloc > uint64(c07HeapGiB)<<30 {
						fmt.Fprintf(os.Stderr, "C07 WATCHDOG: heap grew beyond %d GiB inside a library call on a <= 4 KiB input: %s\n", c07HeapGiB, c07Describe(cur))
						os.Exit(7)
					}
				}
			}
		}()
	})
}

// c07SingleUnit reports whether this worker process was started for exactly one unit (the
// last step of the driver's crash isolation). Then the input being executed is mirrored to
// replays/c07-crash-unit-<n>.txt so that a fatal error (stack overflow: cannot be recovered)
// is attributable to its concrete input; the file is removed when the unit returns.
func c07SingleUnit() bool {
	c07SideOnce.Do(func() {
		a := os.Args
		if len(a) >= 8 && a[1] == "worker" {
			lo, e1 := strconv.Atoi(a[5])
			hi, e2 := strconv.Atoi(a[6])
			c07Single = e1 == nil && e2 == nil && hi-lo == 1
		}
	})
	return c07Single
}

func c07SideFile(unit int) string {
	return filepath.Join(mon.VerifDir(), "replays", fmt.Sprintf("c07-crash-unit-%d.txt", unit))
}

// ---- the unit driver --------------------------------------------------------------------

func c07Run(c *mon.Ctx, i int) {
	units := c07Units(c.Tier)
	if i < 0 || i >= len(units) {
		return
	}
	u := units[i]
	if u.Fam == c07FamSites {
		c07RunSites(c)
		return
	}
	c07Watchdog()
	single := c07SingleUnit()
	inputs := c07Inputs(c, u)
	seed := c07Seeds()[u.Seed]
	fam := c07FamNames[u.Fam]
	prng := c.Rng(1000 + uint64(u.Fam))
	for k, in := range inputs {
		pick := prng.U64()
		for _, role := range c07Roles {
			cur := &c07Current{role: role, input: in, unit: i}
			c07Now.Store(cur)
			c07Beat.Add(1)
			if single {
				os.MkdirAll(filepath.Dir(c07SideFile(i)), 0o755)
				cur.mirror = c07SideFile(i)
			}
			if c07Abandoned.Load() {
				c.Count("inputs x roles skipped after a non-terminating call in this worker", 1)
				c07Now.Store(nil)
				continue
			}
			r, hung := c07Guarded(role, in, !c.Quick(), pick, cur)
			c07Now.Store(nil)
			if hung != nil {
				c.Count("monitor firings: termination", 1)
				c.Eval(1)
				c.Violate("call", c07MakeCase(role, in), c07Expected, c07HungString(hung),
					fmt.Sprintf("termination monitor fired in role %q (%s): %s", role, c07MethodClass(hung.Method), hung.Detail))
				continue
			}

			ncalls := 0
			for m, n := range r.calls {
				c.Count("calls "+m, n)
				ncalls += n
			}
			c.Eval(ncalls)
			c.Count("inputs x roles ("+fam+")", 1)
			c.Count("calls that returned nil", r.okCalls)
			for code, n := range r.codes {
				c.Count(fmt.Sprintf("errors %-8s code %4d", role, code), n)
			}
			for note, n := range r.notes {
				c.Count(note, n)
			}
			if r.libErr {
				c.Count("non-trivial inputs as "+role, 1)
				c.DistinctHash(mon.HashString(role + "\x00" + string(in)))
				if k == 0 {
					c.Sample(role+" / "+fam, map[string]any{"seed": seed.Kind + "/" + seed.Name, "family": fam, "role": role,
						"input": strconv.QuoteToASCII(c07Clip(in, 160)), "calls": ncalls, "error_codes": fmt.Sprint(c07Keys(r.codes))})
				}
			}
			if len(r.masked) > 0 {
				c.Sample("masked runtime error", map[string]any{"role": role, "input": strconv.QuoteToASCII(c07Clip(in, 200)), "where": r.masked[0]})
			}
			if len(r.findings) > 0 {
				c07Report(c, role, in, r.findings[0])
			}
		}
	}
	if single {
		os.Remove(c07SideFile(i))
	}
}

func c07Clip(b []byte, n int) string {
	if len(b) > n {
		return string(b[:n]) + "…"
	}
	return string(b)
}

func c07Keys(m map[int]int) []int {
	var ks []int
	for k := range m {
		ks = append(ks, k)
	}
	sort.Ints(ks)
	return ks
}

// c07Report shrinks the input while the same class of finding persists, then records the
// violation with what the complete battery observes on the shrunk input.
func c07Report(c *mon.Ctx, role string, input []byte, f c07Finding) {
	c.Count("monitor firings: "+f.Monitor, 1)
	want := f.key()
	c.Count("finding class "+role+"|"+want, 1)
	// the batteries run below are complete ones (every variant); in single-unit mode they are
	// mirrored like the unit's own batteries, so that a fatal error in one of them is attributed
	mkCur := func(in []byte) *c07Current {
		cur := &c07Current{role: role, input: in, unit: c.Unit}
		if c07SingleUnit() {
			cur.mirror = c07SideFile(c.Unit)
		}
		return cur
	}
	budget := 300
	same := func(in []byte) *c07Finding {
		budget--
		if c07Abandoned.Load() {
			budget = 0
			return nil
		}
		r, hung := c07Guarded(role, in, true, 0, mkCur(in))
		if hung != nil {
			budget = 0
			return nil
		}
		for i := range r.findings {
			if r.findings[i].key() == want {
				return &r.findings[i]
			}
		}
		return nil
	}
	best := input
	bf := same(input)
	if bf == nil {
		// the complete battery meets another class first: keep the input as it is
		if c07Abandoned.Load() {
			bf = &f
		} else if g := c07JudgeAs(mkCur(input)); g != nil {
			bf = g
		} else {
			bf = &f
		}
		want = bf.key()
	} else {
		for chunk := (len(best) + 1) / 2; chunk >= 1 && budget > 0; chunk /= 2 {
			for at := 0; at < len(best) && budget > 0; {
				end := min(at+chunk, len(best))
				cand := append(append([]byte{}, best[:at]...), best[end:]...)
				if g := same(cand); g != nil {
					best, bf = cand, g
				} else {
					at += chunk
				}
			}
		}
	}
	first := bf
	if !c07Abandoned.Load() {
		if g := c07JudgeAs(mkCur(best)); g != nil {
			first = g
		}
	}
	c.Violate("call", c07MakeCase(role, best), c07Expected, first.String(),
		fmt.Sprintf("%s monitor fired in role %q (%s)", first.Monitor, role, c07MethodClass(first.Method)))
}

// c07HungString renders a termination finding without its measured times (they differ from
// run to run; the replay compares this text).
func c07HungString(f *c07Finding) string {
	return "termination monitor, " + f.Method + ": the call did not return within the CPU/wall budget of one call"
}

func c07ReplayCall(raw json.RawMessage) string {
	var cs c07Case
	if err := json.Unmarshal(raw, &cs); err != nil {
		return "bad replay: " + err.Error()
	}
	if f := c07Judge(cs.Role, cs.Input); f != nil {
		return f.String()
	}
	return c07Expected
}

func init() {
	mon.Register(&mon.Prop{
		ID:    "C07",
		Level: "exploration",
		Rule: "inputs: every seed of /verif/corpus (frozen repository test data plus a hand list of lexer edge tokens and feature schemas) verbatim and with other line ends, EVERY truncation of every seed, " +
			"suffixes, dictionary insert/substitute/delete (115 JSight/JSON/enum/regex tokens and byte classes; 6 random tokens per offset and operator) at every offset in the thorough tier and at 10 sampled offsets per seed (first, last, random) in the quick tier, " +
			"splices between seeds and random byte strings, all <= 4 KiB; each input is used as root schema, user type, enum rule, regex type and JSON document, and every public constructor/method " +
			"combination of that role is called (variants: KeysAreOptionalByDefault, helper types/rules present, eight reference forms of the type, method called first on a fresh object or after the others). " +
			"Every call runs under the panic and termination monitors; every returned error under the shape (errors.As finds ParsingError/ValidationError), position (Position() < max(1,len(source named by Filename()))) and " +
			"rendering (Error, Message, Line, SourceSubString, String, kit.ConvertError) monitors. evaluations = monitored library calls. " +
			"Non-trivial = an (input, role) pair for which at least one method returned a structured library error; distinct by hash of role+input. " +
			"Static part: every errors.Format(code, args...) call, every bare errors.ErrXxx used as an error value and every ErrorCode constant of the current source tree is replayed through the real formatter.",
		Assumptions: []string{
			"API misuse is outside the quantifier and is not generated: nil rule, AddRule after the schema was loaded, a Document that is not *json.Document, a Schema that is neither JSight nor regex, regex.Schema.Validate; a rule refused by AddRule is not used afterwards",
			"io.EOF from Document.NextLexeme is the documented end-of-stream marker, not an error",
			"jschema.ValidationError has no Position() by its public interface; code and message are required for it",
			"errors that name a source synthesised by the library itself (the schema text built from a regex type) are rendered but their position is not compared with a length",
			"termination is judged as bounded progress: a single library call on a <= 4 KiB input (legitimate cost: micro- to milliseconds) that has used 8 s of user CPU time of the process, or 600 s of wall time, without returning is abandoned and reported; fatal errors (stack overflow) and runaway allocation end the worker and are isolated to the unit by the driver (confirmed three times in fresh processes)",
			"the static site table trusts go/parser extraction of the current tree; sites whose code or arity is not static are reported inconclusive",
		},
		Units: func(tier string, seed uint64) int {
			if len(os.Args) > 1 && os.Args[1] == "run" {
				if old, _ := filepath.Glob(filepath.Join(mon.VerifDir(), "replays", "c07-crash-unit-*.txt")); len(old) > 0 {
					for _, o := range old {
						os.Remove(o)
					}
				}
			}
			return len(c07Units(tier))
		},
		Run: c07Run,
		ChunkTimeoutS: func(tier string) int {
			// generous: a stuck call is ended by the in-process watchdog long before; these only
			// bound a chunk on an overloaded machine
			if tier == "thorough" {
				return 3600
			}
			return 1800
		},
		Replay: map[string]func(json.RawMessage) string{
			"call": c07ReplayCall,
			"site": c07ReplaySite,
		},
		Final: func(ev *mon.Evidence) error {
			if c07SeedErr != nil || len(c07Seeds()) < 100 {
				return fmt.Errorf("corpus not loaded (%v, %d seeds)", c07SeedErr, len(c07Seeds()))
			}
			pairs, codes := 0, map[string]bool{}
			var calls int64
			for k, v := range ev.Counters {
				if strings.HasPrefix(k, "errors ") {
					pairs++
					codes[k[strings.Index(k, "code"):]] = true
				}
				if strings.HasPrefix(k, "calls ") {
					calls += v
				}
			}
			ev.Counters["distinct (role, error code) pairs"] = int64(pairs)
			ev.Counters["distinct error codes returned"] = int64(len(codes))
			if n := ev.Counters["sites: constants checked"]; n > 0 {
				ev.Counters["sites: error codes never returned by the dynamic workload (coverage, not verdict)"] = n - int64(len(codes))
			}
			ev.Counters["panics"] = ev.Counters["monitor firings: panic"]
			if n := ev.Counters["inputs x roles skipped after a non-terminating call in this worker"]; n > 0 {
				ev.Inconcl["workers ended early after a non-terminating call (reported as a violation); the inputs they skipped were not judged"] += n
			}
			ev.Counters["seeds"] = int64(len(c07Seeds()))
			if calls == 0 {
				return fmt.Errorf("no library call was monitored")
			}
			if ev.Counters["sites: Format calls replayed"] == 0 && ev.Counters["sites: constants checked"] == 0 {
				ev.Inconcl["static construction-site part did not run (source tree not readable)"]++
			}
			return nil
		},
	})
}
