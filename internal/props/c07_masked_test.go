package props

import (
	"strconv"
	"strings"
	"testing"

	"verif/internal/mon"
)

// temporary: look for inputs whose error is an ErrGeneric wrapping a Go runtime error
func TestC07Masked(t *testing.T) {
	units := c07Units("thorough")
	seeds := c07Seeds()
	found := map[string]bool{}
	for i, u := range units {
		if u.Fam != c07FamInsert && u.Fam != c07FamSubst && u.Fam != c07FamDelete && u.Fam != c07FamSplice {
			continue
		}
		k := seeds[u.Seed].Kind
		if !strings.Contains(k, "schema") && k != "type" {
			continue
		}
		c := &mon.Ctx{Prop: mon.Lookup("C07"), Tier: "thorough", Seed: 1, Unit: i}
		for _, in := range c07Inputs(c, u) {
			for _, role := range []string{c07RoleSchema, c07RoleType} {
				r := newC07Runner(false, ^uint64(0))
				r.run(role, in)
				for _, m := range r.masked {
					key := c07MethodClass(m)
					key = c07Digits.ReplaceAllString(key, "N")
					if !found[key] {
						found[key] = true
						t.Logf("MASKED %s\n   role=%s input=%s", m, role, strconv.QuoteToASCII(string(in)))
					}
				}
			}
		}
		if len(found) >= 6 {
			break
		}
	}
}
