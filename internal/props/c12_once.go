//go:build vh_once

package props

// Porcupine monitor (hook H7, vh_once): Do-histories of internal/sync.ErrOnce and
// ErrOnceWithValue, recorded with a global clock in runs of their own, are checked for
// linearizability against a write-once register: the first Do to take effect fixes the value
// (its own function's result), every Do returns the fixed value. Any correct once-cache is
// linearizable to this model. Independently the number of executed bodies must be exactly one.

import (
	"encoding/json"
	"errors"
	"fmt"
	"strconv"
	"strings"
	"sync"
	"sync/atomic"
	"time"

	"github.com/anishathalye/porcupine"
	"github.com/jsightapi/jsight-schema-go-library/verifhook"

	"verif/internal/mon"
)

type c12OnceCase struct {
	Variant string `json:"wrapper"` // ErrOnce | ErrOnceWithValue
	G       int    `json:"goroutines"`
	Calls   int    `json:"calls_per_goroutine"`
	Yield   int    `json:"yield_permille,omitempty"`
}

var c12OnceModel = porcupine.Model{
	Init: func() interface{} { return -1 },
	Step: func(state, input, output interface{}) (bool, interface{}) {
		st, in, out := state.(int), input.(int), output.(int)
		if st == -1 {
			return out == in, out
		}
		return out == st, st
	},
	DescribeOperation: func(input, output interface{}) string { return fmt.Sprintf("Do(f%d) -> %d", input, output) },
}

const c12OnceExpected = "the Do-history is linearizable to a write-once register and exactly one body ran"

// c12OnceRun records one history and checks it; returns "" (ok), a problem, or "timeout".
func c12OnceRun(cs c12OnceCase) string {
	var executed int32
	var ov verifhook.OnceVal
	var oe verifhook.Once
	type rec struct {
		ops []porcupine.Operation
	}
	recs := make([]rec, cs.G)
	var start, done sync.WaitGroup
	start.Add(1)
	t0 := time.Now()
	pointSetYield(cs.Yield, cs.Yield > 0, uint64(cs.G*131+cs.Calls))
	for g := 0; g < cs.G; g++ {
		done.Add(1)
		go func(g int) {
			defer done.Done()
			start.Wait()
			for j := 0; j < cs.Calls; j++ {
				id := g*100 + j
				call := int64(time.Since(t0))
				out := -2
				if cs.Variant == "ErrOnce" {
					err := oe.Do(func() error {
						atomic.AddInt32(&executed, 1)
						return errors.New("e" + strconv.Itoa(id))
					})
					if err != nil {
						if n, e := strconv.Atoi(strings.TrimPrefix(err.Error(), "e")); e == nil {
							out = n
						}
					}
				} else {
					v, err := ov.Do(func() (int, error) {
						atomic.AddInt32(&executed, 1)
						if id%2 == 1 {
							return id, errors.New("e" + strconv.Itoa(id))
						}
						return id, nil
					})
					out = v
					// the cached error must belong to the cached value
					if (err != nil) != (v%2 == 1) || (err != nil && err.Error() != "e"+strconv.Itoa(v)) {
						out = -3
					}
				}
				ret := int64(time.Since(t0))
				recs[g].ops = append(recs[g].ops, porcupine.Operation{ClientId: g, Input: id, Call: call, Output: out, Return: ret})
			}
		}(g)
	}
	start.Done()
	done.Wait()
	pointSetYield(0, false, 0)
	var ops []porcupine.Operation
	for _, r := range recs {
		ops = append(ops, r.ops...)
	}
	if n := atomic.LoadInt32(&executed); n != 1 {
		return fmt.Sprintf("%d bodies were executed by %d Do calls", n, len(ops))
	}
	switch porcupine.CheckOperationsTimeout(c12OnceModel, ops, 5*time.Second) {
	case porcupine.Ok:
		return ""
	case porcupine.Unknown:
		return "timeout"
	}
	var sb strings.Builder
	for _, o := range ops {
		fmt.Fprintf(&sb, " g%d[%d..%d]Do(f%d)->%d", o.ClientId, o.Call, o.Return, o.Input, o.Output)
	}
	return "history is not linearizable to a write-once register:" + sb.String()
}

func c12RunOnceHistories(c *mon.Ctx, n int) {
	r := c.Rng(1200)
	per := 60
	if !c.Quick() {
		per = 400
	}
	for k := 0; k < per; k++ {
		cs := c12OnceCase{Variant: mon.Pick(r, []string{"ErrOnce", "ErrOnceWithValue"}), G: mon.Pick(r, []int{2, 3, 4, 8, 16}), Calls: r.Range(1, 3)}
		if havePoint {
			cs.Yield = mon.Pick(r, []int{0, 100, 500})
		}
		res := c12OnceRun(cs)
		c.Eval(1)
		c.Count("once histories checked by porcupine", 1)
		c.Count("Do calls in once histories", cs.G*cs.Calls)
		c.Distinct(fmt.Sprint("once", cs, n, k))
		switch res {
		case "":
		case "timeout":
			c.Inconclusive("porcupine timed out on a once history")
		default:
			c.Violate("once", cs, c12OnceExpected, res, "the once wrapper is not a write-once cache under concurrent Do calls")
		}
		if k == 0 && n%1000 == 0 {
			c.Sample("once history", cs)
		}
	}
}

func c12ReplayOnce(raw json.RawMessage) string {
	var cs c12OnceCase
	if err := json.Unmarshal(raw, &cs); err != nil {
		return "bad replay: " + err.Error()
	}
	for k := 0; k < 300; k++ {
		if res := c12OnceRun(cs); res != "" && res != "timeout" {
			return res
		}
	}
	return c12OnceExpected
}
