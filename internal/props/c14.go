package props

// C14 — Len reports exactly where an embedded schema, document or enum ends.
//
// Runtime monitor of the prefix relation that ties Len to Check: accepted texts S (schemas from
// the model generators in many surface styles, JSON values, enum rules, /regex/ tokens) are
// followed by a separator and foreign text "that cannot continue S"; Len must return
// len(rtrim(S)), the prefix of that length must pass Check with the AST and the validation
// verdicts of S itself. Negative part: S cut inside a token or with open brackets followed by the
// same kind of text must make Len return an error.
//
// Which (S, separator, trailer) triples are generated is decided by an independent little
// lexer of the schema surface syntax (c14_lex.go) and, for JSON, cross-checked against
// encoding/json's Decoder ("one complete value, then anything").

import (
	"encoding/json"
	"fmt"
	"strings"

	jschema "github.com/jsightapi/jsight-schema-go-library"
	ljson "github.com/jsightapi/jsight-schema-go-library/formats/json"
	njs "github.com/jsightapi/jsight-schema-go-library/notations/jschema"
	"github.com/jsightapi/jsight-schema-go-library/notations/regex"
	"github.com/jsightapi/jsight-schema-go-library/rules/enum"

	"verif/internal/gen"
	"verif/internal/lib"
	"verif/internal/model"
	"verif/internal/mon"
)

type c14Case struct {
	Kind string `json:"kind"` // schema | json | enum | regex
	Text string `json:"text"`
}

type c14PrefixCase struct {
	Spec   lib.Spec `json:"spec"`   // S as rendered (with its types and rules)
	Prefix string   `json:"prefix"` // S without trailing blanks == text[:Len]
	Docs   []string `json:"docs"`
}

// c14Len calls the Len of the named front end under the panic monitor.
// c14Len asks a fresh object for Len. For one text in four (by hash) other methods of the same
// object are called first and their results ignored (a schema is checked, a document is read to
// its end or checked, an enum rule is checked): Len answers the same whatever happened before.
func c14Len(kind, text string) (uint, lib.Obs) {
	variant := mon.HashString(kind+text) % 8
	return lib.SafeVal(func() (uint, error) {
		switch kind {
		case "schema":
			s := njs.New("schema", text)
			switch variant {
			case 1:
				lib.Safe(s.Check)
			case 2:
				lib.SafeVal(s.UsedUserTypes)
			}
			return s.Len()
		case "json":
			d := ljson.New("doc", text, ljson.AllowTrailingNonSpaceCharacters())
			switch variant {
			case 1:
				lib.Safe(d.Check)
			case 2:
				lib.Safe(func() error {
					for i := 0; i < 8*len(text)+64; i++ {
						if _, err := d.NextLexeme(); err != nil {
							return nil
						}
					}
					return nil
				})
			}
			return d.Len()
		case "enum":
			e := enum.New("@enum", text)
			if variant == 1 {
				lib.Safe(e.Check)
			}
			return e.Len()
		case "regex":
			x := regex.New("@regex", text)
			if variant == 1 {
				lib.Safe(x.Check)
			}
			return x.Len()
		}
		panic("harness: unknown kind " + kind)
	})
}

// c14Observed renders the comparable outcome of Len.
func c14Observed(kind, text string) string {
	n, o := c14Len(kind, text)
	switch {
	case o.Panic != "":
		return o.String()
	case !o.OK:
		return "error"
	}
	return fmt.Sprintf("len=%d", n)
}

func c14Sizes(tier string) (schemaUnits, jsonUnits, enumUnits, regexUnits, per, combos int) {
	if tier == "thorough" {
		return 8000, 3000, 1800, 600, 40, 36
	}
	return 448, 192, 128, 32, 24, 24
}

// ---- separators and trailers -----------------------------------------------------------

var c14Seps = []string{"", " ", "\t", "  ", " \t ", "\n", "\r\n", "\n\n", "\r\n\r\n", " \n", "\t\r\n", "\n  \n", "\n\n\n  ", " \n\t\n "}

func c14HasNL(sep string) bool { return strings.ContainsAny(sep, "\n") }

// Directive-like trailers. The first byte decides what may precede it (see c14Allowed).
var c14Trailers = []string{
	"TYPE @x", "GET /a", "Body", "200 @x", "Path", "URL /cats/{id}", "Request", "Headers", "ENUM @e", "MACRO @m", "Description",
	"INFO", "404 any", "HEAD /x y", "Query", "SERVER @s", "PASTE @m", "Z",
	"POST /a\n  Request\n{\n  \"a\": 1\n}", "TYPE @x\n{\n  \"id\": 1 // {min: 0}\n}\n", "200\n{}", "Body\n[]\n\n", "Path\n",
	"{", "}", "]", "[1]", ", 1", ", \"x\": 1 // {optional: true}", ": 12 // {optional: true}", "\"q\"", "x", "é", "=", "*", "<a>", "@x", "| @x", "- item", "\x00",
	// one foreign byte and then at once a line break, an annotation or a comment
	",\nfoo", "x\n", "]\nGET /a", ",// foo\nbar", "x # c\n", ",/* c */ 1", "x\r\ny", "Z\nGET /a", "Z// note\nbar", "Z # c\n", "Z\r\n", "}\n\n",
}

// JSON has no annotations or comments: a slash or hash is as foreign as anything else.
var c14JSONOnlyTrailers = []string{"// comment", "/* c */", "# c", "/a"}

// trailers that can never complete or close an unfinished text
var c14NegTrailers = []string{
	"TYPE @x", "GET /a", "Body", "Path", "HEAD /x y", "Request", "Description", "Z", "URL /cats",
	"TYPE @x\n  Description", "Body\n\n", "200 @x", "404 any",
}

// c14Allowed: may trailer t follow a text of ending class cls after separator sep?
//
//	closer   — S ends in } ] or a closing quote: anything, with or without separator
//	number   — a digit, '.', 'e', '+', '-' directly behind would continue the numeral
//	literal  — true/false/null: a letter directly behind is still foreign, keep to upper case
//	shortcut — @name: name bytes directly behind continue it, '|' continues it even after blanks
//	inline   — S ends in an inline annotation: the rest of that line belongs to it
//	multi    — S ends in */ : a separator is required (the statement lists brackets and quotes only)
func c14Allowed(cls, sep, t string) bool {
	if t == "" {
		return true // S followed by blanks only (also on the line of a trailing inline annotation)
	}
	c := t[0]
	upper := c >= 'A' && c <= 'Z'
	switch cls {
	case "closer":
		return true
	case "number":
		if sep == "" {
			return upper && c != 'E'
		}
		return true
	case "literal":
		if sep == "" {
			return upper
		}
		return true
	case "shortcut":
		return sep != "" && c != '|'
	case "inline":
		return c14HasNL(sep)
	case "multi":
		return sep != ""
	}
	return false
}

func c14RTrim(s string) string { return strings.TrimRight(s, " \t\r\n") }

// c14Positive runs the (sep, trailer) sample for one accepted text.
func c14Positive(c *mon.Ctx, r *mon.Rng, kind, s0, cls string, trailers []string, combos int) {
	want := fmt.Sprintf("len=%d", len(s0))
	tried := 0
	for k := 0; k < combos*4 && tried < combos; k++ {
		sep := mon.Pick(r, c14Seps)
		t := ""
		if !r.Chance(1, 8) {
			t = mon.Pick(r, trailers)
		}
		if k == 0 {
			sep, t = "", "" // S alone
		}
		if !c14Allowed(cls, sep, t) {
			continue
		}
		tried++
		text := s0 + sep + t
		if kind == "json" {
			if off, ok := c14DecoderEnd(text); !ok || off != len(s0) {
				c.Count("json: encoding/json places the end elsewhere (harness disagreement, skipped)", 1)
				continue
			}
		}
		got := c14Observed(kind, text)
		c.Eval(1)
		sepName := "sep: blanks"
		switch {
		case sep == "":
			sepName = "sep: none"
		case c14HasNL(sep):
			sepName = "sep: line breaks"
		}
		c.Count(kind+" "+sepName, 1)
		c.Count(kind+" ending: "+cls, 1)
		if t == "" {
			c.Count(kind+" no trailer (S + blanks)", 1)
		}
		if got != want {
			c.Count(kind+" Len differs", 1)
			c.Violate("len", c14Case{kind, text}, want, got,
				fmt.Sprintf("Len of an accepted %s (ending class %q) followed by %q + foreign text is not the length of the %s without trailing blanks", kind, cls, sep, kind))
		} else {
			c.Count(kind+" Len == len(rtrim(S))", 1)
		}
	}
}

// c14Negative runs cut prefixes followed by text that cannot complete them.
func c14Negative(c *mon.Ctx, r *mon.Rng, kind, s0 string, cuts []int, n int) {
	if len(cuts) == 0 {
		return
	}
	for k := 0; k < n; k++ {
		p := mon.Pick(r, cuts)
		sep := mon.Pick(r, c14Seps)
		t := mon.Pick(r, c14NegTrailers)
		if t[0] >= '0' && t[0] <= '9' && (sep == "" || p == 0) {
			continue // a digit directly behind a cut numeral may complete it; at offset 0 it is a schema of its own
		}
		text := s0[:p] + sep + t
		if kind == "json" {
			if _, ok := c14DecoderEnd(text); ok {
				c.Count("json: encoding/json finds a complete value in a cut text (skipped)", 1)
				continue
			}
		}
		_, o := c14Len(kind, text)
		c.Eval(1)
		c.Count(kind+" incomplete texts", 1)
		switch {
		case o.Panic != "":
			// panics are C07's subject; here they are neither a length nor an error value
			c.Count(kind+" incomplete text: Len panicked (left to C07)", 1)
		case o.OK:
			c.Violate("len", c14Case{kind, text}, "error", c14Observed(kind, text),
				fmt.Sprintf("Len returned a length for a text that does not begin with a lexically complete %s (cut at byte %d)", kind, p))
		default:
			c.Count(kind+" incomplete text: Len returned an error", 1)
		}
	}
}

// c14DecoderEnd: where does the first JSON value of text end according to encoding/json?
func c14DecoderEnd(text string) (int, bool) {
	d := json.NewDecoder(strings.NewReader(text))
	d.UseNumber()
	var v any
	if err := d.Decode(&v); err != nil {
		return 0, false
	}
	return int(d.InputOffset()), true
}

// ---- AST dump ---------------------------------------------------------------------

func c14DumpRule(sb *strings.Builder, key string, n jschema.RuleASTNode) {
	fmt.Fprintf(sb, "(%q %s %q c=%q src=%d", key, n.TokenType, n.Value, n.Comment, n.Source)
	if n.Properties != nil {
		sb.WriteString(" props[")
		n.Properties.EachSafe(func(k string, v jschema.RuleASTNode) { c14DumpRule(sb, k, v) })
		sb.WriteString("]")
	}
	if len(n.Items) > 0 {
		sb.WriteString(" items[")
		for _, it := range n.Items {
			c14DumpRule(sb, "", it)
		}
		sb.WriteString("]")
	}
	sb.WriteString(")")
}

func c14DumpAST(sb *strings.Builder, n jschema.ASTNode) {
	fmt.Fprintf(sb, "{%s %s k=%q short=%v v=%q c=%q", n.TokenType, n.SchemaType, n.Key, n.IsKeyShortcut, n.Value, n.Comment)
	if n.Rules != nil {
		sb.WriteString(" rules[")
		n.Rules.EachSafe(func(k string, v jschema.RuleASTNode) { c14DumpRule(sb, k, v) })
		sb.WriteString("]")
	}
	for _, ch := range n.Children {
		c14DumpAST(sb, ch)
	}
	sb.WriteString("}")
}

// c14Meaning: Check verdict, AST and validation verdicts of one spec — "the meaning of S".
func c14Meaning(sp lib.Spec, docs []string) string {
	s, o := lib.Build(sp)
	if !o.OK {
		return "build: " + o.Verdict()
	}
	if ch := lib.Safe(s.Check); !ch.OK {
		return "check: " + ch.Verdict()
	}
	var sb strings.Builder
	ast, ao := lib.SafeVal(s.GetAST)
	if !ao.OK {
		return "ast: " + ao.Verdict()
	}
	c14DumpAST(&sb, ast)
	for _, d := range docs {
		sb.WriteString(" | " + lib.ValidateOn(s, d).Verdict())
	}
	return sb.String()
}

func c14ReplayPrefix(raw json.RawMessage) string {
	var pc c14PrefixCase
	if err := json.Unmarshal(raw, &pc); err != nil {
		return "bad replay: " + err.Error()
	}
	whole := c14Meaning(pc.Spec, pc.Docs)
	sp := pc.Spec
	sp.Text = pc.Prefix
	if cut := c14Meaning(sp, pc.Docs); cut != whole {
		return "prefix: " + cut + " ;; whole: " + whole
	}
	return "same meaning"
}

// ---- schema part ------------------------------------------------------------------

func c14Style(r *mon.Rng) model.Style {
	st := model.Style{
		NL:            mon.Pick(r, []string{"\n", "\n", "\n", "\r\n", "\r\n", "\r"}),
		Indent:        mon.Pick(r, []string{"", "", "-", "\t"}),
		MultiLine:     mon.Pick(r, []int{0, 0, 0, 1, 2, 3}),
		QuoteNames:    r.Chance(1, 4),
		TrailingComma: r.Chance(1, 4),
		Comments:      r.Chance(1, 5),
		TightColon:    r.Chance(1, 4),
		ExtraBlank:    r.Chance(1, 4),
	}
	if st.MultiLine == 0 && r.Chance(1, 3) {
		st.Mixed = r
	}
	return st
}

// c14Schema draws one schema model with its environment.
func c14Schema(r *mon.Rng) (*model.Schema, string) {
	note := func(n *model.Node) {
		if r.Chance(1, 3) {
			n.Note = mon.Pick(r, []string{"note", "some note text", "a - b", "see @x", "50% {sic}", "ends with slash /", "URL /a"})
		} else if len(n.Rules) > 0 && r.Chance(1, 4) {
			n.Dash = true // the note separator with an empty note
		}
	}
	switch r.Intn(10) {
	case 0, 1, 2:
		root := gen.Shape(r, gen.ShapeOpts{MaxDepth: r.Range(0, 3), MaxWidth: 3, OddKeys: r.Chance(1, 4)})
		root.Walk(func(n *model.Node) {
			if n.IsScalar() {
				note(n)
			}
		})
		return &model.Schema{Root: root}, "shape"
	case 3, 4:
		sc := gen.Scalar(r)
		note(sc.Node)
		return &model.Schema{Root: sc.Node, Enums: sc.Enums}, "scalar with rules"
	case 5, 6:
		s := gen.Graph(r, 4)
		return s, "type graph"
	case 7:
		// root type shortcuts
		s := &model.Schema{Types: []*model.TypeDef{
			{Name: "@t", Root: model.Int("1")}, {Name: "@cat-Id_2", Root: model.Str("c")}, {Name: "@u", Root: model.Obj()},
		}}
		switch r.Intn(4) {
		case 0:
			s.Root = model.Ref("@t")
		case 1:
			s.Root = model.Ref("@t", "@cat-Id_2")
		case 2:
			s.Root = model.Ref("@cat-Id_2", "@u", "@t")
		default:
			s.Root = model.Ref("@u").With(model.RBool("nullable", true))
		}
		note(s.Root)
		return s, "root shortcut"
	case 8:
		// bare root scalars and empty containers, with and without annotation
		var n *model.Node
		switch r.Intn(10) {
		case 8:
			// \u escapes inside the strings of an annotation (the scanner reads them in its
			// annotation mode; the text after the annotation must be read in the normal one again)
			n = model.Str("b").With(model.RRaw("enum", `["a", "\u0062", "\u00e9\u0041"]`))
		case 9:
			n = model.Str("Axx").With(model.RRaw("regex", `"^\u0041x+$"`), model.RInt("minLength", 1))
		case 0:
			n = model.Int(gen.RandomInteger(r))
		case 1:
			n = model.Flt(gen.RandomFloat(r))
		case 2:
			n = model.Bool(r.Bool())
		case 3:
			n = model.Null()
		case 4:
			n = model.Str(gen.RandomString(r))
		case 5:
			n = model.Obj()
			if r.Bool() {
				n.With(&model.Rule{Name: "additionalProperties", Bool: true})
			}
		case 6:
			n = model.Arr()
			if r.Bool() {
				n.With(model.RInt("maxItems", 0))
			}
		default:
			n = model.Int("5").With(model.RNum("min", "1"))
		}
		if r.Chance(1, 4) {
			n.With(model.RBool("nullable", true))
		}
		note(n)
		return &model.Schema{Root: n}, "bare root"
	}
	// enum rule by name at the root, or-rule
	s := &model.Schema{Enums: []*model.EnumDef{{Name: "@e", Values: []string{"1", `"a"`, "null"}}}}
	if r.Bool() {
		s.Root = model.Int("1").With(model.REnumRef("@e"))
	} else {
		s.Root = model.Obj(model.P("k", model.Str("a").With(model.REnumRef("@e"))), model.P("o", model.Int("2").With(model.ROr(model.OrName("integer"), model.OrName("string")))))
	}
	return s, "named enum / or"
}

func c14SchemaUnit(c *mon.Ctx, r *mon.Rng, per, combos int) {
	for k := 0; k < per; k++ {
		s, family := c14Schema(r)
		st := c14Style(r)
		sp := specOf(s, st)
		text := sp.Text
		// a user comment after the last token is neither clearly part of S nor clearly foreign
		if i := strings.LastIndex(text, "# trailing comment"); i >= 0 && i+len("# trailing comment") == len(text) {
			text = text[:i]
		}
		if r.Chance(1, 6) {
			text = mon.Pick(r, []string{"\n", " ", "\r\n  ", "\t"}) + text
		}
		sp.Text = text
		s0 := c14RTrim(text)
		info := c14ScanSchema(s0)
		if info.class == "" || info.class == "comment" {
			c.Count("schema: ending not classified (skipped)", 1)
			continue
		}
		built := buildSchema(sp)
		if !built.ok {
			c.Count("schema: generated text rejected by Check (skipped)", 1)
			c.Count(fmt.Sprintf("schema: skipped, check code %d, family %s", built.check.Code, family), 1)
			c.Sample("schema rejected by Check (skipped)", map[string]any{"spec": sp, "error": built.check.String()})
			continue
		}
		c.Distinct("schema\x00" + s0)
		c.Count("schema family: "+family, 1)
		c.Count(fmt.Sprintf("schema style: nl=%q multiline=%d", st.NL, st.MultiLine), 1)
		if strings.Contains(s0, "\n") || strings.Contains(s0, "\r") {
			c.Count("schema multi-line texts", 1)
		} else {
			c.Count("schema single-line texts", 1)
		}
		c14Positive(c, r, "schema", s0, info.class, c14Trailers, combos)

		// the prefix Len points at has the meaning of S
		dg := gen.NewDocs(s, r.Fork())
		var docs []string
		for j := 0; j < 6; j++ {
			v := dg.Conform()
			if j%2 == 1 {
				v, _ = dg.Mutate(v)
			}
			docs = append(docs, v.Text())
		}
		pc := c14PrefixCase{Spec: sp, Prefix: s0, Docs: docs}
		raw, _ := json.Marshal(pc)
		c.Eval(1)
		if got := c14ReplayPrefix(raw); got != "same meaning" {
			c.Violate("prefix", pc, "same meaning", got, "the prefix of length Len does not have the Check verdict, AST and validation verdicts of S")
		} else {
			c.Count("schema prefix has the meaning of S (Check, GetAST, 6 documents)", 1)
		}

		if k%3 == 0 {
			c14CommentEnded(c, r, s0)
		}
		if k%4 == 1 {
			c14Unclosed(c, r)
		}
		if k%4 == 3 {
			c14NoteThenComment(c, r)
		}
		c14Negative(c, r, "schema", s0, info.cuts, combos/3)
		if k == 0 && c.Unit < 4 {
			c.Sample("schema text, ending class "+info.class, map[string]any{"text": s0 + "\n\nTYPE @x", "expected_len": len(s0)})
		}
	}
}

// c14CommentEnded: the schema's last token is a block comment on a line of its own. Whether the
// comment belongs to S the statement does not say, so both ends are right: the end of the
// comment and the end of the schema proper. Nothing of the foreign text that follows (after
// blanks or a line break) may be counted.
func c14CommentEnded(c *mon.Ctx, r *mon.Rng, s0 string) {
	withComment := s0 + "\n" + mon.Pick(r, []string{"### c ###", "###\n a comment\n###", "### x y ###"})
	trailer := mon.Pick(r, []string{" GET /cats\n  200 @cat", "\tfoo\nbar", "  \nTYPE @x", "\nfoo", " foo", "\r\n\r\nURL /a\n"})
	text := withComment + trailer
	got := c14Observed("schema", text)
	c.Eval(1)
	c.Count("schema ending in a block comment, then blanks / line break and foreign text", 1)
	a, b := fmt.Sprintf("len=%d", len(withComment)), fmt.Sprintf("len=%d", len(s0))
	if got != a && got != b {
		c.Violate("len-comment", c14Case{"schema", text}, a+" or "+b, got, "Len of a schema whose last token is a block comment counts neither the end of the comment nor the end of the schema proper")
	}
}

// c14Unclosed: a complete value followed by a multi-line annotation that is never closed (the
// end marker was forgotten): the text does not begin with a lexically complete schema, whatever
// follows - Len owes an error, not the length of everything up to the end of the file.
func c14Unclosed(c *mon.Ctx, r *mon.Rng) {
	root := mon.Pick(r, []string{"42", "\"abc\"", "{}", "[1, 2]", "@cat | @dog", "{\n  \"a\": 1\n}", "true", "[\n  @cat\n]"})
	open := mon.Pick(r, []string{" /* {nullable: true}", " /* note", " /*", " /* {nullable: true} - note", "\t/* {\n  nullable: true\n}"})
	rest := mon.Pick(r, []string{"", "\n", "\n\nTYPE @x\n  {}\n", " GET /cats\n  200 @cat", "\r\n# c\r\n", " * /"})
	text := root + open + rest
	_, o := c14Len("schema", text)
	c.Eval(1)
	c.Count("schema followed by a multi-line annotation that is never closed", 1)
	if o.OK {
		c.Violate("len", c14Case{"schema", text}, "error", c14Observed("schema", text), "Len returned a length for a value followed by a multi-line annotation that is never closed")
	}
}

// c14NoteThenComment: the last line of the schema carries an inline annotation whose note is cut
// by a user comment; blank lines and foreign text follow. Whether the comment belongs to S the
// statement leaves open (both ends are right); an error, or a length inside the foreign text, is not.
func c14NoteThenComment(c *mon.Ctx, r *mon.Rng) {
	// (an annotation after the closing bracket is legal for empty containers only)
	root := mon.Pick(r, []string{"42", "\"abc\"", "{}", "true", "@cat | @dog", "[]", "-0.5", "null"})
	ann := mon.Pick(r, []string{" // a note", " // {nullable: true} - a note", " // - note", " // {nullable: true} - n"})
	comment := mon.Pick(r, []string{" # c", "# cut", " #", " # a # b"})
	trailer := mon.Pick(r, []string{"\n\nGET /cats", "\r\n\r\nTYPE @x", "\n\n\n  200 @cat\n", "\n \n\tfoo", "\n\n"})
	text := root + ann + comment + trailer
	got := c14Observed("schema", text)
	c.Eval(1)
	c.Count("schema whose last line ends in a note cut by a user comment, then blank lines and foreign text", 1)
	a, b := fmt.Sprintf("len=%d", len(root+ann+comment)), fmt.Sprintf("len=%d", len(root+ann))
	if got != a && got != b {
		c.Violate("len-comment", c14Case{"schema", text}, a+" or "+b, got, "Len of a schema whose last line ends in a note cut by a user comment is neither the end of the comment nor the end of the note")
	}
}

// ---- JSON part --------------------------------------------------------------------

func c14JSONUnit(c *mon.Ctx, r *mon.Rng, per, combos int) {
	trailers := append(append([]string{}, c14Trailers...), c14JSONOnlyTrailers...)
	for k := 0; k < per; k++ {
		v := gen.RandomValue(r, r.Range(0, 3))
		ds := model.DocStyle{Pretty: r.Chance(1, 3)}
		if r.Chance(1, 3) {
			ds.WS = r
		}
		if r.Chance(1, 4) {
			ds.Escapes = r
		}
		text := ds.Render(v)
		s0 := c14RTrim(text)
		if !json.Valid([]byte(s0)) {
			panic("harness bug: generated JSON is invalid: " + s0)
		}
		cls := "closer"
		switch v.K {
		case model.VNum:
			cls = "number"
		case model.VBool, model.VNull:
			cls = "literal"
		}
		c.Distinct("json\x00" + s0)
		c14Positive(c, r, "json", s0, cls, trailers, combos)
		// prefix passes Check (no trailing characters allowed there)
		c.Eval(1)
		if o := lib.DocCheck(s0, false); !o.OK {
			c.Violate("json-prefix", c14Case{"json", s0}, "accept", o.String(), "the prefix of length Len is not accepted by Document.Check")
		}
		c14Negative(c, r, "json", s0, c14JSONCuts(s0), combos/3)
		if k == 0 && c.Unit%16 == 0 {
			c.Sample("json text, ending class "+cls, map[string]any{"text": s0 + " Body", "expected_len": len(s0)})
		}
	}
}

// ---- enum part --------------------------------------------------------------------

func c14EnumUnit(c *mon.Ctx, r *mon.Rng, per, combos int) {
	trailers := c14Trailers // none of them starts with '/', which would open a comment behind the rule
	for k := 0; k < per; k++ {
		lits := gen.EnumList(r, 7)
		if r.Chance(1, 10) {
			lits = nil
		}
		et := gen.EnumLayout(r, lits, mon.Pick(r, gen.EnumLayouts))
		s0 := et.Text
		if o := lib.Safe(enum.New("@e", s0).Check); !o.OK {
			c.Count("enum: generated rule rejected by Check (skipped)", 1)
			c.Sample("enum rejected by Check (skipped)", map[string]any{"text": s0, "error": o.String()})
			continue
		}
		c.Distinct("enum\x00" + s0)
		c.Count("enum layout: "+et.Layout, 1)
		c14Positive(c, r, "enum", s0, "closer", trailers, combos)
		// a block comment after the closing bracket belongs to the rule text; text on the same
		// line may follow it after a blank
		if k%4 == 1 {
			s1 := s0 + mon.Pick(r, []string{" /* letters */", "/* c */", "\t/* a\n   b */", " /**/"})
			if lib.Safe(enum.New("@e", s1).Check).OK {
				c.Count("enum texts ending in a block comment after the closing bracket", 1)
				c14Positive(c, r, "enum", s1, "multi", trailers, combos/2)
			}
		}
		// every proper prefix is incomplete (the closing bracket is the last byte)
		var cuts []int
		for p := 0; p < len(s0); p++ {
			cuts = append(cuts, p)
		}
		c14Negative(c, r, "enum", s0, cuts, combos/3)
		if k == 0 && c.Unit%16 == 0 {
			c.Sample("enum text", map[string]any{"text": s0 + "\nTYPE @x", "expected_len": len(s0)})
		}
	}
}

// ---- regex part -------------------------------------------------------------------

func c14RegexUnit(c *mon.Ctx, r *mon.Rng, per, combos int) {
	trailers := append(append([]string{}, c14Trailers...), c14JSONOnlyTrailers...)
	for k := 0; k < per; k++ {
		var p string
		if r.Chance(1, 4) {
			p = strings.ReplaceAll(mon.Pick(r, gen.RegexTable).Pattern, "/", `\/`)
		} else {
			p = gen.RegexPattern(r, gen.RegexOpts{}).Pattern
		}
		tok := "/" + p + "/"
		c.Distinct("regex\x00" + tok)
		want := fmt.Sprintf("len=%d", len(tok))
		for j := 0; j < combos; j++ {
			sep := mon.Pick(r, c14Seps)
			t := mon.Pick(r, trailers)
			if j == 0 {
				sep, t = "", ""
			}
			text := tok + sep + t
			got := c14Observed("regex", text)
			c.Eval(1)
			c.Count("regex tokens followed by text", 1)
			if got != want {
				c.Violate("len", c14Case{"regex", text}, want, got, "regex Len is not the length of the /P/ token")
			}
		}
		// no closing slash
		if !strings.Contains(strings.ReplaceAll(strings.ReplaceAll(p, `\\`, ""), `\/`, ""), "/") {
			text := "/" + p + mon.Pick(r, c14Seps) + mon.Pick(r, []string{"Body", "TYPE @x", "", "Z"})
			if !strings.Contains(strings.ReplaceAll(strings.ReplaceAll(text[1:], `\\`, ""), `\/`, ""), "/") {
				_, o := c14Len("regex", text)
				c.Eval(1)
				c.Count("regex incomplete texts", 1)
				if o.OK {
					c.Violate("len", c14Case{"regex", text}, "error", c14Observed("regex", text), "regex Len returned a length for a text without a closing slash")
				}
			}
		}
	}
}

func c14Run(c *mon.Ctx, unit int) {
	su, ju, eu, _, per, combos := c14Sizes(c.Tier)
	r := c.Rng(14)
	switch {
	case unit < su:
		c14SchemaUnit(c, r, per, combos)
	case unit < su+ju:
		c14JSONUnit(c, r, per*3, combos)
	case unit < su+ju+eu:
		c14EnumUnit(c, r, per*2, combos)
	default:
		c14RegexUnit(c, r, per*4, combos)
	}
}

func init() {
	mon.Register(&mon.Prop{
		ID:    "C14",
		Level: "exploration",
		Rule: "S = Check-accepted schema texts from the model generators (rule-free shapes, scalars with rule sets, type graphs, root type shortcuts, bare root scalars and empty containers, named enum / or) " +
			"rendered in random surface styles (LF/CRLF/CR, indentation, inline vs /* */ annotations on one or several lines, notes, quoted rule names, trailing commas, # and ### comments inside, blank lines, leading blanks), " +
			"JSON values (depth<=3, random whitespace / escapes), enum rules (compact, one per line, commented, packed layouts), /P/ tokens; " +
			"x separator (none, blanks, LF/CRLF runs, mixed) x trailer from a directive-like alphabet (TYPE @x, GET /a, Body, 200 @x, {, }, \",\" …), restricted by the ending class of S found by an independent lexer " +
			"(closing bracket/quote: anything; numeral: nothing that continues a numeral; @name: a separator, no '|'; inline annotation: a line break; */: a separator). " +
			"Oracle: Len == len(rtrim(S)); that prefix has S's Check verdict, GetAST and verdicts on 6 documents. Negative: S cut inside a string, inside a keyword/numeral, or with open brackets (also p=0), followed by " +
			"upper-case directive text without closers -> Len must return an error. JSON expectations are cross-checked with encoding/json's Decoder offset. " +
			"Non-trivial = a distinct accepted text S for which trailers were judged. Schemas whose last token is a block comment: Len must be the end of the comment or of the schema proper (kind len-comment).",
		Assumptions: []string{
			"a user comment after the last token of S, text on the line of a trailing inline annotation, and empty / blank-only input are not decided by the statement and are not generated",
			"a foreign upper-case letter directly behind a root numeral or literal (JSON \"1x\") is read as covered by the statement (the text cannot continue the numeral); 'E' is excluded",
			"a panic of Len on an incomplete text is counted and left to C07",
		},
		Units: func(tier string, seed uint64) int {
			a, b, d, e, _, _ := c14Sizes(tier)
			return a + b + d + e
		},
		Run: c14Run,
		Replay: map[string]func(json.RawMessage) string{
			"len": func(raw json.RawMessage) string {
				var cs c14Case
				if err := json.Unmarshal(raw, &cs); err != nil {
					return "bad replay: " + err.Error()
				}
				return c14Observed(cs.Kind, cs.Text)
			},
			"len-comment": func(raw json.RawMessage) string {
				var cs c14Case
				json.Unmarshal(raw, &cs)
				return c14Observed(cs.Kind, cs.Text)
			},
			"prefix": c14ReplayPrefix,
			"json-prefix": func(raw json.RawMessage) string {
				var cs c14Case
				json.Unmarshal(raw, &cs)
				return lib.DocCheck(cs.Text, false).Verdict()
			},
		},
		Final: func(ev *mon.Evidence) error {
			for _, k := range []string{"schema", "json", "enum"} {
				if ev.Counters[k+" Len == len(rtrim(S))"] == 0 {
					return fmt.Errorf("no %s text had its length confirmed", k)
				}
				if ev.Counters[k+" incomplete text: Len returned an error"] == 0 {
					return fmt.Errorf("no incomplete %s text was observed", k)
				}
				if ev.Counters[k+" sep: none"] == 0 || ev.Counters[k+" sep: line breaks"] == 0 {
					return fmt.Errorf("%s: a separator class was never exercised", k)
				}
			}
			for _, cls := range []string{"closer", "number", "literal", "shortcut", "inline", "multi"} {
				if ev.Counters["schema ending: "+cls] == 0 {
					return fmt.Errorf("schema ending class %q never generated", cls)
				}
			}
			if n := ev.Counters["json: encoding/json places the end elsewhere (harness disagreement, skipped)"]; n > 0 {
				return fmt.Errorf("%d JSON cases where the construction and encoding/json disagree about the end of the value (harness bug)", n)
			}
			if sk := ev.Counters["schema: generated text rejected by Check (skipped)"]; sk*3 > ev.Counters["schema prefix has the meaning of S (Check, GetAST, 6 documents)"]+30 {
				ev.Inconcl[fmt.Sprintf("%d generated schema texts were rejected by Check and skipped", sk)]++
			}
			return nil
		},
	})
}
