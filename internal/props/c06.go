package props

// C06 — Lexical events faithfully describe the scanned text.
//
// Trace monitor over the recorded event log of json.Document.NextLexeme() for generated VALID
// JSON texts, judged against refjson's span tree (itself cross-checked against encoding/json's
// token offsets on every text), plus the cross-scanner monitor: the internal schema scanner and
// the enum-rule scanner (hook vh_scanevents) must deliver the same sequence, new-line events
// aside, for the plain-JSON part of their input.

import (
	"bytes"
	"encoding/hex"
	"encoding/json"
	"errors"
	"fmt"
	"io"
	"sort"
	"strconv"
	"strings"

	jsight "github.com/jsightapi/jsight-schema-go-library"
	libjson "github.com/jsightapi/jsight-schema-go-library/formats/json"

	"verif/internal/mon"
	refjson "verif/internal/ref/json"
)

// c06Event is one recorded library event (End inclusive, as the library reports it).
type c06Event struct {
	Type       string
	Begin, End int
	Value      string
	ValueErr   string // Value() panicked
}

func (e c06Event) String() string { return fmt.Sprintf("%s[%d:%d]", e.Type, e.Begin, e.End) }

// c06Reader advances one Document by one NextLexeme call at a time. term is "" while the stream
// is open, "eof" or a description of how the stream ended instead.
type c06Reader struct {
	doc   jsight.Document
	evs   []c06Event
	term  string
	n     int
	limit int
	size  int
}

func c06NewReader(text []byte) *c06Reader {
	return &c06Reader{doc: libjson.New("doc", text), limit: 8*len(text) + 64, size: len(text)}
}

// step performs one NextLexeme call; it returns false once the stream has ended.
func (rd *c06Reader) step() bool {
	if rd.term != "" {
		return false
	}
	if rd.n > rd.limit {
		rd.term = fmt.Sprintf("no io.EOF after %d events on %d bytes", rd.n, rd.size)
		return false
	}
	rd.n++
	var ev c06Event
	var err error
	pan := ""
	func() {
		defer func() {
			if r := recover(); r != nil {
				pan = fmt.Sprintf("panic: %v", r)
			}
		}()
		lex, e := rd.doc.NextLexeme()
		err = e
		if e != nil {
			return
		}
		ev = c06Event{Type: lex.Type().String(), Begin: int(lex.Begin()), End: int(lex.End())}
		func() {
			defer func() {
				if r := recover(); r != nil {
					ev.ValueErr = fmt.Sprintf("Value() panicked: %v", r)
				}
			}()
			ev.Value = string(lex.Value())
		}()
	}()
	switch {
	case pan != "":
		rd.term = pan
	case errors.Is(err, io.EOF):
		rd.term = "eof"
		// io.EOF terminates the stream: asking again gives io.EOF again, not a new pass
		for k := 0; k < 2; k++ {
			func() {
				defer func() {
					if r := recover(); r != nil {
						rd.term = fmt.Sprintf("panic after io.EOF: %v", r)
					}
				}()
				if lex, e := rd.doc.NextLexeme(); !errors.Is(e, io.EOF) && rd.term == "eof" {
					if e != nil {
						rd.term = "after io.EOF the next call returns the error " + e.Error()
					} else {
						rd.term = fmt.Sprintf("after io.EOF the next call delivers %s[%d:%d]", lex.Type().String(), lex.Begin(), lex.End())
					}
				}
			}()
		}
	case err != nil:
		rd.term = "error: " + err.Error()
	default:
		rd.evs = append(rd.evs, ev)
		return true
	}
	return false
}

// c06DocEvents drains NextLexeme of a fresh Document. term is "eof" or a description of how
// the stream ended instead.
func c06DocEvents(text []byte) (evs []c06Event, term string) {
	rd := c06NewReader(text)
	for rd.step() {
	}
	return rd.evs, rd.term
}

// c06Rewind: k NextLexeme calls on a document of valid JSON, then Len() or Check() on the same
// object (both must succeed: the text is valid whatever was read before), then the document is
// drained. What follows must be a complete stream of the text (the cursor was rewound) or the
// exact continuation of the stream read so far (the cursor was kept) - nothing else.
func c06Rewind(text []byte, k int, useLen bool) string {
	solo, term := c06DocEvents(text)
	if term != "eof" {
		return ""
	}
	rd := c06NewReader(text)
	for i := 0; i < k && rd.step(); i++ {
	}
	read := len(rd.evs)
	var err error
	pan := ""
	func() {
		defer func() {
			if r := recover(); r != nil {
				pan = fmt.Sprintf("panic: %v", r)
			}
		}()
		if useLen {
			_, err = rd.doc.Len()
		} else {
			err = rd.doc.Check()
		}
	}()
	what := map[bool]string{true: "Len()", false: "Check()"}[useLen]
	if pan != "" {
		return fmt.Sprintf("%s after %d lexemes: %s", what, read, pan)
	}
	if err != nil {
		return fmt.Sprintf("%s after %d lexemes of a valid text fails: %v", what, read, err)
	}
	rd.evs, rd.term, rd.n = nil, "", 0
	for rd.step() {
	}
	same := func(a, b []c06Event) bool {
		if len(a) != len(b) {
			return false
		}
		for i := range a {
			if a[i] != b[i] {
				return false
			}
		}
		return true
	}
	if rd.term == "eof" && (same(rd.evs, solo) || (read <= len(solo) && same(rd.evs, solo[read:]))) {
		return ""
	}
	return fmt.Sprintf("after %d lexemes and %s the document delivers %d events ending with %q: neither the complete stream (%d events) nor the continuation", read, what, len(rd.evs), rd.term, len(solo))
}

// c06Lockstep reads several documents by turns (schedule[i] names the document advanced by the
// i-th call; when the schedule is used up the documents are drained in order) and compares each
// stream with the stream of the same text read alone.
func c06Lockstep(texts [][]byte, schedule []byte) string {
	rds := make([]*c06Reader, len(texts))
	for i, t := range texts {
		rds[i] = c06NewReader(t)
	}
	for _, w := range schedule {
		rds[int(w)%len(rds)].step()
	}
	for _, rd := range rds {
		for rd.step() {
		}
	}
	for i, rd := range rds {
		solo, term := c06DocEvents(texts[i])
		if term != rd.term {
			return fmt.Sprintf("document %d read by turns ends with %q, read alone with %q", i, rd.term, term)
		}
		if len(solo) != len(rd.evs) {
			return fmt.Sprintf("document %d read by turns delivers %d events, read alone %d", i, len(rd.evs), len(solo))
		}
		for j := range solo {
			if solo[j] != rd.evs[j] {
				return fmt.Sprintf("document %d event %d read by turns is %s, read alone %s", i, j, rd.evs[j], solo[j])
			}
		}
	}
	return ""
}

// c06Exp is one expected event derived from the reference tree (half-open spans).
type c06Exp struct {
	Type       refjson.EventType
	Begin, End int // exact span for literal/key/container events; child span for wrappers
	Lo, Hi     int // wrappers: the wrapper must lie inside [Lo,Hi)
}

func c06Expected(root *refjson.Node) []c06Exp {
	var out []c06Exp
	var rec func(n *refjson.Node)
	rec = func(n *refjson.Node) {
		switch n.Kind {
		case refjson.Object, refjson.Array:
			ob, oe, wb, we := refjson.ObjectBegin, refjson.ObjectEnd, refjson.ValueBegin, refjson.ValueEnd
			if n.Kind == refjson.Array {
				ob, oe, wb, we = refjson.ArrayBegin, refjson.ArrayEnd, refjson.ItemBegin, refjson.ItemEnd
			}
			out = append(out, c06Exp{Type: ob, Begin: n.Begin, End: n.Begin + 1})
			for i, ch := range n.Children {
				lo := n.Begin + 1
				if i > 0 {
					lo = n.Children[i-1].End
				}
				hi := n.End - 1
				if i+1 < len(n.Children) {
					hi = n.Children[i+1].Begin
					if n.Kind == refjson.Object {
						hi = n.Keys[i+1].Begin
					}
				}
				if n.Kind == refjson.Object {
					k := n.Keys[i]
					out = append(out, c06Exp{Type: refjson.KeyBegin, Begin: k.Begin, End: k.Begin + 1},
						c06Exp{Type: refjson.KeyEnd, Begin: k.Begin, End: k.End})
					lo = k.End
				}
				out = append(out, c06Exp{Type: wb, Begin: ch.Begin, End: ch.End, Lo: lo, Hi: hi})
				rec(ch)
				out = append(out, c06Exp{Type: we, Begin: ch.Begin, End: ch.End, Lo: lo, Hi: hi})
			}
			out = append(out, c06Exp{Type: oe, Begin: n.Begin, End: n.End})
		default:
			out = append(out, c06Exp{Type: refjson.LiteralBegin, Begin: n.Begin, End: n.Begin + 1},
				c06Exp{Type: refjson.LiteralEnd, Begin: n.Begin, End: n.End})
		}
	}
	rec(root)
	return out
}

var c06Closing = map[string]string{
	"literal-begin": "literal-end", "object-begin": "object-end", "key-begin": "key-end",
	"value-begin": "value-end", "array-begin": "array-end", "item-begin": "item-end",
}
var c06IsClosing = map[string]bool{
	"literal-end": true, "object-end": true, "key-end": true, "value-end": true, "array-end": true, "item-end": true,
}

// c06Monitor checks the trace specification; it returns "" or the first problem found, and the
// sub-check that failed.
func c06Monitor(text []byte, root *refjson.Node, evs []c06Event, term string) (check, problem string) {
	// (0) termination
	if term != "eof" {
		return "termination", fmt.Sprintf("the stream of a valid text did not end with io.EOF: %s (after %d events)", term, len(evs))
	}
	// (2) spans inside the input
	for i, e := range evs {
		if _, open := c06Closing[e.Type]; !open && !c06IsClosing[e.Type] {
			return "event types", fmt.Sprintf("event %d %s: not a JSON lexical event", i, e)
		}
		if e.Begin < 0 || e.End < e.Begin || e.End >= len(text) {
			return "spans inside input", fmt.Sprintf("event %d %s: span outside [0,%d) or begin > end", i, e, len(text))
		}
		if e.ValueErr != "" {
			return "spans inside input", fmt.Sprintf("event %d %s: %s", i, e, e.ValueErr)
		}
		if e.Value != string(text[e.Begin:e.End+1]) {
			return "value", fmt.Sprintf("event %d %s: Value() %q is not the source slice %q", i, e, e.Value, text[e.Begin:e.End+1])
		}
	}
	// (1) stack discipline
	var stack []c06Event
	for i, e := range evs {
		if _, open := c06Closing[e.Type]; open {
			stack = append(stack, e)
			continue
		}
		if len(stack) == 0 {
			return "stack discipline", fmt.Sprintf("event %d %s closes nothing", i, e)
		}
		o := stack[len(stack)-1]
		stack = stack[:len(stack)-1]
		if c06Closing[o.Type] != e.Type {
			return "stack discipline", fmt.Sprintf("event %d %s closes %s", i, e, o)
		}
		if o.Begin != e.Begin {
			return "stack discipline", fmt.Sprintf("event %d %s does not begin where its opening %s began", i, e, o)
		}
	}
	if len(stack) != 0 {
		return "stack discipline", fmt.Sprintf("io.EOF with %d constructs still open (innermost %s)", len(stack), stack[len(stack)-1])
	}
	if len(evs) == 0 {
		return "termination", "io.EOF without any event for a valid text"
	}
	// (3) exactness against the reference span tree
	exp := c06Expected(root)
	for i := 0; i < len(evs) && i < len(exp); i++ {
		e, x := evs[i], exp[i]
		if e.Type != x.Type.String() {
			return "sequence", fmt.Sprintf("event %d is %s, the text implies %s[%d:%d]", i, e, x.Type, x.Begin, x.End-1)
		}
		switch {
		case x.Type.IsWrapper():
			if e.Begin < x.Lo || e.Begin > x.Begin || e.End >= x.Hi || (!x.Type.IsOpening() && e.End < x.End-1) {
				return "wrapper containment", fmt.Sprintf("event %d %s does not enclose its value [%d:%d] inside its slot [%d:%d]",
					i, e, x.Begin, x.End-1, x.Lo, x.Hi-1)
			}
		case x.Type.IsOpening():
			if e.Begin != x.Begin || e.End > c06ConstructEnd(exp, i)-1 {
				return "span exactness", fmt.Sprintf("event %d %s: the construct begins at %d", i, e, x.Begin)
			}
		default:
			if e.Begin != x.Begin || e.End != x.End-1 {
				return "span exactness", fmt.Sprintf("event %d %s: the source token is [%d:%d] %q", i, e, x.Begin, x.End-1, c06Clip(text[x.Begin:x.End]))
			}
		}
	}
	if len(evs) != len(exp) {
		return "sequence", fmt.Sprintf("%d events delivered, the text implies %d", len(evs), len(exp))
	}
	// (4) the value rebuilt from events alone
	rebuilt, perr := c06Rebuild(evs)
	if perr != "" {
		return "rebuild", perr
	}
	var compact bytes.Buffer
	if err := json.Compact(&compact, text); err != nil {
		return "harness", "encoding/json cannot compact a valid text: " + err.Error()
	}
	if rebuilt != compact.String() {
		d := 0
		for d < len(rebuilt) && d < compact.Len() && rebuilt[d] == compact.Bytes()[d] {
			d++
		}
		return "rebuild", fmt.Sprintf("value rebuilt from events %q differs from the text's value %q (first difference at byte %d of the compact form)",
			c06Clip([]byte(rebuilt)), c06Clip(compact.Bytes()), d)
	}
	return "", ""
}

func c06IsASCII(b []byte) bool {
	for _, c := range b {
		if c >= 0x80 {
			return false
		}
	}
	return true
}

// c06ConstructEnd: half-open end of the construct opened by exp[i] (for opening events).
func c06ConstructEnd(exp []c06Exp, i int) int {
	depth := 0
	for j := i; j < len(exp); j++ {
		if exp[j].Type.IsOpening() {
			depth++
		} else {
			depth--
			if depth == 0 {
				return exp[j].End
			}
		}
	}
	return exp[i].End
}

func c06Clip(b []byte) string {
	if len(b) > 120 {
		return string(b[:60]) + "…" + string(b[len(b)-50:])
	}
	return string(b)
}

// c06Rebuild serialises the value using nothing but the events: structure from the nesting,
// keys and literals from Value().
func c06Rebuild(evs []c06Event) (string, string) {
	var sb strings.Builder
	var first []bool // per open container: no child written yet
	sep := func() {
		if n := len(first); n > 0 {
			if !first[n-1] {
				sb.WriteByte(',')
			}
			first[n-1] = false
		}
	}
	for _, e := range evs {
		switch e.Type {
		case "object-begin":
			sb.WriteByte('{')
			first = append(first, true)
		case "array-begin":
			sb.WriteByte('[')
			first = append(first, true)
		case "object-end":
			sb.WriteByte('}')
			first = first[:len(first)-1]
		case "array-end":
			sb.WriteByte(']')
			first = first[:len(first)-1]
		case "key-begin", "item-begin":
			sep()
		case "key-end":
			sb.WriteString(e.Value)
			sb.WriteByte(':')
		case "literal-end":
			sb.WriteString(e.Value)
		}
	}
	return sb.String(), ""
}

// ---- cross-scanner part (hook vh_scanevents) -----------------------------------------------

// installed by c06_scan.go
var c06SchemaEvents func(text []byte, lengthMode bool) ([]c06Event, error)
var c06EnumEvents func(text []byte, lengthMode bool) ([]c06Event, error)

const c06NoHook = "hook vh_scanevents unavailable: schema-scanner and enum-scanner streams not compared (the Document trace monitor still decides)"

// c06Filter drops new-line events and, when dropAnnotations is set, annotation events.
func c06Filter(evs []c06Event, dropAnnotations bool) []c06Event {
	out := make([]c06Event, 0, len(evs))
	inAnnotation := 0
	for _, e := range evs {
		if e.Type == "new-line" {
			continue
		}
		if dropAnnotations {
			// everything from an annotation's begin to its end belongs to the annotation (rule
			// objects and their literals included)
			switch e.Type {
			case "inline-annotation-begin", "multi-line-annotation-begin":
				inAnnotation++
				continue
			case "inline-annotation-end", "multi-line-annotation-end":
				inAnnotation--
				continue
			}
			if inAnnotation > 0 || strings.Contains(e.Type, "annotation") {
				continue
			}
		}
		out = append(out, e)
	}
	return out
}

// c06SameStream compares (type, begin, end) lists; want is the Document scanner's stream with
// positions mapped through pos (identity when nil).
func c06SameStream(got, want []c06Event, pos func(int) int) string {
	for i := 0; i < len(got) && i < len(want); i++ {
		w := want[i]
		if pos != nil {
			w.Begin, w.End = pos(w.Begin), pos(w.End)
		}
		if got[i].Type != w.Type || got[i].Begin != w.Begin || got[i].End != w.End {
			return fmt.Sprintf("event %d is %s, the document scanner delivers %s for the same JSON", i, got[i], w)
		}
	}
	if len(got) != len(want) {
		return fmt.Sprintf("%d events, the document scanner delivers %d for the same JSON", len(got), len(want))
	}
	return ""
}

// c06Cross runs one scanner ("schema", "schema-length", "enum", "enum-length") over text and
// compares with the Document stream docEvs. embedded: annotation events are dropped as well and
// positions are mapped through pos.
func c06Cross(scanner string, text []byte, docEvs []c06Event, pos func(int) int, embedded bool) string {
	var evs []c06Event
	var err error
	switch scanner {
	case "schema":
		evs, err = c06SchemaEvents(text, false)
	case "schema-length":
		evs, err = c06SchemaEvents(text, true)
	case "enum", "enum-length":
		// every second text: the same enum cut off after its last comma was scanned just before
		// (a rule that is still being typed); what that scan leaves behind must not reach this one
		if i := bytes.LastIndexByte(text, ','); i > 0 && len(text)%2 == 0 {
			c06EnumEvents(text[:i+1], scanner == "enum-length")
		}
		evs, err = c06EnumEvents(text, scanner == "enum-length")
	default:
		return "unknown scanner " + scanner
	}
	if err != nil {
		return fmt.Sprintf("the %s scanner fails on plain JSON after %d events: %v", scanner, len(evs), err)
	}
	return c06SameStream(c06Filter(evs, embedded), docEvs, pos)
}

// c06Insert is one snippet put into a JSON text (before the byte at offset At).
type c06Insert struct {
	At  int    `json:"at"`
	Txt string `json:"txt"`
}

// c06Embed puts the JSON text into schema / enum syntax without touching its tokens: user
// comments (`# …` to the end of line) for the schema scanner, inline annotations (`// …`)
// for the enum scanner, inserted where the notation allows them (after an opening bracket,
// after a value, after the whole text). It returns the insertions, ascending by offset.
func c06Embed(r *mon.Rng, root *refjson.Node, forEnum bool) []c06Insert {
	var points []int
	root.Walk(func(n *refjson.Node) {
		if n.Kind.IsContainer() {
			points = append(points, n.Begin+1)
		}
		points = append(points, n.End)
	})
	sort.Ints(points)
	snippets := []string{" # c\n", "# {not: \"json\"} [1,\n", "\t#x\r\n", "   # \"quoted\" // not an annotation\n", " #\n",
		// block comments closed on their line: the next token may be glued to the closing marker
		"### c ###", " ###x###", "###\n two\n lines ###"}
	if forEnum {
		snippets = []string{" // c\n", "// \"x\", [1] {2}\n", "\t//x\r\n", " //   spaced out   \n"}
	}
	var chosen []c06Insert
	last := -1
	for _, p := range points {
		if p == last {
			continue
		}
		if r.Chance(1, 3) || (len(chosen) == 0 && p == points[len(points)-1]) {
			chosen = append(chosen, c06Insert{p, mon.Pick(r, snippets)})
			last = p
		}
	}
	return chosen
}

// c06Pretty lays the JSON value out one member / item per line (source tokens unchanged) and
// returns the offsets at which the schema notation allows an annotation (the end of a line
// holding a scalar or an opening bracket, after the comma if any) and those where only a user
// comment may follow (lines of closing brackets).
func c06Pretty(text []byte, root *refjson.Node) (pretty []byte, annot, comment []int) {
	var sb bytes.Buffer
	var w func(n *refjson.Node, level int, comma bool)
	w = func(n *refjson.Node, level int, comma bool) {
		if !n.Kind.IsContainer() || len(n.Children) == 0 {
			if n.Kind.IsContainer() {
				sb.WriteString(map[bool]string{true: "{}", false: "[]"}[n.Kind == refjson.Object])
			} else {
				sb.Write(text[n.Begin:n.End])
			}
			if comma {
				sb.WriteByte(',')
			}
			annot = append(annot, sb.Len())
			sb.WriteByte('\n')
			return
		}
		open, close := byte('['), byte(']')
		if n.Kind == refjson.Object {
			open, close = '{', '}'
		}
		sb.WriteByte(open)
		annot = append(annot, sb.Len())
		sb.WriteByte('\n')
		for i, ch := range n.Children {
			sb.WriteString(strings.Repeat("  ", level+1))
			if n.Kind == refjson.Object {
				sb.Write(text[n.Keys[i].Begin:n.Keys[i].End])
				sb.WriteString(": ")
			}
			w(ch, level+1, i < len(n.Children)-1)
		}
		sb.WriteString(strings.Repeat("  ", level))
		sb.WriteByte(close)
		if comma {
			sb.WriteByte(',')
		}
		comment = append(comment, sb.Len())
		sb.WriteByte('\n')
	}
	w(root, 0, false)
	return sb.Bytes(), annot, comment
}

var c06AnnotSnippets = []string{" // {enum: [\"x\", \"\\u0079\"]}", " /* {\"\\u006din\": 0} - n\\u0041 */", " // {regex: \"\\u0061+\"} - \\u note", " // a note # a comment", " // note", " // {optional: false} - note # comment", " // {min: 1, type: \"integer\"}", " /* note */", " /* {or: [\"integer\", {type: \"string\"}]} - note */ # c",
	" // {enum: [1, \"a\"]} -", " # c", " #"}

// c06PrettyEmbedded: the pretty layout with annotations (rules and notes) and user comments at
// the line ends where the notation allows them; the schema scanner's events outside the
// annotations must be the document scanner's events for the pretty text.
func c06PrettyEmbedded(r *mon.Rng, text []byte, root *refjson.Node) (c06Case, string) {
	pretty, annot, comment := c06Pretty(text, root)
	var ins []c06Insert
	for _, p := range annot {
		if r.Chance(1, 3) {
			ins = append(ins, c06Insert{p, mon.Pick(r, c06AnnotSnippets)})
		}
	}
	for _, p := range comment {
		if r.Chance(1, 4) {
			ins = append(ins, c06Insert{p, mon.Pick(r, []string{" # c", " #", "\t# } ]"})})
		}
	}
	sort.Slice(ins, func(i, j int) bool { return ins[i].At < ins[j].At })
	cs := c06Case{Hex: hex.EncodeToString(pretty), Text: strconv.Quote(string(pretty)), Scanner: "schema", Inserts: ins}
	emb, pos := c06ApplyInserts(pretty, ins)
	cs.Embedded = strconv.Quote(string(emb))
	evs, term := c06DocEvents(pretty)
	if term != "eof" {
		return cs, "" // the pretty text is judged by the trace monitor when it comes up itself
	}
	docCmp := make([]c06Event, len(evs))
	for i, e := range evs {
		docCmp[i] = c06Event{Type: e.Type, Begin: e.Begin, End: e.End}
	}
	return cs, c06Cross("schema", emb, docCmp, pos, true)
}

// c06ApplyInserts builds the embedded text and the offset map old → new.
func c06ApplyInserts(text []byte, ins []c06Insert) ([]byte, func(int) int) {
	var out []byte
	prev := 0
	for _, c := range ins {
		if c.At < prev || c.At > len(text) {
			continue
		}
		out = append(out, text[prev:c.At]...)
		out = append(out, c.Txt...)
		prev = c.At
	}
	out = append(out, text[prev:]...)
	pos := func(x int) int {
		shift := 0
		for _, c := range ins {
			if c.At <= x {
				shift += len(c.Txt)
			}
		}
		return x + shift
	}
	return out, pos
}

// c06IsScalarArray: the text is an array whose items are all scalars (the enum-rule shape).
func c06IsScalarArray(t []byte) bool {
	root, res := refjson.Parse(t, refjson.Strict)
	if !res.Accept || root == nil || root.Kind != refjson.Array {
		return false
	}
	for _, ch := range root.Children {
		if ch.Kind.IsContainer() {
			return false
		}
	}
	return true
}

// c06Shrink reduces a failing valid text structurally (subtree alone, one member/item removed,
// whitespace removed) while it stays valid JSON and fails(text) still holds.
func c06Shrink(text []byte, fails func([]byte) bool) []byte {
	cur := append([]byte{}, text...)
	budget := 3000
	try := func(cand []byte) bool {
		if budget <= 0 || len(cand) >= len(cur) || !refjson.Accept(cand) {
			return false
		}
		budget--
		if fails(cand) {
			cur = append([]byte{}, cand...)
			return true
		}
		return false
	}
	cut := func(lo, hi int) []byte { return append(append([]byte{}, cur[:lo]...), cur[hi:]...) }
	for progress := true; progress && budget > 0; {
		progress = false
		root, res := refjson.Parse(cur, refjson.Strict)
		if root == nil || !res.Accept {
			break
		}
		var nodes []*refjson.Node
		root.Walk(func(n *refjson.Node) { nodes = append(nodes, n) })
		// a subtree alone (largest reduction first: deepest nodes last)
		for _, n := range nodes[1:] {
			if try(append([]byte{}, cur[n.Begin:n.End]...)) {
				progress = true
				break
			}
		}
		if progress {
			continue
		}
		// drop one member / item
	drop:
		for _, n := range nodes {
			for i, ch := range n.Children {
				start := func(j int) int {
					if n.Kind == refjson.Object {
						return n.Keys[j].Begin
					}
					return n.Children[j].Begin
				}
				var cand []byte
				switch {
				case i > 0:
					cand = cut(n.Children[i-1].End, ch.End)
				case len(n.Children) > 1:
					cand = cut(start(0), start(1))
				default:
					cand = cut(n.Begin+1, n.End-1)
				}
				if try(cand) {
					progress = true
					break drop
				}
			}
		}
		if progress {
			continue
		}
		var compact bytes.Buffer
		if json.Compact(&compact, cur) == nil && try(compact.Bytes()) {
			progress = true
			continue
		}
		// single blanks
		for i := 0; i < len(cur); i++ {
			if refjson.IsSpace(cur[i]) && try(cut(i, i+1)) {
				progress = true
				break
			}
		}
	}
	return cur
}

// ---- workload ---------------------------------------------------------------------------

func c06Sizes(tier string) (units, perUnit int) {
	if tier == "thorough" {
		return 2400, 1000
	}
	return 192, 400
}

type c06Case struct {
	Hex     string `json:"hex"`
	Text    string `json:"text"`
	Scanner string `json:"scanner,omitempty"` // cross-scanner cases: schema | schema-length | enum | enum-length
	// embedded cases: Hex is the JSON text, Inserts the comments/annotations put into it and
	// Embedded the resulting text (for the reader)
	Inserts  []c06Insert `json:"inserts,omitempty"`
	Embedded string      `json:"embedded,omitempty"`
	// lockstep cases: the other documents (hex) and the schedule of NextLexeme calls
	Others   []string `json:"others,omitempty"`
	Schedule []byte   `json:"schedule,omitempty"`
}

const c06RewindOK = "Len() / Check() succeed and the stream afterwards is the complete stream or the continuation"
const c06LockstepOK = "every document read by turns delivers the events it delivers read alone"

const c06EventsOK = "event stream describes the text"
const c06CrossOK = "same event sequence as the document scanner (new-line events aside)"

// c06Oracle parses text with refjson and cross-checks the tree with encoding/json. ok=false is
// a harness bug (the generator produced an invalid text or the two oracles differ).
func c06Oracle(text []byte) (root *refjson.Node, bug string) {
	root, res := refjson.Parse(text, refjson.Strict)
	if !res.Accept || root == nil || !refjson.StdAccept(text) {
		return nil, fmt.Sprintf("generated text is not valid JSON (refjson accept=%v, encoding/json valid=%v)", res.Accept, refjson.StdAccept(text))
	}
	if d := refjson.StdCheckTree(text, root); d != "" {
		return nil, "refjson span tree and encoding/json token offsets differ: " + d
	}
	return root, ""
}

const c06BugCounter = "HARNESS BUG: refjson and encoding/json disagree (library not judged)"

func c06Run(c *mon.Ctx, unit int) {
	_, per := c06Sizes(c.Tier)
	r := c.Rng(606)
	counts := map[string]int{}
	defer func() {
		keys := make([]string, 0, len(counts))
		for k := range counts {
			keys = append(keys, k)
		}
		sort.Strings(keys)
		for _, k := range keys {
			c.Count(k, counts[k])
		}
	}()
	if c06SchemaEvents == nil && unit == 0 {
		c.Inconclusive(c06NoHook)
	}
	fails := 0
	var recent [][]byte
	for k := 0; k < per; k++ {
		o := jsonGenOpts{MaxDepth: 8, MaxWidth: 8, WS: 2}
		switch r.Intn(8) {
		case 0:
			o.WS = 0
		case 1:
			o.WS = 1
		}
		switch r.Intn(10) {
		case 0, 1, 2:
			o.MaxNodes = r.Range(1, 6)
		case 3, 4, 5, 6:
			o.MaxNodes = r.Range(6, 40)
		case 7, 8:
			o.MaxNodes = r.Range(40, 120)
		default:
			o.MaxNodes = r.Range(120, 300)
		}
		mode := r.Intn(4) // 0: any numerals; 1,2: no exponent (cross-scanner); 3: array of distinct scalars (enum)
		o.NoExp = mode != 0
		o.ScalarArray = mode == 3
		text := genJSON(r, o)

		root, bug := c06Oracle(text)
		if bug != "" {
			counts[c06BugCounter]++
			c.Sample("ORACLE DISAGREEMENT", map[string]any{"text": strconv.Quote(string(text)), "problem": bug})
			continue
		}
		evs, term := c06DocEvents(text)
		check, problem := c06Monitor(text, root, evs, term)
		c.Eval(1)
		counts["texts (document trace monitor)"]++
		counts["document events checked"] += len(evs)
		counts["text bytes"] += len(text)
		counts[fmt.Sprintf("texts with nesting depth %d", root.MaxDepth())]++
		if !root.Kind.IsContainer() {
			counts["texts whose root is a scalar"]++
			if root.End == len(text) {
				counts["texts whose root scalar ends exactly at the end of input"]++
			}
		}
		if root.Count() >= 3 {
			c.DistinctHash(mon.HashString(string(text)))
		}
		root.Walk(func(n *refjson.Node) {
			tok := text[n.Begin:n.End]
			switch n.Kind {
			case refjson.String:
				counts["literals seen: string"]++
				if bytes.IndexByte(tok, '\\') >= 0 {
					counts["literals seen: string with escapes"]++
				}
				if !c06IsASCII(tok) {
					counts["literals seen: string with multi-byte UTF-8"]++
				}
			case refjson.Number:
				counts["literals seen: number"]++
				if bytes.ContainsAny(tok, "eE") {
					counts["literals seen: number with exponent"]++
				}
			case refjson.Object:
				counts["object members seen"] += len(n.Children)
				for _, k := range n.Keys {
					if kt := text[k.Begin:k.End]; bytes.IndexByte(kt, '\\') >= 0 || !c06IsASCII(kt) {
						counts["keys seen with escapes or multi-byte UTF-8"]++
					}
				}
			case refjson.Array:
				counts["array items seen"] += len(n.Children)
			default:
				counts["literals seen: true/false/null"]++
			}
		})
		if unit == 0 && k < 2 {
			c.Sample("valid text", map[string]any{"text": strconv.Quote(string(text[:min(len(text), 240)])), "bytes": len(text), "values": root.Count(),
				"depth": root.MaxDepth(), "events": len(evs), "first_events": fmt.Sprint(evs[:min(len(evs), 6)])})
		}
		if problem != "" {
			counts["trace violations: "+check]++
			fails++
			if fails <= 5 {
				small := c06Shrink(text, func(t []byte) bool {
					rt, bug := c06Oracle(t)
					if bug != "" {
						return false
					}
					e, tm := c06DocEvents(t)
					ck, _ := c06Monitor(t, rt, e, tm)
					return ck == check
				})
				rt, _ := c06Oracle(small)
				e, tm := c06DocEvents(small)
				if ck, pr := c06Monitor(small, rt, e, tm); pr != "" {
					check, problem, text = ck, pr, small
				}
				c.Violate("events", c06Case{Hex: hex.EncodeToString(text), Text: strconv.Quote(string(text))}, c06EventsOK, check+": "+problem,
					"Document.NextLexeme events do not describe the valid JSON text ("+check+")")
			}
			continue // the cross-scanner comparison needs a sound document stream
		}
		// several documents read by turns: scanners must not share state
		if len(text) <= 600 {
			recent = append(recent, text)
			if len(recent) > 3 {
				recent = recent[1:]
			}
		}
		if len(recent) >= 2 && k%4 == 3 {
			group := recent[len(recent)-2:]
			if len(recent) == 3 && r.Bool() {
				group = recent
			}
			total := 0
			for _, t := range group {
				total += len(t)
			}
			sched := make([]byte, 2*total+8)
			burst := r.Range(1, 3)
			for i := range sched {
				if burst == 1 {
					sched[i] = byte(i % len(group))
				} else {
					sched[i] = byte(r.Intn(len(group)))
				}
			}
			c.Eval(1)
			counts["lockstep groups (documents read by turns vs alone)"]++
			counts["lockstep NextLexeme calls scheduled"] += len(sched)
			if d := c06Lockstep(group, sched); d != "" {
				counts["lockstep violations"]++
				fails++
				if fails <= 5 {
					cs := c06Case{Hex: hex.EncodeToString(group[0]), Text: strconv.Quote(string(group[0])), Schedule: sched}
					for _, t := range group[1:] {
						cs.Others = append(cs.Others, hex.EncodeToString(t))
					}
					c.Violate("lockstep", cs, c06LockstepOK, d, "a Document's event stream depends on another Document being read in between")
				}
			}
		}
		// partial read, Len() / Check() on the same object, then the rest
		if k%3 == 1 && len(text) <= 600 && len(evs) > 0 {
			kk, useLen := r.Range(1, len(evs)), r.Bool()
			c.Eval(1)
			counts["partial reads followed by Len() / Check() and a drain"]++
			if d := c06Rewind(text, kk, useLen); d != "" {
				counts["rewind violations"]++
				fails++
				if fails <= 5 {
					sched := []byte{byte(kk), byte(kk >> 8), 0}
					if useLen {
						sched[2] = 1
					}
					c.Violate("rewind", c06Case{Hex: hex.EncodeToString(text), Text: strconv.Quote(string(text)), Schedule: sched}, c06RewindOK, d,
						"a Document read in part does not answer Len() / Check() or does not deliver a sound stream afterwards")
				}
			}
		}
		if mode == 0 || c06SchemaEvents == nil {
			continue
		}
		docCmp := make([]c06Event, len(evs))
		for i, e := range evs {
			docCmp[i] = c06Event{Type: e.Type, Begin: e.Begin, End: e.End}
		}
		scanners := []string{"schema", "schema-length"}
		if mode == 3 {
			scanners = append(scanners, "enum", "enum-length")
		}
		for _, sc := range scanners {
			d := c06Cross(sc, text, docCmp, nil, false)
			c.Eval(1)
			counts["cross-scanner comparisons: "+sc]++
			counts["cross-scanner events compared"] += len(evs)
			if d != "" {
				counts["cross-scanner violations: "+sc]++
				fails++
				if fails <= 5 {
					crossOf := func(t []byte) string {
						e, tm := c06DocEvents(t)
						if tm != "eof" || (strings.HasPrefix(sc, "enum") && !c06IsScalarArray(t)) {
							return ""
						}
						for i := range e {
							e[i].Value = ""
						}
						return c06Cross(sc, t, e, nil, false)
					}
					small := c06Shrink(text, func(t []byte) bool { return crossOf(t) != "" })
					if d2 := crossOf(small); d2 != "" {
						c.Violate("cross", c06Case{Hex: hex.EncodeToString(small), Text: strconv.Quote(string(small)), Scanner: sc}, c06CrossOK, d2,
							"the "+sc+" scanner and the document scanner disagree on plain JSON")
					} else {
						c.Violate("cross", c06Case{Hex: hex.EncodeToString(text), Text: strconv.Quote(string(text)), Scanner: sc}, c06CrossOK, d,
							"the "+sc+" scanner and the document scanner disagree on plain JSON")
					}
				}
			}
		}
		// pretty layout with annotations and comments at the line ends
		if r.Chance(1, 3) && len(text) <= 1500 {
			cs, d := c06PrettyEmbedded(r, text, root)
			c.Eval(1)
			counts["cross-scanner comparisons: schema (pretty layout with annotations and comments)"]++
			if d != "" {
				counts["cross-scanner violations: schema (pretty, annotated)"]++
				fails++
				if fails <= 5 {
					c.Violate("cross-embedded", cs, c06CrossOK, d, "the schema scanner's events outside the annotations differ from the document scanner's events for that JSON")
				}
			}
		}
		// embedding into schema / enum syntax
		if r.Chance(1, 2) {
			forEnum := mode == 3 && r.Bool()
			ins := c06Embed(r, root, forEnum)
			emb, pos := c06ApplyInserts(text, ins)
			sc := "schema"
			if forEnum {
				sc = "enum"
			}
			d := c06Cross(sc, emb, docCmp, pos, true)
			c.Eval(1)
			counts["cross-scanner comparisons: "+sc+" (JSON embedded among comments/annotations)"]++
			if unit == 0 && counts["embedded samples"] < 1 {
				counts["embedded samples"]++
				c.Sample("embedded "+sc, map[string]any{"text": strconv.Quote(string(emb[:min(len(emb), 240)]))})
			}
			if d != "" {
				counts["cross-scanner violations: "+sc+" (embedded)"]++
				fails++
				if fails <= 5 {
					c.Violate("cross-embedded", c06Case{Hex: hex.EncodeToString(text), Text: strconv.Quote(string(text)), Scanner: sc,
						Inserts: ins, Embedded: strconv.Quote(string(emb))}, c06CrossOK, d,
						"the "+sc+" scanner's events for the plain-JSON part differ from the document scanner's events for that JSON")
				}
			}
		}
	}
}

func c06ReplayEvents(raw json.RawMessage) string {
	var cs c06Case
	if err := json.Unmarshal(raw, &cs); err != nil {
		return "bad replay: " + err.Error()
	}
	text, err := hex.DecodeString(cs.Hex)
	if err != nil {
		return "bad replay: " + err.Error()
	}
	root, bug := c06Oracle(text)
	if bug != "" {
		return "harness bug: " + bug
	}
	evs, term := c06DocEvents(text)
	if check, problem := c06Monitor(text, root, evs, term); problem != "" {
		return check + ": " + problem
	}
	return c06EventsOK
}

func c06ReplayRewind(raw json.RawMessage) string {
	var cs c06Case
	if err := json.Unmarshal(raw, &cs); err != nil {
		return "bad replay: " + err.Error()
	}
	text, err := hex.DecodeString(cs.Hex)
	if err != nil || len(cs.Schedule) != 3 {
		return "bad replay"
	}
	if d := c06Rewind(text, int(cs.Schedule[0])|int(cs.Schedule[1])<<8, cs.Schedule[2] == 1); d != "" {
		return d
	}
	return c06RewindOK
}

func c06ReplayLockstep(raw json.RawMessage) string {
	var cs c06Case
	if err := json.Unmarshal(raw, &cs); err != nil {
		return "bad replay: " + err.Error()
	}
	var group [][]byte
	for _, h := range append([]string{cs.Hex}, cs.Others...) {
		t, err := hex.DecodeString(h)
		if err != nil {
			return "bad replay: " + err.Error()
		}
		group = append(group, t)
	}
	if d := c06Lockstep(group, cs.Schedule); d != "" {
		return d
	}
	return c06LockstepOK
}

func c06ReplayCross(raw json.RawMessage) string {
	var cs c06Case
	if err := json.Unmarshal(raw, &cs); err != nil {
		return "bad replay: " + err.Error()
	}
	text, err := hex.DecodeString(cs.Hex)
	if err != nil {
		return "bad replay: " + err.Error()
	}
	if c06SchemaEvents == nil {
		return "hook vh_scanevents unavailable"
	}
	jsonText := text
	embedded := len(cs.Inserts) > 0
	var pos func(int) int
	if embedded {
		text, pos = c06ApplyInserts(jsonText, cs.Inserts)
	}
	evs, term := c06DocEvents(jsonText)
	if term != "eof" {
		return "document scanner: " + term
	}
	docCmp := make([]c06Event, len(evs))
	for i, e := range evs {
		docCmp[i] = c06Event{Type: e.Type, Begin: e.Begin, End: e.End}
	}
	if d := c06Cross(cs.Scanner, text, docCmp, pos, embedded); d != "" {
		return d
	}
	return c06CrossOK
}

func init() {
	mon.Register(&mon.Prop{
		ID:    "C06",
		Level: "exploration",
		Rule: "valid JSON texts generated to depth<=8, width<=8, <=4 KiB with every scalar form (all number shapes, every escape incl. surrogate pairs, 2/3/4-byte UTF-8, DEL, " +
			"comment-like content inside strings), arbitrary SP/TAB/LF/CR/CRLF runs around every token, root scalars ending exactly at the end of input. Each text is parsed by refjson " +
			"(tree cross-checked against encoding/json token offsets) and the Document.NextLexeme() log is checked for: termination by io.EOF, spans inside the input, Value()==source slice, " +
			"stack discipline, exact literal/key/object/array spans and begin offsets, containment of value/item wrappers in their slot, and equality of the value rebuilt from events alone with json.Compact(text). " +
			"Cross-scanner (hook): for texts without exponent numerals the schema scanner (normal and length mode) and, for arrays of distinct scalars, the enum scanner (both modes) must deliver the same (type, begin, end) list, " +
			"new-line events removed; also with the JSON embedded among # comments (schema) / inline annotations (enum), positions mapped. " +
			"Rewind: a third of the texts is read in part (1..n lexemes), then Len() or Check() is called on the same object and the document is drained: both calls succeed and what follows is the complete stream or the exact continuation. " +
			"Pretty layout: the value laid out one member per line with annotations (rules, notes, multi-line form) and user comments at the line ends where the notation allows them; the schema scanner's events outside the annotations equal the document scanner's. " +
			"Lockstep: every fourth text, the last two or three texts are read by turns (alternating or random schedule of NextLexeme calls on separate Document objects) and each stream must equal the stream of the same text read alone. " +
			"Non-trivial = text with at least 3 values; distinct = hash of the text. Every second enum cross-scan follows a scan of the same text cut after its last comma (pooled scanner state).",
		Assumptions: []string{
			"value-begin/value-end and item-begin/item-end spans are only required to enclose their value and to lie inside their slot (between the neighbouring key/values and the parent's brackets); the statement fixes exactly only literal, key and container spans",
			"opening events must begin at the first byte of their construct and end inside it",
			"user comments and annotations are inserted only where the notation allows them (after an opening bracket, after a value, after the text)",
		},
		Units: func(tier string, seed uint64) int { u, _ := c06Sizes(tier); return u },
		Run:   c06Run,
		Replay: map[string]func(json.RawMessage) string{
			"events": c06ReplayEvents, "cross": c06ReplayCross, "cross-embedded": c06ReplayCross, "lockstep": c06ReplayLockstep, "rewind": c06ReplayRewind,
		},
		Final: func(ev *mon.Evidence) error {
			if n := ev.Counters[c06BugCounter]; n > 0 {
				return fmt.Errorf("generator/refjson/encoding/json disagree on %d texts (harness bug; see samples of class ORACLE DISAGREEMENT)", n)
			}
			if ev.Counters["cross-scanner comparisons: schema"] == 0 {
				found := false
				for k := range ev.Inconcl {
					if k == c06NoHook {
						found = true
					}
				}
				if !found {
					ev.Inconcl[c06NoHook]++
				}
			}
			if ev.Counters["document events checked"] == 0 {
				return fmt.Errorf("the trace monitor observed no events")
			}
			return nil
		},
	})
}
