package props

// C04 — Check accepts a schema only if its own EXAMPLE obeys its rules.
//
// Forward monitor (real vs real): whenever Check succeeds on a plain-JSON schema, validating
// the example text against the same schema succeeds. Converse monitor: exactly one violation
// is planted at a known node of a Check-accepted schema; Check must fail and report the
// position of that value (renderer position map).

import (
	"encoding/json"
	"fmt"
	"strconv"
	"strings"

	"verif/internal/gen"
	"verif/internal/lib"
	"verif/internal/model"
	"verif/internal/mon"
)

type c04Case struct {
	Spec lib.Spec `json:"spec"`
	Doc  string   `json:"doc,omitempty"`
	Pos  int      `json:"planted_at,omitempty"`
}

func c04Sizes(tier string) (units, per int) {
	if tier == "thorough" {
		return 40000, 40
	}
	return 400, 40
}

func c04Run(c *mon.Ctx, unit int) {
	_, per := c04Sizes(c.Tier)
	r := c.Rng(4)
	for k := 0; k < per; k++ {
		var ec *gen.EveryCase
		switch k % 4 {
		case 0:
			// the C01 fragment and C02 scalar sets are part of "all generated schemas"
			sc := gen.Scalar(r)
			ec = &gen.EveryCase{S: &model.Schema{Root: sc.Node}, Scalars: map[*model.Node]*gen.ScalarCase{sc.Node: sc}}
		case 1:
			ec = &gen.EveryCase{S: &model.Schema{Root: gen.Shape(r, gen.ShapeOpts{MaxDepth: 4, MaxWidth: 4, OddKeys: true})}, Scalars: map[*model.Node]*gen.ScalarCase{}}
		default:
			ec = gen.Everything(r, gen.EverythingOpts{MaxDepth: r.Range(1, 4), MaxWidth: 4, Plain: true})
		}
		s := ec.S
		s.OptKeys = r.Chance(1, 6)
		if k%3 == 1 {
			// rule-free strings spelled with escapes the document scanner has to accept as well
			s.Root.Walk(func(n *model.Node) {
				if n.Kind == model.KString && len(n.Rules) == 0 && r.Chance(1, 3) {
					n.Lit = mon.Pick(r, []string{`"https:\/\/example.com\/cats"`, `"a\/b"`, `"tab\there"`, `"\u0041\u00e9\u00E9"`, `"q\"q\\"`, `"\b\f\n\r"`})
				}
			})
		}
		inType := k%5 == 4
		if inType {
			// the generated tree becomes an ADDED TYPE referenced by a small root: the checker must
			// visit the nodes of added types as thoroughly as those of the root
			s = &model.Schema{Root: model.Obj(model.P("x", model.Ref("@gen")), model.P("n", model.Int("1"))),
				Types: append(append([]*model.TypeDef{}, s.Types...), &model.TypeDef{Name: "@gen", Root: s.Root}), Enums: s.Enums, OptKeys: s.OptKeys}
			ec = &gen.EveryCase{S: s, Scalars: ec.Scalars}
		}
		st := model.Style{}
		if k%6 == 5 {
			// nodes that carry neither rules nor a note get an annotation that says nothing
			st = model.Style{BareAnnot: true}
			if r.Bool() {
				st.Mixed = r.Fork()
			}
		}
		sp := specOf(s, st)
		built := buildSchema(sp)
		if built.check.Panic != "" {
			c.Violate("check-panic", c04Case{Spec: sp}, "no panic", built.check.String(), "Check panicked")
			continue
		}
		if !built.ok {
			c.Count("generated schema rejected by Check (skipped)", 1)
			c.Count(fmt.Sprintf("skipped: check code %d", built.check.Code), 1)
			c.Sample(fmt.Sprintf("schema rejected by Check code %d", built.check.Code), map[string]any{"spec": sp, "error": built.check.String()})
			if k%4 < 2 && !inType && model.NewOracle(s).Accepts(gen.ExampleVal(s.Root)) == model.Accept {
				// scalar rule sets and plain shapes: the generator writes only legal rule
				// combinations, and the independent oracle says the example obeys them all
				c.Violate("legal", c04Case{Spec: sp}, "accept", built.check.String(), "Check refuses a schema whose examples obey all of its rules")
			}
			continue
		}
		key, _ := json.Marshal(sp)
		c.Distinct(string(key))
		if inType {
			c.Count("schemas whose generated tree is an added type", 1)
			c04Plant(c, r, ec)
			continue
		}
		// ---- forward: Validate(example) on the same schema object and on a fresh one
		// the example TEXT: the schema's literals exactly as they are written, annotations and
		// insignificant blanks removed
		doc := plainExampleText(s.Root)
		for i, obs := range []lib.Obs{built.validate(doc), lib.Validate(sp, doc), built.validateChecked(doc)} {
			c.Eval(1)
			c.Count("forward: Validate(example) calls", 1)
			if !obs.OK {
				which := "same schema object"
				if i == 1 {
					which = "fresh schema object"
				}
				if i == 2 {
					which = "same schema object, the Document was Check()ed / Len()ed before"
				}
				c.Violate("forward", c04Case{Spec: sp, Doc: doc}, "accept", obs.String(), "Check accepted the schema but its own example does not validate ("+which+")")
				break
			}
		}
		// ---- converse: plant one violation
		c04Plant(c, r, ec)
		if k%8 == 7 {
			c04OrAcrossTypes(c, r)
		}
		if k%8 == 3 {
			c04OrUntypedExclusive(c, r)
			c04SharedTypeTwoRoots(c, r)
		}
		if k == 0 && unit < 6 {
			c.Sample("accepted schema and its example", map[string]any{"spec": sp, "example": doc})
		}
	}
}

// c04OrAcrossTypes: or rule-sets in the root AND in added types (each text is loaded as a schema of
// its own, their anonymous rule-set types end up in one table). The root's example violates
// every rule-set of its own or rule, while rule-sets of the added types would admit it.
func c04OrAcrossTypes(c *mon.Ctx, r *mon.Rng) {
	max, maxLen := r.Range(1, 9), r.Range(1, 3)
	bad := mon.Pick(r, []*model.Node{model.Int(strconv.Itoa(max + 1 + r.Intn(90))), model.Str(strings.Repeat("x", maxLen+1+r.Intn(3))), model.Bool(true)})
	orRule := model.ROr(model.OrSet(model.RStr("type", "integer"), model.RNum("max", strconv.Itoa(max))), model.OrSet(model.RStr("type", "string"), model.RInt("maxLength", maxLen)))
	if r.Bool() {
		orRule.Or[0], orRule.Or[1] = orRule.Or[1], orRule.Or[0]
	}
	target := bad.With(orRule)
	wide := func() *model.Rule {
		return model.ROr(model.OrSet(model.RStr("type", "integer")), model.OrSet(model.RStr("type", "string")), model.OrSet(model.RStr("type", "boolean")))
	}
	s := &model.Schema{Types: []*model.TypeDef{
		{Name: "@size", Root: model.Str("XL").With(wide())},
		{Name: "@obj", Root: model.Obj(model.P("a", model.Int("1").With(wide())), model.P("b", model.Bool(false).With(wide())))},
	}}
	if r.Bool() {
		// the other way round: the offending example stands in an ADDED TYPE, the root's own
		// rule-sets are the wide ones
		s.Types[0].Root = target
		s.Root = model.Obj(model.P("id", model.Int("5").With(wide())), model.P("s", model.Ref("@size")), model.P("o", model.Ref("@obj")))
	} else {
		switch r.Intn(3) {
		case 0:
			s.Root = model.Obj(model.P("id", target), model.P("s", model.Ref("@size")))
		case 1:
			s.Root = model.Obj(model.P("o", model.Ref("@obj")), model.P("s", model.Ref("@size")), model.P("id", target))
		default:
			s.Root = model.Arr(model.Ref("@obj"), target)
		}
	}
	if r.Bool() {
		s.Types[0], s.Types[1] = s.Types[1], s.Types[0]
	}
	sp := specOf(s, model.Style{})
	obs := lib.Check(sp)
	want := target.Pos
	c.Eval(1)
	c.Count("converse: or rule-sets in the root and in added types, root example admitted by none of its own", 1)
	switch {
	case obs.Panic != "":
		c.Violate("check-panic", c04Case{Spec: sp}, "no panic", obs.String(), "Check panicked")
	case obs.OK:
		c.Violate("converse", c04Case{Spec: sp, Pos: want}, "reject at "+strconv.Itoa(want), "accept", "Check accepts a schema whose example is admitted by no rule-set of its own or rule (added types carry or rule-sets that would admit it)")
	case obs.Pos != want:
		c.Violate("converse", c04Case{Spec: sp, Pos: want}, "reject at "+strconv.Itoa(want), fmt.Sprintf("reject at %d (code %d)", obs.Pos, obs.Code), "Check reports another position than the offending value (or rule-sets in root and added types)")
	}
}

// c04CheckTwice: Check, and Check once more on the same schema object.
func c04CheckTwice(sp lib.Spec) (first, second lib.Obs) {
	s, o := lib.Build(sp)
	if !o.OK {
		return o, o
	}
	first = lib.Safe(s.Check)
	second = lib.Safe(s.Check)
	return first, second
}

// c04OrUntypedExclusive: an or rule-set WITHOUT a type rule carrying an exclusive bound; the
// example sits exactly on the bound and no other rule-set admits it.
func c04OrUntypedExclusive(c *mon.Ctx, r *mon.Rng) {
	b := r.Range(2, 90)
	bound := strconv.Itoa(b)
	ex := model.Int(bound)
	if r.Bool() {
		bound += ".0"
		ex = model.Flt(bound)
	}
	set := model.OrSet(model.RNum("max", bound), model.RBool("exclusiveMaximum", true))
	if r.Bool() {
		set = model.OrSet(model.RNum("min", bound), model.RBool("exclusiveMinimum", true))
	}
	if r.Bool() {
		set.Rules[0], set.Rules[1] = set.Rules[1], set.Rules[0]
	}
	items := []model.OrItem{model.OrSet(model.RStr("type", "string")), set}
	if r.Bool() {
		items[0], items[1] = items[1], items[0]
	}
	target := ex.With(model.ROr(items...))
	s := &model.Schema{Root: mon.Pick(r, []*model.Node{target, model.Obj(model.P("price", target)), model.Arr(model.Int("1"), target)})}
	sp := specOf(s, model.Style{})
	obs := lib.Check(sp)
	want := target.Pos
	c.Eval(1)
	c.Count("converse: or rule-set without a type rule, example on its exclusive bound", 1)
	switch {
	case obs.Panic != "":
		c.Violate("check-panic", c04Case{Spec: sp}, "no panic", obs.String(), "Check panicked")
	case obs.OK:
		c.Violate("converse", c04Case{Spec: sp, Pos: want}, "reject at "+strconv.Itoa(want), "accept", "Check accepts an example that sits on the exclusive bound of the only rule-set of its kind (rule-set without a type rule)")
	case obs.Pos != want:
		c.Violate("converse", c04Case{Spec: sp, Pos: want}, "reject at "+strconv.Itoa(want), fmt.Sprintf("reject at %d (code %d)", obs.Pos, obs.Code), "Check reports another position than the offending value (untyped or rule-set)")
	}
}

// c04SharedTypeTwoRoots: ONE type object (@pager, holding `0 // {type: "@limit"}`) is added to two
// roots. The first root binds @limit to a type that admits 0 and is checked (successfully); the
// second binds @limit to a type that does not: its Check must fail at the literal inside @pager,
// exactly as it does when it is the only root.
func c04SharedTypeTwoRoots(c *mon.Ctx, r *mon.Rng) {
	lo := r.Range(1, 9)
	fam := c11Family{
		Types: []lib.TypeDef{
			{Name: "@limit", Text: "1 // {min: 0}"},
			{Name: "@pager", Text: "{\n  \"page\": 1,\n  \"limit\": 0 // {type: \"@limit\"}\n}"},
		},
		Roots: []c11Root{
			{Text: "{\n  \"p\": @pager\n}"},
			{Text: "{\n  \"p\": @pager\n}", Override: []lib.TypeDef{{Name: "@limit", Text: fmt.Sprintf("%d // {min: %d}", lo, lo)}}},
		},
	}
	want := strings.Index(fam.Types[1].Text, "0 //")
	shared := c11BuildFamily(&fam, -1)
	first := lib.Safe(shared.roots[0].Check)
	second := lib.Safe(shared.roots[1].Check)
	alone := lib.Safe(c11BuildFamily(&fam, 1).roots[1].Check)
	c.Eval(1)
	c.Count("converse: one type object in two roots, the example violates the second root's binding", 1)
	got := fmt.Sprintf("first root: %s; second root: %s; second root alone: %s", first.Verdict(), c17ObsPos(second), c17ObsPos(alone))
	exp := fmt.Sprintf("first root: accept; second root: reject at %d; second root alone: reject at %d", want, want)
	if got != exp {
		c.Violate("shared-type", map[string]any{"family": fam}, exp, got, "a type object shared by two roots is not checked against the second root's own types")
	}
}

// c04Plant corrupts one node so that its example value violates one of its own rules.
func c04Plant(c *mon.Ctx, r *mon.Rng, ec *gen.EveryCase) {
	s := ec.S
	// candidates: scalar nodes with rules + arrays (item counts) + scalars for declared type
	var nodes []*model.Node
	s.Root.Walk(func(n *model.Node) { nodes = append(nodes, n) })
	if t := s.Type("@gen"); t != nil {
		nodes = nil
		t.Root.Walk(func(n *model.Node) { nodes = append(nodes, n) })
	}
	mon.Shuffle(r, nodes)
	tried := 0
	for _, n := range nodes {
		if tried >= 3 {
			return
		}
		clone := s.Clone()
		// locate the same node in the clone (same pre-order index)
		var orig, cl []*model.Node
		s.Root.Walk(func(x *model.Node) { orig = append(orig, x) })
		clone.Root.Walk(func(x *model.Node) { cl = append(cl, x) })
		if t := s.Type("@gen"); t != nil {
			t.Root.Walk(func(x *model.Node) { orig = append(orig, x) })
			clone.Type("@gen").Root.Walk(func(x *model.Node) { cl = append(cl, x) })
		}
		var target *model.Node
		for i := range orig {
			if orig[i] == n {
				target = cl[i]
			}
		}
		class := ""
		switch {
		case (n.Kind == model.KArray || n.Kind == model.KObject) && n.Rule("or") != nil:
			// empty container under an or-rule: replace the rule by one that does not admit the
			// container's kind
			own, other := "object", "array"
			if n.Kind == model.KArray {
				own, other = other, own
			}
			_ = own
			for i, rr := range target.Rules {
				if rr.Name == "or" {
					target.Rules[i] = model.ROr(model.OrSet(model.RStr("type", other)), model.OrSet(model.RStr("type", "string")))
				}
			}
			class = "container example of a kind no or-alternative admits"
		case n.Kind == model.KArray:
			switch r.Intn(2) {
			case 0:
				if n.Rule("minItems") != nil || len(n.Items) == 0 && n.Rule("maxItems") != nil {
					continue
				}
				target.Rules = append(target.Rules, model.RInt("minItems", len(n.Items)+1))
				class = "item count below minItems"
				if len(n.Items) == 0 {
					continue // empty example arrays only admit 0 (another error class)
				}
			default:
				if n.Rule("maxItems") != nil || len(n.Items) == 0 {
					continue
				}
				target.Rules = append(target.Rules, model.RInt("maxItems", len(n.Items)-1))
				class = "item count above maxItems"
			}
			if n.Rule("type") != nil || n.Rule("or") != nil {
				continue
			}
		case n.IsScalar() && len(n.Rules) > 0 && ec.Scalars[n] != nil:
			// a probe of the same JSON kind that the node's own rules reject
			o := &model.Oracle{S: s}
			var bad *model.Val
			// const: true compares the value with the example itself, so it is left out of the
			// oracle query: the planted value must violate one of the OTHER rules
			probeNode := &model.Node{Kind: n.Kind, Lit: n.Lit}
			for _, rr := range n.Rules {
				if rr.Name != "const" {
					probeNode.Rules = append(probeNode.Rules, rr)
				}
			}
			for _, p := range ec.Scalars[n].Probes {
				if !sameLitKind(n, p) {
					continue
				}
				if o.AcceptsNode(probeNode, p) == model.Reject {
					bad = p
					if r.Chance(1, 3) {
						break
					}
				}
			}
			if bad == nil {
				continue
			}
			n = probeNode
			target.Lit = bad.Text()
			class = "example value violates its own rule (" + o.Why + ")"
			_ = o.AcceptsNode(n, bad)
			class = "example value violates its own rule: " + o.Why
			if target.BoolRule("const") {
				class += " (node also has const: true)"
			}
		case n.IsScalar() && (n.Rule("or") != nil || n.Rule("enum") != nil || (n.Rule("type") != nil && len(n.Rule("type").Str) > 0 && n.Rule("type").Str[0] == '@')):
			// or / enum-by-name / {type: "@T"} on a literal: a literal no alternative accepts
			o := &model.Oracle{S: s}
			var bad *model.Val
			for _, cand := range []string{"-5", "2.5", "true", `"blue"`, "false", `""`, "-0.5", `"a much longer string than any maxLength"`, "12345"} {
				v := gen.LitToVal(cand)
				if o.AcceptsNode(n, v) == model.Reject {
					bad = v
					if r.Chance(1, 2) {
						break
					}
				}
			}
			if bad == nil {
				continue
			}
			target.Lit = bad.Text()
			switch bad.K {
			case model.VStr:
				target.Kind = model.KString
			case model.VBool:
				target.Kind = model.KBoolean
			default:
				target.Kind = model.KFloat
				if model.IsIntegerNumeral(bad.Num) {
					target.Kind = model.KInteger
				}
			}
			class = "example literal accepted by no alternative of its or / enum / type reference"
		case n.IsScalar() && n.Rule("type") == nil && n.Rule("or") == nil && n.Rule("enum") == nil && n.Kind != model.KNull:
			wrong := "string"
			if n.Kind == model.KString {
				wrong = "integer"
			}
			if n.Rule("precision") != nil {
				continue
			}
			target.Rules = append(target.Rules, model.RStr("type", wrong))
			class = "example kind differs from the declared type"
		default:
			continue
		}
		tried++
		sp := specOf(clone, model.Style{})
		obs, again := c04CheckTwice(sp)
		c.Eval(1)
		c.Count("converse: planted "+firstWords(class, 5), 1)
		want := target.Pos
		switch {
		case obs.Panic != "":
			c.Violate("check-panic", c04Case{Spec: sp}, "no panic", obs.String(), "Check panicked")
		case !obs.OK && obs.Pos == want && (again.OK || again.Pos != want):
			c.Violate("converse-twice", c04Case{Spec: sp, Pos: want}, "reject at "+strconv.Itoa(want), c17ObsPos(again), "the second Check on the same schema object no longer reports the offending value: "+class)
		case obs.OK:
			c.Violate("converse", c04Case{Spec: sp, Pos: want}, "reject at "+strconv.Itoa(want), "accept", "Check accepts a schema whose example violates its own rule: "+class)
		case obs.Pos != want:
			c.Violate("converse", c04Case{Spec: sp, Pos: want}, "reject at "+strconv.Itoa(want), fmt.Sprintf("reject at %d (code %d)", obs.Pos, obs.Code),
				"Check reports another position than the offending value: "+class)
		default:
			c.Count(fmt.Sprintf("converse: rejected with code %d at the planted position", obs.Code), 1)
		}
	}
}

func firstWords(s string, n int) string {
	cnt := 0
	for i, ch := range s {
		if ch == ' ' || ch == ':' || ch == '(' {
			cnt++
			if cnt == n || ch != ' ' {
				return s[:i]
			}
		}
	}
	return s
}

func sameLitKind(n *model.Node, p *model.Val) bool {
	switch n.Kind {
	case model.KString:
		return p.K == model.VStr
	case model.KInteger:
		return p.K == model.VNum && model.IsIntegerNumeral(p.Num) && !hasExp(p.Num)
	case model.KFloat:
		return p.K == model.VNum && !model.IsIntegerNumeral(p.Num) && !hasExp(p.Num)
	case model.KBoolean:
		return p.K == model.VBool
	}
	return false
}

func hasExp(s string) bool {
	for _, c := range s {
		if c == 'e' || c == 'E' {
			return true
		}
	}
	return false
}

func init() {
	mon.Register(&mon.Prop{
		ID:    "C04",
		Level: "exploration",
		Rule: "schemas from the scalar rule-set generator, the rule-free shape generator and the all-features generator in plain-JSON mode (nested objects/arrays, every scalar rule, enum by value and by name, or on literals, " +
			"{type: \"@T\"}, item counts, additionalProperties, notes), both key options; forward: Validate(example) on the same and on a fresh schema object; converse: one planted violation per try " +
			"(value outside a bound / length / pattern / enum / format, item count outside minItems/maxItems, declared type different from the example kind) at a random node, Check must reject AT that node's offset. " +
			"Non-trivial = distinct Check-accepted schema (hashed spec).",
		Assumptions: []string{
			"the planted value is chosen by the C02 reference oracle among same-kind probes the node's rules reject",
			"positions come from the renderer's position map (start of the literal, '[' for item counts)",
		},
		Units: func(tier string, seed uint64) int { u, _ := c04Sizes(tier); return u },
		Run:   c04Run,
		Replay: map[string]func(json.RawMessage) string{
			"forward": func(raw json.RawMessage) string {
				var cs c04Case
				json.Unmarshal(raw, &cs)
				if !lib.Check(cs.Spec).OK {
					return "accept" // vacuous: Check no longer accepts the schema
				}
				return lib.Validate(cs.Spec, cs.Doc).Verdict()
			},
			"legal": func(raw json.RawMessage) string {
				var cs c04Case
				json.Unmarshal(raw, &cs)
				return lib.Check(cs.Spec).Verdict()
			},
			"converse": func(raw json.RawMessage) string {
				var cs c04Case
				json.Unmarshal(raw, &cs)
				o := lib.Check(cs.Spec)
				if o.OK {
					return "accept"
				}
				return "reject at " + strconv.Itoa(o.Pos)
			},
			"shared-type": func(raw json.RawMessage) string {
				var cs struct {
					Family c11Family `json:"family"`
				}
				json.Unmarshal(raw, &cs)
				shared := c11BuildFamily(&cs.Family, -1)
				first := lib.Safe(shared.roots[0].Check)
				second := lib.Safe(shared.roots[1].Check)
				alone := lib.Safe(c11BuildFamily(&cs.Family, 1).roots[1].Check)
				return fmt.Sprintf("first root: %s; second root: %s; second root alone: %s", first.Verdict(), c17ObsPos(second), c17ObsPos(alone))
			},
			"converse-twice": func(raw json.RawMessage) string {
				var cs c04Case
				json.Unmarshal(raw, &cs)
				_, again := c04CheckTwice(cs.Spec)
				return c17ObsPos(again)
			},
			"check-panic": func(raw json.RawMessage) string {
				var cs c04Case
				json.Unmarshal(raw, &cs)
				return noPanic(lib.Check(cs.Spec))
			},
		},
		Final: func(ev *mon.Evidence) error {
			if ev.Counters["forward: Validate(example) calls"] == 0 {
				return fmt.Errorf("forward monitor observed nothing")
			}
			return nil
		},
	})
}
