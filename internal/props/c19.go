package props

// C19 — ordered maps behave as insertion-ordered maps under any operation sequence.
//
// Sequential monitor: every operation sequence is executed on the real map and on a reference
// insertion-ordered map (slice of pairs); after EVERY step the complete observable state of
// both is compared. Concurrent monitor: the -race build runs goroutines against one map; the
// race detector decides, quiescent-state invariants are asserted afterwards.

import (
	"encoding/json"
	"errors"
	"fmt"
	"strconv"
	"strings"
	"sync"

	jschema "github.com/jsightapi/jsight-schema-go-library"

	"verif/internal/mon"
)

// omap is the common driver interface over the three generated maps (keys are indexes into a
// key pool, values are ints carried in a field of the real value type).
type omap interface {
	Set(k, v int)
	Update(k int, fn func(int) int)
	GetValue(k int) int
	Get(k int) (int, bool)
	Has(k int) bool
	Len() int
	Delete(k int)
	Filter(fn func(k, v int) bool)
	Find(fn func(k, v int) bool) (int, int, bool)
	Each(fn func(k, v int) error) error
	EachSafe(fn func(k, v int))
	Map(fn func(k, v int) (int, error)) error
	MarshalJSON() ([]byte, error)
	// expectJSON renders what MarshalJSON must return for the given ordered content.
	expectJSON(keys, vals []int) string
}

func keyName(k int) string { return "k" + strconv.Itoa(k) }
func keyIdx(s string) int {
	n, err := strconv.Atoi(strings.TrimPrefix(s, "k"))
	if err != nil {
		return -1
	}
	return n
}
func decVal(s string) int {
	if s == "" {
		return -1
	}
	n, err := strconv.Atoi(s)
	if err != nil {
		return -2
	}
	return n
}

// ---- ASTNodes ----
type astMap struct{ m *jschema.ASTNodes }

func astV(v int) jschema.ASTNode { return jschema.ASTNode{Value: strconv.Itoa(v)} }
func (a astMap) Set(k, v int)    { a.m.Set(keyName(k), astV(v)) }
func (a astMap) Update(k int, fn func(int) int) {
	a.m.Update(keyName(k), func(v jschema.ASTNode) jschema.ASTNode { return astV(fn(decVal(v.Value))) })
}
func (a astMap) GetValue(k int) int { return decVal(a.m.GetValue(keyName(k)).Value) }
func (a astMap) Get(k int) (int, bool) {
	v, ok := a.m.Get(keyName(k))
	return decVal(v.Value), ok
}
func (a astMap) Has(k int) bool { return a.m.Has(keyName(k)) }
func (a astMap) Len() int       { return a.m.Len() }
func (a astMap) Delete(k int)   { a.m.Delete(keyName(k)) }
func (a astMap) Filter(fn func(k, v int) bool) {
	a.m.Filter(func(k string, v jschema.ASTNode) bool { return fn(keyIdx(k), decVal(v.Value)) })
}
func (a astMap) Find(fn func(k, v int) bool) (int, int, bool) {
	it, ok := a.m.Find(func(k string, v jschema.ASTNode) bool { return fn(keyIdx(k), decVal(v.Value)) })
	if !ok {
		return -1, -1, false
	}
	return keyIdx(it.Key), decVal(it.Value.Value), ok
}
func (a astMap) Each(fn func(k, v int) error) error {
	return a.m.Each(func(k string, v jschema.ASTNode) error { return fn(keyIdx(k), decVal(v.Value)) })
}
func (a astMap) EachSafe(fn func(k, v int)) {
	a.m.EachSafe(func(k string, v jschema.ASTNode) { fn(keyIdx(k), decVal(v.Value)) })
}
func (a astMap) Map(fn func(k, v int) (int, error)) error {
	return a.m.Map(func(k string, v jschema.ASTNode) (jschema.ASTNode, error) {
		nv, err := fn(keyIdx(k), decVal(v.Value))
		if err != nil {
			return jschema.ASTNode{}, err
		}
		return astV(nv), nil
	})
}
func (a astMap) MarshalJSON() ([]byte, error) { return a.m.MarshalJSON() }
func (a astMap) expectJSON(keys, vals []int) string {
	var sb strings.Builder
	sb.WriteByte('{')
	for i := range keys {
		if i > 0 {
			sb.WriteByte(',')
		}
		kb, _ := json.Marshal(keyName(keys[i]))
		vb, _ := json.Marshal(astV(vals[i]))
		sb.Write(kb)
		sb.WriteByte(':')
		sb.Write(vb)
	}
	sb.WriteByte('}')
	return sb.String()
}

// ---- RuleASTNodes ----
type ruleMap struct{ m *jschema.RuleASTNodes }

func ruleV(v int) jschema.RuleASTNode { return jschema.RuleASTNode{Value: strconv.Itoa(v)} }
func (a ruleMap) Set(k, v int)        { a.m.Set(keyName(k), ruleV(v)) }
func (a ruleMap) Update(k int, fn func(int) int) {
	a.m.Update(keyName(k), func(v jschema.RuleASTNode) jschema.RuleASTNode { return ruleV(fn(decVal(v.Value))) })
}
func (a ruleMap) GetValue(k int) int { return decVal(a.m.GetValue(keyName(k)).Value) }
func (a ruleMap) Get(k int) (int, bool) {
	v, ok := a.m.Get(keyName(k))
	return decVal(v.Value), ok
}
func (a ruleMap) Has(k int) bool { return a.m.Has(keyName(k)) }
func (a ruleMap) Len() int       { return a.m.Len() }
func (a ruleMap) Delete(k int)   { a.m.Delete(keyName(k)) }
func (a ruleMap) Filter(fn func(k, v int) bool) {
	a.m.Filter(func(k string, v jschema.RuleASTNode) bool { return fn(keyIdx(k), decVal(v.Value)) })
}
func (a ruleMap) Find(fn func(k, v int) bool) (int, int, bool) {
	it, ok := a.m.Find(func(k string, v jschema.RuleASTNode) bool { return fn(keyIdx(k), decVal(v.Value)) })
	if !ok {
		return -1, -1, false
	}
	return keyIdx(it.Key), decVal(it.Value.Value), ok
}
func (a ruleMap) Each(fn func(k, v int) error) error {
	return a.m.Each(func(k string, v jschema.RuleASTNode) error { return fn(keyIdx(k), decVal(v.Value)) })
}
func (a ruleMap) EachSafe(fn func(k, v int)) {
	a.m.EachSafe(func(k string, v jschema.RuleASTNode) { fn(keyIdx(k), decVal(v.Value)) })
}
func (a ruleMap) Map(fn func(k, v int) (int, error)) error {
	return a.m.Map(func(k string, v jschema.RuleASTNode) (jschema.RuleASTNode, error) {
		nv, err := fn(keyIdx(k), decVal(v.Value))
		if err != nil {
			return jschema.RuleASTNode{}, err
		}
		return ruleV(nv), nil
	})
}
func (a ruleMap) MarshalJSON() ([]byte, error) { return a.m.MarshalJSON() }
func (a ruleMap) expectJSON(keys, vals []int) string {
	var sb strings.Builder
	sb.WriteByte('{')
	for i := range keys {
		if i > 0 {
			sb.WriteByte(',')
		}
		kb, _ := json.Marshal(keyName(keys[i]))
		vb, _ := json.Marshal(ruleV(vals[i]))
		sb.Write(kb)
		sb.WriteByte(':')
		sb.Write(vb)
	}
	sb.WriteByte('}')
	return sb.String()
}

// map kinds; the constraint map is added by c19_cmap.go when hook vh_cmap is available.
type mapKind struct {
	name string
	mk   func(variant int) omap
}

var c19Kinds = []mapKind{
	{"ASTNodes", func(v int) omap {
		if v == 1 {
			return astMap{&jschema.ASTNodes{}}
		}
		return astMap{&jschema.ASTNodes{}}
	}},
	{"RuleASTNodes", func(v int) omap {
		if v == 1 {
			return ruleMap{jschema.MakeRuleASTNodes(0)}
		}
		if v == 2 {
			return ruleMap{jschema.NewRuleASTNodes(map[string]jschema.RuleASTNode{}, nil)}
		}
		return ruleMap{&jschema.RuleASTNodes{}}
	}},
}

// ---- reference: slice of pairs ----
type refMap struct {
	keys, vals []int
	// bytes returned by the last MarshalJSON of the real map, and what they said then
	prevJSON []byte
	prevCopy string
}

func (r *refMap) idx(k int) int {
	for i, kk := range r.keys {
		if kk == k {
			return i
		}
	}
	return -1
}
func (r *refMap) set(k, v int) {
	if i := r.idx(k); i >= 0 {
		r.vals[i] = v
		return
	}
	r.keys = append(r.keys, k)
	r.vals = append(r.vals, v)
}
func (r *refMap) del(k int) {
	if i := r.idx(k); i >= 0 {
		r.keys = append(append([]int{}, r.keys[:i]...), r.keys[i+1:]...)
		r.vals = append(append([]int{}, r.vals[:i]...), r.vals[i+1:]...)
	}
}

// ---- operations ----
type c19Op struct {
	Op  string `json:"op"`
	Key int    `json:"key,omitempty"`
	Arg int    `json:"arg,omitempty"`
}

func (o c19Op) String() string { return fmt.Sprintf("%s(%d,%d)", o.Op, o.Key, o.Arg) }

func c19Alphabet(nkeys int) []c19Op {
	var a []c19Op
	for k := 0; k < nkeys; k++ {
		a = append(a, c19Op{"Set", k, 0})
	}
	for k := 0; k < nkeys; k++ {
		a = append(a, c19Op{"Update", k, 0})
	}
	for k := 0; k < nkeys; k++ {
		a = append(a, c19Op{"Delete", k, 0})
	}
	a = append(a, c19Op{"Filter", 0, 0}, c19Op{"Filter", 0, 1}, c19Op{"Filter", 0, 2})
	a = append(a, c19Op{"Map", 0, 0}, c19Op{"Map", 0, 1})
	return a
}

var errStop = errors.New("stop")

// filter predicates: 0 keep keys != 0; 1 keep none; 2 keep odd values.
func c19Pred(arg int) func(k, v int) bool {
	switch arg {
	case 0:
		return func(k, v int) bool { return k != 0 }
	case 1:
		return func(k, v int) bool { return false }
	default:
		return func(k, v int) bool { return v%2 != 0 }
	}
}

// c19Apply runs op number step on both maps and returns a description of a disagreement in
// the step's own observable behaviour (visit lists), "" if none.
func c19Apply(m omap, r *refMap, op c19Op, step int) string {
	switch op.Op {
	case "Set":
		v := step*2 + 1 + op.Key%2 // unique-ish, mixed parity
		m.Set(op.Key, v)
		r.set(op.Key, v)
	case "Update":
		called := 0
		m.Update(op.Key, func(v int) int { called++; return v + 100 })
		if i := r.idx(op.Key); i >= 0 {
			r.vals[i] += 100
			if called != 1 {
				return fmt.Sprintf("Update of a live key called fn %d times", called)
			}
		} else if called != 0 {
			return fmt.Sprintf("Update of an absent key called fn %d times", called)
		}
	case "Delete":
		m.Delete(op.Key)
		r.del(op.Key)
	case "Filter":
		pred := c19Pred(op.Arg)
		var visited, wantVisited []string
		m.Filter(func(k, v int) bool { visited = append(visited, fmt.Sprintf("%d=%d", k, v)); return pred(k, v) })
		nr := &refMap{}
		for i, k := range r.keys {
			wantVisited = append(wantVisited, fmt.Sprintf("%d=%d", k, r.vals[i]))
			if pred(k, r.vals[i]) {
				nr.set(k, r.vals[i])
			}
		}
		*r = *nr
		if strings.Join(visited, ",") != strings.Join(wantVisited, ",") {
			return fmt.Sprintf("Filter visited [%s], live entries were [%s]", strings.Join(visited, ","), strings.Join(wantVisited, ","))
		}
	case "Map":
		var visited, wantVisited []string
		n := 0
		err := m.Map(func(k, v int) (int, error) {
			visited = append(visited, fmt.Sprintf("%d=%d", k, v))
			n++
			if op.Arg == 1 && n == 2 {
				return 0, errStop
			}
			return v + 1000, nil
		})
		wantErr := false
		for i, k := range r.keys {
			wantVisited = append(wantVisited, fmt.Sprintf("%d=%d", k, r.vals[i]))
			if op.Arg == 1 && i == 1 {
				wantErr = true
				break
			}
			r.vals[i] += 1000
		}
		if strings.Join(visited, ",") != strings.Join(wantVisited, ",") {
			return fmt.Sprintf("Map visited [%s], expected [%s]", strings.Join(visited, ","), strings.Join(wantVisited, ","))
		}
		if (err != nil) != wantErr {
			return fmt.Sprintf("Map returned err=%v, expected error: %v", err, wantErr)
		}
	}
	return ""
}

// c19Observe compares the full observable state; nkeys probes keys 0..nkeys (one never used).
func c19Observe(m omap, r *refMap, nkeys int) string {
	if m.Len() != len(r.keys) {
		return fmt.Sprintf("Len()=%d, reference has %d live keys %v", m.Len(), len(r.keys), r.keys)
	}
	for k := 0; k <= nkeys; k++ {
		i := r.idx(k)
		if m.Has(k) != (i >= 0) {
			return fmt.Sprintf("Has(%d)=%v, reference %v", k, m.Has(k), i >= 0)
		}
		v, ok := m.Get(k)
		want := -1
		if i >= 0 {
			want = r.vals[i]
		}
		if ok != (i >= 0) || v != want {
			return fmt.Sprintf("Get(%d)=(%d,%v), reference (%d,%v)", k, v, ok, want, i >= 0)
		}
		if gv := m.GetValue(k); gv != want {
			return fmt.Sprintf("GetValue(%d)=%d, reference %d", k, gv, want)
		}
	}
	var got, want []string
	for i, k := range r.keys {
		want = append(want, fmt.Sprintf("%d=%d", k, r.vals[i]))
	}
	m.EachSafe(func(k, v int) { got = append(got, fmt.Sprintf("%d=%d", k, v)) })
	if strings.Join(got, ",") != strings.Join(want, ",") {
		return fmt.Sprintf("EachSafe order [%s], reference [%s]", strings.Join(got, ","), strings.Join(want, ","))
	}
	got = got[:0]
	if err := m.Each(func(k, v int) error { got = append(got, fmt.Sprintf("%d=%d", k, v)); return nil }); err != nil {
		return "Each returned " + err.Error()
	}
	if strings.Join(got, ",") != strings.Join(want, ",") {
		return fmt.Sprintf("Each order [%s], reference [%s]", strings.Join(got, ","), strings.Join(want, ","))
	}
	// Each stops at the first error and returns it
	if len(r.keys) >= 2 {
		n := 0
		err := m.Each(func(k, v int) error {
			n++
			if n == 2 {
				return errStop
			}
			return nil
		})
		if err != errStop || n != 2 {
			return fmt.Sprintf("Each with error at 2nd entry: visited %d, err=%v", n, err)
		}
	}
	// Find: first entry in order with an even value; and a predicate that never matches
	fk, fv, fok := m.Find(func(k, v int) bool { return v%2 == 0 })
	wk, wv, wok := -1, -1, false
	for i, k := range r.keys {
		if r.vals[i]%2 == 0 {
			wk, wv, wok = k, r.vals[i], true
			break
		}
	}
	if fok != wok || (wok && (fk != wk || fv != wv)) {
		return fmt.Sprintf("Find(even)=(%d,%d,%v), reference (%d,%d,%v)", fk, fv, fok, wk, wv, wok)
	}
	if _, _, ok := m.Find(func(k, v int) bool { return false }); ok {
		return "Find(never) found something"
	}
	b, err := m.MarshalJSON()
	if err != nil {
		return "MarshalJSON error " + err.Error()
	}
	if exp := m.expectJSON(r.keys, r.vals); string(b) != exp {
		return fmt.Sprintf("MarshalJSON %s, reference %s", b, exp)
	}
	// the bytes handed out by the previous MarshalJSON (of this run) still say what they said
	if r.prevJSON != nil && string(r.prevJSON) != r.prevCopy {
		return fmt.Sprintf("the bytes an earlier MarshalJSON returned changed afterwards: were %s, now %s", r.prevCopy, r.prevJSON)
	}
	r.prevJSON, r.prevCopy = b, string(b)
	return ""
}

type c19Case struct {
	Map     string  `json:"map"`
	Variant int     `json:"variant"`
	NKeys   int     `json:"nkeys"`
	Ops     []c19Op `json:"ops"`
}

// c19RunSeq executes one sequence; returns "" or the first disagreement.
func c19RunSeq(kind mapKind, variant, nkeys int, ops []c19Op) (string, int) {
	m := kind.mk(variant)
	r := &refMap{}
	if d := c19Observe(m, r, nkeys); d != "" {
		return "fresh map: " + d, 0
	}
	for i, op := range ops {
		if d := c19Apply(m, r, op, i); d != "" {
			return fmt.Sprintf("step %d %s: %s", i, op, d), i
		}
		if d := c19Observe(m, r, nkeys); d != "" {
			return fmt.Sprintf("after step %d %s: %s", i, op, d), i
		}
	}
	return "", len(ops)
}

func c19SeqSafe(kind mapKind, variant, nkeys int, ops []c19Op) (res string) {
	defer func() {
		if rec := recover(); rec != nil {
			res = fmt.Sprintf("panic: %v", rec)
		}
	}()
	res, _ = c19RunSeq(kind, variant, nkeys, ops)
	return res
}

const c19NKeys = 3

func c19MaxLen(tier string) int {
	if tier == "thorough" {
		return 6
	}
	return 5
}

func c19RandomUnits(tier string) (units, per, maxLen int) {
	if tier == "thorough" {
		return 1000, 1000, 200
	}
	return 64, 160, 200
}

func c19RaceUnits(tier string) int {
	if tier == "thorough" {
		return 320
	}
	return 32
}

func c19Interesting(ops []c19Op) bool {
	set, rem := false, false
	for _, o := range ops {
		switch o.Op {
		case "Set":
			set = true
		case "Delete", "Filter":
			if set {
				rem = true
			}
		}
	}
	return set && rem
}

func c19Report(c *mon.Ctx, kind mapKind, variant, nkeys int, ops []c19Op, d string) {
	// shrink: shortest failing prefix, then drop single ops while it still fails
	cur := append([]c19Op{}, ops...)
	for n := 1; n <= len(cur); n++ {
		if c19SeqSafe(kind, variant, nkeys, cur[:n]) != "" {
			cur = cur[:n]
			break
		}
	}
	for changed := true; changed; {
		changed = false
		for i := 0; i < len(cur); i++ {
			t := append(append([]c19Op{}, cur[:i]...), cur[i+1:]...)
			if c19SeqSafe(kind, variant, nkeys, t) != "" {
				cur = t
				changed = true
				break
			}
		}
	}
	d2 := c19SeqSafe(kind, variant, nkeys, cur)
	if d2 == "" {
		d2, cur = d, ops
	}
	c.Violate("sequence", c19Case{kind.name, variant, nkeys, cur}, "agrees with the reference insertion-ordered map after every step", d2,
		kind.name+" diverges from the reference insertion-ordered map")
}

func c19Run(c *mon.Ctx, unit int) {
	alpha := c19Alphabet(c19NKeys)
	A := len(alpha)
	nSeqUnits := A * A
	ru, per, maxLen := c19RandomUnits(c.Tier)
	switch {
	case unit < nSeqUnits:
		// exhaustive: all sequences with prefix (alpha[unit/A], alpha[unit%A]) up to max length;
		// unit 0 additionally runs the sequences of length < 2.
		maxL := c19MaxLen(c.Tier)
		for _, kind := range c19Kinds {
			var seqs [][]c19Op
			if unit == 0 {
				seqs = append(seqs, []c19Op{})
				for _, o := range alpha {
					seqs = append(seqs, []c19Op{o})
				}
			}
			for _, s := range seqs {
				c.Eval(1)
				if d := c19SeqSafe(kind, 0, c19NKeys, s); d != "" {
					c19Report(c, kind, 0, c19NKeys, s, d)
				}
			}
			prefix := []c19Op{alpha[unit/A], alpha[unit%A]}
			ops := make([]c19Op, maxL)
			copy(ops, prefix)
			idx := make([]int, maxL)
			var rec func(depth int)
			fails := 0
			rec = func(depth int) {
				// evaluate the sequence ops[:depth]
				c.Eval(1)
				c.Count("sequences on "+kind.name, 1)
				c.Count("steps compared", depth)
				if c19Interesting(ops[:depth]) {
					c.DistinctByConstruction(1)
				}
				if d := c19SeqSafe(kind, 0, c19NKeys, ops[:depth]); d != "" {
					fails++
					if fails <= 3 {
						c19Report(c, kind, 0, c19NKeys, ops[:depth], d)
					}
					return // every extension fails as well
				}
				if depth == maxL {
					return
				}
				for i := 0; i < A; i++ {
					idx[depth] = i
					ops[depth] = alpha[i]
					rec(depth + 1)
				}
			}
			rec(2)
			if unit == 7 {
				c.Sample("exhaustive "+kind.name, map[string]any{"prefix": fmt.Sprint(prefix), "max_len": maxL, "alphabet": fmt.Sprint(alpha)})
			}
		}
	case unit < nSeqUnits+ru:
		// random long sequences over 8 keys, all constructor variants
		rng := c.Rng(19)
		alpha8 := c19Alphabet(8)
		for n := 0; n < per; n++ {
			kind := c19Kinds[rng.Intn(len(c19Kinds))]
			variant := rng.Intn(3)
			L := rng.Range(1, maxLen)
			if rng.Chance(1, 2) {
				L = rng.Range(1, 24)
			}
			ops := make([]c19Op, L)
			for i := range ops {
				ops[i] = alpha8[rng.Intn(len(alpha8))]
			}
			c.Eval(1)
			c.Count("random sequences", 1)
			c.Count("steps compared", L)
			if c19Interesting(ops) {
				c.Distinct(fmt.Sprint(kind.name, variant, ops))
			}
			if d := c19SeqSafe(kind, variant, 8, ops); d != "" {
				c19Report(c, kind, variant, 8, ops, d)
			}
			if n == 0 && unit == nSeqUnits {
				c.Sample("random "+kind.name, c19Case{kind.name, variant, 8, ops[:min(len(ops), 12)]})
			}
		}
	default:
		c19Concurrent(c, unit-nSeqUnits-ru)
	}
}

// c19Concurrent: G writers with disjoint key sets plus shared readers on one map. Runs in the
// -race build; the race detector's log is the verdict on data races. At quiescence the
// schedule-independent invariants are asserted.
func c19Concurrent(c *mon.Ctx, scen int) {
	rng := c.Rng(1900)
	for _, kind := range c19Kinds {
		c19SharedKeys(c, rng, kind, scen)
		for rep := 0; rep < 4; rep++ {
			G := []int{2, 3, 4, 8}[rng.Intn(4)]
			R := rng.Range(1, 4)
			per := 4
			steps := rng.Range(20, 120)
			m := kind.mk(rng.Intn(3))
			// pre-populate sometimes
			if rng.Bool() {
				for g := 0; g < G; g++ {
					m.Set(g*per, 1)
				}
			}
			plans := make([][]c19Op, G)
			for g := range plans {
				for i := 0; i < steps; i++ {
					k := g*per + rng.Intn(per)
					switch rng.Intn(10) {
					case 0, 1, 2, 3:
						plans[g] = append(plans[g], c19Op{"Set", k, 0})
					case 4, 5:
						plans[g] = append(plans[g], c19Op{"Delete", k, 0})
					case 6:
						plans[g] = append(plans[g], c19Op{"Update", k, 0})
					case 7:
						plans[g] = append(plans[g], c19Op{"FilterOwn", k, 0})
					case 8:
						plans[g] = append(plans[g], c19Op{"MapOwn", k, 0})
					default:
						plans[g] = append(plans[g], c19Op{"Read", k, 0})
					}
				}
			}
			var start, wg sync.WaitGroup
			start.Add(1)
			finals := make([]*refMap, G)
			var readerProblems sync.Map
			for g := 0; g < G; g++ {
				wg.Add(1)
				go func(g int) {
					defer wg.Done()
					own := &refMap{}
					lo, hi := g*per, (g+1)*per
					if m.Has(lo) {
						own.set(lo, 1)
					}
					start.Wait()
					for i, op := range plans[g] {
						switch op.Op {
						case "Set":
							m.Set(op.Key, i)
							own.set(op.Key, i)
						case "Delete":
							m.Delete(op.Key)
							own.del(op.Key)
						case "Update":
							m.Update(op.Key, func(v int) int { return v + 1 })
							if j := own.idx(op.Key); j >= 0 {
								own.vals[j]++
							}
						case "FilterOwn":
							// removes only this writer's key op.Key
							m.Filter(func(k, v int) bool { return k != op.Key })
							own.del(op.Key)
						case "MapOwn":
							m.Map(func(k, v int) (int, error) {
								if k >= lo && k < hi {
									return v + 1, nil
								}
								return v, nil
							})
							for j := range own.vals {
								own.vals[j]++
							}
						default:
							if v, ok := m.Get(op.Key); ok != (own.idx(op.Key) >= 0) || (ok && v != own.vals[own.idx(op.Key)]) {
								readerProblems.Store(fmt.Sprintf("writer %d reads its own key %d as (%d,%v), wrote %v", g, op.Key, v, ok, own), true)
							}
						}
					}
					finals[g] = own
				}(g)
			}
			for rdr := 0; rdr < R; rdr++ {
				wg.Add(1)
				go func() {
					defer wg.Done()
					start.Wait()
					for i := 0; i < steps; i++ {
						switch i % 5 {
						case 0:
							seen := map[int]bool{}
							m.EachSafe(func(k, v int) {
								if seen[k] {
									readerProblems.Store(fmt.Sprintf("EachSafe visited key %d twice", k), true)
								}
								seen[k] = true
							})
						case 1:
							m.Len()
						case 2:
							m.Find(func(k, v int) bool { return v < 0 })
						case 3:
							if _, err := m.MarshalJSON(); err != nil {
								readerProblems.Store("MarshalJSON: "+err.Error(), true)
							}
						default:
							m.Each(func(k, v int) error { return nil })
						}
					}
				}()
			}
			start.Done()
			wg.Wait()
			// Map on shared entries: MapOwn touches only own values but rewrites every entry
			// with the value it read under the lock, so foreign values are preserved.
			c.Eval(1)
			c.Count("concurrent scenarios", 1)
			c.Count("concurrent operations", G*steps+R*steps)
			c.Distinct(fmt.Sprint("conc", scen, kind.name, rep, G, R, steps))
			problem := ""
			readerProblems.Range(func(k, _ any) bool { problem = k.(string); return false })
			var gotKeys []int
			seen := map[int]bool{}
			m.EachSafe(func(k, v int) {
				if seen[k] {
					problem = fmt.Sprintf("key %d iterated twice at quiescence", k)
				}
				seen[k] = true
				gotKeys = append(gotKeys, k)
			})
			if m.Len() != len(gotKeys) {
				problem = fmt.Sprintf("Len()=%d but %d keys iterated", m.Len(), len(gotKeys))
			}
			total := 0
			for g, own := range finals {
				total += len(own.keys)
				// this writer's surviving keys appear in its own insertion order with its values
				var mine []int
				for _, k := range gotKeys {
					if k >= g*per && k < (g+1)*per {
						mine = append(mine, k)
					}
				}
				if fmt.Sprint(mine) != fmt.Sprint(own.keys) {
					problem = fmt.Sprintf("writer %d: surviving keys iterate as %v, inserted order %v", g, mine, own.keys)
				}
				for j, k := range own.keys {
					if v, ok := m.Get(k); !ok || v != own.vals[j] {
						problem = fmt.Sprintf("writer %d: key %d = (%d,%v), last written %d", g, k, v, ok, own.vals[j])
					}
				}
			}
			if problem == "" && total != len(gotKeys) {
				problem = fmt.Sprintf("%d keys at quiescence, writers left %d", len(gotKeys), total)
			}
			if problem != "" {
				c.Violate("concurrent", map[string]any{"map": kind.name, "scenario": scen, "rep": rep, "unit": c.Unit, "seed": c.Seed, "tier": c.Tier},
					"quiescent state equals what each writer left behind", problem, "ordered map corrupted by concurrent use")
			}
			if scen == 0 && rep == 0 {
				c.Sample("concurrent "+kind.name, map[string]any{"writers": G, "readers": R, "ops_per_goroutine": steps, "plan_of_writer_0": fmt.Sprint(plans[0][:8])})
			}
		}
	}
}

// c19SharedKeys: all goroutines work on the SAME few keys in short bursts (Set / Delete / Update /
// Filter / Has / Len). Which value or key set survives depends on the schedule and is not
// judged; judged are the invariants the statement gives for every state, asserted at the
// quiescent point after each burst: no key iterated twice, Len = number of iterated keys, Has /
// Get agree with the iteration for every key of the pool, Each / EachSafe / MarshalJSON agree
// on the order.
func c19SharedKeys(c *mon.Ctx, rng *mon.Rng, kind mapKind, scen int) {
	const nkeys = 3
	m := kind.mk(rng.Intn(3))
	bursts := 60
	G := []int{2, 4, 8}[rng.Intn(3)]
	for b := 0; b < bursts; b++ {
		// every second burst starts from a map holding all keys, so that removals of the same
		// live key meet
		if b%2 == 0 {
			for k := 0; k < nkeys; k++ {
				m.Set(k, b)
			}
		}
		plans := make([][]c19Op, G)
		for g := range plans {
			n := rng.Range(1, 6)
			for i := 0; i < n; i++ {
				k := rng.Intn(nkeys)
				if b%4 == 0 {
					k = 0 // everybody on one key
				}
				switch rng.Intn(8) {
				case 0, 1, 2:
					plans[g] = append(plans[g], c19Op{"Delete", k, 0})
				case 3, 4:
					plans[g] = append(plans[g], c19Op{"Set", k, g*1000 + i})
				case 5:
					plans[g] = append(plans[g], c19Op{"Update", k, 0})
				case 6:
					plans[g] = append(plans[g], c19Op{"Filter", k, 0})
				default:
					plans[g] = append(plans[g], c19Op{"Has", k, 0})
				}
			}
		}
		var start, wg sync.WaitGroup
		start.Add(1)
		for g := 0; g < G; g++ {
			wg.Add(1)
			go func(plan []c19Op) {
				defer wg.Done()
				start.Wait()
				for _, op := range plan {
					switch op.Op {
					case "Delete":
						m.Delete(op.Key)
					case "Set":
						m.Set(op.Key, op.Arg)
					case "Update":
						m.Update(op.Key, func(v int) int { return v + 1 })
					case "Filter":
						m.Filter(func(k, v int) bool { return k != op.Key })
					default:
						m.Has(op.Key)
						m.Len()
					}
				}
			}(plans[g])
		}
		start.Done()
		wg.Wait()
		c.Count("shared-key bursts (quiescent invariants checked)", 1)
		c.Count("concurrent operations", G*3)
		problem := ""
		var order []int
		seen := map[int]bool{}
		m.EachSafe(func(k, v int) {
			if seen[k] {
				problem = fmt.Sprintf("key %d iterated twice", k)
			}
			seen[k] = true
			order = append(order, k)
		})
		var order2 []int
		m.Each(func(k, v int) error { order2 = append(order2, k); return nil })
		if fmt.Sprint(order) != fmt.Sprint(order2) {
			problem = fmt.Sprintf("EachSafe iterates %v, Each %v", order, order2)
		}
		if m.Len() != len(order) {
			problem = fmt.Sprintf("Len()=%d but %d keys iterated (%v)", m.Len(), len(order), order)
		}
		var vals []int
		for _, k := range order {
			v, _ := m.Get(k)
			vals = append(vals, v)
		}
		for k := 0; k < nkeys; k++ {
			_, ok := m.Get(k)
			if m.Has(k) != seen[k] || ok != seen[k] {
				problem = fmt.Sprintf("key %d: Has=%v Get ok=%v, iterated=%v", k, m.Has(k), ok, seen[k])
			}
		}
		if js, err := m.MarshalJSON(); err != nil {
			problem = "MarshalJSON: " + err.Error()
		} else if want := m.expectJSON(order, vals); problem == "" && string(js) != want {
			problem = fmt.Sprintf("MarshalJSON %s, iteration gives %s", js, want)
		}
		if problem != "" {
			c.Violate("concurrent", map[string]any{"map": kind.name, "scenario": scen, "burst": b, "unit": c.Unit, "seed": c.Seed, "tier": c.Tier, "family": "shared keys"},
				"every quiescent state satisfies the ordered-map invariants", problem, "ordered map corrupted by concurrent use of the same keys")
			return
		}
	}
	c.Eval(1)
	c.Distinct(fmt.Sprint("shared", scen, kind.name, G))
}

func init() {
	mon.Register(&mon.Prop{
		ID:    "C19",
		Level: "exploration",
		Rule: "sequential: every operation sequence over {Set,Update,Delete}x3 keys, 3 Filter predicates and 2 Map transformers up to the tier's length bound " +
			"(quick 5, thorough 6), enumerated exhaustively by prefix, on ASTNodes, RuleASTNodes and (hook) Constraints; after every step Len/Has/Get/GetValue for all keys, " +
			"Each/EachSafe order, Find and MarshalJSON bytes are compared with a slice-of-pairs reference; plus random sequences up to length 200 over 8 keys and all constructor variants. " +
			"Non-trivial = sequence containing a Set followed by a Delete or Filter (exhaustive ones are distinct by construction, random ones are hashed). " +
			"Concurrent: -race build, writers on disjoint keys plus shared readers, race-detector log + quiescent invariants; bursts of goroutines working on the SAME keys with the statement's state invariants asserted at every quiescent point.",
		Assumptions: []string{
			"Update on an absent key is a no-op; Map/Each stop at the first callback error (the natural reading of the generated code's contract)",
			"race freedom is judged only for the schedules the Go runtime produced in this run",
		},
		Exhaustive: func(string) bool { return true },
		Units: func(tier string, seed uint64) int {
			a := len(c19Alphabet(c19NKeys))
			ru, _, _ := c19RandomUnits(tier)
			return a*a + ru + c19RaceUnits(tier)
		},
		Run: c19Run,
		ExeKind: func(tier string, seed uint64, unit int) string {
			a := len(c19Alphabet(c19NKeys))
			ru, _, _ := c19RandomUnits(tier)
			if unit >= a*a+ru {
				return "race"
			}
			return ""
		},
		KindChunk: 4,
		Replay: map[string]func(json.RawMessage) string{
			"sequence": func(raw json.RawMessage) string {
				var cs c19Case
				if err := json.Unmarshal(raw, &cs); err != nil {
					return "bad replay: " + err.Error()
				}
				for _, k := range c19Kinds {
					if k.name == cs.Map {
						if d := c19SeqSafe(k, cs.Variant, cs.NKeys, cs.Ops); d != "" {
							return d
						}
						return "agrees with the reference insertion-ordered map after every step"
					}
				}
				return "map kind " + cs.Map + " unavailable (hook missing)"
			},
		},
		Final: func(ev *mon.Evidence) error {
			if ev.Counters["concurrent scenarios"] == 0 {
				ev.Inconcl["concurrent part did not run (no -race build)"]++
			}
			if len(c19Kinds) < 3 {
				ev.Inconcl["hook vh_cmap unavailable: internal Constraints map not driven"]++
			}
			return nil
		},
	})
}
