package props

// Object pools, operations and result rendering shared by C11 (history / aliasing / map order)
// and C12 (concurrent use). A pool is plain data (texts); building it creates the Go objects.
// Families are what makes sharing visible: every root of a family receives THE SAME user-type
// and enum-rule Go objects via AddType / AddRule.

import (
	"errors"
	"fmt"
	"io"
	"runtime/debug"
	"strconv"
	"strings"

	jschema "github.com/jsightapi/jsight-schema-go-library"
	njs "github.com/jsightapi/jsight-schema-go-library/notations/jschema"
	"github.com/jsightapi/jsight-schema-go-library/notations/regex"
	"github.com/jsightapi/jsight-schema-go-library/rules/enum"

	"verif/internal/lib"
	"verif/internal/mon"
)

type c11Root struct {
	Text    string `json:"schema"`
	OptKeys bool   `json:"keys_optional_by_default,omitempty"`
	// Only, when set, lists the family types this root receives (roots may share base types while
	// each has derived types of its own); empty = all types of the family.
	Only []string `json:"only_types,omitempty"`
	// Override: types this root binds to an object OF ITS OWN built from another text, while the
	// other types (which may name the overridden one) are the family's shared objects
	Override []lib.TypeDef `json:"own_types,omitempty"`
}

// c11Family: roots that share one set of type objects and one set of enum-rule objects.
type c11Family struct {
	Types []lib.TypeDef `json:"types,omitempty"`
	Rules []lib.RuleDef `json:"rules,omitempty"`
	Roots []c11Root     `json:"roots"`
	// FullReg: every type is added to every type as well (the way an API definition holds its
	// TYPEs), so that the type objects are complete schemas and are used as roots themselves
	// (c11Ref kind "type").
	FullReg bool `json:"types_added_to_every_type,omitempty"`
}

type c11Doc struct {
	Text     string `json:"text"`
	Trailing bool   `json:"allow_trailing,omitempty"`
}

type c11Pool struct {
	Families []c11Family `json:"families,omitempty"`
	Docs     []c11Doc    `json:"docs,omitempty"`
	Enums    []string    `json:"enums,omitempty"`
	Regexes  []string    `json:"regexes,omitempty"`
}

// c11Ref addresses one pooled object.
type c11Ref struct {
	Kind string `json:"kind"` // schema | type (a family's type object used as a schema) | doc | enum | regex
	Fam  int    `json:"family,omitempty"`
	Idx  int    `json:"index"`
}

func (r c11Ref) String() string {
	if r.Kind == "schema" {
		return fmt.Sprintf("schema[%d.%d]", r.Fam, r.Idx)
	}
	if r.Kind == "type" {
		return fmt.Sprintf("type[%d.%d]", r.Fam, r.Idx)
	}
	return fmt.Sprintf("%s[%d]", r.Kind, r.Idx)
}

// c11Op is one public operation. Doc names the pooled document text Validate runs on (a new
// Document object every time); Pre: that new Document is Check()ed first (a history on it).
type c11Op struct {
	On  c11Ref `json:"on"`
	Op  string `json:"op"`
	Doc int    `json:"doc,omitempty"`
	Pre bool   `json:"doc_checked_first,omitempty"`
	// Pooled: Validate runs on the pooled Document OBJECT itself (lexemes may have been read
	// from it, other schemas may have validated it) instead of a new one.
	Pooled bool `json:"pooled_doc,omitempty"`
}

func (o c11Op) String() string {
	s := o.On.String() + "." + o.Op
	if o.Op == "Next3" && o.Doc > 0 {
		s += "(first " + strconv.Itoa(o.Doc) + " lexemes)"
	}
	if o.Op == "Validate" {
		s += "(doc " + strconv.Itoa(o.Doc)
		if o.Pre {
			s += ", checked first"
		}
		if o.Pooled {
			s += ", the pooled Document object"
		}
		s += ")"
	}
	return s
}

// ---- built objects ----

type c11FamObjs struct {
	types map[string]jschema.Schema
	rules map[string]*enum.Enum
	roots []*njs.Schema
	// built[i]: root i exists (roots are built lazily in "only" mode)
}

type c11Objs struct {
	pool    *c11Pool
	fams    []*c11FamObjs
	docs    []jschema.Document
	used    []bool // document cursor moved by NextLexeme
	enums   []*enum.Enum
	regexes []*regex.Schema
}

func c11Guard(what string, f func()) (pan string) {
	defer func() {
		if r := recover(); r != nil {
			pan = fmt.Sprintf("panic in %s: %v\n%s", what, r, debug.Stack())
		}
	}()
	f()
	return ""
}

// c11BuildFamily creates the shared type/rule objects and the requested roots (all when only<0).
// Construction follows the documented order: rules first, then types; the enum rules are added
// to every JSight type as well (a type text may say {enum: "@name"}).
func c11BuildFamily(f *c11Family, only int) *c11FamObjs {
	fo := &c11FamObjs{types: map[string]jschema.Schema{}, rules: map[string]*enum.Enum{}, roots: make([]*njs.Schema, len(f.Roots))}
	c11Guard("construction", func() {
		for _, r := range f.Rules {
			fo.rules[r.Name] = enum.New(r.Name, r.Text)
		}
		for _, t := range f.Types {
			if t.Regex {
				fo.types[t.Name] = regex.New(t.Name, t.Text)
				continue
			}
			ts := njs.New(t.Name, t.Text)
			for _, r := range f.Rules {
				_ = ts.AddRule(r.Name, fo.rules[r.Name])
			}
			for _, o := range t.Own {
				if o.Regex {
					_ = ts.AddType(o.Name, regex.New(o.Name, o.Text))
				} else {
					_ = ts.AddType(o.Name, njs.New(o.Name, o.Text))
				}
			}
			fo.types[t.Name] = ts
		}
		if f.FullReg {
			for _, t := range f.Types {
				ts, ok := fo.types[t.Name].(*njs.Schema)
				if !ok {
					continue
				}
				for _, u := range f.Types {
					_ = ts.AddType(u.Name, fo.types[u.Name])
				}
			}
		}
	})
	for i := range f.Roots {
		if only >= 0 && i != only {
			continue
		}
		fo.roots[i] = c11BuildRoot(f, fo, i)
	}
	return fo
}

func c11BuildRoot(f *c11Family, fo *c11FamObjs, i int) *njs.Schema {
	var s *njs.Schema
	c11Guard("construction", func() {
		var opts []njs.Option
		if f.Roots[i].OptKeys {
			opts = append(opts, njs.KeysAreOptionalByDefault())
		}
		s = njs.New("root", f.Roots[i].Text, opts...)
		for _, r := range f.Rules {
			_ = s.AddRule(r.Name, fo.rules[r.Name])
		}
		for _, t := range f.Types {
			if only := f.Roots[i].Only; len(only) > 0 {
				keep := false
				for _, n := range only {
					keep = keep || n == t.Name
				}
				if !keep {
					continue
				}
			}
			own := false
			for _, ov := range f.Roots[i].Override {
				if ov.Name == t.Name {
					own = true
					_ = s.AddType(t.Name, njs.New(t.Name, ov.Text))
				}
			}
			if own {
				continue
			}
			if ts := fo.types[t.Name]; ts != nil {
				_ = s.AddType(t.Name, ts) // a failing AddType leaves the type out: same on fresh objects
			}
		}
	})
	return s
}

func c11NewDoc(d c11Doc) jschema.Document { return lib.Doc(d.Text, d.Trailing) }

func c11Build(p *c11Pool) *c11Objs {
	o := &c11Objs{pool: p}
	for i := range p.Families {
		o.fams = append(o.fams, c11BuildFamily(&p.Families[i], -1))
	}
	for _, d := range p.Docs {
		o.docs = append(o.docs, c11NewDoc(d))
	}
	o.used = make([]bool, len(p.Docs))
	for i, e := range p.Enums {
		o.enums = append(o.enums, enum.New("enum"+strconv.Itoa(i), e))
	}
	for i, r := range p.Regexes {
		o.regexes = append(o.regexes, regex.New("regex"+strconv.Itoa(i), r))
	}
	return o
}

// c11Fresh builds only what one operation needs, from scratch: for a schema its whole family's
// type and rule objects plus that one root.
func c11Fresh(p *c11Pool, on c11Ref) *c11Objs {
	o := &c11Objs{pool: p, fams: make([]*c11FamObjs, len(p.Families)), docs: make([]jschema.Document, len(p.Docs)),
		used: make([]bool, len(p.Docs)), enums: make([]*enum.Enum, len(p.Enums)), regexes: make([]*regex.Schema, len(p.Regexes))}
	switch on.Kind {
	case "schema":
		o.fams[on.Fam] = c11BuildFamily(&p.Families[on.Fam], on.Idx)
	case "type":
		o.fams[on.Fam] = c11BuildFamily(&p.Families[on.Fam], len(p.Families[on.Fam].Roots)) // the types, no root
	case "doc":
		o.docs[on.Idx] = c11NewDoc(p.Docs[on.Idx])
	case "enum":
		o.enums[on.Idx] = enum.New("enum"+strconv.Itoa(on.Idx), p.Enums[on.Idx])
	case "regex":
		o.regexes[on.Idx] = regex.New("regex"+strconv.Itoa(on.Idx), p.Regexes[on.Idx])
	}
	return o
}

// ---- handed-out values (aliasing monitor) ----

type c11Handed struct {
	What   string
	Snap   string
	Render func() string
}

func c11Hand(what string, render func() string) c11Handed {
	h := c11Handed{What: what, Render: func() (s string) {
		defer func() {
			if r := recover(); r != nil {
				s = fmt.Sprintf("<panic while reading the value: %v>", r)
			}
		}()
		return render()
	}}
	h.Snap = h.Render()
	return h
}

// ---- rendering ----

func c11Err(err error) string {
	if err == nil {
		return "ok"
	}
	o := lib.Observe(err)
	// a position is relative to a source: the file the error names belongs to the result
	file := ""
	var f interface{ Filename() string }
	if errors.As(err, &f) {
		file = f.Filename()
	}
	// the text of the error belongs to the error value: it is compared with the text the same
	// operation gives on fresh objects / under another map order (never with a text of ours)
	return fmt.Sprintf("error(code=%d pos=%d file=%q type=%s text#%08x)", o.Code, o.Pos, file, o.ErrType, uint32(mon.HashString(c07SafeSprint(err))))
}

func c11ErrText(err error) func() string {
	return func() string {
		o := lib.Observe(err)
		return fmt.Sprintf("code=%d pos=%d text=%q", o.Code, o.Pos, err.Error())
	}
}

func c11Rules(sb *strings.Builder, rs *jschema.RuleASTNodes) {
	if rs == nil {
		sb.WriteString("nil")
		return
	}
	sb.WriteByte('{')
	first := true
	rs.EachSafe(func(k string, v jschema.RuleASTNode) {
		if !first {
			sb.WriteByte(',')
		}
		first = false
		sb.WriteString(strconv.Quote(k))
		sb.WriteByte(':')
		c11Rule(sb, v)
	})
	sb.WriteByte('}')
}

func c11Rule(sb *strings.Builder, r jschema.RuleASTNode) {
	fmt.Fprintf(sb, "(tt=%v val=%q cmt=%q src=%v", r.TokenType, r.Value, r.Comment, r.Source)
	if r.Properties != nil {
		sb.WriteString(" props=")
		c11Rules(sb, r.Properties)
	}
	if r.Items != nil {
		sb.WriteString(" items=[")
		for i, it := range r.Items {
			if i > 0 {
				sb.WriteByte(',')
			}
			c11Rule(sb, it)
		}
		sb.WriteByte(']')
	}
	sb.WriteByte(')')
}

func c11ASTInto(sb *strings.Builder, n jschema.ASTNode) {
	fmt.Fprintf(sb, "(tt=%v st=%q key=%q short=%v val=%q cmt=%q rules=", n.TokenType, n.SchemaType, n.Key, n.IsKeyShortcut, n.Value, n.Comment)
	c11Rules(sb, n.Rules)
	if n.Children != nil {
		sb.WriteString(" children=[")
		for i, c := range n.Children {
			if i > 0 {
				sb.WriteByte(',')
			}
			c11ASTInto(sb, c)
		}
		sb.WriteByte(']')
	}
	sb.WriteByte(')')
}

func c11AST(n jschema.ASTNode) string {
	var sb strings.Builder
	c11ASTInto(&sb, n)
	return sb.String()
}

func c11Values(vs []enum.Value) string {
	var sb strings.Builder
	sb.WriteByte('[')
	for i, v := range vs {
		if i > 0 {
			sb.WriteByte(',')
		}
		fmt.Fprintf(&sb, "(%q %q %q)", v.Type, string(v.Value), v.Comment)
	}
	sb.WriteByte(']')
	return sb.String()
}

// ---- execution ----

var c11SchemaOps = []string{"Len", "Check", "Example", "GetAST", "UsedUserTypes", "Validate"}
var c11DocOps = []string{"Check", "Len", "Drain", "Next3"}
var c11EnumOps = []string{"Check", "Len", "Values", "GetAST"}
var c11RegexOps = []string{"Check", "Len", "Pattern", "Example", "GetAST"}

// c11Legal: a document whose cursor was moved by NextLexeme no longer takes Drain/Next3 (a
// Document is a cursor: only a drain started at the beginning is history independent).
func (o *c11Objs) c11Legal(op c11Op) bool {
	if op.On.Kind == "doc" && (op.Op == "Drain" || op.Op == "Next3") {
		return !o.used[op.On.Idx]
	}
	return true
}

// c11Exec runs one operation and returns the comparable rendering of its result plus the values
// it handed out. The error text enters as a hash (library against library, never against a text of ours).
func c11Exec(o *c11Objs, op c11Op) (res string, handed []c11Handed) {
	pan := c11Guard(op.String(), func() {
		res, handed = c11ExecRaw(o, op)
	})
	if pan != "" {
		return "panic: " + strings.SplitN(pan, "\n", 2)[0], nil
	}
	return res, handed
}

func c11ExecRaw(o *c11Objs, op c11Op) (res string, handed []c11Handed) {
	tag := op.String()
	handErr := func(err error) {
		if err != nil {
			handed = append(handed, c11Hand("error returned by "+tag, c11ErrText(err)))
		}
	}
	switch op.On.Kind {
	case "schema", "type":
		var s *njs.Schema
		if op.On.Kind == "schema" {
			s = o.fams[op.On.Fam].roots[op.On.Idx]
		} else {
			s, _ = o.fams[op.On.Fam].types[o.pool.Families[op.On.Fam].Types[op.On.Idx].Name].(*njs.Schema)
		}
		switch op.Op {
		case "Len":
			n, err := s.Len()
			handErr(err)
			return fmt.Sprintf("%s len=%d", c11Err(err), n), handed
		case "Check":
			err := s.Check()
			handErr(err)
			return c11Err(err), handed
		case "Example":
			b, err := s.Example()
			handErr(err)
			if b != nil {
				handed = append(handed, c11Hand("bytes returned by "+tag, func() string { return string(b) }))
			}
			return fmt.Sprintf("%s example=%q", c11Err(err), b), handed
		case "GetAST":
			a, err := s.GetAST()
			handErr(err)
			handed = append(handed, c11Hand("AST returned by "+tag, func() string { return c11AST(a) }))
			return fmt.Sprintf("%s ast=%s", c11Err(err), c11AST(a)), handed
		case "UsedUserTypes":
			u, err := s.UsedUserTypes()
			handErr(err)
			if u != nil {
				handed = append(handed, c11Hand("[]string returned by "+tag, func() string { return fmt.Sprintf("%q", u) }))
			}
			return fmt.Sprintf("%s used=%q", c11Err(err), u), handed
		case "Validate":
			d := c11NewDoc(o.pool.Docs[op.Doc])
			if op.Pooled {
				// where the cursor stands afterwards is Validate's business: further reads of
				// this object are not judged
				if o.docs[op.Doc] == nil { // the reference run builds only what the operation names
					o.docs[op.Doc] = c11NewDoc(o.pool.Docs[op.Doc])
				}
				d = o.docs[op.Doc]
				o.used[op.Doc] = true
			}
			if op.Pre {
				_ = d.Check()
				_, _ = d.Len()
			}
			err := s.Validate(d)
			if op.Pooled {
				// Validate reads the whole document and rewinds it before and after (like
				// Check and Len): a read of the pooled object afterwards starts at the beginning
				// and must deliver what a fresh Document delivers. (A schema that does not
				// compile answers before it touches the document: the cursor stays unjudged.)
				var f interface{ Filename() string }
				if err == nil || (errors.As(err, &f) && f.Filename() == "doc") {
					o.used[op.Doc] = false
				}
			}
			handErr(err)
			return c11Err(err), handed
		}
	case "doc":
		d := o.docs[op.On.Idx]
		switch op.Op {
		case "Check":
			err := d.Check()
			handErr(err)
			return c11Err(err), handed
		case "Len":
			n, err := d.Len()
			handErr(err)
			return fmt.Sprintf("%s len=%d", c11Err(err), n), handed
		case "Drain", "Next3":
			o.used[op.On.Idx] = true
			limit := 8*len(o.pool.Docs[op.On.Idx].Text) + 64
			if op.Op == "Next3" {
				limit = 3
				if op.Doc > 0 {
					limit = op.Doc // random histories: stop after 1..9 lexemes
				}
			}
			var sb strings.Builder
			for n := 0; n < limit; n++ {
				lex, err := d.NextLexeme()
				if err != nil {
					if errors.Is(err, io.EOF) {
						sb.WriteString(" eof")
					} else {
						handErr(err)
						sb.WriteString(" " + c11Err(err))
					}
					break
				}
				fmt.Fprintf(&sb, " %s[%d:%d]", lex.Type().String(), lex.Begin(), lex.End())
				if n < 4 {
					l := lex
					handed = append(handed, c11Hand("lexeme returned by "+tag, func() string {
						return fmt.Sprintf("%s[%d:%d]=%q", l.Type().String(), l.Begin(), l.End(), string(l.Value()))
					}))
				}
			}
			return "lexemes:" + sb.String(), handed
		}
	case "enum":
		e := o.enums[op.On.Idx]
		switch op.Op {
		case "Check":
			err := e.Check()
			handErr(err)
			return c11Err(err), handed
		case "Len":
			n, err := e.Len()
			handErr(err)
			return fmt.Sprintf("%s len=%d", c11Err(err), n), handed
		case "Values":
			vs, err := e.Values()
			handErr(err)
			if vs != nil {
				handed = append(handed, c11Hand("values returned by "+tag, func() string { return c11Values(vs) }))
			}
			return fmt.Sprintf("%s values=%s", c11Err(err), c11Values(vs)), handed
		case "GetAST":
			a, err := e.GetAST()
			handErr(err)
			handed = append(handed, c11Hand("AST returned by "+tag, func() string { return c11AST(a) }))
			return fmt.Sprintf("%s ast=%s", c11Err(err), c11AST(a)), handed
		}
	case "regex":
		r := o.regexes[op.On.Idx]
		switch op.Op {
		case "Check":
			err := r.Check()
			handErr(err)
			return c11Err(err), handed
		case "Len":
			n, err := r.Len()
			handErr(err)
			return fmt.Sprintf("%s len=%d", c11Err(err), n), handed
		case "Pattern":
			p, err := r.Pattern()
			handErr(err)
			return fmt.Sprintf("%s pattern=%q", c11Err(err), p), handed
		case "Example":
			b, err := r.Example()
			handErr(err)
			if b != nil {
				handed = append(handed, c11Hand("bytes returned by "+tag, func() string { return string(b) }))
			}
			return fmt.Sprintf("%s example=%q", c11Err(err), b), handed
		case "GetAST":
			a, err := r.GetAST()
			handErr(err)
			handed = append(handed, c11Hand("AST returned by "+tag, func() string { return c11AST(a) }))
			return fmt.Sprintf("%s ast=%s", c11Err(err), c11AST(a)), handed
		}
	}
	return "unknown operation " + tag, nil
}

// c11AllOps lists every operation available on the pool (Validate once per pooled document,
// plain and with the document checked first for the first document).
func c11AllOps(p *c11Pool, refs []c11Ref) []c11Op {
	var out []c11Op
	for _, r := range refs {
		switch r.Kind {
		case "schema", "type":
			for _, op := range c11SchemaOps {
				if op != "Validate" {
					out = append(out, c11Op{On: r, Op: op})
					continue
				}
				for d := range p.Docs {
					out = append(out, c11Op{On: r, Op: op, Doc: d})
				}
				if len(p.Docs) > 0 {
					out = append(out, c11Op{On: r, Op: op, Doc: 0, Pre: true})
					out = append(out, c11Op{On: r, Op: op, Doc: 0, Pooled: true})
				}
			}
		case "doc":
			for _, op := range c11DocOps {
				out = append(out, c11Op{On: r, Op: op})
			}
		case "enum":
			for _, op := range c11EnumOps {
				out = append(out, c11Op{On: r, Op: op})
			}
		case "regex":
			for _, op := range c11RegexOps {
				out = append(out, c11Op{On: r, Op: op})
			}
		}
	}
	return out
}

func c11Refs(p *c11Pool) []c11Ref {
	var out []c11Ref
	for f := range p.Families {
		for i := range p.Families[f].Roots {
			out = append(out, c11Ref{Kind: "schema", Fam: f, Idx: i})
		}
		if p.Families[f].FullReg {
			for i, t := range p.Families[f].Types {
				if !t.Regex {
					out = append(out, c11Ref{Kind: "type", Fam: f, Idx: i})
				}
			}
		}
	}
	for i := range p.Docs {
		out = append(out, c11Ref{Kind: "doc", Idx: i})
	}
	for i := range p.Enums {
		out = append(out, c11Ref{Kind: "enum", Idx: i})
	}
	for i := range p.Regexes {
		out = append(out, c11Ref{Kind: "regex", Idx: i})
	}
	return out
}
