//go:build !vh_once

package props

// Fallback without hook H7 (vh_once): the once wrappers are internal, so their Do-histories
// cannot be recorded; the schema-level monitors of c12.go still decide.

import (
	"encoding/json"

	"verif/internal/mon"
)

func c12RunOnceHistories(c *mon.Ctx, n int) {
	c.Inconclusive("hook vh_once unavailable: Do-histories of the once wrappers not recorded")
}

func c12ReplayOnce(raw json.RawMessage) string {
	return "hook vh_once unavailable"
}
