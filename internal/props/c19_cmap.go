//go:build vh_cmap

package props

import (
	"encoding/json"
	"strings"

	njs "github.com/jsightapi/jsight-schema-go-library/notations/jschema"
)

// cmapAdapter drives the internal schema.Constraints map through hook H5 (vh_cmap).
type cmapAdapter struct{ *njs.VerifCMap }

func (a cmapAdapter) expectJSON(keys, vals []int) string {
	var sb strings.Builder
	sb.WriteByte('{')
	for i := range keys {
		if i > 0 {
			sb.WriteByte(',')
		}
		kb, _ := json.Marshal(keys[i])
		sb.Write(kb)
		sb.WriteString(":{}")
	}
	sb.WriteByte('}')
	return sb.String()
}

func init() {
	c19Kinds = append(c19Kinds, mapKind{"Constraints", func(int) omap { return cmapAdapter{njs.NewVerifCMap()} }})
}
