package props

// C07 static part — "message templates and argument lists agree at every error construction
// site and every error code has a template".
//
// The site table is extracted from the CURRENT source tree ($VERIF_REPO, default /repo) with
// go/parser; the verdict comes from executing the library's own formatter (the harness links
// the same tree): errors.Format(code, n dummy args).Error() for every Format call,
// code.Error() for every bare errors.ErrXxx used as an error value, and a template lookup for
// every ErrorCode constant.

import (
	"encoding/json"
	"fmt"
	"go/ast"
	"go/parser"
	"go/token"
	"os"
	"path/filepath"
	"sort"
	"strconv"
	"strings"

	liberrors "github.com/jsightapi/jsight-schema-go-library/errors"

	"verif/internal/mon"
)

const c07Module = "github.com/jsightapi/jsight-schema-go-library"

func c07RepoDir() string {
	if d := os.Getenv("VERIF_REPO"); d != "" {
		return d
	}
	return "/repo"
}

// c07Site is one construction site (or constant) to replay.
type c07Site struct {
	Kind  string `json:"kind"` // format | value | const
	Name  string `json:"code_name"`
	Code  int    `json:"code"`
	NArgs int    `json:"args"`
	Where string `json:"where"`
}

const c07SiteExpected = "renders without panicking"

// c07ReplaySiteCase executes one site against the real formatter.
func c07ReplaySiteCase(s c07Site) (res string) {
	defer func() {
		if r := recover(); r != nil {
			res = "panic: " + oneLineC07(fmt.Sprint(r))
		}
	}()
	code := liberrors.ErrorCode(s.Code)
	var text string
	switch s.Kind {
	case "format":
		args := make([]interface{}, s.NArgs)
		for i := range args {
			args[i] = "x"
		}
		text = liberrors.Format(code, args...).Error()
	case "value":
		text = code.Error()
	case "const":
		// has a template: formatting with no arguments may complain about the arity, but must
		// know the code
		func() {
			defer func() {
				if r := recover(); r != nil {
					if strings.Contains(fmt.Sprint(r), "Unknown error code") {
						panic(r)
					}
					text = "template present"
				}
			}()
			text = liberrors.Format(code).Error()
		}()
		_ = code.Itoa()
	}
	if strings.Contains(text, "%!") {
		return "template and arguments disagree: " + oneLineC07(text)
	}
	return c07SiteExpected
}

func c07ReplaySite(raw json.RawMessage) string {
	var s c07Site
	if err := json.Unmarshal(raw, &s); err != nil {
		return "bad replay: " + err.Error()
	}
	return c07ReplaySiteCase(s)
}

type c07Func struct {
	params  []c07Param // flattened
	results []string
	decl    *ast.FuncDecl
	pkgDir  string
}

type c07Param struct {
	name, typ string
	variadic  bool
}

type c07File struct {
	rel     string
	pkgDir  string
	ast     *ast.File
	errName string            // local name of the library's errors package ("" = not imported; "." = this is the package)
	imports map[string]string // local name -> package dir relative to the repo (library packages only)
}

type c07Forwarder struct {
	param int
	nargs int
	where string
}

func c07TypeString(e ast.Expr) string {
	switch t := e.(type) {
	case *ast.Ident:
		return t.Name
	case *ast.SelectorExpr:
		return c07TypeString(t.X) + "." + t.Sel.Name
	case *ast.StarExpr:
		return "*" + c07TypeString(t.X)
	case *ast.InterfaceType:
		if t.Methods == nil || len(t.Methods.List) == 0 {
			return "interface{}"
		}
		return "interface{...}"
	case *ast.Ellipsis:
		return c07TypeString(t.Elt)
	case *ast.ArrayType:
		return "[]" + c07TypeString(t.Elt)
	}
	return "?"
}

func c07IsCodeType(t string) bool { return t == "ErrorCode" || strings.HasSuffix(t, ".ErrorCode") }
func c07IsErrValueType(t string) bool {
	switch t {
	case "error", "Err", "errors.Err", "interface{}", "any":
		return true
	}
	return strings.HasSuffix(t, ".Err")
}

func c07Flatten(fl *ast.FieldList) []c07Param {
	var out []c07Param
	if fl == nil {
		return nil
	}
	for _, f := range fl.List {
		_, variadic := f.Type.(*ast.Ellipsis)
		ts := c07TypeString(f.Type)
		if len(f.Names) == 0 {
			out = append(out, c07Param{"", ts, variadic})
		}
		for _, n := range f.Names {
			out = append(out, c07Param{n.Name, ts, variadic})
		}
	}
	return out
}

// c07RunSites extracts and replays the site table.
func c07RunSites(c *mon.Ctx) {
	repo := c07RepoDir()
	fset := token.NewFileSet()
	var files []*c07File
	err := filepath.Walk(repo, func(path string, info os.FileInfo, err error) error {
		if err != nil {
			return err
		}
		if info.IsDir() {
			base := info.Name()
			if path != repo && (strings.HasPrefix(base, ".") || base == "testdata" || base == "vendor") {
				return filepath.SkipDir
			}
			return nil
		}
		if !strings.HasSuffix(path, ".go") || strings.HasSuffix(path, "_test.go") {
			return nil
		}
		f, perr := parser.ParseFile(fset, path, nil, parser.SkipObjectResolution)
		if perr != nil {
			c.Inconclusive("site extraction: cannot parse " + strings.TrimPrefix(path, repo+"/"))
			return nil
		}
		rel, _ := filepath.Rel(repo, path)
		cf := &c07File{rel: rel, pkgDir: filepath.Dir(rel), ast: f, imports: map[string]string{}}
		if cf.pkgDir == "errors" {
			cf.errName = "."
		}
		for _, im := range f.Imports {
			p, _ := strconv.Unquote(im.Path.Value)
			if p != c07Module && !strings.HasPrefix(p, c07Module+"/") {
				continue
			}
			dir := strings.TrimPrefix(strings.TrimPrefix(p, c07Module), "/")
			if dir == "" {
				dir = "."
			}
			local := filepath.Base(p)
			if im.Name != nil {
				local = im.Name.Name
			}
			cf.imports[local] = dir
			if dir == "errors" {
				cf.errName = local
			}
		}
		files = append(files, cf)
		return nil
	})
	if err != nil || len(files) == 0 {
		c.Inconclusive("site extraction: source tree " + repo + " not readable")
		return
	}

	// constants of type ErrorCode
	consts := map[string]int{}
	var constOrder []string
	unresolvedConst := 0
	for _, cf := range files {
		if cf.pkgDir != "errors" {
			continue
		}
		for _, d := range cf.ast.Decls {
			gd, ok := d.(*ast.GenDecl)
			if !ok || gd.Tok != token.CONST {
				continue
			}
			for _, sp := range gd.Specs {
				vs := sp.(*ast.ValueSpec)
				if vs.Type == nil || !c07IsCodeType(c07TypeString(vs.Type)) {
					continue
				}
				for i, n := range vs.Names {
					if i < len(vs.Values) {
						if bl, ok := vs.Values[i].(*ast.BasicLit); ok && bl.Kind == token.INT {
							if v, err := strconv.ParseInt(bl.Value, 0, 64); err == nil {
								consts[n.Name] = int(v)
								constOrder = append(constOrder, n.Name)
								continue
							}
						}
					}
					unresolvedConst++
				}
			}
		}
	}
	if unresolvedConst > 0 {
		c.Inconclusive(fmt.Sprintf("site extraction: %d ErrorCode constants are not integer literals", unresolvedConst))
	}

	// function table
	funcs := map[string][]*c07Func{} // name -> declarations
	for _, cf := range files {
		for _, d := range cf.ast.Decls {
			if fd, ok := d.(*ast.FuncDecl); ok {
				funcs[fd.Name.Name] = append(funcs[fd.Name.Name], &c07Func{
					params: c07Flatten(fd.Type.Params), results: c07Flatten2(fd.Type.Results), decl: fd, pkgDir: cf.pkgDir})
			}
		}
	}
	lookup := func(cf *c07File, fun ast.Expr) *c07Func {
		name, dir := "", cf.pkgDir
		switch f := fun.(type) {
		case *ast.Ident:
			name = f.Name
		case *ast.SelectorExpr:
			name = f.Sel.Name
			if x, ok := f.X.(*ast.Ident); ok {
				if d, ok := cf.imports[x.Name]; ok {
					dir = d
				}
			}
		case *ast.IndexExpr: // generic instantiation
			return nil
		}
		var inDir, all []*c07Func
		for _, fn := range funcs[name] {
			all = append(all, fn)
			if fn.pkgDir == dir {
				inDir = append(inDir, fn)
			}
		}
		if len(inDir) == 1 {
			return inDir[0]
		}
		if len(inDir) == 0 && len(all) == 1 {
			return all[0]
		}
		return nil
	}
	paramAt := func(fn *c07Func, idx int) (c07Param, bool) {
		if idx < len(fn.params) {
			return fn.params[idx], true
		}
		if n := len(fn.params); n > 0 && fn.params[n-1].variadic {
			return fn.params[n-1], true
		}
		return c07Param{}, false
	}

	// constant reference: errors.ErrXxx (or ErrXxx inside the errors package)
	constOf := func(cf *c07File, e ast.Expr) (string, bool) {
		switch x := e.(type) {
		case *ast.SelectorExpr:
			if id, ok := x.X.(*ast.Ident); ok && cf.errName != "" && cf.errName != "." && id.Name == cf.errName {
				if _, ok := consts[x.Sel.Name]; ok {
					return x.Sel.Name, true
				}
			}
		case *ast.Ident:
			if cf.errName == "." {
				if _, ok := consts[x.Name]; ok {
					return x.Name, true
				}
			}
		}
		return "", false
	}
	isFormat := func(cf *c07File, call *ast.CallExpr) bool {
		switch f := call.Fun.(type) {
		case *ast.SelectorExpr:
			id, ok := f.X.(*ast.Ident)
			return ok && cf.errName != "" && cf.errName != "." && id.Name == cf.errName && f.Sel.Name == "Format"
		case *ast.Ident:
			return cf.errName == "." && f.Name == "Format"
		}
		return false
	}
	pos := func(cf *c07File, n ast.Node) string {
		return fmt.Sprintf("%s:%d", cf.rel, fset.Position(n.Pos()).Line)
	}

	var sites []c07Site
	forwarders := map[*ast.FuncDecl][]c07Forwarder{}
	type pending struct {
		cf   *c07File
		call *ast.CallExpr
		idx  int
		name string
	}
	var codeArgs []pending

	// pass 1: Format calls (sites and forwarders)
	for _, cf := range files {
		var stack []ast.Node
		ast.Inspect(cf.ast, func(n ast.Node) bool {
			if n == nil {
				stack = stack[:len(stack)-1]
				return true
			}
			stack = append(stack, n)
			call, ok := n.(*ast.CallExpr)
			if !ok || !isFormat(cf, call) || len(call.Args) == 0 {
				return true
			}
			c.Count("sites: Format calls found", 1)
			if call.Ellipsis != token.NoPos {
				c.Inconclusive("site " + pos(cf, call) + ": argument list is a variadic spread")
				return true
			}
			nargs := len(call.Args) - 1
			if name, ok := constOf(cf, call.Args[0]); ok {
				sites = append(sites, c07Site{"format", name, consts[name], nargs, pos(cf, call)})
				return true
			}
			// dynamic code: a parameter of the enclosing function, or a struct field that a
			// constructor of the same package fills from its parameter
			var encl *ast.FuncDecl
			for i := len(stack) - 1; i >= 0; i-- {
				if fd, ok := stack[i].(*ast.FuncDecl); ok {
					encl = fd
					break
				}
			}
			resolved := false
			switch a := call.Args[0].(type) {
			case *ast.Ident:
				if encl != nil {
					for i, p := range c07Flatten(encl.Type.Params) {
						if p.name == a.Name && c07IsCodeType(p.typ) {
							forwarders[encl] = append(forwarders[encl], c07Forwarder{i, nargs, pos(cf, call)})
							resolved = true
						}
					}
				}
			case *ast.SelectorExpr:
				field := a.Sel.Name
				for _, other := range files {
					if other.pkgDir != cf.pkgDir {
						continue
					}
					for _, d := range other.ast.Decls {
						fd, ok := d.(*ast.FuncDecl)
						if !ok || fd.Body == nil {
							continue
						}
						ps := c07Flatten(fd.Type.Params)
						ast.Inspect(fd.Body, func(m ast.Node) bool {
							kv, ok := m.(*ast.KeyValueExpr)
							if !ok {
								return true
							}
							k, ok1 := kv.Key.(*ast.Ident)
							v, ok2 := kv.Value.(*ast.Ident)
							if ok1 && ok2 && k.Name == field {
								for i, p := range ps {
									if p.name == v.Name && c07IsCodeType(p.typ) {
										forwarders[fd] = append(forwarders[fd], c07Forwarder{i, nargs, pos(cf, call)})
										resolved = true
									}
								}
							}
							return true
						})
					}
				}
			}
			if !resolved {
				c.Inconclusive("site " + pos(cf, call) + ": error code is not static")
			} else {
				c.Count("sites: Format calls with a forwarded code", 1)
			}
			return true
		})
	}

	// pass 2: every other use of a constant
	for _, cf := range files {
		var stack []ast.Node
		ast.Inspect(cf.ast, func(n ast.Node) bool {
			if n == nil {
				stack = stack[:len(stack)-1]
				return true
			}
			stack = append(stack, n)
			e, ok := n.(ast.Expr)
			if !ok {
				return true
			}
			name, ok := constOf(cf, e)
			if !ok {
				return true
			}
			// returning false: Inspect will not call f(nil) for this node, so pop it here
			skip := func() bool { stack = stack[:len(stack)-1]; return false }
			if len(stack) < 2 {
				return skip()
			}
			parent := stack[len(stack)-2]
			if _, isIdent := n.(*ast.Ident); isIdent {
				if sel, ok := parent.(*ast.SelectorExpr); ok && sel.Sel == n {
					return skip() // the Sel part of pkg.Name, handled at the selector
				}
			}
			c.Count("sites: uses of ErrorCode constants", 1)
			switch p := parent.(type) {
			case *ast.CallExpr:
				idx := -1
				for i, a := range p.Args {
					if a == e {
						idx = i
					}
				}
				if idx < 0 {
					return skip()
				}
				if isFormat(cf, p) {
					return skip() // pass 1
				}
				if id, ok := p.Fun.(*ast.Ident); ok && id.Name == "panic" {
					sites = append(sites, c07Site{"value", name, consts[name], 0, pos(cf, e)})
					return skip()
				}
				codeArgs = append(codeArgs, pending{cf, p, idx, name})
			case *ast.ReturnStmt:
				idx := -1
				for i, a := range p.Results {
					if a == e {
						idx = i
					}
				}
				var results []c07Param
				for i := len(stack) - 1; i >= 0; i-- {
					if fd, ok := stack[i].(*ast.FuncDecl); ok {
						results = c07Flatten(fd.Type.Results)
						break
					}
					if fl, ok := stack[i].(*ast.FuncLit); ok {
						results = c07Flatten(fl.Type.Results)
						break
					}
				}
				switch {
				case idx >= 0 && idx < len(results) && c07IsErrValueType(results[idx].typ):
					sites = append(sites, c07Site{"value", name, consts[name], 0, pos(cf, e)})
				case idx >= 0 && idx < len(results) && c07IsCodeType(results[idx].typ):
					c.Count("sites: constants used as plain codes (returned, compared, table keys)", 1)
				default:
					c.Inconclusive("site " + pos(cf, e) + ": cannot tell how the returned constant is used")
				}
			case *ast.BinaryExpr, *ast.CaseClause, *ast.ValueSpec, *ast.SwitchStmt:
				c.Count("sites: constants used as plain codes (returned, compared, table keys)", 1)
			case *ast.KeyValueExpr:
				if p.Key == e {
					c.Count("sites: constants used as plain codes (returned, compared, table keys)", 1)
				} else {
					c.Inconclusive("site " + pos(cf, e) + ": constant stored in a composite literal")
				}
			default:
				c.Inconclusive(fmt.Sprintf("site %s: constant used in a %T", pos(cf, e), parent))
			}
			return skip()
		})
	}
	for _, pa := range codeArgs {
		fn := lookup(pa.cf, pa.call.Fun)
		if fn == nil {
			c.Inconclusive("site " + pos(pa.cf, pa.call) + ": callee receiving " + pa.name + " cannot be resolved syntactically")
			continue
		}
		prm, ok := paramAt(fn, pa.idx)
		switch {
		case ok && c07IsErrValueType(prm.typ):
			sites = append(sites, c07Site{"value", pa.name, consts[pa.name], 0, pos(pa.cf, pa.call)})
		case ok && c07IsCodeType(prm.typ):
			found := false
			for _, fw := range forwarders[fn.decl] {
				if fw.param == pa.idx {
					found = true
					sites = append(sites, c07Site{"format", pa.name, consts[pa.name], fw.nargs, pos(pa.cf, pa.call) + " via " + fw.where})
				}
			}
			if !found {
				c.Count("sites: constants used as plain codes (returned, compared, table keys)", 1)
			}
		default:
			c.Inconclusive("site " + pos(pa.cf, pa.call) + ": parameter type of the callee receiving " + pa.name + " is not recognised")
		}
	}
	for _, name := range constOrder {
		sites = append(sites, c07Site{"const", name, consts[name], 0, "errors/code.go"})
	}

	sort.SliceStable(sites, func(i, j int) bool { return sites[i].Where < sites[j].Where })
	for _, s := range sites {
		c.Eval(1)
		switch s.Kind {
		case "format":
			c.Count("sites: Format calls replayed", 1)
		case "value":
			c.Count("sites: bare error values replayed", 1)
		case "const":
			c.Count("sites: constants checked", 1)
		}
		c.DistinctHash(mon.HashString(fmt.Sprint("site", s)))
		if got := c07ReplaySiteCase(s); got != c07SiteExpected {
			what := "error construction site does not render"
			if s.Kind == "const" {
				what = "error code constant without a template"
			}
			c.Violate("site", s, c07SiteExpected, got, fmt.Sprintf("%s: %s %s with %d arguments at %s", what, s.Kind, s.Name, s.NArgs, s.Where))
		}
	}
	if len(sites) > 2 {
		c.Sample("construction site", sites[len(sites)/2])
	}
}

func c07Flatten2(fl *ast.FieldList) []string {
	var out []string
	for _, p := range c07Flatten(fl) {
		out = append(out, p.typ)
	}
	return out
}
