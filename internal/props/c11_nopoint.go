//go:build !vh_point

package props

// Fallback when the build carries no rewritten copies (hook H8 unavailable): every control is a
// no-op and the sub-monitors that need it report inconclusive.

const havePoint = false

func pointInfo() (rewrites string, points, mapSites, onceBodies int) { return "", 0, 0, 0 }
func pointSetOrder(mode int)                                         {}
func pointSiteStats() (calls, multi []int64)                         { return nil, nil }
func pointSetYield(permille int, hotSleep bool, seed uint64)         {}
func pointYieldStats() (calls, taken, slept uint64)                  { return 0, 0, 0 }
func pointHits(obj any, field string) (begun, ended int)             { return 0, 0 }
func pointHitEvents() int64                                          { return 0 }
func pointResetHits()                                                {}
func pointSiteName(i int) string                                     { return "?" }
func pointHitFields(obj any) map[string][2]int                       { return nil }
