package props

// C17, position half: (a) a parsing error's position is the first byte that cannot continue the
// text (the last byte when input ends early) — JSON documents, and the plain-JSON part of
// schemas and enum rules; (b) a validation error's position is the start of the offending value
// or key ('{' of the object for a missing key, '[' for item counts) — union-free schemas with one
// planted violation at a random nesting position.

import (
	"encoding/json"
	"errors"
	"fmt"
	"strconv"
	"strings"

	jsonDoc "github.com/jsightapi/jsight-schema-go-library/formats/json"
	"github.com/jsightapi/jsight-schema-go-library/notations/regex"
	"github.com/jsightapi/jsight-schema-go-library/rules/enum"

	"verif/internal/gen"
	"verif/internal/lib"
	"verif/internal/model"
	"verif/internal/mon"
	refjson "verif/internal/ref/json"
	refrender "verif/internal/ref/render"
)

type c17ParseCase struct {
	Role string `json:"role"` // document | schema | enum
	Text string `json:"text"`
}

type c17ValCase struct {
	Spec lib.Spec `json:"spec"`
	Doc  string   `json:"doc"`
}

func c17PosSizes(tier string) (parseUnits, valUnits, per int) {
	if tier == "thorough" {
		return 4000, 10000, 40
	}
	return 192, 384, 16
}

var c17FaultBytes = []byte{'?', 'x', '}', ']', ',', ':', '"', '{', '[', '0', '-', '.', 'e', ' ', '\n', 0x01, 0x7f, 't', 'n', '\\'}

func c17ParseObserve(role, text string) lib.Obs {
	switch role {
	case "document":
		return lib.Safe(func() error { return jsonDoc.New("doc", text).Check() })
	case "schema":
		return lib.Check(lib.Spec{Text: text})
	case "regex":
		return lib.Safe(func() error { return regex.New("@r", text).Check() })
	default:
		return lib.Safe(func() error { return enum.New("e", text).Check() })
	}
}

// c17ParseJudge compares the reported position of a rejected text with the reference.
func c17ParseJudge(c *mon.Ctx, role, text string, res refjson.Result) {
	if res.Accept || len(strings.TrimSpace(text)) == 0 {
		return
	}
	want := res.ErrOffset
	if res.EndedEarly {
		want = len(text) - 1
	}
	obs := c17ParseObserve(role, text)
	c.Eval(1)
	c.Count("parse positions compared: "+role, 1)
	if res.EndedEarly {
		c.Count("parse: input ended early", 1)
	} else {
		c.Count("parse: offending byte inside the text", 1)
	}
	c.Distinct(role + "\x00" + text)
	switch {
	case obs.Panic != "":
		c.Violate("parse-pos", c17ParseCase{role, text}, "reject at "+strconv.Itoa(want), obs.String(), "parsing panicked")
	case obs.OK:
		if role == "document" {
			c.Violate("parse-pos", c17ParseCase{role, text}, "reject at "+strconv.Itoa(want), "accept", "a text that is not JSON was accepted (C05's subject, reported here because no position exists)")
		}
		// schema / enum syntax is a superset of JSON: acceptance is not judged here
	case obs.Pos != want:
		c.Violate("parse-pos", c17ParseCase{role, text}, "reject at "+strconv.Itoa(want), fmt.Sprintf("reject at %d", obs.Pos),
			fmt.Sprintf("%s parsing error points at byte %d, the first byte that cannot continue the text is %d (ended early: %v)", role, obs.Pos, want, res.EndedEarly))
	case obs.Kit != "":
		c.Violate("parse-pos", c17ParseCase{role, text}, "reject at "+strconv.Itoa(want), fmt.Sprintf("reject at %d; %s", obs.Pos, obs.Kit), "the position of a parsing error is lost by kit.ConvertError")
	}
}

func c17ParseRun(c *mon.Ctx, i int) {
	_, _, per := c17PosSizes(c.Tier)
	r := c.Rng(171)
	for k := 0; k < per; k++ {
		v := gen.RandomValue(r, r.Range(1, 4))
		st := model.DocStyle{}
		if r.Bool() {
			st = model.DocStyle{WS: r, Pretty: r.Bool()}
		}
		text := st.Render(v)
		// (1) documents: every truncation + one-byte faults at random offsets
		for cut := 1; cut < len(text); cut++ {
			t := text[:cut]
			c17ParseJudge(c, "document", t, refjson.Check([]byte(t), refjson.Strict))
		}
		for f := 0; f < 24 && len(text) > 0; f++ {
			off := r.Intn(len(text))
			b := c17FaultBytes[r.Intn(len(c17FaultBytes))]
			var t string
			switch r.Intn(3) {
			case 0:
				t = text[:off] + string(b) + text[off:]
			case 1:
				t = text[:off] + string(b) + text[off+1:]
			default:
				t = text[:off] + text[off+1:]
			}
			c17ParseJudge(c, "document", t, refjson.Check([]byte(t), refjson.Strict))
		}
		// (1b) regex tokens cut short: the input ends early, the error sits on the last byte
		// (whatever that byte is - an escaped slash, a backslash, a class)
		if k%2 == 0 {
			// (table patterns are written for the rule form: their slashes get escaped here; the
			// grammar's patterns are already in token form)
			pat := strings.ReplaceAll(mon.Pick(r, gen.RegexTable).Pattern, "/", "\\/")
			if r.Bool() {
				pat = gen.RegexPattern(r, gen.RegexOpts{}).Pattern
			}
			tok := "/" + pat + mon.Pick(r, []string{"", "\\/", "\\\\", "\\.\\d", "[a\\/]"}) + "/"
			for cut := 1; cut < len(tok); cut++ {
				t := tok[:cut]
				c17ParseJudge(c, "regex", t, refjson.Result{EndedEarly: true})
			}
		}
		// (2) schemas and enum rules: the plain-JSON part. Only texts without exponent numerals
		// (the schema language refuses them by design) and only faults that are illegal in the
		// schema language too: truncation, and substitution by '?' outside strings.
		if strings.ContainsAny(numeralsOf(v), "eE") {
			continue
		}
		plain := v.Text()
		roles := []string{"schema"}
		if v.K == model.VArr {
			scalarsOnly := true
			seenLit := map[string]bool{}
			for _, e := range v.Elems {
				if e.K == model.VObj || e.K == model.VArr {
					scalarsOnly = false
				}
				// duplicate values are a (semantic) error of their own, reported first
				lit := e.Text()
				if e.K == model.VNum {
					if x, ok := model.Rat(e.Num); ok {
						lit = "num:" + x.String()
					}
				}
				if seenLit[lit] {
					scalarsOnly = false
				}
				seenLit[lit] = true
			}
			if scalarsOnly {
				roles = append(roles, "enum")
			}
		}
		for _, role := range roles {
			if role == "schema" && hasDuplicateKeys(v) {
				continue
			}
			for cut := 1; cut < len(plain); cut++ {
				t := plain[:cut]
				res := refjson.Check([]byte(t), refjson.Strict)
				if res.EndedEarly && !(role == "enum" && c17NumeralPrefixRepeats(v, plain, cut)) {
					c17ParseJudge(c, role, t, res)
				}
			}
			// a raw control byte inside a string body (never the first byte of the body, never
			// part of an escape sequence): the offending byte is that byte
			if spans := c17StringBodies(plain); len(spans) > 0 {
				for f := 0; f < 4; f++ {
					sp := spans[r.Intn(len(spans))]
					if sp[1]-sp[0] < 2 {
						continue
					}
					off := r.Range(sp[0]+1, sp[1]-1)
					if plain[off] == '\\' || plain[off-1] == '\\' || (off >= 2 && plain[off-2] == '\\') || strings.Contains(plain[max(sp[0], off-6):off], "\\u") {
						continue
					}
					t := plain[:off] + string(mon.Pick(r, []byte{0x01, '\t', '\n', '\r', 0x1f})) + plain[off+1:]
					res := refjson.Check([]byte(t), refjson.Strict)
					if !res.Accept && !res.EndedEarly && res.ErrOffset == off {
						c.Count("parse: control byte planted inside a string body", 1)
						c17ParseJudge(c, role, t, res)
					}
				}
			}
			for f := 0; f < 8 && len(plain) > 0; f++ {
				off := r.Intn(len(plain))
				t := plain[:off] + "?" + plain[off+1:]
				res := refjson.Check([]byte(t), refjson.Strict)
				if !res.Accept && !res.EndedEarly && res.ErrOffset == off && !(role == "enum" && c17NumeralPrefixRepeats(v, plain, off)) {
					c17ParseJudge(c, role, t, res)
				}
			}
		}
		// (3) the same JSON as a schema saved with LF / CRLF / CR line ends and user comments at some
		// line ends: legal as it stands; with one byte replaced by '?' outside strings the error
		// belongs to that byte, whatever the line ends are
		if !hasDuplicateKeys(v) {
			pretty := model.DocStyle{Pretty: true}.Render(v)
			lines := strings.Split(pretty, "\n")
			nl := mon.Pick(r, []string{"\n", "\r\n", "\r", "\r"})
			var sb strings.Builder
			shift := make([]int, len(lines)) // decorated offset of the line start minus its plain offset
			plainOff := 0
			for li, ln := range lines {
				shift[li] = sb.Len() - plainOff
				sb.WriteString(ln)
				if li < len(lines)-1 {
					if r.Chance(1, 3) {
						sb.WriteString(mon.Pick(r, []string{" # c", "# a comment", " #", "\t# x y"}))
					}
					sb.WriteString(nl)
				}
				plainOff += len(ln) + 1
			}
			deco := sb.String()
			c.Count("parse: schemas with user comments, line ends "+strconv.Quote(nl), 1)
			c.Eval(1)
			if o := c17ParseObserve("schema", deco); !o.OK {
				c.Violate("parse-pos", c17ParseCase{"schema", deco}, "accept", o.String(), "plain JSON with user comments at line ends is refused as a schema")
			} else {
				for f := 0; f < 6; f++ {
					off := r.Intn(len(pretty))
					t := pretty[:off] + "?" + pretty[off+1:]
					res := refjson.Check([]byte(t), refjson.Strict)
					if res.Accept || res.EndedEarly || res.ErrOffset != off || pretty[off] == '\n' {
						continue
					}
					li := strings.Count(pretty[:off], "\n")
					d := off + shift[li]
					res.ErrOffset = d
					c17ParseJudge(c, "schema", deco[:d]+"?"+deco[d+1:], res)
				}
			}
		}
		// (3b) a byte that cannot stand inside a bare rule name (a double quote, a control byte)
		if k%4 == 1 {
			name := mon.Pick(r, []string{"min", "max", "optional", "nullable", "minLength", "type", "const", "exclusiveMinimum"})
			val := map[string]string{"min": "1", "max": "9", "optional": "true", "nullable": "false", "minLength": "1", "type": "\"integer\"", "const": "true", "exclusiveMinimum": "true"}[name]
			lit := mon.Pick(r, []string{"5", "\"abc\"", "true"})
			head := mon.Pick(r, []string{lit + " // {", lit + " /* {", "{\n  \"k\": " + lit + " // {nullable: true, ", "[\n  " + lit + " /* {\n    "})
			at := len(head) + r.Range(1, len(name)-1)
			text := head + name + ": " + val + "}"
			fault := mon.Pick(r, []string{"\"", "\x01", "\""})
			t := text[:at] + fault + text[at:]
			c.Count("parse: byte that cannot stand inside a bare rule name", 1)
			c17ParseJudge(c, "schema", t, refjson.Result{ErrOffset: at})
		}
		// (4) type shortcuts: a union cut right after a bar (or after the blank behind it) ends early
		if k%4 == 0 {
			names := []string{"@cat", "@dog", "@a1", "@pet_2"}
			mon.Shuffle(r, names)
			u := names[0]
			for j := 1; j < r.Range(2, 4); j++ {
				u += mon.Pick(r, []string{" | ", "|", " |", "| ", "\t|\t"}) + names[j]
			}
			whole := mon.Pick(r, []string{"", "[", "{\n  \"k\": ", "[1, "}) + u
			for cut := 1; cut <= len(whole); cut++ {
				if whole[cut-1] == '|' || (cut >= 2 && whole[cut-2] == '|' && (whole[cut-1] == ' ' || whole[cut-1] == '\t')) {
					c.Count("parse: union shortcuts cut after a bar", 1)
					c17ParseJudge(c, "schema", whole[:cut], refjson.Result{EndedEarly: true})
				}
			}
		}
		if k == 0 && i < 3 {
			c.Sample("parse position workload", map[string]any{"valid_text": text, "truncations": len(text) - 1})
		}
	}
}

// c17NumeralPrefixRepeats: the fault at offset off cuts a numeral short, and the numeral's
// remaining prefix is a complete number equal to another element of the enum list. The library
// then reports the duplicate value (a semantic error of its own) before the scanner reaches the
// offending byte; the statement's position rule speaks of the parsing error only.
func c17NumeralPrefixRepeats(v *model.Val, plain string, off int) bool {
	start := off
	for start > 0 && strings.IndexByte("0123456789+-.eE", plain[start-1]) >= 0 {
		start--
	}
	if start == off {
		return false
	}
	x, ok := model.Rat(plain[start:off])
	if !ok {
		return false
	}
	for _, e := range v.Elems {
		if e.K == model.VNum {
			if y, ok := model.Rat(e.Num); ok && x.Cmp(y) == 0 {
				return true
			}
		}
	}
	return false
}

// c17StringBodies returns the [begin, end) spans of the bodies of the string tokens of a JSON text.
func c17StringBodies(text string) [][2]int {
	var out [][2]int
	for i := 0; i < len(text); i++ {
		if text[i] != '"' {
			continue
		}
		j := i + 1
		for j < len(text) && text[j] != '"' {
			if text[j] == '\\' {
				j++
			}
			j++
		}
		if j < len(text) {
			out = append(out, [2]int{i + 1, j})
		}
		i = j
	}
	return out
}

func numeralsOf(v *model.Val) string {
	s := v.Num
	for _, m := range v.Members {
		s += " " + numeralsOf(m.V)
	}
	for _, e := range v.Elems {
		s += " " + numeralsOf(e)
	}
	return s
}

func hasDuplicateKeys(v *model.Val) bool {
	seen := map[string]bool{}
	for _, m := range v.Members {
		if seen[m.Key] {
			return true
		}
		seen[m.Key] = true
		if hasDuplicateKeys(m.V) {
			return true
		}
	}
	for _, e := range v.Elems {
		if hasDuplicateKeys(e) {
			return true
		}
	}
	return false
}

// ---- validation positions ----

type c17Slot struct {
	obj  *model.Val  // enclosing object or array (nil at root)
	idx  int         // index in obj.Members / obj.Elems
	val  *model.Val  // the value
	node *model.Node // schema node governing the value
}

// c17Slots walks a conforming document together with its union-free schema.
func c17Slots(s *model.Schema, n *model.Node, v *model.Val, parent *model.Val, idx int, out *[]c17Slot) {
	*out = append(*out, c17Slot{parent, idx, v, n})
	if r := n.Rule("type"); r != nil && r.Str == "any" {
		return
	}
	switch {
	case n.Kind == model.KObject && v.K == model.VObj:
		for i := range v.Members {
			for _, p := range n.Props {
				if !p.Shortcut && p.Key == v.Members[i].Key {
					c17Slots(s, p.Node, v.Members[i].V, v, i, out)
				}
			}
		}
	case n.Kind == model.KArray && v.K == model.VArr && len(n.Items) > 0:
		for i, e := range v.Elems {
			j := i
			if j >= len(n.Items) {
				j = len(n.Items) - 1
			}
			c17Slots(s, n.Items[j], e, v, i, out)
		}
	}
}

// c17ShortcutUnknownKey: an object with a key shortcut and no additionalProperties; a document
// key that neither a property nor the shortcut's string type accepts is reported at the key.
func c17ShortcutUnknownKey(c *mon.Ctx, r *mon.Rng) {
	short := model.PShort("@kk", model.Int("2"))
	if r.Bool() {
		short.Node.Rules = append(short.Node.Rules, model.RBool("optional", true))
	}
	obj := model.Obj(model.P("a", model.Int("1")), short)
	if r.Bool() {
		obj.Props[0], obj.Props[1] = obj.Props[1], obj.Props[0]
	}
	s := &model.Schema{Root: obj, Types: []*model.TypeDef{{Name: "@kk", Root: model.Str("k1").With(model.RStr("regex", "^k[0-9]$"))}}}
	if r.Chance(1, 3) {
		s.Root = model.Obj(model.P("in", obj))
	}
	sp := specOf(s, model.Style{})
	built := buildSchema(sp)
	if !built.ok {
		c.Count("val: key-shortcut schema rejected by Check (skipped)", 1)
		return
	}
	inner := model.VObject(model.M("a", model.VNumber("1")), model.M("k"+strconv.Itoa(r.Intn(10)), model.VNumber("7")))
	bad := model.M(mon.Pick(r, []string{"zz", "K1", "k12", "", "a ", "ключ"}), gen.RandomScalar(r))
	at := r.Intn(len(inner.Members) + 1)
	ms := append([]model.Member{}, inner.Members[:at]...)
	ms = append(ms, bad)
	inner.Members = append(ms, inner.Members[at:]...)
	v := inner
	if s.Root != obj {
		v = model.VObject(model.M("in", inner))
	}
	st := model.DocStyle{Pretty: r.Bool()}
	if r.Bool() {
		st.WS = r
	}
	doc := st.Render(v)
	want := inner.Members[at].KeyPos
	obs := built.validate(doc)
	c.Eval(1)
	c.Count("validation positions compared: unknown key next to a key shortcut", 1)
	switch {
	case obs.Panic != "":
		c.Violate("val-pos", c17ValCase{sp, doc}, "reject at "+strconv.Itoa(want), obs.String(), "Validate panicked")
	case obs.OK:
		c.Violate("val-pos", c17ValCase{sp, doc}, "reject at "+strconv.Itoa(want), "accept", "a document key that neither a property nor the key shortcut accepts was accepted")
	case obs.Pos != want || obs.Kit != "":
		c.Violate("val-pos", c17ValCase{sp, doc}, "reject at "+strconv.Itoa(want), c17ObsPos(obs), "validation error does not point at the offending key (object with a key shortcut)")
	}
}

func c17ValRun(c *mon.Ctx, i int) {
	_, _, per := c17PosSizes(c.Tier)
	r := c.Rng(172)
	for k := 0; k < per; k++ {
		if k%4 == 2 {
			c17ShortcutUnknownKey(c, r)
		}
		ec := gen.Everything(r, gen.EverythingOpts{MaxDepth: r.Range(1, 4), MaxWidth: 4, Plain: true, NoUnions: true})
		s := ec.S
		// a nullable container is a union of two validators (container + null): positions are
		// exact only for union-free schemas, so containers are made non-nullable here
		s.Root.Walk(func(n *model.Node) {
			if n.Kind == model.KObject || n.Kind == model.KArray {
				var rs []*model.Rule
				for _, rr := range n.Rules {
					if rr.Name != "nullable" {
						rs = append(rs, rr)
					}
				}
				n.Rules = rs
			}
		})
		sp := specOf(s, model.Style{})
		built := buildSchema(sp)
		if !built.ok {
			c.Count("val: generated schema rejected by Check (skipped)", 1)
			continue
		}
		dg := gen.NewDocs(s, r.Fork())
		for t := 0; t < 8; t++ {
			v := dg.Conform()
			o := model.NewOracle(s)
			if o.Accepts(v) != model.Accept {
				continue
			}
			var slots []c17Slot
			c17Slots(s, s.Root, v, nil, 0, &slots)
			sl := slots[r.Intn(len(slots))]
			class := ""
			// the element whose position is expected: a value, a member key, or a container
			var posOf func() int
			switch op := r.Intn(6); {
			case op == 0 && sl.val.K == model.VObj && sl.node.Kind == model.KObject && sl.node.Rule("type") == nil:
				// unknown key
				key := "unknown_" + strconv.Itoa(r.Intn(100))
				at := r.Intn(len(sl.val.Members) + 1)
				ms := append([]model.Member{}, sl.val.Members[:at]...)
				ms = append(ms, model.M(key, gen.RandomScalar(r)))
				ms = append(ms, sl.val.Members[at:]...)
				sl.val.Members = ms
				obj := sl.val
				posOf = func() int { return obj.Members[at].KeyPos }
				class = "unknown key"
			case op == 1 && sl.val.K == model.VObj && sl.node.Kind == model.KObject:
				// drop a required key (all its occurrences)
				var req []string
				for _, p := range sl.node.Props {
					if !o.Optional(p) && !p.Shortcut {
						req = append(req, p.Key)
					}
				}
				if len(req) == 0 {
					continue
				}
				key := mon.Pick(r, req)
				var ms []model.Member
				for _, m := range sl.val.Members {
					if m.Key != key {
						ms = append(ms, m)
					}
				}
				sl.val.Members = ms
				obj := sl.val
				posOf = func() int { return obj.Pos }
				class = "missing required key"
			case op == 2 && sl.val.K == model.VArr && sl.node.Kind == model.KArray && len(sl.node.Items) > 0 && (sl.node.Rule("minItems") != nil || sl.node.Rule("maxItems") != nil):
				arr := sl.val
				if mr := sl.node.Rule("maxItems"); mr != nil && r.Bool() || sl.node.Rule("minItems") == nil {
					mr := sl.node.Rule("maxItems")
					last := sl.node.Items[len(sl.node.Items)-1]
					okAll := true
					for len(arr.Elems) <= mr.Int {
						last = sl.node.Items[len(sl.node.Items)-1]
						if j := len(arr.Elems); j < len(sl.node.Items) {
							last = sl.node.Items[j]
						}
						e := (&gen.Docs{S: s, R: r, O: o}).ConformNode(last)
						if (&model.Oracle{S: s}).AcceptsNode(last, e) != model.Accept {
							okAll = false
							break
						}
						arr.Elems = append(arr.Elems, e)
					}
					if !okAll {
						continue
					}
					class = "more items than maxItems"
				} else {
					mr := sl.node.Rule("minItems")
					if mr.Int == 0 {
						continue
					}
					arr.Elems = arr.Elems[:mr.Int-1]
					class = "fewer items than minItems"
				}
				posOf = func() int { return arr.Pos }
			case op == 3 && sl.node.IsScalar() && ec.Scalars[sl.node] != nil && sl.val.K != model.VNull:
				// a same-kind value violating the node's rules
				var bad *model.Val
				for _, p := range ec.Scalars[sl.node].Probes {
					if p.K == sl.val.K && (&model.Oracle{S: s}).AcceptsNode(sl.node, p) == model.Reject {
						bad = p.Clone()
						if r.Chance(1, 3) {
							break
						}
					}
				}
				if bad == nil {
					continue
				}
				*sl.val = *bad
				val := sl.val
				posOf = func() int { return val.Pos }
				class = "scalar rule violated"
			default:
				// wrong kind (incl. null where not allowed)
				w := gen.OtherKind(r, sl.val)
				*sl.val = *w
				val := sl.val
				posOf = func() int { return val.Pos }
				class = "wrong kind"
			}
			// the mutated document must be rejected by the oracle, and for exactly this reason:
			// restoring is implicit (one mutation on a conforming document)
			o2 := model.NewOracle(s)
			if o2.Accepts(v) != model.Reject {
				continue
			}
			st := model.DocStyle{}
			if r.Bool() {
				st = model.DocStyle{WS: r, Pretty: r.Bool()}
			}
			doc := st.Render(v)
			want := posOf()
			obs := built.validate(doc)
			if len(doc)%3 == 1 {
				// the Document object has a history (checked, measured, or refused by another
				// schema half-way): the fault is reported at the same byte
				obs = built.validateChecked(doc)
			}
			c.Eval(1)
			c.Count("validation positions compared: "+class, 1)
			c.Distinct(sp.Text + "\x00" + doc)
			switch {
			case obs.Panic != "":
				c.Violate("val-pos", c17ValCase{sp, doc}, "reject at "+strconv.Itoa(want), obs.String(), "Validate panicked")
			case obs.OK:
				c.Violate("val-pos", c17ValCase{sp, doc}, "reject at "+strconv.Itoa(want), "accept", "a document with a planted violation ("+class+") was accepted")
			case obs.Pos != want:
				c.Violate("val-pos", c17ValCase{sp, doc}, "reject at "+strconv.Itoa(want), fmt.Sprintf("reject at %d (code %d)", obs.Pos, obs.Code),
					"validation error does not point at the offending value or key ("+class+"; oracle: "+o2.Why+")")
			case obs.Kit != "":
				c.Violate("val-pos", c17ValCase{sp, doc}, "reject at "+strconv.Itoa(want), c17ObsPos(obs), "the position of a validation error is lost by kit.ConvertError")
			}
			if k == 0 && t == 0 && i < 3 {
				c.Sample("validation position case", map[string]any{"schema": sp.Text, "doc": doc, "class": class, "expected_position": want})
			}
		}
	}
}

func c17ObsPos(o lib.Obs) string {
	switch {
	case o.Panic != "":
		return o.String()
	case o.OK:
		return "accept"
	}
	if o.Kit != "" {
		return "reject at " + strconv.Itoa(o.Pos) + "; " + o.Kit
	}
	return "reject at " + strconv.Itoa(o.Pos)
}

func init() {
	c17AddPart(c17Part{
		name:  "parse positions",
		units: func(tier string) int { a, _, _ := c17PosSizes(tier); return a },
		run:   c17ParseRun,
		replay: map[string]func(json.RawMessage) string{"parse-pos": func(raw json.RawMessage) string {
			var cs c17ParseCase
			json.Unmarshal(raw, &cs)
			return c17ObsPos(c17ParseObserve(cs.Role, cs.Text))
		}},
	})
	c17AddPart(c17Part{
		name:  "validation positions",
		units: func(tier string) int { _, b, _ := c17PosSizes(tier); return b },
		run:   c17ValRun,
		replay: map[string]func(json.RawMessage) string{"val-pos": func(raw json.RawMessage) string {
			var cs c17ValCase
			json.Unmarshal(raw, &cs)
			return c17ObsPos(lib.Validate(cs.Spec, cs.Doc))
		}},
	})
}

// ---- errors located inside added types ----

type c17TypeCase struct {
	Spec  lib.Spec `json:"spec"`
	Owner string   `json:"owner"`
}

// c17TypeRun: one planted check-time fault (declared type differs from the example's kind) at a
// random scalar node of the root or of an added type of a generated type graph (allOf chains
// included, so the faulty node may be reached through inheritance first). The error must refer
// to the text that owns the node (file name = owner, position = offset of the node inside that
// text) and must render without panicking.
// c17CheckErrors: Check failures of the other kinds (missing type, illegal recursion through one
// and through two types, bad allOf parent, rule errors): whatever position the error exposes is
// the position the SDK conversion (kit.ConvertError) reports, and it lies inside its source.
func c17CheckErrors(c *mon.Ctx) {
	obj := func(key, ref string) *model.Node { return model.Obj(model.P(key, model.Ref(ref))) }
	cases := []*model.Schema{
		{Root: model.Ref("@main"), Types: []*model.TypeDef{{Name: "@main", Root: obj("a", "@a")}, {Name: "@a", Root: obj("m", "@main")}}},
		{Root: obj("x", "@main"), Types: []*model.TypeDef{{Name: "@main", Root: obj("self", "@main")}}},
		{Root: model.Arr(model.Ref("@t")), Types: []*model.TypeDef{{Name: "@t", Root: model.Ref("@t")}}},
		{Root: obj("k", "@missing")},
		{Root: model.Obj(model.P("k", model.Int("1"))).With(model.RAllOf("@nope"))},
		{Root: model.Obj(model.P("k", model.Int("1"))).With(model.RAllOf("@s")), Types: []*model.TypeDef{{Name: "@s", Root: model.Str("x")}}},
		{Root: model.Obj(model.P("k", model.Int("1").With(model.RNum("min", "5"))))},
		{Root: model.Obj(model.P("k", model.Int("1").With(model.RStr("type", "@gone"))))},
		{Root: model.Int("1").With(model.REnumRef("@norule"))},
	}
	for _, full := range []bool{false, true} {
		for _, s := range cases {
			sp := specOf(s, model.Style{})
			sp.FullReg = full
			sch, obs := lib.Build(sp)
			if obs.OK {
				obs = lib.Safe(sch.Check)
			}
			c.Eval(1)
			c.Count("Check errors of other kinds passed through kit.ConvertError", 1)
			got := "reject, code and position kept by kit.ConvertError"
			switch {
			case obs.Panic != "":
				got = obs.String()
			case obs.OK:
				// whether this graph must be rejected is C09's subject
				c.Count("Check errors of other kinds: schema accepted (not judged here)", 1)
				continue
			case obs.Kit != "":
				got = fmt.Sprintf("reject at %d; %s", obs.Pos, obs.Kit)
			}
			if got != "reject, code and position kept by kit.ConvertError" {
				c.Violate("check-kit", c17TypeCase{Spec: sp}, "reject, code and position kept by kit.ConvertError", got, "a Check error loses its code or position in kit.ConvertError (or the faulty schema is accepted)")
			}
		}
	}
}

func c17TypeRun(c *mon.Ctx, i int) {
	_, _, per := c17PosSizes(c.Tier)
	r := c.Rng(173)
	if i == 0 {
		c17CheckErrors(c)
	}
	for k := 0; k < per; k++ {
		s := gen.Graph(r, 6)
		if k%3 == 0 {
			// inheritance with the child sorted BEFORE its parent (types are checked in name order):
			// the faulty node is first met as an inherited property of the child
			parent := model.Obj(model.P("pad", model.Str("some padding so that offsets differ")), model.P("inner", gen.Shape(r, gen.ShapeOpts{MaxDepth: 2, MaxWidth: 3})), model.P("leaf", model.Int("5")))
			parent.Walk(func(n *model.Node) { n.Rules = nil })
			s = &model.Schema{
				Root: mon.Pick(r, []*model.Node{model.Ref("@achild"), model.Obj(model.P("k", model.Ref("@achild"))), model.Arr(model.Ref("@achild"), model.Ref("@zparent"))}),
				Types: []*model.TypeDef{
					{Name: "@achild", Root: model.Obj(model.P("own", model.Int("1"))).With(model.RAllOf("@zparent"))},
					{Name: "@zparent", Root: parent},
				},
			}
		}
		if k%6 == 5 {
			// a literal example declares {type: "@T"} (or an or rule naming @T alone): the type is
			// fine, the EXAMPLE breaks one of its rules - the fault is the literal in the text that
			// holds it, not anything in the type's own (padded) text
			typeText, bad := "", (*model.Node)(nil)
			var tdef *model.TypeDef
			switch r.Intn(3) {
			case 0:
				tdef = &model.TypeDef{Name: "@id", Root: model.Str("abcdef").With(model.RInt("minLength", 4))}
				bad = model.Str("ab").With(model.RStr("type", "@id"))
			case 1:
				tdef = &model.TypeDef{Name: "@id", Root: model.Int("50").With(model.RNum("min", "10"))}
				bad = model.Int("5").With(model.RStr("type", "@id"))
			default:
				tdef = &model.TypeDef{Name: "@id", Root: model.Str("k1").With(model.RStr("regex", "^k[0-9]$"))}
				bad = model.Str("zz").With(model.RStr("type", "@id"))
			}
			_ = typeText
			holder := model.Obj(model.P("pad", model.Str("some padding so that offsets differ")), model.P("id", bad), model.P("n", model.Int("1")))
			s = &model.Schema{Types: []*model.TypeDef{tdef}}
			owner := "root"
			if r.Bool() {
				s.Root = mon.Pick(r, []*model.Node{holder, model.Arr(holder), model.Obj(model.P("deep", model.Obj(model.P("er", holder))))})
			} else {
				// the example stands in another added type
				owner = "@holder"
				s.Types = append(s.Types, &model.TypeDef{Name: "@holder", Root: holder})
				s.Root = mon.Pick(r, []*model.Node{model.Ref("@holder"), model.Obj(model.P("h", model.Ref("@holder")))})
			}
			sp := specOf(s, model.Style{})
			// the type's own text starts with blanks / a comment line: its offsets are not the example's
			for ti := range sp.Types {
				if sp.Types[ti].Name == "@id" {
					sp.Types[ti].Text = mon.Pick(r, []string{"   ", "\n\n", "# the id\n"}) + sp.Types[ti].Text
				}
			}
			sp.UnnamedFiles = r.Chance(1, 4)
			sch, obs := lib.Build(sp)
			if obs.OK {
				obs = lib.Safe(sch.Check)
			}
			c.Eval(1)
			c.Count("type positions compared (example breaking a rule of the type it declares)", 1)
			got := c17TypeObserve(obs, c17OwnerText(sp, owner))
			exp := c17TypeExpected(sp, owner, bad.Pos)
			if got != exp {
				c.Violate("type-pos", c17TypeCase{sp, owner}, exp, got, "an example that breaks a rule of the type it declares is not reported at the example")
			}
			continue
		}
		if k%6 == 3 {
			// an INHERITED key shortcut whose type is not a string type (or was not added): the
			// error belongs to the key in the parent's text, wherever the inheriting object stands
			short := model.PShort("@kk", model.Int("1"))
			parent := model.Obj(model.P("pad", model.Str("some padding so that offsets differ")), short, model.P("leaf", model.Int("5")))
			child := model.Obj(model.P("own", model.Int("1"))).With(model.RAllOf("@zparent"))
			s = &model.Schema{
				Root: mon.Pick(r, []*model.Node{model.Ref("@achild"), model.Obj(model.P("a", model.Obj(model.P("b", model.Obj(model.P("c", model.Ref("@achild"))))))), model.Arr(model.Ref("@achild"))}),
				Types: []*model.TypeDef{
					{Name: "@achild", Root: child},
					{Name: "@zparent", Root: parent},
				},
			}
			if r.Bool() {
				s.Types = append(s.Types, &model.TypeDef{Name: "@kk", Root: model.Int("5")}) // not a string type
			}
			sp := specOf(s, model.Style{})
			sp.UnnamedFiles = r.Chance(1, 4)
			want := short.Node.KeyPos
			sch, obs := lib.Build(sp)
			if obs.OK {
				obs = lib.Safe(sch.Check)
			}
			c.Eval(1)
			c.Count("type positions compared (invalid key shortcut inherited through allOf)", 1)
			got := c17TypeObserve(obs, c17OwnerText(sp, "@zparent"))
			exp := c17TypeExpected(sp, "@zparent", want)
			if got != exp {
				c.Violate("type-pos", c17TypeCase{sp, "@zparent"}, exp, got, "the error about an inherited key shortcut does not refer to the key in the parent's text")
			}
			continue
		}
		if !buildSchema(specOf(s, model.Style{})).ok {
			c.Count("type positions: generated graph rejected by Check (skipped)", 1)
			continue
		}
		// candidate nodes: scalars without type / or / enum rules, with their owner
		type cand struct {
			owner string
			root  *model.Node
			n     *model.Node
		}
		var cands []cand
		collect := func(owner string, root *model.Node) {
			if root == nil || root.IsScalar() {
				// scalar-rooted types are referenced by {type: "@T"} / or-lists on literal examples:
				// a fault planted there also invalidates those examples (two faults, no unique position)
				return
			}
			root.Walk(func(n *model.Node) {
				if n.IsScalar() && n.Kind != model.KNull && n.Rule("type") == nil && n.Rule("or") == nil && n.Rule("enum") == nil && n.Rule("precision") == nil {
					cands = append(cands, cand{owner, root, n})
				}
			})
		}
		collect("root", s.Root)
		for _, t := range s.Types {
			collect(t.Name, t.Root)
		}
		if len(cands) == 0 {
			c.Count("type positions: no candidate node (skipped)", 1)
			continue
		}
		cd := cands[r.Intn(len(cands))]
		// a check-time fault (found by the checker walking the compiled nodes, inherited ones
		// included), or - one time in four - a load-time fault (found when the type is added)
		switch {
		case r.Chance(1, 4):
			wrong := "string"
			if cd.n.Kind == model.KString {
				wrong = "integer"
			}
			cd.n.Rules = append(cd.n.Rules, model.RStr("type", wrong))
		case cd.n.Kind == model.KInteger || cd.n.Kind == model.KFloat:
			if cd.n.Rule("min") != nil || cd.n.Rule("max") != nil {
				continue
			}
			cd.n.Rules = append(cd.n.Rules, model.RNum("min", "99999999999999999999999"))
		case cd.n.Kind == model.KString:
			if cd.n.Rule("regex") != nil || len(cd.n.Rules) > 0 {
				continue
			}
			cd.n.Rules = append(cd.n.Rules, model.RStr("regex", "^never matches \\x00$"))
		default:
			cd.n.Rules = append(cd.n.Rules, model.REnum(`"other"`, "12"))
		}
		sp := specOf(s, model.Style{})   // renders every text: positions are those of the owner's text
		sp.UnnamedFiles = r.Chance(1, 4) // type files without a name: only the rendered line tells the files apart
		want := cd.n.Pos
		// the fault surfaces when the type is added (it is loaded then) or when the root is checked
		sch, obs := lib.Build(sp)
		if obs.OK {
			obs = lib.Safe(sch.Check)
		} else {
			c.Count("type positions: fault reported by AddType", 1)
		}
		c.Eval(1)
		c.Count("type positions compared (fault in "+map[bool]string{true: "the root", false: "an added type"}[cd.owner == "root"]+")", 1)
		c.Distinct(sp.Text + "\x00" + cd.owner + fmt.Sprint(want))
		got := c17TypeObserve(obs, c17OwnerText(sp, cd.owner))
		exp := c17TypeExpected(sp, cd.owner, want)
		if got != exp {
			c.Violate("type-pos", c17TypeCase{sp, cd.owner}, exp, got, "a Check error located inside "+cd.owner+" does not refer to the owner's text and offset, or cannot be rendered")
		}
	}
}

// c17OwnerText: the text of the root ("root") or of the named type.
func c17OwnerText(sp lib.Spec, owner string) string {
	for _, t := range sp.Types {
		if t.Name == owner {
			return t.Text
		}
	}
	return sp.Text
}

func c17TypeExpected(sp lib.Spec, owner string, want int) string {
	file := owner
	if sp.UnnamedFiles && owner != "root" {
		file = ""
	}
	return fmt.Sprintf("reject at %d in %s, renders the owner's line", want, file)
}

func c17TypeObserve(obs lib.Obs, ownerText string) string {
	switch {
	case obs.Panic != "":
		return obs.String()
	case obs.OK:
		return "accept"
	}
	if obs.Kit != "" {
		return fmt.Sprintf("reject at %d; %s", obs.Pos, obs.Kit)
	}
	file := ""
	var f interface{ Filename() string }
	if errors.As(obs.Err, &f) {
		file = f.Filename()
	}
	render := "renders"
	func() {
		defer func() {
			if rec := recover(); rec != nil {
				render = fmt.Sprintf("Error() panics: %v", rec)
			}
		}()
		_ = obs.Err.Error()
		// the line the error shows must be the line of the OWNER's text at that offset
		var src interface {
			Line() uint
			SourceSubString() string
		}
		if errors.As(obs.Err, &src) && obs.Pos >= 0 && obs.Pos < len(ownerText) {
			e := refrender.For([]byte(ownerText), obs.Pos)
			line, shown := int(src.Line()), src.SourceSubString()
			if (e.LineDecided && line != e.Line) || !e.TextOK(shown) {
				render = fmt.Sprintf("renders line %d %q, the owner's text has line %d %q there", line, shown, e.Line, e.Text)
				return
			}
		}
		render = "renders the owner's line"
	}()
	return fmt.Sprintf("reject at %d in %s, %s", obs.Pos, file, render)
}

func init() {
	c17AddPart(c17Part{
		name:  "positions inside added types",
		units: func(tier string) int { _, b, _ := c17PosSizes(tier); return b / 4 },
		run:   c17TypeRun,
		replay: map[string]func(json.RawMessage) string{"check-kit": func(raw json.RawMessage) string {
			var cs c17TypeCase
			json.Unmarshal(raw, &cs)
			sch, obs := lib.Build(cs.Spec)
			if obs.OK {
				obs = lib.Safe(sch.Check)
			}
			switch {
			case obs.Panic != "":
				return obs.String()
			case obs.OK:
				return "accept"
			case obs.Kit != "":
				return fmt.Sprintf("reject at %d; %s", obs.Pos, obs.Kit)
			}
			return "reject, code and position kept by kit.ConvertError"
		}, "type-pos": func(raw json.RawMessage) string {
			var cs c17TypeCase
			json.Unmarshal(raw, &cs)
			sch, bo := lib.Build(cs.Spec)
			if !bo.OK {
				return c17TypeObserve(bo, c17OwnerText(cs.Spec, cs.Owner))
			}
			return c17TypeObserve(lib.Safe(sch.Check), c17OwnerText(cs.Spec, cs.Owner))
		}},
	})
}
