package props

// C17 — errors point at the offending byte and render correctly.
//
// The property is checked by independent PARTS that contribute work units to one Prop:
//
//	c17AddPart(c17Part{name: "...", units: ..., run: ..., replay: ...})   // from an init()
//
// Prop.Units is the sum of the parts' units, Prop.Run dispatches unit i to the part that owns
// it (the part sees its own 0-based index; c.Unit stays the global index, so c.Rng differs per
// unit), and the parts' replay kinds are merged into Prop.Replay. This file holds the part
// "render" (line number / source line / caret / no panic of errors.DocumentError through the
// public API); the position half lives in c17_pos.go.

import (
	"encoding/base64"
	"encoding/json"
	"fmt"
	"strconv"
	"strings"

	"github.com/jsightapi/jsight-schema-go-library/bytes"
	jerrors "github.com/jsightapi/jsight-schema-go-library/errors"
	"github.com/jsightapi/jsight-schema-go-library/fs"
	"github.com/jsightapi/jsight-schema-go-library/kit"

	"verif/internal/mon"
	refrender "verif/internal/ref/render"
)

type c17Part struct {
	name   string
	units  func(tier string) int
	run    func(c *mon.Ctx, i int)
	replay map[string]func(json.RawMessage) string
}

var (
	c17Parts  []c17Part
	c17Replay = map[string]func(json.RawMessage) string{}
)

// c17AddPart registers one part (call it from an init function). Appending to c17Parts
// directly also works for units; c17AddPart additionally publishes the part's replay kinds.
func c17AddPart(p c17Part) {
	c17Parts = append(c17Parts, p)
	c17MergeReplay()
}

func c17MergeReplay() {
	for _, p := range c17Parts {
		for k, f := range p.replay {
			if _, dup := c17Replay[k]; !dup {
				c17Replay[k] = f
			}
		}
	}
}

func c17Units(tier string) int {
	n := 0
	for _, p := range c17Parts {
		n += p.units(tier)
	}
	return n
}

func c17Run(c *mon.Ctx, i int) {
	off := 0
	for _, p := range c17Parts {
		n := p.units(c.Tier)
		if i < off+n {
			c.Count("part "+p.name+": units run", 1)
			p.run(c, i-off)
			return
		}
		off += n
	}
}

func init() {
	c17AddPart(c17Part{
		name:   "render",
		units:  func(tier string) int { return c17RenderLayoutOf(tier).total() },
		run:    c17RenderRun,
		replay: map[string]func(json.RawMessage) string{"render": c17RenderReplay},
	})
	mon.Register(&mon.Prop{
		ID:    "C17",
		Level: "exploration",
		Rule: "render part: every file content of <= 7 bytes (quick <= 6) over {a, SP, TAB, LF, CR} x every position inside it, plus random files up to 2 KiB (LF / CR / CRLF / mixed line ends, " +
			"leading blanks, blank-only and empty lines, lines around and beyond 200 bytes, non-ASCII bytes) x ~40 positions each (line starts, first non-blank, last byte, terminators, random); " +
			"errors.NewDocumentError(fs.NewFile(..), errors.Format(code, args..)) + SetIndex, then Line(), SourceSubString(), String(), Error(), kit.ConvertError, compared with refrender " +
			"(uniform line ends: exact line number; line with an ordinary first non-blank byte: exact left-trimmed text, or a legal <= 200 byte truncation for lines beyond 200 bytes; position at/after the first non-blank: caret column; " +
			"every case: no panic, 1 <= line <= 1 + newline bytes before the position, String()==Error(), ConvertError keeps position/file/code/message). " +
			"Non-trivial = content with at least one blank or newline byte (exhaustive: distinct by construction; random: hashed by content and position). Other parts state their own rule in their counters. Parse positions also for plain JSON with user comments at line ends under LF / CRLF / CR (accepted as it stands, a planted ? keeps its byte) and for union shortcuts cut after a bar.",
		Assumptions: []string{
			"a line terminator byte belongs to the line it ends; SP and TAB are the blanks that are trimmed",
			"an empty file has no position inside it: rendering at index 0 of an empty file is executed but not judged",
			"for lines beyond 200 bytes the statement does not fix whether the 200 bytes are counted before or after trimming, nor the ellipsis: any <= 200 byte prefix of the trimmed line (optionally + \"...\") that reaches 200 - leading blanks - 10 bytes is accepted; the caret is judged only within the first 190 bytes of such a line",
		},
		Exhaustive: func(string) bool { return true },
		Units:      func(tier string, seed uint64) int { return c17Units(tier) },
		Run:        c17Run,
		Replay:     c17Replay,
		Final: func(ev *mon.Evidence) error {
			c17MergeReplay()
			for _, p := range c17Parts {
				if p.units(ev.Tier) > 0 && ev.Counters["part "+p.name+": units run"] == 0 && ev.Violations == 0 {
					return fmt.Errorf("part %s ran no unit", p.name)
				}
			}
			if ev.Violations == 0 && (ev.Counters["render: caret column compared"] == 0 || ev.Counters["render: line number compared"] == 0 || ev.Counters["render: rendered message parsed (line number shown, source line, caret line)"] == 0) {
				return fmt.Errorf("render part compared nothing")
			}
			return nil
		},
	})
}

// ---- the render part ----------------------------------------------------------------------

type c17RenderCase struct {
	ContentB64    string `json:"content_b64"`
	ContentQuoted string `json:"content_quoted"` // informational, same bytes
	Pos           int    `json:"pos"`
	Variant       int    `json:"variant"`
	// Before, when >= 0: the SAME error object was first placed at that offset and rendered,
	// then moved to Pos with SetIndex and rendered again
	Before int `json:"rendered_before_at"`
}

// three ways of building the error: generic, and two coded templates with arguments
// (messages and file name carry no digits and no newline, so the rendering can be parsed)
func c17MakeErr(variant int) (jerrors.Errorf, int) {
	switch variant % 3 {
	case 1:
		return jerrors.Format(jerrors.ErrInvalidCharacter, "x", "in literal"), int(jerrors.ErrInvalidCharacter)
	case 2:
		return jerrors.Format(jerrors.ErrConstraintValidation, "min", "five", "(exclusive)"), int(jerrors.ErrConstraintValidation)
	}
	return jerrors.Format(jerrors.ErrGeneric, "something is wrong"), int(jerrors.ErrGeneric)
}

const c17FileName = "some/file.jst"

type c17Obs struct {
	panicIn  string // "" or "<call>: <value>"
	line     uint
	src      string
	str      string
	errStr   string
	position uint
	conv     string // "" if ConvertError preserved everything, else what differed
}

func c17Call(name string, o *c17Obs, f func()) {
	defer func() {
		if r := recover(); r != nil && o.panicIn == "" {
			o.panicIn = fmt.Sprintf("%s: %v", name, r)
		}
	}()
	f()
}

// c17Observe drives the public API for one (content, position).
func c17Observe(content []byte, pos, variant int) c17Obs {
	return c17ObserveAfter(content, -1, pos, variant)
}

// c17ObserveAfter: when before >= 0 the error object is first placed at that offset and
// rendered completely, then moved to pos (SetIndex) - what it shows must follow.
func c17ObserveAfter(content []byte, before, pos, variant int) c17Obs {
	var o c17Obs
	var file *fs.File
	var e jerrors.DocumentError
	format, code := c17MakeErr(variant)
	c17Call("NewDocumentError", &o, func() {
		// the file gets its own copy: the library must not be able to alias the harness's bytes
		file = fs.NewFile(c17FileName, append([]byte{}, content...))
		e = jerrors.NewDocumentError(file, format)
		if before >= 0 {
			e.SetIndex(bytes.Index(before))
			_ = e.Line()
			_ = e.SourceSubString()
			_ = e.String()
			_ = (&e).Error()
		}
		e.SetIndex(bytes.Index(pos))
	})
	if o.panicIn != "" {
		return o
	}
	c17Call("Line()", &o, func() { o.line = e.Line() })
	c17Call("SourceSubString()", &o, func() { o.src = e.SourceSubString() })
	c17Call("String()", &o, func() { o.str = e.String() })
	c17Call("Error()", &o, func() { o.errStr = e.Error() })
	c17Call("Position()", &o, func() { o.position = e.Position() })
	c17Call("kit.ConvertError", &o, func() {
		k := kit.ConvertError(file, e)
		switch {
		case k == nil:
			o.conv = "ConvertError returned nil"
		case k.Position() != uint(pos):
			o.conv = fmt.Sprintf("ConvertError().Position()=%d", k.Position())
		case k.Filename() != c17FileName:
			o.conv = "ConvertError().Filename()=" + k.Filename()
		case k.ErrCode() != code:
			o.conv = fmt.Sprintf("ConvertError().ErrCode()=%d", k.ErrCode())
		case k.Message() != e.Message():
			o.conv = "ConvertError().Message() differs"
		}
	})
	// a second call must give the same answers (the error caches its preparation)
	c17Call("String() again", &o, func() {
		if s2 := e.String(); s2 != o.str && o.panicIn == "" {
			o.conv = "second String() differs from the first"
		}
	})
	return o
}

// c17ParseRendering extracts, from the rendered message, the digit runs of the lines above
// the source line, the column of the caret relative to the start of the shown text, and
// whether the source line is shown. Format-agnostic: the last line must be dashes and one '^',
// the line above must end with the shown text.
func c17ParseRendering(str, shown string, code int) (lineNumbers []string, col int, problem string) {
	parts := strings.Split(str, "\n")
	if len(parts) < 3 {
		return nil, 0, "rendering has fewer than 3 lines"
	}
	caretLine, textLine := parts[len(parts)-1], parts[len(parts)-2]
	ci := strings.IndexByte(caretLine, '^')
	if ci < 0 || ci != len(caretLine)-1 || strings.Trim(caretLine[:ci], "-\t ") != "" {
		return nil, 0, "last line is not a caret line"
	}
	if !strings.HasSuffix(textLine, shown) {
		return nil, 0, "the line above the caret does not end with SourceSubString()"
	}
	col = ci - (len(textLine) - len(shown))
	head := strings.Join(parts[:len(parts)-2], "\n")
	run := ""
	flush := func() {
		if run != "" {
			lineNumbers = append(lineNumbers, run)
			run = ""
		}
	}
	for i := 0; i < len(head); i++ {
		if head[i] >= '0' && head[i] <= '9' {
			run += string(head[i])
		} else {
			flush()
		}
	}
	flush()
	if code != 0 { // the error code is printed in the head as well: drop one occurrence
		for i, r := range lineNumbers {
			if r == strconv.Itoa(code) {
				lineNumbers = append(append([]string{}, lineNumbers[:i]...), lineNumbers[i+1:]...)
				break
			}
		}
	}
	return lineNumbers, col, ""
}

// c17Judge renders expectation and observation cell by cell; cells the statement does not
// decide are "*" on both sides. The expectation depends on the oracle only; the two strings
// are equal iff the property holds on the case.
func c17Judge(c *mon.Ctx, content []byte, pos, variant int, o c17Obs) (want, got string) {
	e := refrender.For(content, pos)
	_, code := c17MakeErr(variant)
	count := func(name string) {
		if c != nil {
			c.Count(name, 1)
			c.Eval(1)
		}
	}
	if !e.Inside {
		// empty file (or a position outside): executed, nothing judged
		if c != nil && o.panicIn != "" {
			c.Count("render: panic for a position outside the content (not judged)", 1)
		}
		return "not judged", "not judged"
	}
	const lineBound = "within [1, 1+newline bytes before the position]"
	uniform := e.Ends != refrender.Mixed
	// ---- expectation
	w := []string{"panic=none", "api=consistent"}
	if e.LineDecided {
		w = append(w, "line="+strconv.Itoa(e.Line))
	} else {
		w = append(w, "line="+lineBound)
	}
	switch {
	case e.TextDecided && e.Truncated:
		w = append(w, "text=legal truncation")
	case e.TextDecided:
		w = append(w, "text="+strconv.Quote(e.Text))
	default:
		w = append(w, "text=*")
	}
	if uniform {
		w = append(w, "message=line number, source line, caret line")
	} else {
		w = append(w, "message=*")
	}
	if e.CaretDecided {
		w = append(w, "caret="+strconv.Itoa(e.Col))
	} else {
		w = append(w, "caret=*")
	}
	want = strings.Join(w, "; ")
	// ---- observation
	count("render: no-panic cases")
	if o.panicIn != "" {
		return want, "panic=" + o.panicIn
	}
	g := []string{"panic=none"}
	api := "consistent"
	switch {
	case o.errStr != o.str:
		api = "Error() differs from String()"
	case o.position != uint(pos):
		api = fmt.Sprintf("Position()=%d", o.position)
	case o.conv != "":
		api = o.conv
	}
	g = append(g, "api="+api)
	if e.LineDecided {
		count("render: line number compared")
		g = append(g, "line="+strconv.Itoa(int(o.line)))
	} else {
		count("render: line number bounded (mixed line ends)")
		if o.line < 1 || int(o.line) > e.MaxLine {
			g = append(g, "line="+strconv.Itoa(int(o.line)))
		} else {
			g = append(g, "line="+lineBound)
		}
	}
	switch {
	case e.TextDecided && e.Truncated:
		count("render: truncated source line judged (line beyond 200 bytes)")
		if e.TextOK(o.src) {
			g = append(g, "text=legal truncation")
		} else {
			g = append(g, "text="+strconv.Quote(o.src))
		}
	case e.TextDecided:
		count("render: source line compared")
		g = append(g, "text="+strconv.Quote(o.src))
	default:
		g = append(g, "text=*")
	}
	col := -1
	if uniform {
		// what the rendered message shows
		count("render: rendered message parsed (line number shown, source line, caret line)")
		nums, cl, problem := c17ParseRendering(o.str, o.src, code)
		col = cl
		if problem == "" {
			problem = "line number " + strconv.Itoa(int(o.line)) + " not shown (digits in the head: " + strings.Join(nums, ",") + ")"
			for _, n := range nums {
				if n == strconv.Itoa(int(o.line)) {
					problem = ""
				}
			}
		}
		if problem == "" {
			g = append(g, "message=line number, source line, caret line")
		} else {
			g = append(g, "message="+problem)
		}
	} else {
		g = append(g, "message=*")
	}
	if e.CaretDecided {
		count("render: caret column compared")
		g = append(g, "caret="+strconv.Itoa(col))
	} else {
		g = append(g, "caret=*")
	}
	return want, strings.Join(g, "; ")
}

func c17RenderCheck(c *mon.Ctx, content []byte, pos, variant int) {
	o := c17Observe(content, pos, variant)
	want, got := c17Judge(c, content, pos, variant, o)
	if want == got {
		return
	}
	c.Violate("render", c17RenderCase{base64.StdEncoding.EncodeToString(content), strconv.Quote(string(content)), pos, variant, -1},
		want, got, fmt.Sprintf("rendering of a DocumentError at position %d of %s", pos, strconv.Quote(string(content[:min(len(content), 60)]))))
}

// c17RebasedCheck: one error object rendered at `before`, moved to pos, rendered again.
func c17RebasedCheck(c *mon.Ctx, content []byte, before, pos, variant int) {
	o := c17ObserveAfter(content, before, pos, variant)
	want, got := c17Judge(c, content, pos, variant, o)
	c.Count("render: error objects moved with SetIndex after a first rendering", 1)
	if want == got {
		return
	}
	c.Violate("render", c17RenderCase{base64.StdEncoding.EncodeToString(content), strconv.Quote(string(content)), pos, variant, before},
		want, got, fmt.Sprintf("rendering of a DocumentError moved from position %d to %d of %s", before, pos, strconv.Quote(string(content[:min(len(content), 60)]))))
}

func c17RenderReplay(raw json.RawMessage) string {
	cs := c17RenderCase{Before: -1}
	if err := json.Unmarshal(raw, &cs); err != nil {
		return "bad replay: " + err.Error()
	}
	content, err := base64.StdEncoding.DecodeString(cs.ContentB64)
	if err != nil {
		return "bad replay: " + err.Error()
	}
	_, got := c17Judge(nil, content, cs.Pos, cs.Variant, c17ObserveAfter(content, cs.Before, cs.Pos, cs.Variant))
	return got
}

// ---- render workload ----------------------------------------------------------------------

const c17Alphabet = "a \t\n\r"

type c17RenderLayout struct {
	maxLen, nRand, filesPer int
}

func c17RenderLayoutOf(tier string) c17RenderLayout {
	if tier == "thorough" {
		return c17RenderLayout{maxLen: 7, nRand: 1000, filesPer: 100}
	}
	return c17RenderLayout{maxLen: 6, nRand: 128, filesPer: 60}
}

// exhaustive units: 125 prefixes of three symbols, plus one unit for the shorter contents
func (l c17RenderLayout) total() int { return 126 + l.nRand }

func c17RenderRun(c *mon.Ctx, i int) {
	l := c17RenderLayoutOf(c.Tier)
	switch {
	case i == 0:
		// contents of length 0..2, and the empty file at index 0 (executed, not judged)
		c17RenderCheck(c, nil, 0, 0)
		c.Count("render: empty file at index 0 executed", 1)
		buf := make([]byte, 0, 2)
		var rec func()
		rec = func() {
			if len(buf) > 0 {
				c17ExhaustiveContent(c, buf)
			}
			if len(buf) == 2 {
				return
			}
			for k := 0; k < len(c17Alphabet); k++ {
				buf = append(buf, c17Alphabet[k])
				rec()
				buf = buf[:len(buf)-1]
			}
		}
		rec()
		c.Sample("render exhaustive", map[string]any{"alphabet": "a SP TAB LF CR", "max_len": l.maxLen, "positions": "every offset inside the content"})
	case i <= 125:
		p := i - 1
		buf := make([]byte, 3, l.maxLen)
		buf[0], buf[1], buf[2] = c17Alphabet[p/25], c17Alphabet[p/5%5], c17Alphabet[p%5]
		var rec func()
		rec = func() {
			c17ExhaustiveContent(c, buf)
			if len(buf) == l.maxLen {
				return
			}
			for k := 0; k < len(c17Alphabet); k++ {
				buf = append(buf, c17Alphabet[k])
				rec()
				buf = buf[:len(buf)-1]
			}
		}
		rec()
	default:
		c17RenderRandom(c, l, i-126)
	}
}

func c17ExhaustiveContent(c *mon.Ctx, content []byte) {
	trivial := strings.Trim(string(content), "a") == ""
	for pos := range content {
		c17RenderCheck(c, content, pos, len(content)+pos)
		if !trivial {
			c.DistinctByConstruction(1)
		}
	}
	c.Count("render: exhaustive (content, position) cases", len(content))
	c.Count("render: exhaustive files with "+refrender.Classify(content).String()+" line ends", 1)
}

var c17Body = []string{"a", "b", "{", "}", "[", "]", "\"", ":", ",", "1", "9", "@", "/", "#", "x", "y", "z", "é", "ж", "\xff", "\x7f", "\\", " ", " ", "\t", "-", "^", ".", "..."}

func c17RandLine(r *mon.Rng, sb *strings.Builder) {
	switch r.Intn(12) {
	case 0: // empty line
		return
	case 1: // blank-only line
		for n := r.Range(1, 6); n > 0; n-- {
			sb.WriteByte(" \t"[r.Intn(2)])
		}
		return
	}
	lead := 0
	switch r.Intn(4) {
	case 0:
	case 1:
		lead = r.Range(1, 3)
	default:
		lead = r.Range(0, 12)
	}
	long := r.Chance(1, 7)
	if long && r.Chance(1, 8) {
		lead = r.Range(90, 230)
	}
	for k := 0; k < lead; k++ {
		sb.WriteByte(" \t"[r.Intn(5)/4])
	}
	n := r.Range(1, 50)
	if long {
		switch r.Intn(3) {
		case 0:
			n = r.Range(196, 204) - lead // right at the bound
			if n < 1 {
				n = r.Range(1, 20)
			}
		case 1:
			n = r.Range(150, 260)
		default:
			n = r.Range(200, 520)
		}
	}
	start := sb.Len()
	if r.Chance(1, 40) {
		sb.WriteString([]string{"\v", "\f", "\x00", "\u00a0", "\u2003", "\ufeff"}[r.Intn(6)]) // exotic "blank": text not judged
	}
	for sb.Len()-start < n {
		sb.WriteString(c17Body[r.Intn(len(c17Body))])
	}
}

// c17RandFile returns a file and the offsets of its line starts.
func c17RandFile(r *mon.Rng) []byte {
	style := r.Intn(10) // 0-2 LF, 3-4 CR, 5-7 CRLF, 8-9 mixed
	term := func() string {
		switch {
		case style <= 2:
			return "\n"
		case style <= 4:
			return "\r"
		case style <= 7:
			return "\r\n"
		}
		return []string{"\n", "\r", "\r\n", "\n\r"}[r.Intn(4)]
	}
	var sb strings.Builder
	lines := r.Range(1, 30)
	if r.Chance(1, 5) {
		lines = r.Range(1, 3)
	}
	limit := 2048
	if r.Chance(1, 6) {
		// the first line break lies beyond the first KiB
		limit = 4096
		sb.WriteString(strings.Repeat(" ", r.Intn(3)) + strings.Repeat("long first line ", r.Range(65, 110)))
		sb.WriteString(term())
		lines = r.Range(2, 8)
	}
	for i := 0; i < lines && sb.Len() < limit; i++ {
		c17RandLine(r, &sb)
		if i < lines-1 || r.Bool() {
			sb.WriteString(term())
		}
	}
	b := []byte(sb.String())
	if len(b) > limit {
		b = b[:limit]
	}
	if len(b) == 0 {
		b = []byte("a")
	}
	return b
}

func c17RenderRandom(c *mon.Ctx, l c17RenderLayout, k int) {
	r := c.Rng(17)
	for f := 0; f < l.filesPer; f++ {
		content := c17RandFile(r)
		ends := refrender.Classify(content)
		c.Count("render: random files with "+ends.String()+" line ends", 1)
		// positions: structural ones of a few random lines + uniformly random ones
		var ps []int
		for n := 0; n < 16; n++ {
			ps = append(ps, r.Intn(len(content)))
		}
		for n := 0; n < 8; n++ {
			// walk to the surroundings of a random newline byte
			p := r.Intn(len(content))
			for p < len(content)-1 && content[p] != '\n' && content[p] != '\r' {
				p++
			}
			for d := -2; d <= 3; d++ {
				if q := p + d; q >= 0 && q < len(content) {
					ps = append(ps, q)
				}
			}
			// first non-blank after it
			q := p + 1
			for q < len(content) && (content[q] == ' ' || content[q] == '\t' || content[q] == '\n' || content[q] == '\r') {
				q++
			}
			if q < len(content) {
				ps = append(ps, q)
				if q+1 < len(content) {
					ps = append(ps, q+1)
				}
			}
		}
		ps = append(ps, 0, len(content)-1)
		seen := map[int]bool{}
		for _, pos := range ps {
			if seen[pos] {
				continue
			}
			seen[pos] = true
			e := refrender.For(content, pos)
			if e.Truncated {
				c.Count("render: positions on lines beyond 200 bytes", 1)
			}
			if e.LineDecided && !e.CaretDecided {
				c.Count("render: positions inside leading blanks / on blank lines (no-panic + line only)", 1)
			}
			c17RenderCheck(c, content, pos, r.Intn(3))
			c.Distinct(string(content) + "\x00" + strconv.Itoa(pos))
		}
		// the same error object moved from one position to another
		for n := 0; n+1 < len(ps) && n < 12; n += 2 {
			c17RebasedCheck(c, content, ps[n], ps[n+1], r.Intn(3))
		}
		c.Count("render: random (content, position) cases", len(seen))
		if k == 0 && f < 2 {
			c.Sample("render random", map[string]any{"content_quoted": strconv.Quote(string(content[:min(len(content), 120)])), "len": len(content), "line_ends": ends.String(), "positions": len(seen)})
		}
	}
}
