package props

// C02 — scalar rules admit exactly the values their definitions describe.
//
// Reference-model monitor on (rule set, probe) pairs with probes placed on, just inside and
// just outside every bound, plus the metamorphic "inertness" monitor: inserting a false-valued
// rule (nullable/const/exclusive*) at any position changes no verdict.

import (
	"encoding/json"
	"fmt"
	"math/big"
	"regexp"
	"strings"

	"github.com/jsightapi/jsight-schema-go-library/notations/jschema"
	"github.com/jsightapi/jsight-schema-go-library/rules/enum"

	"verif/internal/gen"
	"verif/internal/lib"
	"verif/internal/model"
	"verif/internal/mon"
)

var zeroMantissaExp = regexp.MustCompile(`^-?0[eE][+-]?[0-9]+$`)

type c02Case struct {
	Schema string `json:"schema"`
	Doc    string `json:"doc"`
}

func c02Sizes(tier string) (units, per int) {
	if tier == "thorough" {
		return 12000, 120
	}
	return 256, 24
}

// c02Exhaustive: small-scope exhaustive part. Every combination of min / max over a grid of
// bounds with every exclusive-flag combination, on an example placed so that Check accepts,
// against every document numeral of a value grid in several spellings; and every
// minLength/maxLength pair over 0..4 against ASCII strings of length 0..5.
const c02ExhUnits = 16

func c02Exhaustive(c *mon.Ctx, part int) {
	grid := []string{"-2", "-1.5", "-1", "-0.5", "0", "0.5", "1", "1.5", "2"}
	var docs []*model.Val
	for _, g := range []string{"-2.5", "-2", "-1.75", "-1.5", "-1", "-0.5", "-0.25", "0", "0.25", "0.5", "1", "1.25", "1.5", "2", "2.5"} {
		for _, sp := range []string{g, g + "0", ""} {
			if sp == "" {
				x, _ := model.Rat(g)
				sp = gen.RatText(x) + "e0"
			}
			if !strings.Contains(sp, ".") && strings.HasSuffix(sp, "0") && sp != g && !strings.Contains(sp, "e") {
				sp = g + ".0"
			}
			docs = append(docs, model.VNumber(sp))
		}
	}
	idx := 0
	flags := []int{0, 1, 2} // absent, false, true
	for _, lo := range append([]string{""}, grid...) {
		for _, hi := range append([]string{""}, grid...) {
			for _, fl := range flags {
				for _, fh := range flags {
					idx++
					if idx%c02ExhUnits != part {
						continue
					}
					if lo == "" && fl != 0 || hi == "" && fh != 0 || lo == "" && hi == "" {
						continue
					}
					// example strictly inside when possible
					ex := ""
					switch {
					case lo != "" && hi != "":
						a, _ := model.Rat(lo)
						b, _ := model.Rat(hi)
						if a.Cmp(b) > 0 || (a.Cmp(b) == 0 && (fl == 2 || fh == 2)) {
							continue
						}
						m := new(big.Rat).Add(a, b)
						m.Quo(m, big.NewRat(2, 1))
						ex = gen.RatText(m)
					case lo != "":
						a, _ := model.Rat(lo)
						ex = gen.RatText(new(big.Rat).Add(a, big.NewRat(1, 1)))
					default:
						b, _ := model.Rat(hi)
						ex = gen.RatText(new(big.Rat).Sub(b, big.NewRat(1, 1)))
					}
					var n *model.Node
					if strings.Contains(ex, ".") {
						n = model.Flt(ex)
					} else {
						n = model.Flt(ex + ".0")
					}
					if lo != "" {
						n.Rules = append(n.Rules, model.RNum("min", lo))
						if fl != 0 {
							n.Rules = append(n.Rules, model.RBool("exclusiveMinimum", fl == 2))
						}
					}
					if hi != "" {
						n.Rules = append(n.Rules, model.RNum("max", hi))
						if fh != 0 {
							n.Rules = append(n.Rules, model.RBool("exclusiveMaximum", fh == 2))
						}
					}
					c02ExhJudge(c, n, docs)
				}
			}
		}
	}
	// string lengths
	var sdocs []*model.Val
	for l := 0; l <= 5; l++ {
		sdocs = append(sdocs, model.VString(strings.Repeat("a", l)))
		if l > 0 {
			sdocs = append(sdocs, model.VString(strings.Repeat("a", l-1)+"\n"))
		}
	}
	for lo := -1; lo <= 4; lo++ {
		for hi := -1; hi <= 4; hi++ {
			idx++
			if idx%c02ExhUnits != part || (lo < 0 && hi < 0) || (lo >= 0 && hi >= 0 && lo > hi) {
				continue
			}
			l := lo
			if l < 0 {
				l = hi
			}
			n := model.Str(strings.Repeat("a", l))
			if lo >= 0 {
				n.Rules = append(n.Rules, model.RInt("minLength", lo))
			}
			if hi >= 0 {
				n.Rules = append(n.Rules, model.RInt("maxLength", hi))
			}
			c02ExhJudge(c, n, sdocs)
		}
	}
}

func c02ExhJudge(c *mon.Ctx, n *model.Node, docs []*model.Val) {
	s := &model.Schema{Root: n}
	text := model.Canonical(n)
	built := buildSchema(lib.Spec{Text: text})
	if !built.ok {
		c.Violate("exh-check", c02Case{text, ""}, "accept", built.check.String(), "Check rejects a rule set whose example obeys it (small-scope exhaustive part)")
		return
	}
	c.DistinctByConstruction(1)
	c.Count("small-scope rule sets", 1)
	for _, d := range docs {
		doc := d.Text()
		if d.K == model.VNum && zeroMantissaExp.MatchString(d.Num) {
			continue
		}
		o := model.NewOracle(s)
		want := o.Accepts(d)
		obs := built.validate(doc)
		c.Eval(1)
		c.Count("small-scope pairs", 1)
		if want == model.Unspec {
			continue
		}
		c.Count(fmt.Sprintf("verdict expected=%s observed=%s", want, obs.Verdict()), 1)
		if obs.Verdict() != want.String() {
			c.Violate("validate", c02Case{text, doc}, want.String(), obs.String(), "Validate verdict differs from the scalar-rule oracle (small-scope exhaustive; "+o.Why+")")
		}
	}
}

func c02Run(c *mon.Ctx, unit int) {
	units, per := c02Sizes(c.Tier)
	if unit >= units {
		c02Exhaustive(c, unit-units)
		return
	}
	r := c.Rng(2)
	for k := 0; k < per; k++ {
		sc := gen.Scalar(r)
		s := &model.Schema{Root: sc.Node}
		text := model.Canonical(sc.Node)
		built := buildSchema(lib.Spec{Text: text})
		if !built.ok {
			c.Count("generated rule set rejected by Check (skipped)", 1)
			c.Sample("rule set rejected by Check", map[string]any{"schema": text, "error": built.check.String()})
			if built.check.Panic != "" {
				c.Violate("check", c02Case{text, ""}, "no panic", built.check.String(), "Check panicked on a scalar rule set")
			} else if want := model.NewOracle(s).Accepts(gen.ExampleVal(sc.Node)); want == model.Accept {
				// the generator writes only rule sets the applicability table allows; when the
				// scalar-rule oracle also says that the example obeys every rule, Check has
				// nothing to refuse (and a refusal here would hide every verdict below)
				c.Violate("legal", c02Case{text, ""}, "accept", built.check.String(), "Check refuses a scalar rule set whose example obeys all of its rules")
			}
			continue
		}
		c.Distinct(text)
		for _, rule := range sc.Node.Rules {
			c.Count("rule sets containing "+rule.Name, 1)
		}
		// false-valued variants, built once
		var variants []*builtSchema
		vs := gen.FalseRuleVariants(sc.Node)
		if len(vs) > 6 {
			mon.Shuffle(r, vs)
			vs = vs[:6]
		}
		for _, vn := range vs {
			vb := buildSchema(lib.Spec{Text: model.Canonical(vn)})
			c.Eval(1)
			if !vb.ok {
				c.Violate("inert-check", map[string]any{"schema": text, "variant": vb.sp.Text}, "accept", vb.check.String(),
					"adding a false-valued rule made Check reject the schema")
				continue
			}
			variants = append(variants, vb)
		}
		// the enum as a named rule whose text carries lines of its own between the values, one
		// rule object given to two schema objects: the second one must judge like the inline list
		if e := sc.Node.Rule("enum"); e != nil && len(e.List) > 1 && e.Raw == "" && k%2 == 0 {
			if nb := c02SharedNamedEnum(sc.Node, e, k); nb != nil {
				if !nb.ok {
					c.Violate("enum-named", map[string]any{"schema": text, "variant": nb.sp.Text, "rule": nb.sp.Rules[0].Text}, "accept", nb.check.String(),
						"the same enum as a named rule (one rule object, second schema using it) is refused by Check")
				} else {
					variants = append(variants, nb)
					c.Count("rule sets also judged through a shared named enum rule", 1)
				}
			}
		}
		seen := map[string]bool{}
		for _, p := range sc.Probes {
			doc := p.Text()
			if seen[doc] {
				continue
			}
			if p.K == model.VNum && zeroMantissaExp.MatchString(p.Num) {
				// the numeral class -?0[eE][+-]?digits is C10's subject (known finding there)
				c.Count("probes left to C10 (zero mantissa directly followed by exponent)", 1)
				continue
			}
			seen[doc] = true
			if r.Chance(1, 4) {
				doc = model.DocStyle{Escapes: r, WS: r}.Render(p)
			}
			o := model.NewOracle(s)
			want := o.Accepts(p)
			obs := built.validate(doc)
			c.Eval(1)
			for m, n := range o.Mech {
				c.Count("mechanism: "+m, n)
			}
			switch {
			case want == model.Unspec:
				c.Count("oracle unspecified (not compared)", 1)
				if obs.Panic != "" {
					c.Violate("vpanic", c02Case{text, doc}, "no panic", obs.String(), "Validate panicked")
				}
			case obs.Verdict() != want.String():
				fresh := lib.Validate(lib.Spec{Text: text}, doc)
				if fresh.Verdict() == want.String() {
					// the statement speaks of every document, whatever the schema object validated before
					c.Violate("validate-reused", c02Case{text, doc}, want.String(), obs.String(),
						"Validate verdict on a schema object used before differs from the scalar-rule oracle, a fresh object agrees ("+o.Why+")")
				} else {
					c.Violate("validate", c02Case{text, doc}, want.String(), fresh.String(),
						"Validate verdict differs from the scalar-rule oracle ("+o.Why+")")
				}
			default:
				c.Count(fmt.Sprintf("verdict expected=%s observed=%s", want, obs.Verdict()), 1)
				if !obs.OK {
					c.Count(fmt.Sprintf("rejection code %d", obs.Code), 1)
				}
			}
			for _, vb := range variants {
				vo := vb.validate(doc)
				c.Eval(1)
				c.Count("inertness comparisons", 1)
				if vo.Verdict() != obs.Verdict() {
					if len(vb.sp.Rules) > 0 {
						c.Violate("enum-named", map[string]any{"schema": text, "variant": vb.sp.Text, "rule": vb.sp.Rules[0].Text, "doc": doc}, "same verdict",
							fmt.Sprintf("inline list: %s; named rule: %s", obs, vo), "a schema sharing a named enum rule object judges differently from the inline list")
						continue
					}
					c.Violate("inert", map[string]any{"schema": text, "variant": vb.sp.Text, "doc": doc}, "same verdict",
						fmt.Sprintf("without: %s; with the false-valued rule: %s", obs, vo), "a false-valued rule is not inert")
				}
			}
		}
		if k == 0 && unit < 8 {
			c.Sample("rule set with probes", map[string]any{"schema": text, "probes": len(seen), "first_probe": sc.Probes[0].Text()})
		}
	}
}

// c02SharedNamedEnum: the node with {enum: @E}; the rule text lists the values one per line with
// comment lines between them; one rule object is added to a first schema (checked and dropped)
// and to a second one, which is returned.
func c02SharedNamedEnum(n *model.Node, e *model.Rule, k int) *builtSchema {
	var sb strings.Builder
	sb.WriteString("[\n")
	for i, it := range e.List {
		if i > 0 && (i+k/2)%2 == 1 {
			sb.WriteString([]string{"  // the next group\n", "  // {x} - more\n"}[k/2%2])
		}
		sb.WriteString("  " + it)
		if i < len(e.List)-1 {
			sb.WriteString(",")
		}
		sb.WriteString("\n")
	}
	sb.WriteString("]")
	named := n.Clone()
	for i, r := range named.Rules {
		if r.Name == "enum" {
			named.Rules[i] = model.REnumRef("@E")
		}
	}
	sp := lib.Spec{Text: model.Canonical(named), Rules: []lib.RuleDef{{Name: "@E", Text: sb.String()}}}
	return c02BuildShared(sp)
}

func c02BuildShared(sp lib.Spec) *builtSchema {
	rule := enum.New("@E", sp.Rules[0].Text)
	b := &builtSchema{sp: sp}
	var second *jschema.Schema
	for i := 0; i < 2; i++ {
		sc := jschema.New("schema", sp.Text)
		if o := lib.Safe(func() error { return sc.AddRule("@E", rule) }); !o.OK {
			b.check = o
			return b
		}
		b.check = lib.Safe(sc.Check)
		second = sc
	}
	b.ok = b.check.OK
	b.validate = func(doc string) lib.Obs { return lib.ValidateOn(second, doc) }
	b.validateChecked = b.validate
	return b
}

func init() {
	mon.Register(&mon.Prop{
		ID:    "C02",
		Level: "exploration",
		Rule: "scalar example + rule set (min/max with exclusive flags, precision/decimal, minLength/maxLength, regex from a 20-pattern RE2 table, enum lists with kind-colliding texts, const, " +
			"format types, nullable, explicit type) built so that Check should accept it; probes on, just inside and just outside every bound in several numeral spellings / escape spellings, " +
			"format boundary tables, other kinds and null; every rule set also in up to 6 variants with a false-valued rule inserted at a random position. " +
			"Non-trivial = a distinct rule-set text accepted by Check whose probes were judged.",
		Assumptions: []string{
			"email/uri cells are judged only for hand-classified clear cases (their language is defined by Go's std parsers)",
			"string length cells where byte and rune counts straddle the bound, and const on numerically-equal-but-differently-spelled numbers, are Unspecified",
		},
		Units: func(tier string, seed uint64) int { u, _ := c02Sizes(tier); return u + c02ExhUnits },
		Run:   c02Run,
		Replay: map[string]func(json.RawMessage) string{
			"validate-reused": func(json.RawMessage) string {
				return "needs the history of the schema object: not replayable from the case alone"
			},
			"validate": func(raw json.RawMessage) string {
				var cs c02Case
				json.Unmarshal(raw, &cs)
				return lib.Validate(lib.Spec{Text: cs.Schema}, cs.Doc).Verdict()
			},
			"vpanic": func(raw json.RawMessage) string {
				var cs c02Case
				json.Unmarshal(raw, &cs)
				return noPanic(lib.Validate(lib.Spec{Text: cs.Schema}, cs.Doc))
			},
			"legal": func(raw json.RawMessage) string {
				var cs c02Case
				json.Unmarshal(raw, &cs)
				return lib.Check(lib.Spec{Text: cs.Schema}).Verdict()
			},
			"exh-check": func(raw json.RawMessage) string {
				var cs c02Case
				json.Unmarshal(raw, &cs)
				return lib.Check(lib.Spec{Text: cs.Schema}).Verdict()
			},
			"check": func(raw json.RawMessage) string {
				var cs c02Case
				json.Unmarshal(raw, &cs)
				if o := lib.Check(lib.Spec{Text: cs.Schema}); o.Panic != "" {
					return o.String()
				}
				return "no panic"
			},
			"enum-named": func(raw json.RawMessage) string {
				var m struct{ Schema, Variant, Rule, Doc string }
				json.Unmarshal(raw, &m)
				b := c02BuildShared(lib.Spec{Text: m.Variant, Rules: []lib.RuleDef{{Name: "@E", Text: m.Rule}}})
				if m.Doc == "" || !b.ok {
					return b.check.Verdict()
				}
				a := lib.Validate(lib.Spec{Text: m.Schema}, m.Doc)
				if v := b.validate(m.Doc); v.Verdict() != a.Verdict() {
					return fmt.Sprintf("inline list: %s; named rule: %s", a, v)
				}
				return "same verdict"
			},
			"inert-check": func(raw json.RawMessage) string {
				var m struct{ Schema, Variant string }
				json.Unmarshal(raw, &m)
				return lib.Check(lib.Spec{Text: m.Variant}).Verdict()
			},
			"inert": func(raw json.RawMessage) string {
				var m struct{ Schema, Variant, Doc string }
				json.Unmarshal(raw, &m)
				a := lib.Validate(lib.Spec{Text: m.Schema}, m.Doc)
				b := lib.Validate(lib.Spec{Text: m.Variant}, m.Doc)
				if a.Verdict() == b.Verdict() {
					return "same verdict"
				}
				return fmt.Sprintf("without: %s; with the false-valued rule: %s", a, b)
			},
		},
		Final: func(ev *mon.Evidence) error {
			if ev.Counters["verdict expected=accept observed=accept"] == 0 || ev.Counters["verdict expected=reject observed=reject"] == 0 {
				return fmt.Errorf("verdict histogram is one-sided")
			}
			return nil
		},
	})
}
