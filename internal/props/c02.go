package props

// C02 — scalar rules admit exactly the values their definitions describe.
//
// Reference-model monitor on (rule set, probe) pairs with probes placed on, just inside and
// just outside every bound, plus the metamorphic "inertness" monitor: inserting a false-valued
// rule (nullable/const/exclusive*) at any position changes no verdict.

import (
	"encoding/json"
	"fmt"
	"regexp"

	"verif/internal/gen"
	"verif/internal/lib"
	"verif/internal/model"
	"verif/internal/mon"
)

var zeroMantissaExp = regexp.MustCompile(`^-?0[eE][+-]?[0-9]+$`)

type c02Case struct {
	Schema string `json:"schema"`
	Doc    string `json:"doc"`
}

func c02Sizes(tier string) (units, per int) {
	if tier == "thorough" {
		return 4000, 120
	}
	return 256, 24
}

func c02Run(c *mon.Ctx, unit int) {
	_, per := c02Sizes(c.Tier)
	r := c.Rng(2)
	for k := 0; k < per; k++ {
		sc := gen.Scalar(r)
		s := &model.Schema{Root: sc.Node}
		text := model.Canonical(sc.Node)
		built := buildSchema(lib.Spec{Text: text})
		if !built.ok {
			c.Count("generated rule set rejected by Check (skipped)", 1)
			c.Sample("rule set rejected by Check", map[string]any{"schema": text, "error": built.check.String()})
			if built.check.Panic != "" {
				c.Violate("check", c02Case{text, ""}, "no panic", built.check.String(), "Check panicked on a scalar rule set")
			}
			continue
		}
		c.Distinct(text)
		for _, rule := range sc.Node.Rules {
			c.Count("rule sets containing "+rule.Name, 1)
		}
		// false-valued variants, built once
		var variants []*builtSchema
		vs := gen.FalseRuleVariants(sc.Node)
		if len(vs) > 6 {
			mon.Shuffle(r, vs)
			vs = vs[:6]
		}
		for _, vn := range vs {
			vb := buildSchema(lib.Spec{Text: model.Canonical(vn)})
			c.Eval(1)
			if !vb.ok {
				c.Violate("inert-check", map[string]any{"schema": text, "variant": vb.sp.Text}, "accept", vb.check.String(),
					"adding a false-valued rule made Check reject the schema")
				continue
			}
			variants = append(variants, vb)
		}
		seen := map[string]bool{}
		for _, p := range sc.Probes {
			doc := p.Text()
			if seen[doc] {
				continue
			}
			if p.K == model.VNum && zeroMantissaExp.MatchString(p.Num) {
				// the numeral class -?0[eE][+-]?digits is C10's subject (known finding there)
				c.Count("probes left to C10 (zero mantissa directly followed by exponent)", 1)
				continue
			}
			seen[doc] = true
			if r.Chance(1, 4) {
				doc = model.DocStyle{Escapes: r, WS: r}.Render(p)
			}
			o := model.NewOracle(s)
			want := o.Accepts(p)
			obs := built.validate(doc)
			c.Eval(1)
			for m, n := range o.Mech {
				c.Count("mechanism: "+m, n)
			}
			switch {
			case want == model.Unspec:
				c.Count("oracle unspecified (not compared)", 1)
				if obs.Panic != "" {
					c.Violate("vpanic", c02Case{text, doc}, "no panic", obs.String(), "Validate panicked")
				}
			case obs.Verdict() != want.String():
				fresh := lib.Validate(lib.Spec{Text: text}, doc)
				if fresh.Verdict() == want.String() {
					c.Inconclusive("verdict differed on a reused schema object but not on a fresh one (C11 territory)")
				} else {
					c.Violate("validate", c02Case{text, doc}, want.String(), fresh.String(),
						"Validate verdict differs from the scalar-rule oracle ("+o.Why+")")
				}
			default:
				c.Count(fmt.Sprintf("verdict expected=%s observed=%s", want, obs.Verdict()), 1)
				if !obs.OK {
					c.Count(fmt.Sprintf("rejection code %d", obs.Code), 1)
				}
			}
			for _, vb := range variants {
				vo := vb.validate(doc)
				c.Eval(1)
				c.Count("inertness comparisons", 1)
				if vo.Verdict() != obs.Verdict() {
					c.Violate("inert", map[string]any{"schema": text, "variant": vb.sp.Text, "doc": doc}, "same verdict",
						fmt.Sprintf("without: %s; with the false-valued rule: %s", obs, vo), "a false-valued rule is not inert")
				}
			}
		}
		if k == 0 && unit < 8 {
			c.Sample("rule set with probes", map[string]any{"schema": text, "probes": len(seen), "first_probe": sc.Probes[0].Text()})
		}
	}
}

func init() {
	mon.Register(&mon.Prop{
		ID:    "C02",
		Level: "exploration",
		Rule: "scalar example + rule set (min/max with exclusive flags, precision/decimal, minLength/maxLength, regex from a 20-pattern RE2 table, enum lists with kind-colliding texts, const, " +
			"format types, nullable, explicit type) built so that Check should accept it; probes on, just inside and just outside every bound in several numeral spellings / escape spellings, " +
			"format boundary tables, other kinds and null; every rule set also in up to 6 variants with a false-valued rule inserted at a random position. " +
			"Non-trivial = a distinct rule-set text accepted by Check whose probes were judged.",
		Assumptions: []string{
			"email/uri cells are judged only for hand-classified clear cases (their language is defined by Go's std parsers)",
			"string length cells where byte and rune counts straddle the bound, and const on numerically-equal-but-differently-spelled numbers, are Unspecified",
		},
		Units: func(tier string, seed uint64) int { u, _ := c02Sizes(tier); return u },
		Run:   c02Run,
		Replay: map[string]func(json.RawMessage) string{
			"validate": func(raw json.RawMessage) string {
				var cs c02Case
				json.Unmarshal(raw, &cs)
				return lib.Validate(lib.Spec{Text: cs.Schema}, cs.Doc).Verdict()
			},
			"vpanic": func(raw json.RawMessage) string {
				var cs c02Case
				json.Unmarshal(raw, &cs)
				return noPanic(lib.Validate(lib.Spec{Text: cs.Schema}, cs.Doc))
			},
			"check": func(raw json.RawMessage) string {
				var cs c02Case
				json.Unmarshal(raw, &cs)
				if o := lib.Check(lib.Spec{Text: cs.Schema}); o.Panic != "" {
					return o.String()
				}
				return "no panic"
			},
			"inert-check": func(raw json.RawMessage) string {
				var m struct{ Schema, Variant string }
				json.Unmarshal(raw, &m)
				return lib.Check(lib.Spec{Text: m.Variant}).Verdict()
			},
			"inert": func(raw json.RawMessage) string {
				var m struct{ Schema, Variant, Doc string }
				json.Unmarshal(raw, &m)
				a := lib.Validate(lib.Spec{Text: m.Schema}, m.Doc)
				b := lib.Validate(lib.Spec{Text: m.Variant}, m.Doc)
				if a.Verdict() == b.Verdict() {
					return "same verdict"
				}
				return fmt.Sprintf("without: %s; with the false-valued rule: %s", a, b)
			},
		},
		Final: func(ev *mon.Evidence) error {
			if ev.Counters["verdict expected=accept observed=accept"] == 0 || ev.Counters["verdict expected=reject observed=reject"] == 0 {
				return fmt.Errorf("verdict histogram is one-sided")
			}
			return nil
		},
	})
}
