package props

// C11 — results are deterministic, history-independent and stable.
//
//   - history monitor: random histories of ≤ 12 public operations over a pool of root schemas
//     (families share THE SAME user-type / enum-rule Go objects), documents, enums and regex types;
//     every result is compared with that single operation on FRESHLY constructed objects;
//     all histories of length ≤ 3 over 3-object pools exhaustively;
//   - aliasing monitor: every value handed out is deep-snapshotted at return time and compared
//     again after every later operation;
//   - map-order monitor: a verdict workload is executed, on fresh objects each time, under forced
//     iteration orders (ascending, descending, rotated by 1..3) at every range-over-map site of a
//     copy of the library rewritten from the current tree (build kind "rw"); independently of
//     that build the same workload is repeated under Go's own randomisation.
//
// Never compared: error message text.

import (
	"bytes"
	"encoding/hex"
	"encoding/json"
	"fmt"
	"os"
	"os/exec"
	"strconv"
	"strings"

	njs "github.com/jsightapi/jsight-schema-go-library/notations/jschema"
	"github.com/jsightapi/jsight-schema-go-library/rules/enum"

	"verif/internal/gen"
	"verif/internal/lib"
	"verif/internal/model"
	"verif/internal/mon"
)

const c11Expected = "every result equals the same operation on freshly constructed objects, and no value handed out earlier changes"

type c11Case struct {
	Pool c11Pool `json:"pool"`
	Ops  []c11Op `json:"history"`
}

// ---- curated material -------------------------------------------------------------------

var c11CuratedFamilies = []c11Family{
	{ // allOf user shared by three roots
		Types: []lib.TypeDef{
			{Name: "@base", Text: "{\n  \"id\": 1\n}"},
			{Name: "@cat", Text: "{ // {allOf: \"@base\"}\n  \"name\": \"Tom\"\n}"},
		},
		Roots: []c11Root{{Text: "@cat"}, {Text: "[@cat]"}, {Text: "{\n  \"pet\": @cat,\n  \"owner\": @base\n}"}},
	},
	{ // regex type and a named enum rule
		Types: []lib.TypeDef{
			{Name: "@code", Text: "/^(foo|bar|ba[a-z]{1,3})$/", Regex: true},
			{Name: "@kind", Text: "\"a\" // {enum: @letters}"},
		},
		Rules: []lib.RuleDef{{Name: "@letters", Text: "[\n  // vowels\n  \"a\", // first\n  // consonants\n  \"b\",\n  \"c\"\n]"}},
		Roots: []c11Root{{Text: "{\n  \"code\": @code,\n  \"kind\": @kind\n}"}, {Text: "@code"}, {Text: "{\n  @code: 1\n}"},
			{Text: "\"b\" // {enum: @letters}"}, {Text: "[\n  \"c\" // {enum: @letters}\n]"}},
	},
	{ // or, inline rule sets (unnamed types), optional recursion
		Types: []lib.TypeDef{
			{Name: "@node", Text: "{\n  \"v\": 1, // {or: [{type: \"integer\", min: 0}, {type: \"string\", maxLength: 3}]}\n  \"next\": @node // {optional: true}\n}"},
			{Name: "@leaf", Text: "\"x\" // {minLength: 1}"},
		},
		Roots: []c11Root{{Text: "@node | @leaf"}, {Text: "{\n  \"list\": [@node],\n  \"leaf\": @leaf\n}"}},
	},
	{ // invalid members: three user types each violating its own rule, a missing type, bad syntax
		Types: []lib.TypeDef{
			{Name: "@a", Text: "5 // {min: 10}"},
			{Name: "@b", Text: "\"xx\" // {maxLength: 1}"},
			{Name: "@c", Text: "\"abc\" // {regex: \"^x\"}"},
		},
		Roots: []c11Root{{Text: "{\n  \"a\": @a,\n  \"b\": @b,\n  \"c\": @c\n}"}, {Text: "{\n  \"m\": @missing\n}"}, {Text: "{\n  \"k\": 1 // {min: }\n}"}, {Text: "@a"}},
	},
	{ // plain schemas, one per root, no sharing
		Roots: []c11Root{
			{Text: "{\n  \"id\": 1, // {min: 1}\n  \"tags\": [\"a\"], // {minItems: 1}\n  \"opt\": 2.5 // {optional: true, precision: 1}\n}"},
			{Text: "[\n  1,\n  \"two\",\n  {\"k\": null}\n]"},
			{Text: "{\n  \"k\": 1\n}", OptKeys: true},
			{Text: "\"2021-01-02\" // {type: \"date\"}"},
			{Text: "{\n  \"a\": {\"b\": {\"c\": [1, 2, 3]}},\n  \"zz\": \"some longer string value here\"\n}"},
			{Text: "{"},
			{Text: ""},
		},
	},
	{ // two allOf parents, additionalProperties, key shortcut
		Types: []lib.TypeDef{
			{Name: "@p1", Text: "{\n  \"p1\": 1\n}"},
			{Name: "@p2", Text: "{\n  \"p2\": \"s\" // {optional: true}\n}"},
			{Name: "@kid", Text: "{ // {allOf: [\"@p1\", \"@p2\"]}\n  \"own\": true\n}"},
			{Name: "@key", Text: "\"kk1\" // {minLength: 3, maxLength: 4}"},
		},
		Roots: []c11Root{{Text: "@kid"}, {Text: "{ // {allOf: \"@kid\", additionalProperties: \"integer\"}\n  @key: 1\n}"}, {Text: "[@kid, @p1]"}},
	},
	{ // base types shared by roots whose DERIVED types differ: compiling one root must not change another
		Types: []lib.TypeDef{
			{Name: "@b1", Text: "{\n  \"left\": 1,\n  \"right\": 2\n}"},
			{Name: "@b2", Text: "{\n  \"x\": \"s\"\n}"},
			{Name: "@b3", Text: "{\n  \"y\": true,\n  \"z\": null\n}"},
			{Name: "@d1", Text: "{} // {allOf: [\"@b1\", \"@b2\"]}"},
			{Name: "@d2", Text: "{ // {allOf: [\"@b1\", \"@b3\"]}\n  \"o\": 1 // {optional: true}\n}"},
			{Name: "@d3", Text: "{ // {allOf: [\"@b2\", \"@b1\", \"@b3\"]}\n  \"own\": 1\n}"},
		},
		Roots: []c11Root{
			{Text: "@d1", Only: []string{"@b1", "@b2", "@d1"}},
			{Text: "@d2", Only: []string{"@b1", "@b3", "@d2"}},
			{Text: "[@d3]", Only: []string{"@b1", "@b2", "@b3", "@d3"}},
			{Text: "{\n  \"k\": @d1,\n  \"m\": @d2 // {optional: true}\n}", Only: []string{"@b1", "@b2", "@b3", "@d1", "@d2"}},
		},
	},
	{ // allOf expansions that fail half-way, in a type shared by several roots
		Types: []lib.TypeDef{
			{Name: "@obj", Text: "{\n  \"o\": 1\n}"},
			{Name: "@str", Text: "\"s\""},
			{Name: "@closed", Text: "{ // {additionalProperties: false}\n  \"c\": 1\n}"},
			{Name: "@open", Text: "{ // {additionalProperties: \"float\"}\n  \"f\": 1\n}"},
			{Name: "@bad1", Text: "{ // {allOf: [\"@obj\", \"@str\"]}\n  \"own\": true\n}"},
			{Name: "@bad2", Text: "{} // {allOf: [\"@open\", \"@closed\"]}"},
			{Name: "@bad3", Text: "{ // {allOf: [\"@obj\", \"@closed\", \"@nowhere\"]}\n  \"c\": 2\n}"},
		},
		Roots: []c11Root{{Text: "@bad1"}, {Text: "[@bad1]"}, {Text: "{\n  \"x\": @obj\n}"}},
	},
	{ // rule sets with several faults of one kind (a format type next to two or three rules it does
		// not admit; two unknown rules; a type whose two or rule-sets are faulty for different
		// reasons): which one Check names belongs to the result
		Types: []lib.TypeDef{
			{Name: "@s", Text: "\"abc\" // {minLength: 1}"},
			{Name: "@two", Text: "1 // {or: [{type: \"@a\", nullable: true}, {type: \"@s\", nullable: true}]}"},
		},
		Roots: []c11Root{
			{Text: "\"a@b.co\" // {type: \"email\", minLength: 1, maxLength: 20, regex: \"a\"}"},
			{Text: "{\n  \"u\": \"2021-01-02\" // {regex: \"2\", type: \"date\", maxLength: 12}\n}"},
			{Text: "5 // {foo: 1, bar: 2}"},
			{Text: "{\n  \"v\": @two\n}"},
			{Text: "[\n  \"550e8400-e29b-41d4-a716-446655440000\" // {maxLength: 40, minLength: 2, type: \"uuid\"}\n]"},
		},
	},
	{ // schemas without a value (empty, blank, only a comment) that receive types all the same
		Types: []lib.TypeDef{{Name: "@id", Text: "1"}, {Name: "@name", Text: "\"n\""}},
		Roots: []c11Root{{Text: ""}, {Text: "  \n"}, {Text: "# only a comment\n"}},
	},
	{ // roots naming types they were never given (they must keep failing, whatever was built before)
		Roots: []c11Root{{Text: "{\n  \"k\": @id\n}"}, {Text: "[@name, @id]"}, {Text: "@id | @name"}},
	},
	{ // one type object (@item, naming @id) in two roots which bind @id to different types
		Types: []lib.TypeDef{
			{Name: "@id", Text: "1"},
			{Name: "@item", Text: "{\n  \"id\": @id,\n  \"tags\": [ // {optional: true}\n    @id\n  ]\n}"},
		},
		Roots: []c11Root{
			{Text: "{\n  \"it\": @item\n}"},
			{Text: "{\n  \"it\": @item\n}", Override: []lib.TypeDef{{Name: "@id", Text: "\"s\""}}},
			{Text: "[@item]", Override: []lib.TypeDef{{Name: "@id", Text: "true"}}},
		},
	},
	{ // one type object that is legal in one root and illegal in another: @item names @id, which the
		// second root was not given; @dict uses @key as a key shortcut, a string type in the first
		// root and a number in the third
		Types: []lib.TypeDef{
			{Name: "@id", Text: "12 // {min: 1}"},
			{Name: "@item", Text: "{\n  \"owner\": @id\n}"},
			{Name: "@key", Text: "\"abc\" // {minLength: 1}"},
			{Name: "@dict", Text: "{\n  @key: 1\n}"},
		},
		Roots: []c11Root{
			{Text: "{\n  \"it\": @item,\n  \"d\": @dict // {optional: true}\n}"},
			{Text: "{\n  \"it\": @item\n}", Only: []string{"@item"}},
			{Text: "{\n  \"d\": @dict\n}", Only: []string{"@dict", "@key"}, Override: []lib.TypeDef{{Name: "@key", Text: "12"}}},
			{Text: "[@dict, @item]", Only: []string{"@dict", "@item", "@id"}},
		},
	},
	{ // two types which each bring a type of their own under the SAME name (the root has none of
		// that name): which definition the root ends up with must not depend on anything but the texts
		Types: []lib.TypeDef{
			{Name: "@cat", Text: "{\n  \"id\": @id\n}", Own: []lib.TypeDef{{Name: "@id", Text: "5 // {min: 1}"}}},
			{Name: "@dog", Text: "{\n  \"tag\": @id\n}", Own: []lib.TypeDef{{Name: "@id", Text: "/^[a-z]{2,4}$/", Regex: true}}},
			{Name: "@emu", Text: "{\n  \"e\": @id // {optional: true}\n}", Own: []lib.TypeDef{{Name: "@id", Text: "true"}}},
		},
		Roots: []c11Root{
			{Text: "{\n  \"cat\": @cat,\n  \"dog\": @dog\n}"},
			{Text: "[@dog, @cat, @emu]"},
			{Text: "@emu | @dog"},
		},
	},
}

var c11CuratedDocs = []c11Doc{
	{Text: `{"id": 1, "name": "Tom"}`}, {Text: `[{"id": 2, "name": "x"}]`}, {Text: `{"pet": {"id": 1, "name": "T"}, "owner": {"id": 3}}`},
	{Text: `{"code": "foo", "kind": "b"}`}, {Text: `"bar"`}, {Text: `{"v": 1, "next": {"v": "ab"}}`}, {Text: `{"list": [{"v": 1}], "leaf": "q"}`},
	{Text: `{"a": 11, "b": "x", "c": "xa"}`}, {Text: `{"id": 1, "tags": ["a", "b"], "opt": 1.5}`}, {Text: `[1, "two", {"k": null}]`}, {Text: `{"k": 1}`},
	{Text: `"2021-01-02"`}, {Text: `{"a": {"b": {"c": [1, 2, 3]}}, "zz": "v"}`}, {Text: `{"p1": 1, "own": true}`}, {Text: `{"p1": 1, "own": true, "kk2": 5, "zzz": 7}`},
	{Text: `{"left": 1, "right": 2, "x": "s"}`}, {Text: `{"left": 1, "right": 2, "y": true, "z": null}`}, {Text: `[{"left": 1, "right": 2, "x": "s", "y": false, "z": null, "own": 3}]`},
	{Text: `{"a": 1,}`}, {Text: ``}, {Text: `   `}, {Text: `[1, 2`}, {Text: `{"k": 1} trailing`, Trailing: true}, {Text: `{"k": 1} x`}, {Text: `1`}, {Text: `null`},
	{Text: "{\n  \"k\" : [ true , false , null ] \n}\n"},
	{Text: `{"id": 12E+2, "tags": ["a"], "opt": 25e-1}`}, {Text: `[1e2, 7, 30E+1, 2]`},
	{Text: `{"it": {"id": 5}}`}, {Text: `{"it": {"id": "x"}}`}, {Text: `[{"id": true, "tags": [false]}]`}, {Text: `{"it": {"id": 5, "tags": ["a"]}}`},
}

var c11CuratedEnums = []string{
	`[1, "a", true, null, 2.5]`,
	"[\n  \"a\", // first\n  \"b\"  // second\n]",
	"[\n  // only a comment\n  1\n]",
	`[1, 1]`, `[`, `[1, {"a": 1}]`, ``, `["x"] trailing`,
}

var c11CuratedRegexes = []string{
	`/^(foo|bar|ba[a-z]{1,3})$/`, `/abc/`, `/[0-9]{2,5}x|y[a-f]+/`, `/a\/b/`, `/(/`, `abc`, `/abc`, `/a{1,4}b?c*/ trailing`,
	// patterns with assertions: what the generator draws first need not match
	`/[a-z ]{2}\b[a-z ]{2}/`, `/[a-c ]{3}\b[x-z ]{3}/`, `/^[a-z]{2}$|\B[0-9]\B/`,
}

// c11GenPool builds a random pool: one generated family (type graph shared by several roots),
// one or two curated families, one rule-free / scalar schema, documents aimed at the roots,
// two enums and two regex types.
func c11GenPool(r *mon.Rng) *c11Pool {
	p := &c11Pool{}
	// generated family
	s := gen.Graph(r, 5)
	s.OptKeys = r.Chance(1, 6)
	sp := specOf(s, model.Style{})
	fam := c11Family{Types: sp.Types, Rules: sp.Rules, Roots: []c11Root{{Text: sp.Text, OptKeys: sp.OptKeys}}}
	for k := 0; k < 2 && len(sp.Types) > 0; k++ {
		t := mon.Pick(r, sp.Types)
		switch r.Intn(3) {
		case 0:
			fam.Roots = append(fam.Roots, c11Root{Text: t.Name, OptKeys: sp.OptKeys})
		case 1:
			fam.Roots = append(fam.Roots, c11Root{Text: "[" + t.Name + "]"})
		default:
			fam.Roots = append(fam.Roots, c11Root{Text: "{\n  \"x\": " + t.Name + " // {optional: true}\n}", OptKeys: sp.OptKeys})
		}
	}
	if r.Chance(1, 5) && len(fam.Types) >= 2 {
		// plant check-time faults in two types: which one Check reports must not depend on anything
		faults := []string{"5 // {min: 10}", "\"xx\" // {maxLength: 1}", "\"abc\" // {regex: \"^x\"}", "1 // {enum: [2, 3]}", "@missing", "{ // {allOf: \"@nope\"}\n}"}
		for _, i := range r.Perm(len(fam.Types))[:2] {
			if !fam.Types[i].Regex {
				fam.Types[i].Text = mon.Pick(r, faults)
			}
		}
	}
	// every fourth generated family holds its types the way an API definition does: all types
	// added to every type, and the type objects are used as schemas themselves
	fam.FullReg = r.Chance(1, 4)
	p.Families = append(p.Families, fam)
	dg := gen.NewDocs(s, r.Fork())
	for k := 0; k < 2; k++ {
		v := dg.Conform()
		if k == 1 {
			v, _ = dg.Mutate(v)
		}
		p.Docs = append(p.Docs, c11Doc{Text: v.Text()})
	}
	// curated families
	p.Families = append(p.Families, c11CuratedFamilies[r.Intn(len(c11CuratedFamilies))])
	if r.Bool() {
		p.Families = append(p.Families, c11CuratedFamilies[r.Intn(len(c11CuratedFamilies))])
	}
	// a rule-free or scalar schema of its own
	if r.Bool() {
		root := gen.Shape(r, gen.ShapeOpts{MaxDepth: 3, MaxWidth: 3})
		text := model.Canonical(root)
		if r.Chance(1, 8) && len(text) > 2 {
			text = text[:r.Range(1, len(text)-1)] // cut: invalid schemas are pool members too
		}
		p.Families = append(p.Families, c11Family{Roots: []c11Root{{Text: text, OptKeys: r.Chance(1, 4)}}})
		sd := gen.NewDocs(&model.Schema{Root: root}, r.Fork())
		p.Docs = append(p.Docs, c11Doc{Text: sd.Conform().Text()})
	} else {
		sc := gen.Scalar(r)
		ss := &model.Schema{Root: sc.Node, Enums: sc.Enums}
		ssp := specOf(ss, model.Style{})
		p.Families = append(p.Families, c11Family{Rules: ssp.Rules, Roots: []c11Root{{Text: ssp.Text}}})
		if len(sc.Probes) > 0 {
			p.Docs = append(p.Docs, c11Doc{Text: mon.Pick(r, sc.Probes).Text()})
		}
	}
	for len(p.Docs) < 6 {
		p.Docs = append(p.Docs, mon.Pick(r, c11CuratedDocs))
	}
	for k := 0; k < 2; k++ {
		p.Enums = append(p.Enums, mon.Pick(r, c11CuratedEnums))
		p.Regexes = append(p.Regexes, mon.Pick(r, c11CuratedRegexes))
	}
	return p
}

// ---- the history + aliasing monitor ------------------------------------------------------

type c11Problem struct {
	Kind string // history | aliasing | unstable-fresh
	Step int
	Text string
	Want string
	Got  string
}

type c11Stats struct {
	ops, compared, handed, recheck int
}

// c11RunHistory executes one history. Illegal steps (drain of a moved cursor) are skipped.
func c11RunHistory(p *c11Pool, ops []c11Op, st *c11Stats) *c11Problem {
	objs := c11Build(p)
	var live []c11Handed
	var liveStep []int
	recheck := func(step int, after string) *c11Problem {
		for j, h := range live {
			if st != nil {
				st.recheck++
			}
			if now := h.Render(); now != h.Snap {
				return &c11Problem{Kind: "aliasing", Step: step,
					Text: fmt.Sprintf("%s (step %d) changed after %s", h.What, liveStep[j], after), Want: h.Snap, Got: now}
			}
		}
		return nil
	}
	for i, op := range ops {
		if !objs.c11Legal(op) {
			continue
		}
		got, hs := c11Exec(objs, op)
		if st != nil {
			st.ops++
			st.handed += len(hs)
		}
		if pr := recheck(i, "step "+fmt.Sprint(i)+" "+op.String()); pr != nil {
			return pr
		}
		for _, h := range hs {
			live = append(live, h)
			liveStep = append(liveStep, i)
		}
		fresh := c11Fresh(p, op.On)
		want, _ := c11Exec(fresh, op)
		if st != nil {
			st.compared++
		}
		if got != want {
			// is the fresh answer itself stable? (two fresh computations must agree)
			again, _ := c11Exec(c11Fresh(p, op.On), op)
			if again != want {
				return &c11Problem{Kind: "unstable-fresh", Step: i, Text: "two freshly constructed objects answer " + op.String() + " differently", Want: want, Got: again}
			}
			return &c11Problem{Kind: "history", Step: i, Text: fmt.Sprintf("step %d %s differs from the same operation on fresh objects", i, op.String()), Want: want, Got: got}
		}
		if pr := recheck(i, "the same operation on fresh objects following step "+fmt.Sprint(i)); pr != nil {
			return pr
		}
	}
	return nil
}

func c11Describe(pr *c11Problem) string {
	if pr == nil {
		return c11Expected
	}
	return fmt.Sprintf("%s: %s; expected %s; observed %s", pr.Kind, pr.Text, trunc11(pr.Want, 400), trunc11(pr.Got, 400))
}

func trunc11(s string, n int) string {
	if len(s) <= n {
		return s
	}
	return s[:n] + "…"
}

// c11Report shrinks the history (drop steps while the same kind of problem remains) and reports.
func c11Report(c *mon.Ctx, p *c11Pool, ops []c11Op, pr *c11Problem) {
	cur := append([]c11Op{}, ops...)
	if pr.Step+1 < len(cur) {
		cur = cur[:pr.Step+1]
	}
	best := pr
	for changed := true; changed; {
		changed = false
		for i := 0; i < len(cur); i++ {
			t := append(append([]c11Op{}, cur[:i]...), cur[i+1:]...)
			if q := c11RunHistory(p, t, nil); q != nil && q.Kind == pr.Kind {
				cur, best, changed = t, q, true
				break
			}
		}
	}
	if q := c11RunHistory(p, cur, nil); q != nil {
		best = q
	} else {
		cur = ops // not reproducible after shrinking: keep the original
	}
	sp := c11ShrinkPool(p, cur, best.Kind)
	if sp.pr == nil { // schedule- or map-order-dependent problem that did not show again: report what was seen
		sp.pr = best
	}
	c.Violate(best.Kind, c11Case{Pool: *sp.pool, Ops: sp.ops}, c11Expected, c11Describe(sp.pr), map[string]string{
		"history":        "result depends on earlier operations (history dependence)",
		"aliasing":       "a value handed to the caller changed after a later API call",
		"unstable-fresh": "equal inputs on fresh objects gave different results",
	}[best.Kind])
}

type c11Shrunk struct {
	pool *c11Pool
	ops  []c11Op
	pr   *c11Problem
}

// c11ShrinkPool drops the pool members the history does not mention (re-indexing the history),
// keeping the reduction only if the same kind of problem is still observed.
func c11ShrinkPool(p *c11Pool, ops []c11Op, kind string) c11Shrunk {
	orig := c11Shrunk{p, ops, c11RunHistory(p, ops, nil)}
	usedFam, usedDoc, usedEnum, usedRe := map[int]bool{}, map[int]bool{}, map[int]bool{}, map[int]bool{}
	for _, o := range ops {
		switch o.On.Kind {
		case "schema", "type":
			usedFam[o.On.Fam] = true
			if o.Op == "Validate" {
				usedDoc[o.Doc] = true
			}
		case "doc":
			usedDoc[o.On.Idx] = true
		case "enum":
			usedEnum[o.On.Idx] = true
		case "regex":
			usedRe[o.On.Idx] = true
		}
	}
	np := &c11Pool{}
	famMap, docMap, enumMap, reMap := map[int]int{}, map[int]int{}, map[int]int{}, map[int]int{}
	for i, f := range p.Families {
		if usedFam[i] {
			famMap[i] = len(np.Families)
			np.Families = append(np.Families, f)
		}
	}
	for i, d := range p.Docs {
		if usedDoc[i] {
			docMap[i] = len(np.Docs)
			np.Docs = append(np.Docs, d)
		}
	}
	for i, e := range p.Enums {
		if usedEnum[i] {
			enumMap[i] = len(np.Enums)
			np.Enums = append(np.Enums, e)
		}
	}
	for i, e := range p.Regexes {
		if usedRe[i] {
			reMap[i] = len(np.Regexes)
			np.Regexes = append(np.Regexes, e)
		}
	}
	nops := make([]c11Op, len(ops))
	for i, o := range ops {
		switch o.On.Kind {
		case "schema", "type":
			o.On.Fam = famMap[o.On.Fam]
			if o.Op == "Validate" {
				o.Doc = docMap[o.Doc]
			}
		case "doc":
			o.On.Idx = docMap[o.On.Idx]
		case "enum":
			o.On.Idx = enumMap[o.On.Idx]
		case "regex":
			o.On.Idx = reMap[o.On.Idx]
		}
		nops[i] = o
	}
	if q := c11RunHistory(np, nops, nil); q != nil && q.Kind == kind {
		return c11Shrunk{np, nops, q}
	}
	return orig
}

func c11Interesting(ops []c11Op) bool {
	// non-trivial: at least two operations, and some object or family is touched twice
	seen := map[string]int{}
	for _, o := range ops {
		k := o.On.Kind + fmt.Sprint(o.On.Fam)
		if o.On.Kind != "schema" {
			k = o.On.String()
		}
		seen[k]++
		if seen[k] >= 2 {
			return true
		}
	}
	return false
}

// ---- sizes ------------------------------------------------------------------------------

func c11Sizes(tier string) (exhUnits, histUnits, histPer, orderUnits, orderPer, natUnits, natPer int) {
	if tier == "thorough" {
		return len(c11ExhPools) * c11ExhSplit, 1600, 1250, 480, 12, 160, 12
	}
	return len(c11ExhPools) * c11ExhSplit, 160, 125, 48, 6, 16, 6
}

// exhaustive part: 3-object pools; each pool's histories are split over c11ExhSplit units by the
// first operation.
const c11ExhSplit = 4

type c11ExhPool struct {
	name string
	pool c11Pool
}

var c11ExhPools = []c11ExhPool{
	{"two roots sharing an allOf user + a document", c11Pool{
		Families: []c11Family{{Types: c11CuratedFamilies[0].Types, Roots: c11CuratedFamilies[0].Roots[:2]}},
		Docs:     []c11Doc{{Text: `{"id": 1, "name": "Tom"}`}}}},
	{"two roots sharing a regex type and an enum rule + a regex", c11Pool{
		Families: []c11Family{{Types: c11CuratedFamilies[1].Types, Rules: c11CuratedFamilies[1].Rules, Roots: c11CuratedFamilies[1].Roots[:2]}},
		Docs:     []c11Doc{{Text: `"bar"`}},
		Regexes:  []string{`/^(foo|bar|ba[a-z]{1,3})$/`}}},
	{"two roots referencing one named enum rule (with interline comments) directly", c11Pool{
		Families: []c11Family{{Rules: c11CuratedFamilies[1].Rules, Roots: c11CuratedFamilies[1].Roots[3:5]}},
		Docs:     []c11Doc{{Text: `"b"`}}}},
	{"unrelated roots + an enum", c11Pool{
		Families: []c11Family{{Roots: []c11Root{c11CuratedFamilies[4].Roots[0], c11CuratedFamilies[4].Roots[4]}}},
		Docs:     []c11Doc{{Text: `{"id": 1, "tags": ["a", "b"], "opt": 1.5}`}},
		Enums:    []string{c11CuratedEnums[1]}}},
	{"invalid root, root with three faulty types + a broken document", c11Pool{
		Families: []c11Family{{Types: c11CuratedFamilies[3].Types, Roots: c11CuratedFamilies[3].Roots[:2]}},
		Docs:     []c11Doc{{Text: `{"a": 1,}`}}}},
	{"or / unnamed types / recursion roots + a document", c11Pool{
		Families: []c11Family{c11CuratedFamilies[2]},
		Docs:     []c11Doc{{Text: `{"v": 1, "next": {"v": "ab"}}`}}}},
	{"roots sharing types whose allOf expansion fails half-way + a document", c11Pool{
		Families: []c11Family{{Types: c11CuratedFamilies[7].Types, Roots: c11CuratedFamilies[7].Roots[:2]}},
		Docs:     []c11Doc{{Text: `{"o": 1, "own": true}`}}}},
	{"roots with their own derived types over shared allOf bases + a document", c11Pool{
		Families: []c11Family{{Types: c11CuratedFamilies[6].Types, Roots: c11CuratedFamilies[6].Roots[:2]}},
		Docs:     []c11Doc{{Text: `{"left": 1, "right": 2, "x": "s"}`}}}},
	{"a schema without a value that receives types, a root naming a type it was not given + a document", c11Pool{
		Families: []c11Family{
			{Types: c11CuratedFamilies[9].Types, Roots: c11CuratedFamilies[9].Roots[:1]},
			{Roots: c11CuratedFamilies[10].Roots[:1]},
		},
		Docs: []c11Doc{{Text: `{"k": 1}`}}}},
	{"one type object in two roots binding a name it references to different types + a document", c11Pool{
		Families: []c11Family{{Types: c11CuratedFamilies[11].Types, Roots: c11CuratedFamilies[11].Roots[:2]}},
		Docs:     []c11Doc{{Text: `{"it": {"id": 5}}`}}}},
	{"one type object legal in the first root and illegal in the second (a name it references is missing / bound to a number) + a document", c11Pool{
		Families: []c11Family{{Types: c11CuratedFamilies[12].Types, Roots: c11CuratedFamilies[12].Roots[:3]}},
		Docs:     []c11Doc{{Text: `{"it": {"owner": 5}}`}}}},
	{"types bringing different types of their own under one name + a document", c11Pool{
		Families: []c11Family{{Types: c11CuratedFamilies[13].Types, Roots: c11CuratedFamilies[13].Roots[:2]}},
		Docs:     []c11Doc{{Text: `{"cat": {"id": 7}, "dog": {"tag": 7}}`}}}},
	{"rule sets with several faults of one kind + a document with exponent numerals", c11Pool{
		Families: []c11Family{{Types: c11CuratedFamilies[8].Types, Roots: []c11Root{c11CuratedFamilies[8].Roots[0], c11CuratedFamilies[8].Roots[3], c11CuratedFamilies[4].Roots[0]}}},
		Docs:     []c11Doc{{Text: `{"id": 12E+2, "tags": ["a", "b"], "opt": 15e-1}`}}}},
	{"two allOf parents, key shortcut roots + a trailing-characters document", c11Pool{
		Families: []c11Family{{Types: c11CuratedFamilies[5].Types, Roots: c11CuratedFamilies[5].Roots[:2]}},
		Docs:     []c11Doc{{Text: `{"p1": 1, "own": true, "kk2": 5} x`, Trailing: true}}}},
}

func c11ExhObjects(p *c11Pool) []c11Ref {
	refs := c11Refs(p)
	// exactly three objects: the two roots and the first other object
	var out []c11Ref
	n := 0
	for _, r := range refs {
		if r.Kind == "schema" {
			if n < 2 {
				out = append(out, r)
				n++
			}
		}
	}
	for _, k := range []string{"regex", "enum", "doc"} {
		for _, r := range refs {
			if r.Kind == k && len(out) < 3 {
				out = append(out, r)
			}
		}
	}
	return out
}

// ---- units ------------------------------------------------------------------------------

// c11SelfTest: the type texts of the curated families must load (family 3 is faulty on purpose);
// a text that does not load would silently turn its family into a trivial one.
func c11SelfTest(c *mon.Ctx) {
	for fi, f := range c11CuratedFamilies {
		if fi == 3 {
			continue
		}
		for _, t := range f.Types {
			if t.Regex {
				continue
			}
			s := njs.New(t.Name, t.Text)
			for _, r := range f.Rules {
				_ = s.AddRule(r.Name, enum.New(r.Name, r.Text))
			}
			if _, o := lib.SafeVal(s.UsedUserTypes); !o.OK {
				c.Inconclusive(fmt.Sprintf("harness: type %s of curated family %d does not load: %s", t.Name, fi, o.String()))
			}
		}
	}
}

func c11Run(c *mon.Ctx, unit int) {
	exh, hist, per, ord, ordPer, nat, natPer := c11Sizes(c.Tier)
	if unit == 0 {
		c11SelfTest(c)
	}
	switch {
	case unit < exh:
		c11RunExhaustive(c, unit/c11ExhSplit, unit%c11ExhSplit)
	case unit < exh+hist:
		c11RunRandom(c, per)
	case unit < exh+hist+ord:
		c11RunOrders(c, ordPer, true)
	case unit < exh+hist+ord+nat:
		c11RunOrders(c, natPer, false)
	}
}

func c11Flush(c *mon.Ctx, st *c11Stats) {
	c.Eval(st.compared + st.recheck)
	c.Count("operations compared with fresh objects", st.compared)
	c.Count("handed-out values snapshotted", st.handed)
	c.Count("snapshot re-comparisons", st.recheck)
}

func c11RunExhaustive(c *mon.Ctx, pi, part int) {
	ep := c11ExhPools[pi]
	p := &ep.pool
	alpha := c11AllOps(p, c11ExhObjects(p))
	st := &c11Stats{}
	defer c11Flush(c, st)
	fails := 0
	run := func(ops []c11Op) {
		c.Count("exhaustive histories (length ≤ 3, 3 objects)", 1)
		if c11Interesting(ops) {
			c.DistinctByConstruction(1)
		}
		if pr := c11RunHistory(p, ops, st); pr != nil {
			fails++
			if fails <= 2 {
				c11Report(c, p, ops, pr)
			}
		}
	}
	for a := range alpha {
		if a%c11ExhSplit != part {
			continue
		}
		run([]c11Op{alpha[a]})
		for b := range alpha {
			run([]c11Op{alpha[a], alpha[b]})
			for d := range alpha {
				run([]c11Op{alpha[a], alpha[b], alpha[d]})
			}
		}
	}
	if part == 0 {
		c.Sample("exhaustive pool: "+ep.name, map[string]any{"pool": p, "alphabet": fmt.Sprint(alpha), "max_len": 3})
	}
}

func c11RunRandom(c *mon.Ctx, per int) {
	r := c.Rng(11)
	st := &c11Stats{}
	defer c11Flush(c, st)
	var p *c11Pool
	var alpha []c11Op
	for n := 0; n < per; n++ {
		if n%25 == 0 {
			p = c11GenPool(r)
			alpha = c11AllOps(p, c11Refs(p))
		}
		L := r.Range(2, 12)
		ops := make([]c11Op, L)
		// histories concentrate on a few objects so that the same object and its family recur
		focus := make([]c11Op, 0, 24)
		for k := 0; k < 24; k++ {
			focus = append(focus, alpha[r.Intn(len(alpha))])
		}
		for i := range ops {
			if r.Chance(2, 3) {
				ops[i] = focus[r.Intn(len(focus))]
			} else {
				ops[i] = alpha[r.Intn(len(alpha))]
			}
			if ops[i].Op == "Validate" {
				ops[i].Pre = r.Chance(1, 4)
				ops[i].Pooled = r.Chance(1, 3)
			}
			if ops[i].On.Kind == "doc" && ops[i].Op == "Next3" {
				ops[i].Doc = r.Range(1, 9) // the cursor stops after that many lexemes
			}
		}
		c.Count("random histories (length 2..12)", 1)
		for _, o := range ops {
			c.Count("operation "+o.On.Kind+"."+o.Op, 1)
		}
		if c11Interesting(ops) {
			c.Distinct(fmt.Sprint(p.Families[0].Roots[0].Text, ops))
		}
		if pr := c11RunHistory(p, ops, st); pr != nil {
			c11Report(c, p, ops, pr)
		}
		if n == 0 && c.Unit%40 == 0 {
			c.Sample("random history", map[string]any{"history": fmt.Sprint(ops), "roots_of_family_0": p.Families[0].Roots, "types_of_family_0": len(p.Families[0].Types)})
		}
		// partial use: the pool's documents (valid or not) read lexeme by lexeme by turns; each
		// stream must equal the stream of the same text read alone
		if n%5 == 4 && len(p.Docs) >= 2 {
			var group [][]byte
			for _, i := range r.Perm(len(p.Docs)) {
				if len(group) < 3 && len(p.Docs[i].Text) <= 400 {
					group = append(group, []byte(p.Docs[i].Text))
				}
			}
			if len(group) >= 2 {
				total := 0
				for _, t := range group {
					total += len(t)
				}
				sched := make([]byte, total+8)
				for i := range sched {
					sched[i] = byte(r.Intn(len(group)))
				}
				c.Eval(1)
				c.Count("document groups read lexeme by lexeme by turns", 1)
				if d := c06Lockstep(group, sched); d != "" {
					cs := c06Case{Hex: hex.EncodeToString(group[0]), Text: strconv.Quote(string(group[0])), Schedule: sched}
					for _, t := range group[1:] {
						cs.Others = append(cs.Others, hex.EncodeToString(t))
					}
					c.Violate("lockstep", cs, c06LockstepOK, d, "a Document's lexeme stream depends on another Document being read in between")
				}
			}
		}
	}
}

// ---- map-order monitor ------------------------------------------------------------------

type c11OrderCase struct {
	Fam   c11Family `json:"family"`
	Docs  []string  `json:"docs"`
	Enums []string  `json:"enums,omitempty"`
}

// c11Vector: every result of every root of a freshly built family.
func c11Vector(oc *c11OrderCase) []string {
	p := &c11Pool{Families: []c11Family{oc.Fam}}
	for _, d := range oc.Docs {
		p.Docs = append(p.Docs, c11Doc{Text: d})
	}
	p.Enums = oc.Enums
	var out []string
	for i := range oc.Enums {
		ref := c11Ref{Kind: "enum", Idx: i}
		objs := c11Fresh(p, ref)
		for _, op := range c11EnumOps {
			res, _ := c11Exec(objs, c11Op{On: ref, Op: op})
			out = append(out, fmt.Sprintf("enum %d %s: %s", i, op, res))
		}
	}
	for i := range oc.Fam.Roots {
		objs := c11Fresh(p, c11Ref{Kind: "schema", Idx: i})
		ref := c11Ref{Kind: "schema", Idx: i}
		for _, op := range []string{"Check", "Len", "Example", "GetAST", "UsedUserTypes"} {
			res, _ := c11Exec(objs, c11Op{On: ref, Op: op})
			out = append(out, fmt.Sprintf("root %d %s: %s", i, op, res))
		}
		for d := range oc.Docs {
			res, _ := c11Exec(objs, c11Op{On: ref, Op: "Validate", Doc: d})
			out = append(out, fmt.Sprintf("root %d Validate(doc %d): %s", i, d, res))
		}
	}
	return out
}

var c11OrderNames = map[int]string{1: "ascending", 2: "descending", 3: "rotated by 1", 4: "rotated by 2", 5: "rotated by 3"}

const c11OrderExpected = "identical results under every map iteration order"

// c11CompareOrders returns "" or the first difference. forced: use the rewritten build's forced
// orders; otherwise repeat under Go's own randomised iteration.
func c11CompareOrders(oc *c11OrderCase, forced bool, reps int) (diff string, comparisons int) {
	var base []string
	if forced {
		for mode := 1; mode <= 5; mode++ {
			pointSetOrder(mode)
			v := c11Vector(oc)
			if mode == 1 {
				base = v
				continue
			}
			for i := range v {
				comparisons++
				if i < len(base) && v[i] != base[i] {
					pointSetOrder(1)
					return fmt.Sprintf("order %s: %s; order ascending: %s", c11OrderNames[mode], trunc11(v[i], 300), trunc11(base[i], 300)), comparisons
				}
			}
		}
		pointSetOrder(1)
		return "", comparisons
	}
	for k := 0; k < reps; k++ {
		v := c11Vector(oc)
		if k == 0 {
			base = v
			continue
		}
		for i := range v {
			comparisons++
			if i < len(base) && v[i] != base[i] {
				return fmt.Sprintf("repetition %d: %s; first run: %s", k, trunc11(v[i], 300), trunc11(base[i], 300)), comparisons
			}
		}
	}
	return "", comparisons
}

// c11EnumLiterals: literals whose kind must be recognised the same way every time (quoted
// strings that look like numbers, literals or containers inside the quotes).
var c11EnumLiterals = []string{`"1.5"`, `"a.b"`, `1.5`, `2`, `"2"`, `true`, `"true"`, `null`, `"null"`, `"-0.0"`, `"[1]"`, `"{}"`, `-7`, `"x"`, `""`, `"."`, `0.10`}

func c11GenEnumText(r *mon.Rng) string {
	n := r.Range(1, 6)
	var vs []string
	for _, i := range r.Perm(len(c11EnumLiterals))[:n] {
		vs = append(vs, c11EnumLiterals[i])
	}
	if r.Chance(1, 4) {
		return "[\n  " + strings.Join(vs, ", // c\n  ") + "\n]"
	}
	return "[" + strings.Join(vs, ", ") + "]"
}

func c11GenOrderCase(r *mon.Rng) *c11OrderCase {
	oc := &c11OrderCase{}
	for k := r.Intn(3); k > 0; k-- {
		oc.Enums = append(oc.Enums, c11GenEnumText(r))
	}
	if r.Chance(1, 8) {
		// a named enum rule used by a root and by a type
		et := c11GenEnumText(r)
		first := strings.TrimSpace(strings.SplitN(strings.Trim(et, "[]\n "), ",", 2)[0])
		oc.Fam = c11Family{Rules: []lib.RuleDef{{Name: "@e", Text: et}},
			Types: []lib.TypeDef{{Name: "@t", Text: first + " // {enum: @e}"}},
			Roots: []c11Root{{Text: first + " // {enum: @e}"}, {Text: "[@t]"}}}
		for _, i := range r.Perm(len(c11EnumLiterals))[:6] {
			oc.Docs = append(oc.Docs, c11EnumLiterals[i], "["+c11EnumLiterals[i]+"]")
		}
		return oc
	}
	if r.Chance(1, 10) {
		// type names that differ in letter case only, both faulty: the reported one is the same
		// on every run
		a, b := mon.Pick(r, [][2]string{{"@Pet", "@pet"}, {"@ID", "@Id"}, {"@aB", "@Ab"}}), 0
		_ = b
		faults := []string{"5 // {min: 10}", "\"xx\" // {maxLength: 1}", "\"abc\" // {regex: \"^x\"}", "1 // {enum: [2, 3]}"}
		mon.Shuffle(r, faults)
		oc.Fam = c11Family{
			Types: []lib.TypeDef{{Name: a[0], Text: faults[0]}, {Name: a[1], Text: "\n" + faults[1]}},
			Roots: []c11Root{{Text: "{\n  \"a\": " + a[0] + ",\n  \"b\": " + a[1] + "\n}"}, {Text: "[" + a[1] + ", " + a[0] + "]"}},
		}
		oc.Docs = []string{`{}`, `[]`}
		return oc
	}
	if r.Chance(1, 10) {
		// several or rule-sets that wrap a user type next to another rule: UsedUserTypes lists
		// them in document order
		names := []string{"@cat", "@dog", "@eel", "@fox", "@gnu"}
		mon.Shuffle(r, names)
		n := r.Range(2, 5)
		var sets []string
		for _, nm := range names[:n] {
			oc.Fam.Types = append(oc.Fam.Types, lib.TypeDef{Name: nm, Text: "1"})
			sets = append(sets, "{type: \""+nm+"\", nullable: true}")
		}
		oc.Fam.Types = append(oc.Fam.Types, lib.TypeDef{Name: "@id", Text: "7"})
		oc.Fam.Roots = []c11Root{{Text: "{\n  \"id\": @id,\n  \"pet\": 1 // {or: [" + strings.Join(sets, ", ") + "]}\n}"}}
		oc.Docs = []string{`{"id": 1, "pet": 1}`, `{"id": 1, "pet": null}`}
		return oc
	}
	if r.Chance(1, 6) {
		// several independent faults reachable from ONE object: which one is reported (code and
		// position) must not depend on any iteration order. Each property starts its own
		// illegal recursion / refers to its own missing type.
		n := r.Range(2, 4)
		keys := []string{"owner", "parent", "alpha", "zeta", "mid"}
		mon.Shuffle(r, keys)
		var props []string
		family := r.Intn(3) // all direct recursion / all recursion through a union / all missing
		for i := 0; i < n; i++ {
			name := fmt.Sprintf("@p%d", i)
			switch family {
			case 0:
				// every type has its own layout, so the positions of the errors differ too
				oc.Fam.Types = append(oc.Fam.Types, lib.TypeDef{Name: name, Text: "{\n" + strings.Repeat(" ", i) + "  \"n\": " + name + "\n}"})
			case 1:
				oc.Fam.Types = append(oc.Fam.Types, lib.TypeDef{Name: name, Text: "{\n  \"n\": " + name + " | " + name + "x\n}"},
					lib.TypeDef{Name: name + "x", Text: "{\n  \"m\": " + name + "\n}"})
			default:
				// missing type: nothing added
			}
			props = append(props, fmt.Sprintf("  %q: %s", keys[i], name))
		}
		oc.Fam.Roots = []c11Root{{Text: "{\n" + strings.Join(props, ",\n") + "\n}"}}
		oc.Docs = []string{`{}`, `{"owner": {}, "parent": {}}`}
		return oc
	}
	var s *model.Schema
	switch k := r.Intn(10); {
	case k < 6:
		s = gen.Graph(r, 6)
		s.OptKeys = r.Chance(1, 6)
	case k < 8:
		s = &model.Schema{Root: gen.Shape(r, gen.ShapeOpts{MaxDepth: 4, MaxWidth: 4}), OptKeys: r.Chance(1, 4)}
	default:
		sc := gen.Scalar(r)
		s = &model.Schema{Root: sc.Node, Enums: sc.Enums}
		for _, pv := range sc.Probes {
			if len(oc.Docs) < 6 {
				oc.Docs = append(oc.Docs, pv.Text())
			}
		}
	}
	sp := specOf(s, model.Style{})
	oc.Fam = c11Family{Types: sp.Types, Rules: sp.Rules, Roots: []c11Root{{Text: sp.Text, OptKeys: sp.OptKeys}}}
	if len(sp.Types) >= 2 && r.Chance(1, 3) {
		// several faulty types at once: the reported error must not depend on the iteration order
		faults := []string{"5 // {min: 10}", "\"xx\" // {maxLength: 1}", "\"abc\" // {regex: \"^x\"}", "1 // {enum: [2, 3]}", "@missing",
			"{ // {allOf: \"@nope\"}\n}", "{ // {allOf: \"@t0\"}\n  \"k0\": 1\n}", "[ // {minItems: 2}\n  1\n]", "1.25 // {precision: 1}"}
		n := r.Range(2, len(sp.Types))
		for _, i := range r.Perm(len(sp.Types))[:n] {
			if !oc.Fam.Types[i].Regex {
				oc.Fam.Types[i].Text = mon.Pick(r, faults)
			}
		}
	}
	if len(sp.Types) > 0 && r.Bool() {
		oc.Fam.Roots = append(oc.Fam.Roots, c11Root{Text: mon.Pick(r, sp.Types).Name, OptKeys: sp.OptKeys})
	}
	dg := gen.NewDocs(s, r.Fork())
	for len(oc.Docs) < 8 {
		v := dg.Conform()
		switch r.Intn(4) {
		case 0:
		case 1, 2:
			v, _ = dg.Mutate(v)
			if r.Bool() {
				v, _ = dg.Mutate(v) // two faults in one document
			}
		default:
			v = gen.RandomValue(dg.R, 3)
		}
		oc.Docs = append(oc.Docs, v.Text())
	}
	return oc
}

func c11RunOrders(c *mon.Ctx, per int, forced bool) {
	r := c.Rng(1100)
	if forced && !havePoint {
		c.Inconclusive("map-order unit ran in a build without the rewritten copies")
		return
	}
	kind, label := "maporder", "forced orders (asc, desc, rotate 1..3)"
	if !forced {
		kind, label = "maporder-natural", "20 repetitions under Go's randomised iteration"
	}
	for n := 0; n < per; n++ {
		oc := c11GenOrderCase(r)
		diff, cmp := c11CompareOrders(oc, forced, 20)
		c.Eval(cmp)
		c.Count("map-order cases: "+label, 1)
		c.Count("map-order result comparisons", cmp)
		key, _ := json.Marshal(oc)
		c.Distinct(string(key))
		if diff != "" {
			c.Violate(kind, oc, c11OrderExpected, diff, "results depend on the iteration order of a Go map")
		}
		if n == 0 && c.Unit%16 == 0 {
			c.Sample("map-order case ("+label+")", oc)
		}
	}
	if forced {
		calls, multi := pointSiteStats()
		for i := range calls {
			for len(c11SitePrev) <= i {
				c11SitePrev = append(c11SitePrev, [2]int64{})
			}
			c.Count("range-over-map site "+pointSiteName(i)+": executions", int(calls[i]-c11SitePrev[i][0]))
			c.Count("range-over-map site "+pointSiteName(i)+": executions over ≥ 2 entries", int(multi[i]-c11SitePrev[i][1]))
			c11SitePrev[i] = [2]int64{calls[i], multi[i]}
		}
	}
}

// per-process totals already reported (site statistics are cumulative in the hook)
var c11SitePrev [][2]int64

// c11ReplayInRW re-executes a map-order replay inside the rewritten build when the current
// process is the plain one (./check --replay builds both).
func c11ReplayInRW(kind string, raw json.RawMessage) (string, bool) {
	exe := os.Getenv("VERIF_RW_EXE")
	if havePoint || exe == "" {
		return "", false
	}
	f, err := os.CreateTemp("", "c11-replay-*.json")
	if err != nil {
		return "", false
	}
	defer os.Remove(f.Name())
	b, _ := json.Marshal(mon.Violation{Property: "C11", Kind: kind, Inputs: raw, Expected: c11OrderExpected})
	f.Write(b)
	f.Close()
	out, _ := exec.Command(exe, "replay", f.Name()).CombinedOutput()
	for _, line := range bytes.Split(out, []byte("\n")) {
		if bytes.HasPrefix(line, []byte("now:")) {
			return strings.TrimSpace(string(line[4:])), true
		}
	}
	return "", false
}

func init() {
	mon.Register(&mon.Prop{
		ID:    "C11",
		Level: "exploration",
		Rule: "history monitor: pools of root schemas in families that share the same user-type and enum-rule Go objects (generated type graphs + curated families with allOf, regex types, enum rules, or/unnamed types, " +
			"invalid members), documents, enums and regex types; random histories of 2..12 public operations and ALL histories of length ≤ 3 over six 3-object pools; each result (verdict, code, position, error type, " +
			"AST, example bytes, used types, lexeme list) is compared with the same single operation on freshly constructed objects, and every value handed out is snapshotted and re-compared after every later operation. " +
			"Map order: generated families (type graphs, rule-free shapes, scalar rule sets, several faulty types at once) with 8 documents each, all results compared across forced iteration orders in a build rewritten from the current tree, " +
			"and across 20 repetitions under Go's own randomisation. Non-trivial = a history that touches some object or family at least twice (exhaustive ones distinct by construction), or a distinct map-order case. Validate also runs on the pooled Document OBJECT (pooled_doc); a hash of the error text is part of every compared result (library against library).",
		Assumptions: []string{
			"operations are issued on root schemas, documents, enums and regex objects; a user-type object that was handed to AddType is not operated on directly afterwards (compilation of a root rewrites its added types in place by design)",
			"a Document is a cursor: Validate gets a new Document each time; Drain/NextLexeme are compared only when the cursor was never moved by NextLexeme before (Check/Len must leave it at the start)",
			"error message text is never compared",
		},
		Exhaustive: func(string) bool { return true },
		Units: func(tier string, seed uint64) int {
			a, b, _, d, _, f, _ := c11Sizes(tier)
			return a + b + d + f
		},
		Run: c11Run,
		ExeKind: func(tier string, seed uint64, unit int) string {
			a, b, _, d, _, _, _ := c11Sizes(tier)
			if unit >= a+b && unit < a+b+d {
				return "rw"
			}
			return ""
		},
		KindChunk: 3,
		Replay: map[string]func(json.RawMessage) string{
			"history":        c11ReplayHistory,
			"aliasing":       c11ReplayHistory,
			"unstable-fresh": c11ReplayHistory,
			"lockstep":       c06ReplayLockstep,
			"maporder": func(raw json.RawMessage) string {
				if s, ok := c11ReplayInRW("maporder", raw); ok {
					return s
				}
				var oc c11OrderCase
				if err := json.Unmarshal(raw, &oc); err != nil {
					return "bad replay: " + err.Error()
				}
				d, _ := c11CompareOrders(&oc, havePoint, 60)
				if d == "" {
					return c11OrderExpected
				}
				return d
			},
			"maporder-natural": func(raw json.RawMessage) string {
				var oc c11OrderCase
				if err := json.Unmarshal(raw, &oc); err != nil {
					return "bad replay: " + err.Error()
				}
				d, _ := c11CompareOrders(&oc, false, 60)
				if d == "" {
					return c11OrderExpected
				}
				return d
			},
		},
		Final: func(ev *mon.Evidence) error {
			if ev.Counters["map-order cases: forced orders (asc, desc, rotate 1..3)"] == 0 {
				ev.Inconcl["rewritten build (forced map orders) unavailable: map-order dependence judged only under Go's own randomisation"]++
			}
			if ev.Counters["operations compared with fresh objects"] == 0 {
				return fmt.Errorf("history monitor compared nothing")
			}
			return nil
		},
	})
}

func c11ReplayHistory(raw json.RawMessage) string {
	var cs c11Case
	if err := json.Unmarshal(raw, &cs); err != nil {
		return "bad replay: " + err.Error()
	}
	// a problem caused by map iteration order or pool state shows with some probability only
	for k := 0; k < 40; k++ {
		if pr := c11RunHistory(&cs.Pool, cs.Ops, nil); pr != nil {
			return c11Describe(pr)
		}
	}
	return c11Expected
}
