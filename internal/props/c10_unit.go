//go:build vh_num

package props

import (
	"github.com/jsightapi/jsight-schema-go-library/verifhook"
)

// Unit-level access to internal/json.Number through hook H4 (vh_num).
func init() {
	c10Unit = &c10UnitAPI{
		info: verifhook.NumInfo,
		cmp: func(a, b string) (c10Rel, string) {
			r, errs := verifhook.NumCmp(a, b)
			return c10Rel{Cmp: r.Cmp, Equal: r.Equal, GT: r.GT, GTE: r.GTE, LT: r.LT, LTE: r.LTE}, errs
		},
		class: verifhook.NumClass,
	}
}
