package props

// C01 — Validate accepts exactly the documents shaped like the schema's EXAMPLE.
//
// Reference-model monitor: schemas of the rule-free fragment are generated from the abstract
// model, rendered, and every generated document's Validate verdict is compared with the
// verdict of model.Oracle (written from the property statement). Plus two real-vs-real
// metamorphic monitors (member order; KeysAreOptionalByDefault == optional:true everywhere)
// and a small-scope exhaustive part.

import (
	"encoding/json"
	"fmt"
	"sort"

	"verif/internal/gen"
	"verif/internal/lib"
	"verif/internal/model"
	"verif/internal/mon"
)

type c01Case struct {
	Schema  string `json:"schema"`
	OptKeys bool   `json:"keys_optional_by_default,omitempty"`
	Doc     string `json:"doc"`
	// Before: a (truncated) document validated on the same schema object just before Doc
	Before string `json:"validated_before,omitempty"`
}

func c01Sizes(tier string) (units, schemasPerUnit, docs int) {
	if tier == "thorough" {
		return 2000, 10, 80
	}
	return 96, 4, 60
}

// exhaustive units come after the random ones
func c01ExhUnits(tier string) int { return len(c01SmallSchemas())/16 + 1 }

func c01Verdict(o lib.Obs) string { return o.Verdict() }

// c01Compare runs one (schema, doc) pair and reports a violation when the real verdict differs
// from the oracle's.
func c01Compare(c *mon.Ctx, s *model.Schema, text string, built *builtSchema, v *model.Val, docText string, class string) {
	if !json.Valid([]byte(docText)) {
		panic("harness bug: generated document is not JSON: " + docText)
	}
	o := model.NewOracle(s)
	want := o.Accepts(v)
	for k, n := range o.Mech {
		c.Count("mechanism: "+k, n)
	}
	before := ""
	if n := len(docText); n%8 == 5 && n > 3 {
		// a document cut short was validated just before (its result does not matter): what a
		// broken document leaves behind must not leak into the next validation
		before = docText[:n*2/3]
		built.validate(before)
		c.Count("validations preceded by a truncated document on the same schema", 1)
	}
	obs := built.validate(docText)
	c.Eval(1)
	if want == model.Unspec {
		c.Count("oracle unspecified (not compared)", 1)
		if obs.Panic != "" {
			c.Violate("vpanic", c01Case{Schema: text, OptKeys: s.OptKeys, Doc: docText}, "no panic", obs.String(), "Validate panicked")
		}
		return
	}
	c.Count(fmt.Sprintf("verdict expected=%s observed=%s", want, obs.Verdict()), 1)
	if !obs.OK && obs.Panic == "" {
		c.Count(fmt.Sprintf("rejection code %d", obs.Code), 1)
	}
	if obs.Verdict() == want.String() {
		// the same document, checked (Check, Len) before it is validated: one document in eight
		if len(docText)%8 == 3 {
			c.Count("documents also validated after Check() and Len() on the Document object", 1)
			if pre := built.validateChecked(docText); pre.Verdict() != want.String() {
				c.Violate("validate-checked", c01Case{Schema: text, OptKeys: s.OptKeys, Doc: docText}, want.String(), pre.String(),
					"Validate verdict changes when the Document object was used before (Check, Len, or validated against another schema) ("+class+")")
			}
		}
		return
	}
	// confirm on a fresh schema object (history independence is C11's business)
	fresh := lib.Validate(lib.Spec{Text: text, OptKeys: s.OptKeys}, docText)
	if fresh.Verdict() == want.String() {
		// the statement speaks of every schema and document, whatever was validated before
		c.Violate("validate-reused", c01Case{Schema: text, OptKeys: s.OptKeys, Doc: docText, Before: before}, want.String(), obs.String(),
			fmt.Sprintf("Validate verdict on a schema object used before differs from the example-shape oracle, a fresh object agrees (%s; oracle: %s)", class, o.Why))
		return
	}
	c.Violate("validate", c01Case{Schema: text, OptKeys: s.OptKeys, Doc: docText}, want.String(), fresh.String(),
		fmt.Sprintf("Validate verdict differs from the example-shape oracle (%s; oracle: %s)", class, o.Why))
}

// builtSchema is one real schema object reused for many documents.
type builtSchema struct {
	sp       lib.Spec
	ok       bool
	validate func(doc string) lib.Obs
	// validateChecked: the Document object is Check()ed and Len()ed before it is validated
	validateChecked func(doc string) lib.Obs
	check           lib.Obs
}

func buildSchema(sp lib.Spec) *builtSchema {
	b := &builtSchema{sp: sp}
	s, o := lib.Build(sp)
	if !o.OK {
		b.check = o
		b.validate = func(string) lib.Obs { return o }
		b.validateChecked = b.validate
		return b
	}
	b.check = lib.CheckObs(s)
	b.ok = b.check.OK
	b.validate = func(doc string) lib.Obs { return lib.ValidateOn(s, doc) }
	b.validateChecked = func(doc string) lib.Obs { return lib.ValidateOnChecked(s, doc) }
	return b
}

func c01Run(c *mon.Ctx, unit int) {
	units, per, ndocs := c01Sizes(c.Tier)
	if unit >= units {
		c01Exhaustive(c, unit-units)
		return
	}
	r := c.Rng(1)
	for k := 0; k < per; k++ {
		depth := r.Range(1, 5)
		root := gen.Shape(r, gen.ShapeOpts{MaxDepth: depth, MaxWidth: 4, OddKeys: r.Chance(1, 4)})
		if k == 1 {
			// one schema per unit is large in every direction (a dozen levels, thirty keys, twenty
			// items, several hundred bytes)
			root = gen.BigShape(r)
			c.Count("large schemas (deep chain, wide object, long array)", 1)
		}
		text := model.Canonical(root)
		if r.Chance(1, 4) {
			// the same schema saved with other line ends / indentation (its meaning is the same)
			text = model.Style{NL: mon.Pick(r, []string{"\r\n", "\r\n", "\r"}), Indent: mon.Pick(r, []string{"", "\t", "-"})}.Render(root)
			c.Count("schemas written with CRLF / CR line ends", 1)
		}
		for _, opt := range []bool{false, true} {
			s := &model.Schema{Root: root, OptKeys: opt}
			built := buildSchema(lib.Spec{Text: text, OptKeys: opt})
			if canon := model.Canonical(root); text != canon && !built.ok && built.check.Panic == "" {
				// the same schema in the house spelling (LF, two blanks) decides whether it is legal
				if buildSchema(lib.Spec{Text: canon, OptKeys: opt}).ok {
					c.Violate("spelling", c01Case{Schema: text, OptKeys: opt}, "accept (as the LF spelling)", built.check.String(), "Check refuses a rule-free schema written with CRLF / CR line ends or other indentation and accepts its LF spelling")
					continue
				}
			}
			if !built.ok {
				c.Count("generated schema rejected by Check (skipped)", 1)
				if built.check.Panic != "" {
					c.Violate("check", c01Case{Schema: text, OptKeys: opt}, "no panic", built.check.String(), "Check panicked on a rule-free schema")
				}
				c.Sample("schema rejected by Check", map[string]any{"schema": text, "error": built.check.String()})
				if built.check.Panic == "" {
					// the generator writes nothing but example values, optional / nullable marks
					// and notes: every such schema is legal, and a refusal would hide all the
					// verdicts below
					c.Violate("legal", c01Case{Schema: text, OptKeys: opt}, "accept", built.check.String(), "Check refuses a schema of the rule-free fragment")
				}
				continue
			}
			c.Distinct(fmt.Sprint(text, opt))
			// the OptKeys twin: same schema with every unmarked key marked optional, default option
			var twin *builtSchema
			if opt {
				tw := root.Clone()
				tw.Walk(func(n *model.Node) {
					for _, p := range n.Props {
						if p.Node.Rule("optional") == nil {
							p.Node.Rules = append(p.Node.Rules, model.RBool("optional", true))
						}
					}
				})
				twin = buildSchema(lib.Spec{Text: model.Canonical(tw)})
			}
			dg := gen.NewDocs(s, r.Fork())
			for j := 0; j < ndocs; j++ {
				var v *model.Val
				class := ""
				switch {
				case j%10 < 4:
					v, class = dg.Conform(), "conforming by construction"
				case j%10 < 9:
					v, class = dg.Mutate(dg.Conform())
				default:
					v, class = gen.RandomValue(dg.R, 3), "unrelated"
				}
				st := model.DocStyle{}
				if dg.R.Chance(1, 3) {
					st = model.DocStyle{WS: dg.R, Pretty: dg.R.Bool()}
				}
				if dg.R.Chance(1, 4) {
					// keys and strings spelled with escape sequences (\uXXXX in either case, \/ …)
					st.Escapes = dg.R
				}
				docText := st.Render(v)
				c01Compare(c, s, text, built, v, docText, class)
				c.Count("documents: "+class, 1)
				if twin != nil && twin.ok {
					a, b := built.validate(docText), twin.validate(docText)
					c.Eval(1)
					if a.Verdict() != b.Verdict() {
						c.Violate("optkeys", map[string]any{"schema": text, "twin": twin.sp.Text, "doc": docText},
							"same verdict", fmt.Sprintf("option: %s; optional:true everywhere: %s", a, b),
							"KeysAreOptionalByDefault differs from marking every unmarked key optional")
					}
				}
				if j%6 == 0 {
					c01Permute(c, s, text, built, v)
				}
				if k == 0 && j < 2 && unit < 3 {
					c.Sample(class, c01Case{Schema: text, OptKeys: opt, Doc: docText})
				}
			}
		}
	}
}

// c01Permute: all permutations of the members of the first object with 2..4 members give one
// verdict (real vs real).
func c01Permute(c *mon.Ctx, s *model.Schema, text string, built *builtSchema, v *model.Val) {
	var target *model.Val
	var find func(x *model.Val)
	find = func(x *model.Val) {
		if target != nil {
			return
		}
		if x.K == model.VObj && len(x.Members) >= 2 && len(x.Members) <= 4 {
			target = x
			return
		}
		for _, m := range x.Members {
			find(m.V)
		}
		for _, e := range x.Elems {
			find(e)
		}
	}
	find(v)
	if target == nil {
		return
	}
	orig := append([]model.Member{}, target.Members...)
	base := built.validate(v.Text()).Verdict()
	idx := make([]int, len(orig))
	for i := range idx {
		idx[i] = i
	}
	var perm func(k int)
	perm = func(k int) {
		if k == len(idx) {
			for i, j := range idx {
				target.Members[i] = orig[j]
			}
			t := v.Text()
			got := built.validate(t).Verdict()
			c.Eval(1)
			c.Count("member-order permutations compared", 1)
			if got != base {
				c.Violate("permutation", map[string]any{"schema": text, "keys_optional_by_default": s.OptKeys, "doc_a": (func() string { copy(target.Members, orig); return v.Text() })(), "doc_b": t},
					"same verdict", fmt.Sprintf("%s vs %s", base, got), "verdict depends on property order in the document")
			}
			return
		}
		for i := k; i < len(idx); i++ {
			idx[k], idx[i] = idx[i], idx[k]
			perm(k + 1)
			idx[k], idx[i] = idx[i], idx[k]
		}
	}
	perm(0)
	copy(target.Members, orig)
}

// ---- small-scope exhaustive part ----

var c01SmallSchemasCache []*model.Node

func c01Leafs() []*model.Node {
	var out []*model.Node
	for _, mk := range []func() *model.Node{
		func() *model.Node { return model.Str("s") }, func() *model.Node { return model.Int("1") },
		func() *model.Node { return model.Flt("1.5") }, func() *model.Node { return model.Bool(true) },
		func() *model.Node { return model.Null() },
		func() *model.Node { return model.Obj() }, func() *model.Node { return model.Arr() },
	} {
		out = append(out, mk())
		out = append(out, mk().With(model.RBool("nullable", true)))
		out = append(out, mk().With(model.RStr("type", "any")))
	}
	return out
}

// c01SmallSchemas: all schemas with at most 3 nodes over the keys a, b.
func c01SmallSchemas() []*model.Node {
	if c01SmallSchemasCache != nil {
		return c01SmallSchemasCache
	}
	var out []*model.Node
	leafs := c01Leafs()
	out = append(out, leafs...)
	propVariants := func() []*model.Node {
		var v []*model.Node
		for _, l := range c01Leafs() {
			v = append(v, l)
			o := l.Clone()
			o.Rules = append(o.Rules, model.RBool("optional", true))
			v = append(v, o)
		}
		return v
	}
	for _, nullable := range []bool{false, true} {
		wrap := func(n *model.Node) *model.Node {
			if nullable {
				n.Rules = append(n.Rules, model.RBool("nullable", true))
			}
			return n
		}
		for _, key := range []string{"a", "b"} {
			for _, pv := range propVariants() {
				out = append(out, wrap(model.Obj(model.P(key, pv.Clone()))))
			}
		}
		pvs := propVariants()
		for i, p1 := range pvs {
			for j, p2 := range pvs {
				if (i+j)%3 != 0 && !nullable { // thin out: 1/3 of the pairs for the non-nullable root, all kinds still covered
					continue
				}
				if nullable && (i*7+j)%11 != 0 {
					continue
				}
				out = append(out, wrap(model.Obj(model.P("a", p1.Clone()), model.P("b", p2.Clone()))))
				out = append(out, wrap(model.Obj(model.P("b", p1.Clone()), model.P("a", p2.Clone()))))
			}
		}
		for _, l := range c01Leafs() {
			out = append(out, wrap(model.Arr(l.Clone())))
		}
		ls := c01Leafs()
		for i, l1 := range ls {
			for j, l2 := range ls {
				if nullable && (i+j)%4 != 0 {
					continue
				}
				out = append(out, wrap(model.Arr(l1.Clone(), l2.Clone())))
			}
		}
		// one level deeper: container in container with one leaf
		for _, l := range []*model.Node{model.Int("1"), model.Str("s"), model.Null()} {
			out = append(out, wrap(model.Arr(model.Arr(l.Clone()))))
			out = append(out, wrap(model.Arr(model.Obj(model.P("a", l.Clone())))))
			out = append(out, wrap(model.Obj(model.P("a", model.Arr(l.Clone())))))
			out = append(out, wrap(model.Obj(model.P("a", model.Obj(model.P("b", l.Clone()))))))
		}
	}
	c01SmallSchemasCache = out
	return out
}

// c01SmallDocs: all JSON values with at most n nodes over 5 scalars and keys a, b, c.
func c01SmallDocs(n int) []*model.Val {
	scalars := func() []*model.Val {
		return []*model.Val{model.VString("x"), model.VNumber("1"), model.VNumber("1.5"), model.VBoolean(true), model.VNullV()}
	}
	memo := map[int][]*model.Val{}
	var vals func(n int) []*model.Val
	// seqs returns all sequences of values whose node counts sum to at most n
	var seqs func(n int) [][]*model.Val
	vals = func(n int) []*model.Val {
		if n <= 0 {
			return nil
		}
		if m, ok := memo[n]; ok {
			return m
		}
		out := scalars()
		for _, sq := range seqs(n - 1) {
			out = append(out, model.VArray(sq...))
			// objects: assign keys a,b,c in all ways
			keys := []string{"a", "b", "c"}
			k := len(sq)
			total := 1
			for i := 0; i < k; i++ {
				total *= len(keys)
			}
			for code := 0; code < total; code++ {
				o := model.VObject()
				x := code
				for i := 0; i < k; i++ {
					o.Members = append(o.Members, model.M(keys[x%len(keys)], sq[i]))
					x /= len(keys)
				}
				out = append(out, o)
			}
		}
		memo[n] = out
		return out
	}
	seqs = func(n int) [][]*model.Val {
		out := [][]*model.Val{{}}
		if n <= 0 {
			return out
		}
		for first := 1; first <= n; first++ {
			for _, v := range valsExactly(vals, first) {
				for _, rest := range seqs(n - first) {
					out = append(out, append([]*model.Val{v}, rest...))
				}
			}
		}
		return out
	}
	return vals(n)
}

func nodeCount(v *model.Val) int {
	n := 1
	for _, m := range v.Members {
		n += nodeCount(m.V)
	}
	for _, e := range v.Elems {
		n += nodeCount(e)
	}
	return n
}

func valsExactly(vals func(int) []*model.Val, n int) []*model.Val {
	var out []*model.Val
	for _, v := range vals(n) {
		if nodeCount(v) == n {
			out = append(out, v)
		}
	}
	return out
}

func c01Exhaustive(c *mon.Ctx, part int) {
	schemas := c01SmallSchemas()
	maxNodes := 3
	if c.Tier == "thorough" {
		maxNodes = 4
	}
	docs := c01SmallDocs(maxNodes)
	texts := make([]string, len(docs))
	for i, d := range docs {
		texts[i] = d.Text()
	}
	lo, hi := part*16, part*16+16
	if hi > len(schemas) {
		hi = len(schemas)
	}
	for i := lo; i < hi; i++ {
		root := schemas[i]
		text := model.Canonical(root)
		for _, opt := range []bool{false, true} {
			s := &model.Schema{Root: root, OptKeys: opt}
			built := buildSchema(lib.Spec{Text: text, OptKeys: opt})
			if !built.ok {
				c.Count("small schema rejected by Check (skipped)", 1)
				c.Sample("small schema rejected by Check", map[string]any{"schema": text, "error": built.check.String()})
				if built.check.Panic == "" {
					c.Violate("legal", c01Case{Schema: text, OptKeys: opt}, "accept", built.check.String(), "Check refuses a schema of the rule-free fragment (small-scope exhaustive)")
				}
				continue
			}
			c.DistinctByConstruction(1)
			c.Count("small-scope schemas", 1)
			for j, d := range docs {
				c01Compare(c, s, text, built, d, texts[j], "small-scope exhaustive")
			}
			c.Count("small-scope pairs", len(docs))
		}
	}
	if part == 0 {
		c.Sample("small-scope exhaustive", map[string]any{"schemas": len(schemas), "documents": len(docs), "max_doc_nodes": maxNodes, "first_schema": model.Canonical(schemas[40]), "a_doc": texts[len(texts)/2]})
	}
}

func noPanic(o lib.Obs) string {
	if o.Panic != "" {
		return o.String()
	}
	return "no panic"
}

func c01ReplayValidate(raw json.RawMessage) string {
	var cs c01Case
	if err := json.Unmarshal(raw, &cs); err != nil {
		return "bad replay: " + err.Error()
	}
	return lib.Validate(lib.Spec{Text: cs.Schema, OptKeys: cs.OptKeys}, cs.Doc).Verdict()
}

func init() {
	mon.Register(&mon.Prop{
		ID:    "C01",
		Level: "exploration",
		Rule: "schemas of the rule-free fragment (depth<=5, width<=4, optional/nullable/type any mixed in) generated from the abstract model, both key-optionality options; " +
			"documents: conforming-by-construction, single-feature near misses (wrong kind, null, int/float flip, key dropped/added/repeated, elements past the end, emptied array) and unrelated JSON; " +
			"oracle = example-shape reference model. Small-scope part: all schemas with <=3 nodes over keys a,b x all documents with <=3 (quick) / <=4 (thorough) nodes. " +
			"Non-trivial = a distinct (schema text, option) accepted by Check on which documents were judged. Round 6: a generated schema that Check refuses is a violation (kind legal), not a skipped case.",
		Assumptions: []string{
			"the reference model is an independent reading of the property statement (DESIGN.md Appendix A lists the interpretation choices)",
			"schemas the generator believes valid but Check rejects are skipped and counted (Check's verdict is C08's subject)",
		},
		Units: func(tier string, seed uint64) int {
			u, _, _ := c01Sizes(tier)
			return u + c01ExhUnits(tier)
		},
		Run: c01Run,
		Replay: map[string]func(json.RawMessage) string{
			"validate": c01ReplayValidate,
			"legal": func(raw json.RawMessage) string {
				var cs c01Case
				json.Unmarshal(raw, &cs)
				return lib.Check(lib.Spec{Text: cs.Schema, OptKeys: cs.OptKeys}).Verdict()
			},
			"spelling": func(raw json.RawMessage) string {
				var cs c01Case
				if err := json.Unmarshal(raw, &cs); err != nil {
					return "bad replay: " + err.Error()
				}
				if o := lib.Check(lib.Spec{Text: cs.Schema, OptKeys: cs.OptKeys}); !o.OK {
					return o.String()
				}
				return "accept (as the LF spelling)"
			},
			"validate-reused": func(raw json.RawMessage) string {
				var cs c01Case
				if err := json.Unmarshal(raw, &cs); err != nil {
					return "bad replay: " + err.Error()
				}
				s, o := lib.Build(lib.Spec{Text: cs.Schema, OptKeys: cs.OptKeys})
				if !o.OK {
					return o.Verdict()
				}
				if cs.Before != "" {
					lib.ValidateOn(s, cs.Before)
				}
				return lib.ValidateOn(s, cs.Doc).String()
			},
			"validate-checked": func(raw json.RawMessage) string {
				var cs c01Case
				if err := json.Unmarshal(raw, &cs); err != nil {
					return "bad replay: " + err.Error()
				}
				s, o := lib.Build(lib.Spec{Text: cs.Schema, OptKeys: cs.OptKeys})
				if !o.OK {
					return o.Verdict()
				}
				return lib.ValidateOnChecked(s, cs.Doc).Verdict()
			},
			"vpanic": func(raw json.RawMessage) string {
				var cs c01Case
				json.Unmarshal(raw, &cs)
				return noPanic(lib.Validate(lib.Spec{Text: cs.Schema, OptKeys: cs.OptKeys}, cs.Doc))
			},
			"check": func(raw json.RawMessage) string {
				var cs c01Case
				json.Unmarshal(raw, &cs)
				if o := lib.Check(lib.Spec{Text: cs.Schema, OptKeys: cs.OptKeys}); o.Panic != "" {
					return o.String()
				}
				return "no panic"
			},
			"permutation": func(raw json.RawMessage) string {
				var m struct {
					Schema string `json:"schema"`
					Opt    bool   `json:"keys_optional_by_default"`
					A      string `json:"doc_a"`
					B      string `json:"doc_b"`
				}
				json.Unmarshal(raw, &m)
				a := lib.Validate(lib.Spec{Text: m.Schema, OptKeys: m.Opt}, m.A).Verdict()
				b := lib.Validate(lib.Spec{Text: m.Schema, OptKeys: m.Opt}, m.B).Verdict()
				if a == b {
					return "same verdict"
				}
				return a + " vs " + b
			},
			"optkeys": func(raw json.RawMessage) string {
				var m struct{ Schema, Twin, Doc string }
				json.Unmarshal(raw, &m)
				a := lib.Validate(lib.Spec{Text: m.Schema, OptKeys: true}, m.Doc).Verdict()
				b := lib.Validate(lib.Spec{Text: m.Twin}, m.Doc).Verdict()
				if a == b {
					return "same verdict"
				}
				return fmt.Sprintf("option: %s; optional:true everywhere: %s", a, b)
			},
		},
		Final: func(ev *mon.Evidence) error {
			acc := ev.Counters["verdict expected=accept observed=accept"]
			rej := ev.Counters["verdict expected=reject observed=reject"]
			if acc == 0 || rej == 0 {
				return fmt.Errorf("verdict histogram is one-sided (accept=%d reject=%d)", acc, rej)
			}
			var skipped int64
			for k, v := range ev.Counters {
				if len(k) > 9 && k[len(k)-9:] == "(skipped)" {
					skipped += v
				}
			}
			if skipped*5 > ev.Counters["small-scope schemas"]+1000 {
				ev.Inconcl[fmt.Sprintf("%d generated schemas were rejected by Check and skipped", skipped)]++
			}
			_ = sort.Strings
			return nil
		},
	})
}
