package props

// C09 — user-type references are resolved completely and recursion is decided correctly.
//
// Type graphs are enumerated exhaustively for <=3 types over a catalogue of edge forms and
// sampled for 4..6 types. Oracle (model.RecursionVerdict): Check must fail iff a referenced
// type is missing or the root has no finite inhabitant along required references (least
// fixpoint); UsedUserTypes equals the set referenced by the root text; on every accepted graph
// Check, Example and Validate (documents unrolled along the cycles to depth 1, 3, 40) return
// (crash/hang isolation of the driver turns a stack overflow or a hang into a violation).

import (
	"encoding/json"
	"fmt"
	"os"
	"runtime"
	"sort"
	"strings"

	"verif/internal/gen"
	"verif/internal/lib"
	"verif/internal/model"
	"verif/internal/mon"
)

type c09Case struct {
	Spec lib.Spec `json:"spec"`
	Doc  string   `json:"doc,omitempty"`
}

// shape catalogue: body of type number self with targets b, c
const c09Shapes = 20
const c09RootKinds = 8

// c09Sep spells the bar of a union by the type's number: blanks around it are optional.
func c09Union(self int, names ...string) *model.Node {
	n := model.Ref(names...)
	n.RefSep = []string{"", "|", "| ", " |", "\t|  "}[self%5]
	return n
}

func c09Shape(k int, self int, b, c string) (*model.Node, int) {
	q := fmt.Sprintf("q%d", self)
	switch k {
	case 0:
		return model.Int("1"), 0
	case 1:
		return model.Obj(model.P("p", model.Ref(b))), 1
	case 2:
		return model.Obj(model.P("p", model.Ref(b).With(model.RBool("optional", true)))), 1
	case 3:
		return model.Obj(model.P("p", model.Arr(model.Ref(b)))), 1
	case 4:
		return model.Obj(model.P("p", c09Union(self, b, c))), 2
	case 5:
		return model.Ref(b), 1
	case 6:
		return c09Union(self+1, b, c), 2
	case 7:
		return model.Obj(model.P(q, model.Int("1"))).With(model.RAllOf(b)), 1
	case 8:
		return model.Obj(model.P("p", model.Int("1"))).With(model.RStr("additionalProperties", b)), 1
	case 9:
		return model.Obj(model.P("p", model.Ref(b).With(model.RBool("nullable", true)))), 1
	case 10:
		return model.Obj(model.P("p", model.Ref(b)), model.P("o", model.Ref(c).With(model.RBool("optional", true)))), 2
	case 11:
		return model.Obj(model.P("p", model.Obj(model.P("n", model.Ref(b))))), 1
	case 12:
		return model.Obj(model.P("p", model.Obj(model.P("n", model.Ref(b))).With(model.RBool("optional", true)))), 1
	case 13:
		return model.Obj(model.P("p", model.Ref(b)), model.P("a", model.Arr(model.Ref(c)))), 2
	case 14:
		// key shortcut whose VALUE references a type (@k is always part of the environment)
		return model.Obj(model.PShort("@k", model.Ref(b))), 1
	case 15:
		// EMPTY object whose additionalProperties names a type
		return model.Obj().With(model.RStr("additionalProperties", b)), 1
	case 18:
		// an EXPLICITLY required property: the only required form under KeysAreOptionalByDefault
		return model.Obj(model.P("p", model.Ref(b).With(model.RBool("optional", false)))), 1
	case 19:
		// the inheriting object is an ITEM of an array (allOf rules are compiled wherever they stand)
		return model.Obj(model.P("items", model.Arr(model.Obj(model.P(q, model.Int("1"))).With(model.RAllOf(b))))), 1
	case 16:
		// inheriting object WITHOUT a required key of its own (a middle link of an allOf chain)
		return model.Obj(model.P(q, model.Int("1").With(model.RBool("optional", true)))).With(model.RAllOf(b)), 1
	default:
		// inheriting object with a required reference of its own
		return model.Obj(model.P(q, model.Ref(c))).With(model.RAllOf(b)), 2
	}
}

// c09Bodies lists all (shape, targets) bodies for a type when targets range over names.
type c09Body struct {
	shape int
	b, c  string
}

func c09Bodies(names []string) []c09Body {
	var out []c09Body
	for k := 0; k < c09Shapes; k++ {
		_, arity := c09Shape(k, 0, "@x", "@y")
		switch arity {
		case 0:
			out = append(out, c09Body{k, "", ""})
		case 1:
			for _, b := range names {
				out = append(out, c09Body{k, b, ""})
			}
		default:
			for _, b := range names {
				for _, c := range names {
					if b != c {
						out = append(out, c09Body{k, b, c})
					}
				}
			}
		}
	}
	return out
}

func c09Names(n int, withMissing bool) []string {
	var names []string
	for i := 0; i < n; i++ {
		names = append(names, fmt.Sprintf("@t%d", i))
	}
	if withMissing {
		names = append(names, "@zz")
	}
	return names
}

func c09Build(n int, bodies []c09Body, rootKind int) *model.Schema {
	s := &model.Schema{}
	for i := 0; i < n; i++ {
		root, _ := c09Shape(bodies[i].shape, i, bodies[i].b, bodies[i].c)
		s.Types = append(s.Types, &model.TypeDef{Name: fmt.Sprintf("@t%d", i), Root: root})
	}
	s.Types = append(s.Types, &model.TypeDef{Name: "@k", Root: model.Str("kk").With(model.RStr("regex", "^k"))})
	if rootKind == 6 || rootKind == 7 {
		// a LITERAL example declaring {type: "@t0"}: possible when every type is an integer leaf,
		// an alias or a union of such (the example 1 is then a value of every inhabited type)
		for i := 0; i < n; i++ {
			if sh := bodies[i].shape; sh != 0 && sh != 5 && sh != 6 {
				rootKind = 1
			}
		}
	}
	switch rootKind {
	case 7:
		// the type is named by or rule-sets that carry another rule, and once more further down
		// (UsedUserTypes lists it once)
		s.Root = model.Obj(
			model.P("x", model.Int("1").With(model.ROr(model.OrSet(model.RStr("type", "@t0"), model.RBool("nullable", true)), model.OrSet(model.RStr("type", "string"), model.RInt("minLength", 1))))),
			model.P("y", model.Ref("@t0").With(model.RBool("optional", true))),
			model.P("z", model.Int("1").With(model.ROr(model.OrSet(model.RStr("type", "@t0"), model.RBool("nullable", false)), model.OrSet(model.RStr("type", "boolean"))))))
	case 6:
		s.Root = model.Obj(model.P("x", model.Int("1").With(model.RStr("type", "@t0"))))
	case 0:
		s.Root = model.Ref("@t0")
	case 1:
		s.Root = model.Obj(model.P("r", model.Ref("@t0")))
	case 4:
		s.Root = model.Obj(model.PShort("@k", model.Ref("@t0")), model.P("z", model.Ref(fmt.Sprintf("@t%d", n-1))))
	case 5:
		s.Root = model.Obj(model.P("a", model.Ref("@t0")), model.P("b", model.Ref(fmt.Sprintf("@t%d", (n+1)/2))))
		if n == 1 {
			s.Root = model.Obj(model.P("a", model.Ref("@t0")), model.P("b", model.Ref("@t0")))
		}
	case 3:
		s.Root = model.Obj(model.P("x", c09Union(n, "@t0", fmt.Sprintf("@t%d", n-1))))
		if n == 1 {
			s.Root = model.Obj(model.PShort("@k", model.Ref("@t0")))
		}
	default:
		s.Root = model.Obj(model.P("r", model.Ref("@t0").With(model.RBool("optional", true))), model.P("s", model.Arr(model.Ref(fmt.Sprintf("@t%d", n-1)))))
	}
	return s
}

func c09Sizes(tier string) (exh2Units, exh3Units, rndUnits, rndPer int) {
	if tier == "thorough" {
		return 16, 400, 1200, 40
	}
	return 16, 40, 96, 12
}

// c09Blowup probes the canonical witness of the known finding "validator work grows
// exponentially with nesting depth when union alternatives stay ambiguous": work is measured as
// the number of heap allocations of one Validate call (a logical step count, not time).
func c09Blowup(c *mon.Ctx) {
	s := &model.Schema{
		Root: model.Ref("@a", "@b"),
		Types: []*model.TypeDef{
			{Name: "@a", Root: model.Obj(model.P("p", model.Ref("@a", "@b").With(model.RBool("optional", true))))},
			{Name: "@b", Root: model.Obj(model.P("p", model.Ref("@b", "@a").With(model.RBool("optional", true))))},
		},
	}
	sp := specOf(s, model.Style{})
	sch, o := lib.Build(sp)
	if !o.OK || !lib.Safe(sch.Check).OK {
		c.Inconclusive("blow-up witness schema is not accepted by Check any more")
		return
	}
	doc := func(d int) string { return strings.Repeat(`{"p":`, d) + "{}" + strings.Repeat("}", d) }
	work := func(d int) uint64 {
		var a, b runtime.MemStats
		text := doc(d)
		lib.ValidateOn(sch, text) // warm
		runtime.ReadMemStats(&a)
		vo := lib.ValidateOn(sch, text)
		runtime.ReadMemStats(&b)
		if !vo.OK {
			return 0
		}
		return b.Mallocs - a.Mallocs
	}
	w4, w12 := work(4), work(12)
	c.Eval(1)
	c.Count("blow-up probe: allocations at depth 4", int(w4))
	c.Count("blow-up probe: allocations at depth 12", int(w12))
	if w4 == 0 || w12 == 0 {
		c.Inconclusive("blow-up witness document is not accepted any more")
		return
	}
	// depth grows 3x: a validator whose work is polynomial of small degree stays below 30x
	if w12 > 30*w4 {
		c.Violate("blowup", map[string]any{"class": "ambiguous union alternatives nested along a cycle", "witness": sp},
			"work grows polynomially with nesting depth", fmt.Sprintf("allocations: depth 4 -> %d, depth 12 -> %d", w4, w12),
			"Validate work grows exponentially with document depth (2^depth live validators); a ~1 KiB document nested 40 deep does not finish")
	}
}

func c09Run(c *mon.Ctx, unit int) {
	e2, e3, _, per := c09Sizes(c.Tier)
	if unit == 0 {
		c09Blowup(c)
		c09TwoTypeWitness(c)
		c09Chains(c)
	}
	switch {
	case unit < e2:
		// all graphs over 2 types (+ one missing name), all three root kinds
		names := c09Names(2, true)
		bodies := c09Bodies(names)
		nb := len(bodies)
		idx := 0
		for i := 0; i < nb; i++ {
			for j := 0; j < nb; j++ {
				if idx%e2 == unit {
					for rk := 0; rk < c09RootKinds; rk++ {
						c09Judge(c, c09Build(2, []c09Body{bodies[i], bodies[j]}, rk), "exhaustive 2 types", idx == unit && rk == 1)
					}
					c.DistinctByConstruction(c09RootKinds)
				}
				idx++
			}
		}
	case unit < e2+e3:
		// graphs over 3 types without missing names: exhaustive in thorough, strided sample in quick
		u := unit - e2
		names := c09Names(3, false)
		bodies := c09Bodies(names)
		nb := len(bodies)
		total := nb * nb * nb
		stride := 1
		if c.Tier != "thorough" {
			stride = 17
		}
		for idx := u * stride; idx < total; idx += e3 * stride {
			i, j, k := idx%nb, (idx/nb)%nb, idx/(nb*nb)
			rk := (idx / 3) % c09RootKinds
			c09Judge(c, c09Build(3, []c09Body{bodies[i], bodies[j], bodies[k]}, rk), "3 types", idx == u*stride)
			c.DistinctByConstruction(1)
		}
	default:
		// random graphs over 4..6 types, 0..2 missing names, plus gen.Graph graphs
		r := c.Rng(9)
		for n := 0; n < per; n++ {
			var s *model.Schema
			if n%3 == 2 {
				s = gen.Graph(r, 6)
			} else {
				nt := r.Range(4, 6)
				names := c09Names(nt, r.Chance(1, 4))
				bodies := c09Bodies(names)
				var bs []c09Body
				for i := 0; i < nt; i++ {
					b := mon.Pick(r, bodies)
					if r.Chance(1, 3) {
						b = c09Body{0, "", ""}
					}
					bs = append(bs, b)
				}
				s = c09Build(nt, bs, r.Intn(c09RootKinds))
				if r.Chance(1, 6) && s.Root.Kind == model.KObject { // key shortcut next to the other keys
					s.Root.Props = append(s.Root.Props, model.PShort("@k", model.Int("1")))
				}
				if r.Chance(1, 4) && s.Root.Kind == model.KObject {
					// a type named only inside an or rule-set that carries another rule as well
					s.Types = append(s.Types, &model.TypeDef{Name: "@int", Root: model.Int("5")})
					s.Root.Props = append(s.Root.Props, model.P("u", model.Int("1").With(model.ROr(
						model.OrSet(model.RStr("type", "@int"), model.RBool("nullable", true)), model.OrSet(model.RStr("type", "string"))))))
				}
			}
			s.OptKeys = r.Chance(1, 8)
			sp := specOf(s, model.Style{})
			key, _ := json.Marshal(sp)
			c.Distinct(string(key))
			c09Judge(c, s, "random 4-6 types", n == 0 && unit%16 == 0)
		}
	}
}

// c09OnlyMissing: would the graph be legal if the missing names were added as leaf types?
// Only then does the statement decide that the error must name a missing type.
func c09OnlyMissing(s *model.Schema, missing []string) bool {
	s2 := &model.Schema{Root: s.Root, Types: append([]*model.TypeDef{}, s.Types...), Enums: s.Enums, OptKeys: s.OptKeys}
	for _, m := range missing {
		s2.Types = append(s2.Types, &model.TypeDef{Name: m, Root: model.Int("1")})
	}
	v, _ := model.RecursionVerdict(s2)
	return v == model.Accept
}

// c09TwoTypeWitness probes the canonical witness of the known finding "a required cycle
// through two types passes Check".
func c09TwoTypeWitness(c *mon.Ctx) {
	s := &model.Schema{
		Root: model.Ref("@r"),
		Types: []*model.TypeDef{
			{Name: "@r", Root: model.Obj(model.P("p", model.Ref("@s")))},
			{Name: "@s", Root: model.Obj(model.P("p", model.Ref("@r")))},
		},
	}
	sp := specOf(s, model.Style{})
	c.Eval(1)
	if o := lib.Check(sp); o.OK {
		c.Violate("recursion-known", map[string]any{"class": model.KnownTwoTypeRecursion, "witness": sp}, "reject", o.String(),
			"Check accepts a required cycle through two types (@r -> @s -> @r)")
	}
}

// c09Judge runs one graph in both registration configurations: types added to the root only,
// and every type added to every other type as well.
// c09Reachable keeps the types the root reaches through references (transitively).
func c09Reachable(s *model.Schema) *model.Schema {
	keep := map[string]bool{}
	var visit func(n *model.Node)
	visit = func(n *model.Node) {
		for _, name := range model.ReferencedTypes(n) {
			if keep[name] {
				continue
			}
			keep[name] = true
			if t := s.Type(name); t != nil && t.Root != nil {
				visit(t.Root)
			}
		}
	}
	visit(s.Root)
	out := &model.Schema{Root: s.Root, Enums: s.Enums, OptKeys: s.OptKeys}
	for _, t := range s.Types {
		if keep[t.Name] {
			out.Types = append(out.Types, t)
		}
	}
	return out
}

const c09ChainClass = " (each schema receives only the types it names)"

// c09Chains: reference chains three to seven types long (every link a required property, an
// array item or a union member; the last type a leaf, a missing name, or the first type again),
// judged in every registration mode - in particular with each type given only to the type that
// names it, so that the root reaches the end of the chain through every link.
func c09Chains(c *mon.Ctx) {
	for L := 3; L <= 7; L++ {
		for end := 0; end < 3; end++ {
			for form := 0; form < 3; form++ {
				s := &model.Schema{}
				for i := 0; i < L; i++ {
					next := fmt.Sprintf("@t%d", i+1)
					if i == L-1 {
						switch end {
						case 0:
							s.Types = append(s.Types, &model.TypeDef{Name: fmt.Sprintf("@t%d", i), Root: model.Int("1")})
							continue
						case 1:
							next = "@zz"
						default:
							next = "@t0"
						}
					}
					var body *model.Node
					switch (form + i) % 3 {
					case 0:
						body = model.Obj(model.P("p", model.Ref(next)))
					case 1:
						body = model.Obj(model.P("p", model.Arr(model.Ref(next))), model.P("n", model.Int("1")))
					default:
						body = model.Obj(model.P("p", c09Union(i, next, "@k")))
					}
					s.Types = append(s.Types, &model.TypeDef{Name: fmt.Sprintf("@t%d", i), Root: body})
				}
				s.Types = append(s.Types, &model.TypeDef{Name: "@k", Root: model.Str("kk").With(model.RStr("regex", "^k"))})
				s.Root = mon.Pick(c.Rng(uint64(L*9+end*3+form)), []*model.Node{model.Ref("@t0"), model.Obj(model.P("r", model.Ref("@t0"))), model.Arr(model.Ref("@t0"))})
				c.DistinctByConstruction(1)
				c09Judge(c, s, fmt.Sprintf("chain of %d types", L), false)
			}
		}
	}
}

func c09Judge(c *mon.Ctx, s *model.Schema, class string, sample bool) {
	c09JudgeCfg(c, s, class, sample, false, false)
	c09JudgeCfg(c, s, class+" (types added to every type)", false, true, false)
	// the same type objects were first given (every second one) to another root which was checked
	c09JudgeCfg(c, s, class+" (another root over the same type objects checked first)", false, false, true)
	// every schema receives exactly the types its own text names
	c09JudgeCfg(c, s, class+c09ChainClass, false, false, false)
	// KeysAreOptionalByDefault: only explicitly required properties keep a cycle illegal
	if !s.OptKeys {
		so := *s
		so.OptKeys = true
		c09JudgeCfg(c, &so, class+" (keys optional by default)", false, false, false)
	}
}

// c09SecondRoot: after the complete root was built and checked, the same text is built again over
// the same type objects without one type that is named only inside other types.
func c09SecondRoot(c *mon.Ctx, s *model.Schema, sp lib.Spec) {
	inRoot := map[string]bool{}
	for _, n := range model.ReferencedTypes(s.Root) {
		inRoot[n] = true
	}
	drop := ""
	for _, t := range s.Types {
		if t.Root == nil {
			continue
		}
		for _, n := range model.ReferencedTypes(t.Root) {
			if !inRoot[n] && s.Type(n) != nil && n != t.Name {
				drop = n
			}
		}
	}
	if drop == "" {
		return
	}
	s2 := s.Clone()
	var ts []*model.TypeDef
	for _, t := range s2.Types {
		if t.Name != drop {
			ts = append(ts, t)
		}
	}
	s2.Types = ts
	if m := model.MissingTypes(s2); len(m) != 1 || m[0] != drop || !c09OnlyMissing(s2, m) {
		return
	}
	sp.SecondWithout = drop
	first, bo := lib.Build(sp)
	if !bo.OK {
		return
	}
	second := lib.SecondOf(first)
	if o := lib.CheckObs(first); !o.OK || second == nil {
		return
	}
	obs := lib.CheckObs(second)
	c.Eval(1)
	c.Count("second roots over the same type objects, one type withheld", 1)
	if obs.OK || obs.Panic != "" {
		c.Violate("second-root", c09Case{Spec: sp}, "reject naming "+drop, obs.String(), "a root that was not given a type named inside a shared type passes Check after a complete root over the same type objects was checked")
		return
	}
	// and it fails the way a root built from fresh objects without that type fails
	fsp := sp
	fsp.SecondWithout = ""
	fsp.Types = nil
	for _, t := range sp.Types {
		if t.Name != drop {
			fsp.Types = append(fsp.Types, t)
		}
	}
	if fresh := lib.Check(fsp); fresh.Panic == "" && (fresh.OK != obs.OK || fresh.Code != obs.Code || fresh.Pos != obs.Pos) {
		c.Violate("second-root", c09Case{Spec: sp}, "as on fresh objects: "+fresh.String(), obs.String(), "the second root over used type objects fails differently from a root over fresh objects")
	}
}

func c09JudgeCfg(c *mon.Ctx, s *model.Schema, class string, sample bool, fullReg, preRoot bool) {
	sp := specOf(s, model.Style{})
	sp.FullReg = fullReg
	sp.PreRoot = preRoot
	sp.ChainReg = strings.HasSuffix(class, c09ChainClass)
	if sp.ChainReg {
		// only the types reachable from the root text are part of the schema then
		s = c09Reachable(s)
	}
	want, why := model.RecursionVerdict(s)
	if fullReg && why == model.KnownTwoTypeRecursion {
		why = "root has no finite inhabitant along required references (every type sees every type)"
	}
	sch, bo := lib.Build(sp)
	c.Eval(1)
	c.Count("graphs: "+class, 1)
	if bo.Panic != "" {
		c.Violate("check", c09Case{Spec: sp}, "no panic", bo.String(), "building the schema panicked")
		return
	}
	if !bo.OK {
		// AddType itself failed (e.g. the type text does not load); not a C09 matter
		c.Count("graphs whose AddType failed (skipped)", 1)
		return
	}
	obs := lib.CheckObs(sch)
	if obs.Panic != "" {
		c.Violate("check", c09Case{Spec: sp}, "no panic", obs.String(), "Check panicked on a type graph")
		return
	}
	// UsedUserTypes: exactly the names referenced by the root text, each once
	used, uo := lib.SafeVal(sch.UsedUserTypes)
	if uo.Panic != "" {
		c.Violate("used", c09Case{Spec: sp}, "no panic", uo.String(), "UsedUserTypes panicked")
	} else if uo.OK {
		wantUsed := model.ReferencedTypes(s.Root)
		got := append([]string{}, used...)
		sort.Strings(got)
		c.Eval(1)
		c.Count("UsedUserTypes comparisons", 1)
		if strings.Join(got, ",") != strings.Join(wantUsed, ",") {
			c.Violate("used", c09Case{Spec: sp}, strings.Join(wantUsed, ","), strings.Join(got, ","), "UsedUserTypes is not the set of names the root text references (each once)")
		}
	}
	switch want {
	case model.Unspec:
		c.Count("oracle unspecified: "+strings.SplitN(why, " but ", 2)[len(strings.SplitN(why, " but ", 2))-1], 1)
	case model.Reject:
		c.Count("verdict expected=reject observed="+obs.Verdict(), 1)
		if obs.OK && why == model.KnownTwoTypeRecursion {
			// collapsed into the canonical witness probed in unit 0 (known finding)
			c.Count("graphs in the known class: illegal recursion through >=2 distinct types accepted by Check", 1)
		} else if obs.OK {
			c.Violate("recursion", c09Case{Spec: sp}, "reject", obs.String(), "Check accepts a graph it must reject: "+why)
			return
		}
		c.Count(fmt.Sprintf("rejection code %d", obs.Code), 1)
		if m := model.MissingTypes(s); len(m) > 0 && c09OnlyMissing(s, m) {
			named := false
			for _, n := range m {
				if strings.Contains(obs.Msg, n) || strings.Contains(lib.Observe(obs.Err).Msg, n) {
					named = true
				}
			}
			c.Eval(1)
			if !named {
				c.Violate("missing-name", c09Case{Spec: sp}, "error names one of "+strings.Join(m, ","), obs.String(), "Check fails but does not name the missing type")
			}
			c.Count("missing type named", 1)
		}
	case model.Accept:
		c.Count("verdict expected=accept observed="+obs.Verdict(), 1)
		if !obs.OK {
			c.Violate("recursion", c09Case{Spec: sp}, "accept", obs.String(), "Check rejects a legal graph")
			return
		}
		// the complete root was checked: a second root over the same type objects that was NOT
		// given one of the types another type names must still fail, naming it
		if !fullReg && !preRoot && !sp.ChainReg {
			c09SecondRoot(c, s, sp)
		}
	}
	if sample {
		c.Sample(class, map[string]any{"spec": sp, "expected": want.String(), "why": why})
	}
	if !obs.OK {
		return
	}
	// accepted graphs: Example and Validate along the cycles must return (no panic; termination
	// is enforced by the driver's watchdog)
	if _, eo := lib.SafeVal(sch.Example); eo.Panic != "" {
		c.Violate("example", c09Case{Spec: sp}, "no panic", eo.String(), "Example panicked on an accepted graph")
	}
	c.Count("Example calls on accepted graphs", 1)
	for _, deep := range []int{1, 3, 40} {
		dg := gen.NewDocs(s, mon.NewRng(mon.HashString(sp.Text)+uint64(deep)))
		dg.Deep = deep
		v := dg.Conform()
		if amb := model.Ambiguity(s, v); amb > 64 {
			// known finding C09/validator-blowup: the lock-step validator keeps every union
			// alternative alive, work grows exponentially with the nesting depth. Such documents
			// stay out of the termination monitor (the canonical witness is probed in unit 0).
			c.Count("documents in the known exponential-ambiguity class (not validated)", 1)
			continue
		}
		doc := v.Text()
		if os.Getenv("VERIF_DEBUG") != "" {
			b, _ := json.Marshal(c09Case{Spec: sp, Doc: doc})
			fmt.Fprintf(os.Stderr, "C09 validate deep=%d %s\n", deep, b)
		}
		vo := lib.ValidateOn(sch, doc)
		c.Eval(1)
		c.Count(fmt.Sprintf("Validate calls, documents unrolled to depth %d", deep), 1)
		if vo.Panic != "" {
			c.Violate("vpanic", c09Case{Spec: sp, Doc: doc}, "no panic", vo.String(), "Validate panicked on an accepted graph")
			continue
		}
		if want == model.Accept {
			o := model.NewOracle(s)
			if w := o.Accepts(v); w != model.Unspec && w.String() != vo.Verdict() {
				c.Violate("validate", c09Case{Spec: sp, Doc: doc}, w.String(), vo.String(), "Validate verdict on an unrolled document differs from the oracle ("+o.Why+")")
			}
		}
	}
}

func init() {
	mon.Register(&mon.Prop{
		ID:    "C09",
		Level: "exploration",
		Rule: "type graphs from a catalogue of 14 type bodies (leaf, required / optional / nullable property, array item, two-member or property, alias, or-root, allOf parent, additionalProperties type, " +
			"nested required / optional object, required+optional pair, required+array pair) with targets over all types: ALL graphs over 2 types + one missing name x 3 root forms; graphs over 3 types " +
			"(all of them in thorough, a 1/37 strided sample in quick); random graphs over 4..6 types with missing names, key shortcuts and gen.Graph graphs. Oracle: least fixpoint of 'has a finite inhabitant'. " +
			"Non-trivial = each distinct graph (enumerated ones distinct by construction, random ones hashed).",
		Assumptions: []string{
			"a graph whose root is inhabited but which contains an illegally recursive type not required by the root is Unspecified (the statement speaks of types being expanded)",
			"a nullable reference counts as a required reference (the statement lists only optional properties, arrays and terminating or-alternatives as cycle breakers)",
			"termination is decided as bounded progress by the driver's watchdog; a fatal stack overflow is caught by crash isolation",
		},
		Units: func(tier string, seed uint64) int { a, b, d, _ := c09Sizes(tier); return a + b + d },
		Run:   c09Run,
		Replay: map[string]func(json.RawMessage) string{
			"recursion": func(raw json.RawMessage) string {
				var cs c09Case
				json.Unmarshal(raw, &cs)
				return lib.Check(cs.Spec).Verdict()
			},
			"check": func(raw json.RawMessage) string {
				var cs c09Case
				json.Unmarshal(raw, &cs)
				if o := lib.Check(cs.Spec); o.Panic != "" {
					return o.String()
				}
				return "no panic"
			},
			"second-root": func(raw json.RawMessage) string {
				var cs c09Case
				json.Unmarshal(raw, &cs)
				first, bo := lib.Build(cs.Spec)
				if !bo.OK {
					return "construction failed: " + bo.String()
				}
				second := lib.SecondOf(first)
				lib.CheckObs(first)
				if second == nil {
					return "no second root"
				}
				return lib.CheckObs(second).String()
			},
			"used": func(raw json.RawMessage) string {
				var cs c09Case
				json.Unmarshal(raw, &cs)
				s, o := lib.Build(cs.Spec)
				if !o.OK {
					return o.String()
				}
				u, uo := lib.SafeVal(s.UsedUserTypes)
				if !uo.OK {
					return uo.String()
				}
				g := append([]string{}, u...)
				sort.Strings(g)
				return strings.Join(g, ",")
			},
			"missing-name": func(raw json.RawMessage) string {
				var cs c09Case
				json.Unmarshal(raw, &cs)
				return lib.Check(cs.Spec).String()
			},
			"recursion-known": func(raw json.RawMessage) string {
				var m struct {
					Witness lib.Spec `json:"witness"`
				}
				json.Unmarshal(raw, &m)
				return lib.Check(m.Witness).Verdict()
			},
			"blowup": func(raw json.RawMessage) string {
				return "replay by running ./check C09 quick (the probe runs in unit 0)"
			},
			"example": func(raw json.RawMessage) string {
				var cs c09Case
				json.Unmarshal(raw, &cs)
				s, _ := lib.Build(cs.Spec)
				if _, o := lib.SafeVal(s.Example); o.Panic != "" {
					return o.String()
				}
				return "no panic"
			},
			"validate": func(raw json.RawMessage) string {
				var cs c09Case
				json.Unmarshal(raw, &cs)
				return lib.Validate(cs.Spec, cs.Doc).Verdict()
			},
			"vpanic": func(raw json.RawMessage) string {
				var cs c09Case
				json.Unmarshal(raw, &cs)
				return noPanic(lib.Validate(cs.Spec, cs.Doc))
			},
		},
		Final: func(ev *mon.Evidence) error {
			if ev.Counters["verdict expected=accept observed=accept"] == 0 || ev.Counters["verdict expected=reject observed=reject"] == 0 {
				return fmt.Errorf("verdict histogram is one-sided")
			}
			return nil
		},
	})
}
