//go:build vh_point

package props

// Control surface of hook H8 (internal/verifpoint, reached through the virtual root package
// verifpoint): available only in the build with rewritten copies of the library.

import vp "github.com/jsightapi/jsight-schema-go-library/verifpoint"

const havePoint = true

func pointInfo() (rewrites string, points, mapSites, onceBodies int) { return vp.Info() }
func pointSetOrder(mode int)                                         { vp.SetOrder(mode) }
func pointSiteStats() (calls, multi []int64)                         { return vp.SiteStats() }
func pointSetYield(permille int, hotSleep bool, seed uint64)         { vp.SetYield(permille, hotSleep, seed) }
func pointYieldStats() (calls, taken, slept uint64)                  { return vp.YieldStats() }
func pointHits(obj any, field string) (begun, ended int)             { return vp.Hits(obj, field) }
func pointHitEvents() int64                                          { return vp.HitEvents() }
func pointResetHits()                                                { vp.ResetHits() }
func pointSiteName(i int) string                                     { return vp.SiteName(i) }
func pointHitFields(obj any) map[string][2]int                       { return vp.HitFields(obj) }
