package props

// C12 — a loaded schema can be shared by concurrent goroutines.
//
// Scenarios (all goroutines start on one barrier so that first use is contended):
//
//	a  one shared root (types and rules added), G goroutines issuing random operation mixes
//	b  the same while other goroutines create, compile and use private schemas (pool traffic)
//	c  two or three fresh roots to which THE SAME user-type objects were added, first used
//	   concurrently, while further goroutines create more such roots at run time
//	d  enum rules / regex types shared likewise, used directly and through their roots
//	e  every type added to every type (the way an API definition holds its TYPEs): the type
//	   objects are used as schemas themselves while other goroutines use the roots holding them
//
// Builds: "race" (export shims only) gives the race verdict — between the barrier and the join
// the goroutines share nothing but the library objects under test; "rw" (copies of the library
// rewritten from the current tree: yields at every function entry, once-body events) looks for
// result corruption, once counts and interleaving diversity.
//
// Monitors: race detector (reports collected by the driver); result monitor (every call equals
// the sequential oracle computed beforehand on separately constructed objects); once monitor;
// porcupine linearizability of Do-histories of the once wrappers (c12_once.go); fatal errors
// (concurrent map writes) through the driver's crash isolation.

import (
	"encoding/json"
	"fmt"
	"os"
	"os/exec"
	"path/filepath"
	"regexp"
	"sort"
	"strconv"
	"strings"
	"sync"
	"time"

	njs "github.com/jsightapi/jsight-schema-go-library/notations/jschema"

	"verif/internal/gen"
	"verif/internal/model"
	"verif/internal/mon"
)

const c12Expected = "every concurrent call returns exactly what the sequential run returns; every once body runs once and has ended before a call that needs it returns"

// c12Scenario is the replayable description of one run (goroutine plans are derived from Seed).
type c12Scenario struct {
	Kind     string  `json:"scenario"` // a b c d
	Pool     c11Pool `json:"pool"`
	G        int     `json:"goroutines"`
	OpsPer   int     `json:"ops_per_goroutine"`
	Seed     uint64  `json:"plan_seed"`
	Permille int     `json:"yield_permille,omitempty"`
	HotSleep bool    `json:"sleep_at_once_pool_allof_points,omitempty"`
}

type c12Event struct {
	t    int64
	g, i int
	ret  bool
}

type c12Worker struct {
	problems []string
	events   []c12Event
	ops      int
	created  int
	live     []c11Handed
}

// c12Plan: what goroutine g does. Each step is an operation on the shared objects, or (private
// / creator goroutines) the construction of new objects followed by operations on them.
type c12Step struct {
	op      c11Op
	private bool // run on this goroutine's own objects
	create  bool // (re)create this goroutine's own objects first
}

func c12SchemaOpsFor(p *c11Pool, r *mon.Rng, ref c11Ref, n int) []c11Op {
	out := make([]c11Op, n)
	for i := range out {
		op := c11Op{On: ref, Op: c11SchemaOps[r.Intn(len(c11SchemaOps))]}
		if r.Chance(1, 3) {
			op.Op = "Validate"
		}
		if op.Op == "Validate" {
			if len(p.Docs) == 0 {
				op.Op = "Check"
			} else {
				op.Doc = r.Intn(len(p.Docs))
				op.Pre = r.Chance(1, 5)
			}
		}
		out[i] = op
	}
	return out
}

func c12Plans(sc *c12Scenario) [][]c12Step {
	r := mon.NewRng(mon.Mix(sc.Seed, 12))
	p := &sc.Pool
	plans := make([][]c12Step, sc.G)
	nRoots := len(p.Families[0].Roots)
	for g := range plans {
		var steps []c12Step
		switch sc.Kind {
		case "a":
			for _, op := range c12SchemaOpsFor(p, r, c11Ref{Kind: "schema", Idx: 0}, sc.OpsPer) {
				steps = append(steps, c12Step{op: op})
			}
		case "b":
			if g%2 == 0 {
				for _, op := range c12SchemaOpsFor(p, r, c11Ref{Kind: "schema", Idx: 0}, sc.OpsPer) {
					steps = append(steps, c12Step{op: op})
				}
			} else {
				// private objects: the same texts (and, for odd multiples, another family)
				fam := 0
				if len(p.Families) > 1 && g%4 == 3 {
					fam = 1
				}
				for i, op := range c12SchemaOpsFor(p, r, c11Ref{Kind: "schema", Fam: fam, Idx: r.Intn(len(p.Families[fam].Roots))}, sc.OpsPer) {
					steps = append(steps, c12Step{op: op, private: true, create: i%6 == 0})
				}
			}
		case "c":
			if g >= 2 && g%4 == 3 {
				// creator: builds a new root over THE SHARED type objects, uses it, repeats
				for i, op := range c12SchemaOpsFor(p, r, c11Ref{Kind: "schema", Idx: r.Intn(nRoots)}, sc.OpsPer) {
					steps = append(steps, c12Step{op: op, private: true, create: i%5 == 0})
				}
			} else {
				for _, op := range c12SchemaOpsFor(p, r, c11Ref{Kind: "schema", Idx: g % nRoots}, sc.OpsPer) {
					steps = append(steps, c12Step{op: op})
				}
			}
		case "e":
			// the family's type objects are complete schemas (every type added to every type) and
			// are used as roots themselves while other goroutines use the roots that hold them
			var types []c11Ref
			for _, ref := range c11Refs(p) {
				if ref.Kind == "type" && ref.Fam == 0 {
					types = append(types, ref)
				}
			}
			ref := c11Ref{Kind: "schema", Idx: (g / 2) % nRoots}
			if g%2 == 1 && len(types) > 0 {
				ref = types[(g/2)%len(types)]
			}
			for _, op := range c12SchemaOpsFor(p, r, ref, sc.OpsPer) {
				steps = append(steps, c12Step{op: op})
			}
		case "d":
			for i := 0; i < sc.OpsPer; i++ {
				switch k := r.Intn(10); {
				case k < 3 && len(p.Enums) > 0:
					steps = append(steps, c12Step{op: c11Op{On: c11Ref{Kind: "enum", Idx: r.Intn(len(p.Enums))}, Op: mon.Pick(r, c11EnumOps)}})
				case k < 6 && len(p.Regexes) > 0:
					steps = append(steps, c12Step{op: c11Op{On: c11Ref{Kind: "regex", Idx: r.Intn(len(p.Regexes))}, Op: mon.Pick(r, c11RegexOps)}})
				default:
					steps = append(steps, c12Step{op: c12SchemaOpsFor(p, r, c11Ref{Kind: "schema", Idx: g % nRoots}, 1)[0]})
				}
			}
		}
		plans[g] = steps
	}
	return plans
}

// c12Oracle: the sequential answers, each computed on separately constructed objects.
func c12Oracle(sc *c12Scenario, plans [][]c12Step) map[string]string {
	want := map[string]string{}
	for _, steps := range plans {
		for _, st := range steps {
			k := st.op.String()
			if _, ok := want[k]; !ok {
				want[k], _ = c11Exec(c11Fresh(&sc.Pool, st.op.On), st.op)
			}
		}
	}
	return want
}

type c12Result struct {
	problems   []string
	ops        int
	created    int
	signature  uint64
	onceEvents int
	onceChecks int
}

// c12RunScenario executes one scenario run in this process.
func c12RunScenario(sc *c12Scenario) *c12Result {
	plans := c12Plans(sc)
	want := c12Oracle(sc, plans)
	p := &sc.Pool
	// the shared objects; in scenario c/d the roots are fresh so that their first use is contended
	shared := c11Build(p)
	pointResetHits()
	hits0 := pointHitEvents()
	pointSetYield(sc.Permille, sc.HotSleep, sc.Seed)
	workers := make([]*c12Worker, sc.G)
	var start, done sync.WaitGroup
	start.Add(1)
	t0 := time.Now()
	for g := 0; g < sc.G; g++ {
		w := &c12Worker{}
		workers[g] = w
		done.Add(1)
		go func(g int, w *c12Worker) {
			defer done.Done()
			var own *c11Objs
			steps := plans[g]
			start.Wait()
			for i, st := range steps {
				objs := shared
				if st.private {
					if st.create || own == nil || own.fams[st.op.On.Fam] == nil || own.fams[st.op.On.Fam].roots[st.op.On.Idx] == nil {
						w.created++
						own = c12Own(sc, shared, st.op.On)
					}
					objs = own
				}
				w.events = append(w.events, c12Event{t: int64(time.Since(t0)), g: g, i: i})
				got, hs := c11Exec(objs, st.op)
				w.events = append(w.events, c12Event{t: int64(time.Since(t0)), g: g, i: i, ret: true})
				w.ops++
				if exp := want[st.op.String()]; got != exp {
					if len(w.problems) < 3 {
						w.problems = append(w.problems, fmt.Sprintf("goroutine %d step %d %s returned %s; sequential run: %s", g, i, st.op.String(), trunc11(got, 300), trunc11(exp, 300)))
					}
				}
				if havePoint && st.op.On.Kind == "schema" {
					if pr := c12OnceAfterCall(objs.fams[st.op.On.Fam].roots[st.op.On.Idx], st.op); pr != "" && len(w.problems) < 3 {
						w.problems = append(w.problems, fmt.Sprintf("goroutine %d step %d %s: %s", g, i, st.op.String(), pr))
					}
				}
				if len(w.live) < 6 {
					w.live = append(w.live, hs...)
				}
			}
			// values handed out earlier must still be what they were
			for _, h := range w.live {
				if now := h.Render(); now != h.Snap && len(w.problems) < 3 {
					w.problems = append(w.problems, fmt.Sprintf("goroutine %d: %s changed afterwards: was %s, now %s", g, h.What, trunc11(h.Snap, 200), trunc11(now, 200)))
				}
			}
		}(g, w)
	}
	start.Done()
	done.Wait()
	pointSetYield(0, false, 0)
	res := &c12Result{}
	var evs []c12Event
	for _, w := range workers {
		res.problems = append(res.problems, w.problems...)
		res.ops += w.ops
		res.created += w.created
		evs = append(evs, w.events...)
	}
	sort.SliceStable(evs, func(i, j int) bool {
		if evs[i].t != evs[j].t {
			return evs[i].t < evs[j].t
		}
		return evs[i].g < evs[j].g
	})
	h := uint64(1469598103934665603)
	for _, e := range evs {
		x := uint64(e.g)<<32 | uint64(e.i)<<1
		if e.ret {
			x |= 1
		}
		h = mon.Mix(h, x)
	}
	res.signature = h
	// once monitor at quiescence: every recorded once body of every shared root ran exactly once
	if havePoint {
		res.onceEvents = int(pointHitEvents() - hits0)
		for fi, fo := range shared.fams {
			for ri, root := range fo.roots {
				if root == nil {
					continue
				}
				res.onceChecks++
				for field, be := range pointHitFields(root) {
					if be[0] != 1 || be[1] != 1 {
						res.problems = append(res.problems, fmt.Sprintf("once body %s of schema[%d.%d] began %d times and ended %d times", field, fi, ri, be[0], be[1]))
					}
				}
			}
		}
		for i, e := range shared.enums {
			for field, be := range pointHitFields(e) {
				if be[0] != 1 || be[1] != 1 {
					res.problems = append(res.problems, fmt.Sprintf("once body %s of enum[%d] began %d times and ended %d times", field, i, be[0], be[1]))
				}
			}
		}
		for i, e := range shared.regexes {
			for field, be := range pointHitFields(e) {
				if be[0] != 1 || be[1] != 1 {
					res.problems = append(res.problems, fmt.Sprintf("once body %s of regex[%d] began %d times and ended %d times", field, i, be[0], be[1]))
				}
			}
		}
	}
	return res
}

// c12Own builds a goroutine's own objects while the others run: in scenario c a new root over
// THE SHARED type and rule objects, otherwise a completely private family.
func c12Own(sc *c12Scenario, shared *c11Objs, on c11Ref) *c11Objs {
	p := &sc.Pool
	if sc.Kind != "c" || on.Fam != 0 {
		return c11Fresh(p, on)
	}
	own := &c11Objs{pool: p, fams: make([]*c11FamObjs, len(p.Families))}
	sf := shared.fams[0]
	own.fams[0] = &c11FamObjs{types: sf.types, rules: sf.rules, roots: make([]*njs.Schema, len(p.Families[0].Roots))}
	own.fams[0].roots[on.Idx] = c11BuildRoot(&p.Families[0], sf, on.Idx)
	return own
}

// c12OnceAfterCall: when a public call that needs the compiled schema has returned, the compile
// body of that schema must have begun exactly once and ended. Field names are the library's
// own; when none of them looks like the compile step the monitor stays silent (never an alarm).
func c12OnceAfterCall(root any, op c11Op) string {
	fields := pointHitFields(root)
	for field, be := range fields {
		if be[0] > 1 {
			return fmt.Sprintf("once body %s began %d times", field, be[0])
		}
		low := strings.ToLower(field)
		needs := false
		switch op.Op {
		case "Check", "Validate", "Example", "GetAST":
			needs = strings.Contains(low, "compile")
		case "Len":
			needs = strings.Contains(low, "len")
		case "UsedUserTypes":
			needs = strings.Contains(low, "load")
		}
		if needs && be[1] < 1 {
			return fmt.Sprintf("the call returned although once body %s has not ended (began %d, ended %d)", field, be[0], be[1])
		}
	}
	return ""
}

// ---- scenario generation ---------------------------------------------------------------

// c12GenPool: one family whose roots share type objects (generated graph or curated), documents
// aimed at it, some enums and regexes; a second family for private traffic.
func c12GenPool(r *mon.Rng, kind string) c11Pool {
	var p c11Pool
	curated := func(i int) c11Family { return c11CuratedFamilies[i] }
	switch kind {
	case "c":
		// sharing is the point: allOf users, or-types, regex types
		switch r.Intn(8) {
		case 7:
			p.Families = append(p.Families, curated(11)) // roots binding one name to different types
			p.Docs = append(p.Docs, c11CuratedDocs[len(c11CuratedDocs)-4:]...)
		case 0:
			p.Families = append(p.Families, curated(0))
		case 1:
			p.Families = append(p.Families, curated(5))
		case 2:
			p.Families = append(p.Families, curated(2))
		case 3:
			p.Families = append(p.Families, curated(7))
		case 4, 5:
			p.Families = append(p.Families, curated(6)) // derived types of their own over shared bases
		default:
			p.Families = append(p.Families, c12GraphFamily(r, true, &p.Docs))
		}
	case "d":
		p.Families = append(p.Families, curated(1))
	case "e":
		var f c11Family
		switch r.Intn(4) {
		case 0:
			f = curated(2) // or rule-sets: unnamed types are hoisted at first use
		case 1:
			f = curated(0)
		default:
			f = c12GraphFamily(r, false, &p.Docs)
		}
		f.FullReg = true
		p.Families = append(p.Families, f)
	default:
		if r.Chance(1, 3) {
			p.Families = append(p.Families, curated(r.Intn(len(c11CuratedFamilies))))
		} else {
			p.Families = append(p.Families, c12GraphFamily(r, false, &p.Docs))
		}
	}
	p.Families = append(p.Families, curated(4))
	// documents: conforming and near-miss ones for curated roots come from the curated list
	for len(p.Docs) < 6 {
		p.Docs = append(p.Docs, mon.Pick(r, c11CuratedDocs[:18]))
	}
	// documents cut off in the middle (a syntax error after part of the value was validated)
	for i, n := 0, len(p.Docs); i < n && i < 4; i++ {
		if t := p.Docs[i].Text; len(t) > 6 {
			p.Docs = append(p.Docs, c11Doc{Text: t[:len(t)*2/3]})
		}
	}
	// the same documents with keys spelled through escape sequences (every spelling differs)
	for i, n := 0, len(p.Docs); i < n; i++ {
		if r.Chance(1, 3) {
			d := p.Docs[i]
			d.Text = c12EscapeKeys(r, d.Text)
			p.Docs = append(p.Docs, d)
		}
	}
	p.Enums = []string{c11CuratedEnums[0], c11CuratedEnums[1], c11CuratedEnums[3]}
	p.Regexes = []string{c11CuratedRegexes[0], c11CuratedRegexes[2], c11CuratedRegexes[4]}
	return p
}

var c12KeyRe = regexp.MustCompile(`"([A-Za-z0-9_ -]+)"(\s*):`)

// c12EscapeKeys re-spells object keys of a JSON text: one character of the key becomes a \uXXXX
// escape (which one is random), the value is unchanged.
func c12EscapeKeys(r *mon.Rng, text string) string {
	return c12KeyRe.ReplaceAllStringFunc(text, func(m string) string {
		sub := c12KeyRe.FindStringSubmatch(m)
		key := sub[1]
		if r.Chance(1, 4) {
			return m
		}
		i := r.Intn(len(key))
		hex := fmt.Sprintf("%04x", key[i])
		if r.Bool() {
			hex = strings.ToUpper(hex)
		}
		return `"` + key[:i] + `\u` + hex + key[i+1:] + `"` + sub[2] + ":"
	})
}

func c12GraphFamily(r *mon.Rng, wantAllOf bool, docs *[]c11Doc) c11Family {
	var s *model.Schema
	for try := 0; try < 30; try++ {
		s = gen.Graph(r, 6)
		if !wantAllOf {
			break
		}
		has := false
		for _, t := range s.Types {
			if t.Root != nil && t.Root.Rule("allOf") != nil {
				has = true
			}
		}
		if has {
			break
		}
	}
	sp := specOf(s, model.Style{})
	fam := c11Family{Types: sp.Types, Rules: sp.Rules, Roots: []c11Root{{Text: sp.Text}}}
	for _, t := range sp.Types {
		if len(fam.Roots) < 3 {
			fam.Roots = append(fam.Roots, c11Root{Text: "[" + t.Name + "]"})
		}
	}
	dg := gen.NewDocs(s, r.Fork())
	for k := 0; k < 4; k++ {
		v := dg.Conform()
		if k%2 == 1 {
			v, _ = dg.Mutate(v)
		}
		*docs = append(*docs, c11Doc{Text: v.Text()})
		if k < 2 {
			*docs = append(*docs, c11Doc{Text: model.DocStyle{Escapes: r.Fork()}.Render(v)})
		}
	}
	return fam
}

func c12GenScenario(r *mon.Rng, kind string, quick bool) *c12Scenario {
	sc := &c12Scenario{Kind: kind, Pool: c12GenPool(r, kind), Seed: r.U64()}
	sc.G = mon.Pick(r, []int{2, 4, 8, 16, 32})
	sc.OpsPer = r.Range(20, 200)
	if quick && sc.G*sc.OpsPer > 1600 {
		sc.OpsPer = 1600 / sc.G
	}
	// documents for a generated family: conforming / mutated ones
	return sc
}

// ---- units -------------------------------------------------------------------------------

func c12Sizes(tier string) (raceUnits, rwUnits, reps, onceUnits int) {
	if tier == "thorough" {
		return 400, 400, 10, 20
	}
	return 32, 32, 5, 4
}

var c12Kinds = []string{"a", "b", "c", "d", "c", "e", "c", "b"}

func c12Run(c *mon.Ctx, unit int) {
	ru, wu, reps, ou := c12Sizes(c.Tier)
	switch {
	case unit < ru:
		c12RunScenarios(c, unit, reps, false)
	case unit < ru+ou:
		c12RunOnceHistories(c, unit-ru)
	case unit < ru+ou+wu:
		c12RunScenarios(c, unit-ru-ou, reps, true)
	default:
		c12RunOnceHistories(c, unit-ru-ou-wu+1000)
	}
}

func c12RunScenarios(c *mon.Ctx, n, reps int, rw bool) {
	if rw && !havePoint {
		c.Inconclusive("scenario unit of the rewritten build ran in a build without rewritten copies")
		return
	}
	r := c.Rng(12)
	kind := c12Kinds[n%len(c12Kinds)]
	build := "race build (shims only)"
	if rw {
		build = "rewritten build (yields, once events)"
	}
	y0c, y0t, y0s := pointYieldStats()
	for rep := 0; rep < reps; rep++ {
		sc := c12GenScenario(r, kind, c.Quick())
		if rw {
			sc.Permille = []int{0, 10, 100, 10, 100}[rep%5]
			sc.HotSleep = rep%5 >= 3
		}
		res := c12RunScenario(sc)
		c.Eval(res.ops)
		c.Count("operations compared with the sequential oracle", res.ops)
		c.Count("scenario runs: "+build, 1)
		c.Count("scenario "+kind+" runs", 1)
		c.Count("goroutines started", sc.G)
		c.Count("objects created while others run", res.created)
		c.DistinctHash(res.signature)
		c.Count("interleaving signatures recorded (distinct ones are counted in distinct_nontrivial)", 1)
		if rw {
			c.Count("once events", res.onceEvents)
			c.Count("schemas whose once bodies were counted", res.onceChecks)
		}
		if len(res.problems) > 0 {
			c.Violate("result", sc, c12Expected, res.problems[0], "concurrent use of shared schema objects changed a result ("+strconv.Itoa(len(res.problems))+" problems in this run)")
		}
		if rep == 0 && n < 8 {
			c.Sample("scenario "+kind, map[string]any{"goroutines": sc.G, "ops_per_goroutine": sc.OpsPer, "roots": sc.Pool.Families[0].Roots, "types": len(sc.Pool.Families[0].Types), "build": build})
		}
	}
	if rw {
		y1c, y1t, y1s := pointYieldStats()
		c.Count("yield points passed (approx.)", int(y1c-y0c))
		c.Count("yields taken (approx.)", int(y1t-y0t))
		c.Count("50µs sleeps at once/pool/allOf/example points (approx.)", int(y1s-y0s))
	}
}

// ---- replay ------------------------------------------------------------------------------

func c12ReplayResult(raw json.RawMessage) string {
	var sc c12Scenario
	if err := json.Unmarshal(raw, &sc); err != nil {
		return "bad replay: " + err.Error()
	}
	// schedule dependent: try a number of times
	for k := 0; k < 40; k++ {
		if res := c12RunScenario(&sc); len(res.problems) > 0 {
			return res.problems[0]
		}
	}
	return c12Expected
}

// c12ReplayRace re-runs the quick race workload in the -race build and looks for a report with
// the recorded signature (a race report names no inputs: it depends on the schedule).
func c12ReplayRace(raw json.RawMessage) string {
	var in struct {
		Signature string `json:"signature"`
	}
	json.Unmarshal(raw, &in)
	exe := os.Getenv("VERIF_RACE_EXE")
	if exe == "" {
		return "no -race build available to replay with"
	}
	dir, err := os.MkdirTemp("", "c12-race-")
	if err != nil {
		return "cannot create a scratch directory"
	}
	defer os.RemoveAll(dir)
	ru, _, _, _ := c12Sizes("quick")
	for lo := 0; lo < ru; lo += 4 {
		logp := filepath.Join(dir, "race")
		seed := os.Getenv("VERIF_SEED")
		if _, err := strconv.ParseUint(seed, 10, 64); err != nil {
			seed = "1"
		}
		cmd := exec.Command(exe, "worker", "C12", "quick", seed, strconv.Itoa(lo), strconv.Itoa(lo+4), filepath.Join(dir, "out.json"))
		cmd.Env = append(os.Environ(), "GORACE=halt_on_error=0 exitcode=0 history_size=3 log_path="+logp)
		cmd.Run()
		logs, _ := filepath.Glob(logp + ".*")
		for _, l := range logs {
			b, _ := os.ReadFile(l)
			os.Remove(l)
			for _, rep := range mon.SplitRaceReports(string(b)) {
				if in.Signature == "" || mon.RaceSignature(rep) == in.Signature {
					return "data race"
				}
			}
		}
	}
	return "no data race"
}

func init() {
	mon.Register(&mon.Prop{
		ID:    "C12",
		Level: "exploration",
		Rule: "scenario runs: (a) G in {2,4,8,16,32} goroutines released by one barrier issue 20..200 random operations (Check, Validate of an own document, Len, Example, GetAST, UsedUserTypes) on one shared root; " +
			"(b) the same while other goroutines create, compile and use private schemas; (c) two or three fresh roots to which the same user-type objects (allOf users, or-types, regex types) were added, first used " +
			"concurrently, while further goroutines build more roots over those objects; (d) shared enum rules and regex types. Every result is compared with the sequential oracle computed beforehand on separately " +
			"constructed objects. Run in the -race build with export shims only (race verdict) and in a -race build of copies rewritten from the current tree with yields at every function entry (probability 0 / 1% / 10%, " +
			"optionally 50µs sleeps at once/pool/allOf/example points) and once-body counters. Non-trivial = a scenario run with a distinct interleaving signature (hash of the timestamp-merged order of all call/return events).",
		Assumptions: []string{
			"only interleavings that the Go scheduler and the injected yields produced in this run are observed; a clean race-detector run is not a proof of race freedom",
			"a user-type object handed to AddType is afterwards used only through the roots it was added to",
			"the sequential oracle relies on history independence (C11): one answer per (object, operation, document)",
		},
		Race:          true,
		Units:         func(tier string, seed uint64) int { a, b, _, o := c12Sizes(tier); return a + b + 2*o },
		Run:           c12Run,
		KindChunk:     2,
		ChunkTimeoutS: func(tier string) int { return 600 },
		ExeKind: func(tier string, seed uint64, unit int) string {
			a, _, _, o := c12Sizes(tier)
			if unit < a+o {
				return "race"
			}
			return "rw"
		},
		Replay: map[string]func(json.RawMessage) string{
			"result": c12ReplayResult,
			"once":   c12ReplayOnce,
			"race":   c12ReplayRace,
		},
		Final: func(ev *mon.Evidence) error {
			if ev.Counters["scenario runs: race build (shims only)"] == 0 {
				return fmt.Errorf("no scenario ran in the -race build")
			}
			if ev.Counters["scenario runs: rewritten build (yields, once events)"] == 0 {
				ev.Inconcl["rewritten build unavailable: no injected yields, once-body counts not taken"]++
			} else if ev.Counters["once events"] == 0 {
				ev.Inconcl["no once-body event recorded in the rewritten build (the once wrappers may have been renamed): once monitor did not decide"]++
			}
			if ev.Counters["once histories checked by porcupine"] == 0 {
				ev.Inconcl["hook vh_once unavailable: no Do-history of the once wrappers was checked for linearizability"]++
			}
			if _, ok := ev.Counters["race reports"]; !ok {
				ev.Counters["race reports"] = 0
			}
			return nil
		},
	})
}
