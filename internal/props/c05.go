package props

// C05 — A document is accepted iff it is one RFC 8259 JSON text.
//
// Every text is run through the real json.New(...).Check() in both configurations (strict and
// AllowTrailingNonSpaceCharacters) and the verdict is compared with the reference recogniser
// refjson, after refjson and encoding/json have been found to agree on that text.
//
//   - exhaustive: all strings over A1 (16 JSON byte classes) up to length 5 (quick) / 7
//     (thorough) and over A2 (literal words) up to length 5 / 6, sharded by 2-symbol prefix;
//   - mutational: generated valid texts up to 4 KiB: every truncation, dictionary
//     insert/substitute/delete at every (sampled) offset, raw byte noise; hand-written seeds;
//   - state-merged BFS (hook vh_jsonstate): pairs (library control state, reference state) with
//     nesting depth ≤ 4, all 256 byte values on every pair; every edge is confirmed by real
//     Check verdicts on a concrete witness text.

import (
	"encoding/hex"
	"encoding/json"
	"fmt"
	"runtime/debug"
	"sort"
	"strconv"
	"strings"
	"sync"
	"unicode/utf8"

	"verif/internal/lib"
	"verif/internal/mon"
	refjson "verif/internal/ref/json"
)

var c05A1 = []byte("{}[],:\"\\01-+.e \n")
var c05A2 = []byte("truefalsn[], \"")

// bytes of A2 that also belong to A1: strings made only of them were already enumerated over A1
var c05A2inA1 = func() (m [256]bool) {
	for _, b := range c05A2 {
		for _, a := range c05A1 {
			if a == b {
				m[b] = true
			}
		}
	}
	return
}()

func c05MaxLen(tier string) (a1, a2 int) {
	if tier == "thorough" {
		return 7, 6
	}
	return 5, 5
}

func c05MutUnits(tier string) (units, perUnit, sampledOffsets int) {
	if tier == "thorough" {
		return 1000, 4, 64
	}
	return 160, 2, 24
}

func c05BFSDepth(tier string) int {
	if tier == "thorough" {
		return 5
	}
	return 4
}

const (
	c05NA1     = 256 // 16*16 prefixes
	c05NA2     = 196 // 14*14 prefixes
	c05BFSUnit = 2   // strict, trailing
)

// c05Case is the self-contained input of one evaluation.
type c05Case struct {
	Hex      string `json:"hex"`      // the document bytes
	Text     string `json:"text"`     // the same, Go-quoted, for the reader (not used by replay)
	Trailing bool   `json:"trailing"` // json.AllowTrailingNonSpaceCharacters()
}

func c05MkCase(text []byte, trailing bool) c05Case {
	return c05Case{Hex: hex.EncodeToString(text), Text: strconv.Quote(string(text)), Trailing: trailing}
}

// c05Agg accumulates observation counters of one unit (flushed once: the hot loops run
// hundreds of millions of times).
type c05Agg struct {
	hist     [2][2][3]int64 // [trailing][expected accept][observed accept/reject/panic]
	unspec   [2]int64
	disagree int64
	afterLen int64
	evals    int64
	byClass  map[string]int64
}

func (a *c05Agg) flush(c *mon.Ctx) {
	cfg := []string{"strict", "trailing"}
	exp := []string{"reject", "accept"}
	obs := []string{"accept", "reject", "panic"}
	for t := 0; t < 2; t++ {
		for e := 0; e < 2; e++ {
			for o := 0; o < 3; o++ {
				if n := a.hist[t][e][o]; n != 0 {
					c.Count(fmt.Sprintf("verdict %s: expected %s, library %s", cfg[t], exp[e], obs[o]), int(n))
				}
			}
		}
		if a.unspec[t] != 0 {
			c.Count("unspecified "+cfg[t]+" (grammar accepts, value not valid UTF-8): no verdict compared", int(a.unspec[t]))
		}
	}
	if a.disagree != 0 {
		c.Count(c05DisagreeCounter, int(a.disagree))
	}
	if a.afterLen != 0 {
		c.Count("Check() after Len() on the same Document compared with Check() on a fresh one", int(a.afterLen))
	}
	c.Eval(int(a.evals))
	keys := make([]string, 0, len(a.byClass))
	for k := range a.byClass {
		keys = append(keys, k)
	}
	sort.Strings(keys)
	for _, k := range keys {
		c.Count("texts: "+k, int(a.byClass[k]))
	}
	*a = c05Agg{}
}

const c05DisagreeCounter = "HARNESS BUG: refjson and encoding/json disagree (library not judged)"

// c05Expect returns the oracle's answer for (text, config): +1 accept, 0 reject, -1
// unspecified, -2 the two oracles disagree (harness bug).
func c05Expect(text []byte, trailing bool) int {
	mode := refjson.Strict
	if trailing {
		mode = refjson.Prefix
	}
	res := refjson.Check(text, mode)
	var std bool
	if trailing {
		std = refjson.StdAcceptPrefix(text)
	} else {
		std = refjson.StdAccept(text)
	}
	if std != res.Accept {
		return -2
	}
	if !res.Accept {
		return 0
	}
	// what the grammar accepts must also be UTF-8 for RFC 8259; the byte-level statement does
	// not decide texts whose value part is not: no verdict is compared for them.
	end := len(text)
	if trailing && res.ValueEnd >= 0 {
		end = res.ValueEnd
	}
	if !utf8.Valid(text[:end]) {
		return -1
	}
	return 1
}

func c05Verdict(exp int) string {
	switch exp {
	case 1:
		return "accept"
	case 0:
		return "reject"
	case -1:
		return "unspecified"
	}
	return "ORACLES DISAGREE"
}

func c05ObsIdx(o lib.Obs) int {
	switch {
	case o.Panic != "":
		return 2
	case o.OK:
		return 0
	}
	return 1
}

// c05Judge evaluates one (text, config). It returns true when the library's verdict is wrong.
func c05Judge(c *mon.Ctx, a *c05Agg, text []byte, trailing bool, report bool, shrink bool) bool {
	exp := c05Expect(text, trailing)
	t := 0
	if trailing {
		t = 1
	}
	obs := lib.DocCheck(string(text), trailing)
	a.evals++
	switch exp {
	case -2:
		a.disagree++
		c.Sample("ORACLE DISAGREEMENT", c05MkCase(text, trailing))
		return false
	case -1:
		a.unspec[t]++
		if obs.Panic == "" {
			return false
		}
	}
	oi := c05ObsIdx(obs)
	if exp >= 0 {
		a.hist[t][exp][oi]++
	}
	// the verdict of Check does not depend on an earlier Len() on the same Document (all short
	// texts, one in 32 of the others)
	if len(text) <= 4 || (len(text) > 0 && (int(text[0])+int(text[len(text)-1])*7+len(text))%32 == 0) {
		a.afterLen++
		if v := c05CheckAfterLen(text, trailing); v != obs.Verdict() && report {
			c.Violate("after-len", c05MkCase(text, trailing), obs.Verdict(), v, "Document.Check after Len() / after lexemes were read on the same Document differs from Check on a fresh Document")
			return true
		}
	}
	if (exp == 1 && oi == 0) || (exp == 0 && oi == 1) {
		return false
	}
	if !report {
		return true
	}
	if shrink && len(text) > 8 {
		text = c05Shrink(text, trailing, exp, oi)
		obs = lib.DocCheck(string(text), trailing)
	}
	expS := "reject"
	what := "Document.Check accepts a text that is not one JSON value"
	switch {
	case exp == 1:
		expS = "accept"
		what = "Document.Check rejects a well-formed JSON text"
	case exp == -1:
		expS = "accept or reject"
	}
	if trailing {
		what += " (AllowTrailingNonSpaceCharacters: must accept iff the text begins with one complete value)"
	}
	if obs.Panic != "" {
		what = "Document.Check panics instead of returning a verdict"
	}
	c.Violate("verdict", c05MkCase(text, trailing), expS, obs.Verdict(), what+": "+obs.String())
	return true
}

// c05CheckAfterLen: Len() and then Check() on one Document object. For half of the texts another
// Document - a text cut off inside a literal - exists at the same time and is checked first: what
// that scan leaves behind (scanners may be recycled) must not reach this document.
func c05CheckAfterLen(text []byte, trailing bool) string {
	d := lib.Doc(string(text), trailing)
	if len(text)%3 == 2 {
		// lexemes of the Document were read before (a validation took place, or the caller
		// walked it): one to four of them, or all up to the end / the first error
		n := len(text) / 3 % 5
		for i := 0; n == 4 || i <= n; i++ {
			stop := false
			if o := lib.Safe(func() error {
				_, err := d.NextLexeme()
				return err
			}); !o.OK {
				stop = true
			}
			if stop || i > 4*len(text)+8 {
				break
			}
		}
		return lib.Safe(d.Check).Verdict()
	}
	if len(text)%2 == 0 {
		bad := lib.Doc([]string{"tru", "\"abc", "-", "1.", "[nul]", "{\"a\": fals"}[len(text)/2%6], trailing)
		lib.Safe(bad.Check)
		return lib.Safe(d.Check).Verdict()
	}
	lib.SafeVal(d.Len)
	return lib.Safe(d.Check).Verdict()
}

// c05Shrink greedily deletes chunks while the same disagreement persists.
func c05Shrink(text []byte, trailing bool, exp, oi int) []byte {
	same := func(t []byte) bool {
		return c05Expect(t, trailing) == exp && c05ObsIdx(lib.DocCheck(string(t), trailing)) == oi
	}
	cur := append([]byte{}, text...)
	budget := 1500
	for size := len(cur) / 2; size >= 1 && budget > 0; {
		changed := false
		for i := 0; i+size <= len(cur) && budget > 0; {
			cand := append(append([]byte{}, cur[:i]...), cur[i+size:]...)
			budget--
			if same(cand) {
				cur = cand
				changed = true
			} else {
				i++
			}
		}
		if !changed || size > len(cur) {
			size /= 2
		}
	}
	return cur
}

// nonTrivial: the reference consumed at least one significant byte, i.e. the text is not
// blank and is not refused at its very first non-blank byte.
func c05NonTrivial(text []byte) bool {
	i := 0
	for i < len(text) && refjson.IsSpace(text[i]) {
		i++
	}
	if i == len(text) {
		return false
	}
	return refjson.Check(text, refjson.Strict).Viable > i
}

// ---- exhaustive part ----------------------------------------------------------------------

func c05Enumerate(c *mon.Ctx, a *c05Agg, alpha []byte, prefix []byte, maxLen int, class string, dupFilter bool) {
	buf := make([]byte, 0, maxLen)
	buf = append(buf, prefix...)
	fails := 0
	var rec func()
	rec = func() {
		report := fails < 6
		bad := false
		for _, trailing := range []bool{false, true} {
			if c05Judge(c, a, buf, trailing, report, false) {
				bad = true
			}
		}
		if bad {
			fails++
		}
		a.byClass[class]++
		dup := false
		if dupFilter {
			dup = true
			for _, b := range buf {
				if !c05A2inA1[b] {
					dup = false
					break
				}
			}
		}
		if !dup && c05NonTrivial(buf) {
			c.DistinctByConstruction(1)
		}
		if len(buf) == maxLen {
			return
		}
		for _, s := range alpha {
			buf = append(buf, s)
			rec()
			buf = buf[:len(buf)-1]
		}
	}
	rec()
	if fails > 6 {
		c.Count("wrong verdicts not written as replays (same unit, more than 6)", fails-6)
	}
}

func c05RunExhaustive(c *mon.Ctx, alpha []byte, u, maxLen int, class string, dupFilter bool) {
	a := &c05Agg{byClass: map[string]int64{}}
	n := len(alpha)
	if u == 0 {
		// the strings shorter than the shard prefix
		c05Enumerate(c, a, nil, nil, 0, class, dupFilter)
		for _, s := range alpha {
			c05Enumerate(c, a, nil, []byte{s}, 1, class, dupFilter)
		}
	}
	prefix := []byte{alpha[u/n], alpha[u%n]}
	c05Enumerate(c, a, alpha, prefix, maxLen, class, dupFilter)
	if u == 37 || u == 40 {
		var ex []string
		for _, t := range []string{string(prefix), string(prefix) + "1", string(prefix) + "]", string(prefix) + "\"", string(prefix) + "1]", string(prefix) + "e"} {
			if len(t) <= maxLen {
				ex = append(ex, fmt.Sprintf("%s strict:%s trailing:%s", strconv.Quote(t), c05Verdict(c05Expect([]byte(t), false)), c05Verdict(c05Expect([]byte(t), true))))
			}
		}
		c.Sample(class+" (expected verdicts of some members)", ex)
	}
	if u == 37 {
		c.Sample(class, map[string]any{"alphabet": strconv.Quote(string(alpha)), "shard_prefix": strconv.Quote(string(prefix)),
			"max_len": maxLen, "configurations": []string{"strict", "AllowTrailingNonSpaceCharacters"}})
	}
	a.flush(c)
}

// ---- mutational part ----------------------------------------------------------------------

var c05Dict = []string{
	"//", "/*", "*/", "#", "###", "@", "|", "{", "}", "[", "]", "\"", "\\", ":", ",", "-", ".", "e", "E", "+",
	"0", "1", "9", "t", "f", "n", "u", "a", "x", "'", "\n", "\r", "\t", " ", "\x00", "\x1f", "\x7f", "\x80", "\xc3", "\xff",
	"\f", "\v", "\xef\xbb\xbf", "true", "false", "null", "tru", "nul", "\\u", "\\u12", "\\u12aF", "\\x", "\\\"",
	"1.", "1e", "1e+", "-", "01", "\"\"", "[]", "{}", "[", "]]", ",,", "::",
}

const c05Common = "{}[],:\"\\0123456789-+.eEtruefalsn \t\r\n/u"

var c05HandSeeds = []string{
	"1", "0", "-0", "1.5", "1e5", "1E+5", "1.5e-5", "-12.034E5", "true", "false", "null", `""`, `"a"`, "[]", "{}", "[1]", `{"a":1}`,
	" 1 ", "\t\r\n[ ]\r\n", `{"a":{"b":[1,2,{"c":null}]},"d":"e"}`, `[[[[[[[[1.5]]]]]]]]`,
	`"\"\\\/\b\f\n\r\t"`, "\"\\u0041\\u00e9\\ud83d\\ude00\"", "\"\xc3\xa9\xe2\x82\xac\xf0\x9f\x98\x80\x7f\"",
	`{"":""}`, `{"a":1,"a":2}`, `[1,"1",1.0,true,"true",null,"null"]`, "123456789012345678901234567890.123456789012345678901234567890e123",
	`{"k // {min: 1}":"# not a comment","@T":"/* x */"}`,
}

// c05HandTexts are judged as they are (no mutation): blank-only inputs of every kind, byte
// order mark, NUL, very deep nesting, long tokens.
func c05HandTexts() [][]byte {
	rep := func(s string, n int) string { return strings.Repeat(s, n) }
	var out [][]byte
	for _, s := range []string{
		"", " ", "\t", "\r", "\n", "\r\n", " \t\r\n ", rep(" ", 4096), rep("\n", 513), "\x00", "\xef\xbb\xbf", "\xef\xbb\xbf1", "\xef\xbb\xbf{}",
		"\f", "\v", "\u00a0", "\u00a01", "1\u00a0", "\u2028", "1\x00", "\x001", "[\x00]", "{}\x00",
		rep("[", 1000) + rep("]", 1000), rep("[", 1000) + rep("]", 999), rep("[", 999) + rep("]", 1000), rep("[", 4096),
		rep(`{"a":`, 500) + "1" + rep("}", 500), rep(`{"a":`, 500) + "1" + rep("}", 499), rep(`{"a":`, 500) + rep("}", 500),
		"\"" + rep("a", 4000) + "\"", "\"" + rep("a", 4000), rep("1", 4000), rep("1", 4000) + ".", "0." + rep("0", 4000), "1e" + rep("9", 4000), "-" + rep("0", 2),
		"[" + rep("1,", 2000) + "1]", "[" + rep("1,", 2000) + "]", rep(" ", 2000) + "1" + rep(" ", 2000), rep(" ", 2000) + "1." + rep(" ", 2000),
		"1.", "1e", "1E", "1e+", "1e-", "1.5e", "1.5E+", "-", "-0.", "0.", "0e", "-1.", " 1.", "1. ", "1.x", "[1.]", "[1e]", "{\"a\":1.}", "{\"a\":1e+}",
		"1x", "{}x", "\"a\"x", "truex", "nullx", "0123", "1 x", "[] []", "1 2", "[1]]", "{}}", "\"\"\"",
	} {
		out = append(out, []byte(s))
	}
	return out
}

func c05GenSeed(r *mon.Rng, idx int) []byte {
	o := jsonGenOpts{MaxDepth: 8, MaxWidth: 8, MaxNodes: 6, WS: r.Intn(3)}
	switch r.Intn(10) {
	case 0, 1, 2, 3:
		o.MaxNodes = r.Range(1, 8)
		o.MaxBytes = 64
	case 4, 5, 6:
		o.MaxNodes = r.Range(8, 40)
		o.MaxBytes = 400
	case 7, 8:
		o.MaxNodes = r.Range(40, 120)
		o.MaxBytes = 1500
	default:
		o.MaxNodes = r.Range(120, 400)
		o.MaxBytes = 4096
	}
	return genJSON(r, o)
}

func c05Mutate(c *mon.Ctx, a *c05Agg, r *mon.Rng, base []byte, sampled int) {
	n := len(base)
	fails := 0
	judge := func(class string, t []byte) {
		a.byClass[class]++
		bad := false
		for _, trailing := range []bool{false, true} {
			if c05Judge(c, a, t, trailing, fails < 4, true) {
				bad = true
			}
		}
		if bad {
			fails++
		}
		if c05NonTrivial(t) {
			c.DistinctHash(mon.HashString(string(t)))
		}
	}
	// the seed itself must be valid (a generator bug would be a harness bug)
	if !refjson.Accept(base) || !refjson.StdAccept(base) {
		a.disagree++
		c.Sample("ORACLE DISAGREEMENT", map[string]any{"invalid_generated_seed": strconv.Quote(string(base))})
		return
	}
	judge("seed (valid)", base)
	// every truncation
	for i := 0; i < n; i++ {
		judge("truncation", base[:i])
	}
	// offsets
	var offs []int
	if n <= 48 || n+1 <= sampled {
		for i := 0; i <= n; i++ {
			offs = append(offs, i)
		}
	} else {
		seen := map[int]bool{}
		for _, i := range []int{0, 1, n - 2, n - 1, n} {
			if !seen[i] {
				seen[i] = true
				offs = append(offs, i)
			}
		}
		for len(offs) < sampled {
			i := r.Intn(n + 1)
			if !seen[i] {
				seen[i] = true
				offs = append(offs, i)
			}
		}
	}
	buf := make([]byte, 0, n+16)
	for _, i := range offs {
		for _, d := range c05Dict {
			buf = append(append(append(buf[:0], base[:i]...), d...), base[i:]...)
			judge("dictionary insert", buf)
			if i < n {
				buf = append(append(append(buf[:0], base[:i]...), d...), base[i+1:]...)
				judge("dictionary substitute", buf)
			}
		}
		if i < n {
			buf = append(append(buf[:0], base[:i]...), base[i+1:]...)
			judge("delete", buf)
			k := r.Range(2, 6)
			if i+k <= n {
				buf = append(append(buf[:0], base[:i]...), base[i+k:]...)
				judge("delete", buf)
			}
		}
	}
	// raw byte noise
	if n > 0 {
		for k := 0; k < 40; k++ {
			buf = append(buf[:0], base...)
			for j := r.Range(1, 3); j > 0; j-- {
				buf[r.Intn(n)] = byte(r.Intn(256))
			}
			judge("byte noise (overwrite)", buf)
			i := r.Intn(n + 1)
			buf = append(append(append(buf[:0], base[:i]...), byte(r.Intn(256))), base[i:]...)
			judge("byte noise (insert)", buf)
		}
	}
	if fails > 4 {
		c.Count("wrong verdicts not written as replays (same seed text, more than 4)", fails-4)
	}
}

func c05RunMutational(c *mon.Ctx, u int) {
	_, per, sampled := c05MutUnits(c.Tier)
	a := &c05Agg{byClass: map[string]int64{}}
	r := c.Rng(505)
	if u == 0 {
		for _, s := range c05HandSeeds {
			c05Mutate(c, a, r, []byte(s), sampled)
		}
		for _, t := range c05HandTexts() {
			a.byClass["hand-written texts"]++
			for _, trailing := range []bool{false, true} {
				c05Judge(c, a, t, trailing, true, false)
			}
			if c05NonTrivial(t) {
				c.DistinctHash(mon.HashString(string(t)))
			}
		}
		// random short byte strings over the full byte range
		for k := 0; k < 20000; k++ {
			t := make([]byte, r.Intn(10))
			for i := range t {
				if r.Chance(1, 4) {
					t[i] = byte(r.Intn(256))
				} else {
					t[i] = c05Common[r.Intn(len(c05Common))]
				}
			}
			a.byClass["random short bytes"]++
			for _, trailing := range []bool{false, true} {
				c05Judge(c, a, t, trailing, true, false)
			}
			if c05NonTrivial(t) {
				c.DistinctHash(mon.HashString(string(t)))
			}
		}
	}
	for k := 0; k < per; k++ {
		base := c05GenSeed(r, k)
		if u == 1 && k == 0 {
			c.Sample("mutational seed", map[string]any{"valid_text": strconv.Quote(string(base[:min(len(base), 300)])), "bytes": len(base),
				"derived": "every truncation; dictionary insert/substitute and delete at sampled offsets; byte noise; both configurations"})
		}
		c.Count("seed texts", 1)
		c.Count("seed bytes", len(base))
		c05Mutate(c, a, r, base, sampled)
	}
	a.flush(c)
}

// ---- state-merged exploration (hook vh_jsonstate) --------------------------------------------

// c05LibState mirrors the hook's report.
type c05LibState struct {
	Key           string
	Alive         bool
	Ended         bool
	StackDepth    int
	AcceptIfEnded bool
	Panic         string
}

// c05StateAfter is installed by c05_state.go when hook vh_jsonstate compiles.
var c05StateAfter func(prefix []byte, trailing bool) c05LibState

const c05NoHook = "hook vh_jsonstate unavailable: state-merged exploration not run (exhaustive and mutational parts still decide)"

type c05Node struct {
	prefix []byte
	m      *refjson.Machine
}

func c05RunBFS(c *mon.Ctx, trailing bool) {
	if c05StateAfter == nil {
		c.Inconclusive(c05NoHook)
		return
	}
	cfg := "strict"
	mode := refjson.Strict
	if trailing {
		cfg, mode = "trailing", refjson.Prefix
	}
	maxDepth := c05BFSDepth(c.Tier)
	libDepthBound := 3*maxDepth + 4
	a := &c05Agg{byClass: map[string]int64{}}
	seen := map[string]bool{}
	libKeys := map[string]map[string]bool{}
	var queue []c05Node
	push := func(prefix []byte, ls c05LibState, m *refjson.Machine) {
		k := ls.Key + "\x00" + m.Key()
		if seen[k] {
			return
		}
		seen[k] = true
		if libKeys[ls.Key] == nil {
			libKeys[ls.Key] = map[string]bool{}
		}
		libKeys[ls.Key][m.Key()] = true
		queue = append(queue, c05Node{append([]byte{}, prefix...), m})
	}
	start := c05StateAfter(nil, trailing)
	push(nil, start, refjson.NewMachine(mode))
	var edges, beyond, late, maxPrefix, hookVsCheck, fails, deadSide, deadSkipped, deadFails int
	curDead := false
	judge := func(t []byte) {
		if c05Judge(c, a, t, trailing, fails < 12, false) {
			fails++
			if curDead {
				deadFails++
			}
		}
	}
	for len(queue) > 0 {
		nd := queue[0]
		queue = queue[1:]
		if len(nd.prefix) > maxPrefix {
			maxPrefix = len(nd.prefix)
		}
		curDead = !nd.m.Alive()
		if n := len(seen) - len(queue); n == 40 || n == 400 {
			c.Sample("bfs "+cfg+" pair", map[string]any{"witness_prefix": strconv.Quote(string(nd.prefix)), "reference_state": nd.m.Key(),
				"library_state": c05StateAfter(nd.prefix, trailing).Key, "accept_if_input_ends_here": nd.m.AcceptsAtEOF()})
		}
		// verdict "if the input ended here"
		judge(nd.prefix)
		c.DistinctByConstruction(1)
		p2 := make([]byte, len(nd.prefix)+1, len(nd.prefix)+64)
		copy(p2, nd.prefix)
		for b := 0; b < 256; b++ {
			p2 = p2[:len(nd.prefix)+1]
			p2[len(nd.prefix)] = byte(b)
			m2 := nd.m.Clone()
			refAlive := m2.Feed(byte(b))
			if refAlive && m2.Depth() > maxDepth {
				beyond++
				continue
			}
			ls := c05StateAfter(p2, trailing)
			edges++
			if ls.Panic != "" {
				// a non-error panic inside a step function: Check re-panics it
				judge(p2)
				continue
			}
			switch {
			case !refAlive && !ls.Alive:
				// both refuse this byte; confirmed by the real verdict on the text ending here
				judge(p2)
			case refAlive && !ls.Alive:
				// the library refuses a byte that can continue a JSON text: the completed text
				// must be rejected by the real Check, which is then a violation of the verdict
				w, _ := m2.Completion()
				full := append(append([]byte{}, p2...), w...)
				before := fails
				judge(full)
				if fails == before && c05Expect(full, trailing) == 1 {
					hookVsCheck++
				}
			case !refAlive && ls.Alive:
				// late rejection is legal as long as nothing is ever accepted from here on
				// (explored within a budget: this region exists only when the library and the
				// reference already differ, and the first accepted text found in it is the verdict)
				late++
				switch {
				case ls.StackDepth > libDepthBound:
				case deadSide >= 400 || deadFails > 0:
					deadSkipped++
				default:
					before := len(seen)
					push(p2, ls, m2)
					deadSide += len(seen) - before
				}
			default:
				// both alive: confirm with a real verdict on a completion, then explore
				if w, ok := m2.Completion(); ok && len(w) > 0 {
					judge(append(append([]byte{}, p2...), w...))
				}
				push(p2, ls, m2)
			}
		}
	}
	multi := 0
	for _, refs := range libKeys {
		if len(refs) > 1 {
			multi++
		}
	}
	c.Count("bfs "+cfg+": pairs (library state, reference state) explored", len(seen))
	c.Count("bfs "+cfg+": edges (pair x byte value) compared", edges)
	c.Count("bfs "+cfg+": distinct library control states reached", len(libKeys))
	c.Count("bfs "+cfg+": library states paired with more than one reference state (never merged)", multi)
	c.Count("bfs "+cfg+": edges not followed (nesting depth bound)", beyond)
	c.Count("bfs "+cfg+": edges where the library is still alive after a byte the reference refuses", late)
	c.Count("bfs "+cfg+": longest witness prefix (bytes)", maxPrefix)
	c.Count("bfs "+cfg+": nesting depth bound", maxDepth)
	if deadSkipped > 0 && deadFails == 0 {
		c.Inconclusive(fmt.Sprintf("bfs %s: the region where the library is alive after a refused byte was explored only up to 400 pairs without finding an accepted text", cfg))
	}
	if hookVsCheck > 0 {
		c.Inconclusive(fmt.Sprintf("bfs %s: hook reports a refused byte but the real Check accepts the completed text (hook unfaithful to scanner.Next?)", cfg))
	}
	c.Sample("bfs "+cfg, map[string]any{"start_state": start.Key, "pairs": len(seen), "edges": edges,
		"byte_values_per_pair": 256, "nesting_depth_bound": maxDepth})
	a.flush(c)
}

// ---- registration -------------------------------------------------------------------------

// Unit layout: the two serial BFS units sit at index 0 and in the middle of the queue (so that
// they overlap with the rest instead of forming a tail); the other indexes map, in order, to
// the A1 shards, the A2 shards and the mutational units.
func c05Total(tier string) int {
	mu, _, _ := c05MutUnits(tier)
	return c05NA1 + c05NA2 + mu + c05BFSUnit
}

// The workload is allocation-heavy in the library (a Document, a scanner and an error value per
// call) and tiny in live heap: a lazier collector saves a third of the CPU time and changes
// nothing that is observed.
var c05GCOnce sync.Once

func c05Run(c *mon.Ctx, unit int) {
	c05GCOnce.Do(func() { debug.SetGCPercent(800) })
	l1, l2 := c05MaxLen(c.Tier)
	total := c05Total(c.Tier)
	switch unit {
	case 0:
		c05RunBFS(c, false)
		return
	case total / 2:
		c05RunBFS(c, true)
		return
	}
	idx := unit - 1
	if unit > total/2 {
		idx--
	}
	switch {
	case idx < c05NA1:
		c05RunExhaustive(c, c05A1, idx, l1, "exhaustive A1", false)
	case idx < c05NA1+c05NA2:
		c05RunExhaustive(c, c05A2, idx-c05NA1, l2, "exhaustive A2", true)
	default:
		c05RunMutational(c, idx-c05NA1-c05NA2)
	}
}

func c05Replay(raw json.RawMessage) string {
	var cs c05Case
	if err := json.Unmarshal(raw, &cs); err != nil {
		return "bad replay: " + err.Error()
	}
	text, err := hex.DecodeString(cs.Hex)
	if err != nil {
		return "bad replay: " + err.Error()
	}
	exp := c05Expect(text, cs.Trailing)
	obs := lib.DocCheck(string(text), cs.Trailing)
	switch exp {
	case -2:
		return "harness bug: refjson and encoding/json disagree on this text"
	case -1:
		if obs.Panic == "" {
			return "accept or reject"
		}
	}
	return obs.Verdict()
}

func init() {
	mon.Register(&mon.Prop{
		ID:    "C05",
		Level: "exploration",
		Rule: "every text is checked by the real json.New(text[, AllowTrailingNonSpaceCharacters]).Check() in both configurations and compared with refjson " +
			"(RFC 8259 DFA+stack; prefix mode with maximal-munch tokens), after refjson and encoding/json (Valid / Decoder) agreed on it. " +
			"Exhaustive: all strings over A1={ } [ ] , : \" \\ 0 1 - + . e SP LF up to length 5 (quick) / 7 (thorough) and over A2={t r u e f a l s n [ ] , SP \"} up to 5 / 6, sharded by 2-symbol prefix. " +
			"Mutational: generated valid texts (depth<=8, width<=8, up to 4 KiB) and hand seeds: every truncation, 65-token dictionary insert/substitute and byte/range delete at every offset (sampled beyond 48 bytes), raw byte noise. " +
			"State-merged BFS (hook): pairs (library scanner control state, reference state), nesting depth<=4 (quick) / 5 (thorough), all 256 byte values per pair, every edge confirmed by a real Check verdict on a witness text. " +
			"Non-trivial = the reference consumes at least one significant byte (text not blank and not refused at its first non-blank byte); exhaustive strings and BFS pairs are distinct by construction " +
			"(A2 strings made only of symbols shared with A1 are not counted again), mutants are hashed. Accepted texts whose value is not valid UTF-8 are Unspecified (executed, not compared). The verdict is also compared with Check() after Len(), after a broken Document was checked, and after 1..4 or all lexemes were read from the same Document (kind after-len).",
		Assumptions: []string{
			"AllowTrailingNonSpaceCharacters takes tokens maximally without backtracking: `1x`, `0123`, `truex` are accepted (values 1, 0, true), `1.x`, `-x`, `1e+`, `trux` are rejected",
			"well-formedness of UTF-8 inside strings is not part of the statement (texts the byte grammar accepts but that are not UTF-8 are not judged)",
			"the hook's state key (step function, lexeme-type stack, returnToStep stack, unfinishedLiteral, pending finds, option) is a faithful abstraction of the scanner's control state; every BFS verdict is nevertheless taken from the real Check on a concrete text",
		},
		Exhaustive: func(string) bool { return true },
		Units:      func(tier string, seed uint64) int { return c05Total(tier) },
		Run:        c05Run,
		// thorough shards hold up to 16^5 strings x 2 configurations each; on a busy machine with few
		// worker processes one chunk of them can legitimately take more than the default hour
		ChunkTimeoutS: func(tier string) int {
			if tier == "thorough" {
				return 4 * 3600
			}
			return 900
		},
		Replay: map[string]func(json.RawMessage) string{"verdict": c05Replay, "after-len": func(raw json.RawMessage) string {
			var cs c05Case
			if err := json.Unmarshal(raw, &cs); err != nil {
				return "bad replay: " + err.Error()
			}
			text, err := hex.DecodeString(cs.Hex)
			if err != nil {
				return "bad replay: " + err.Error()
			}
			return c05CheckAfterLen(text, cs.Trailing)
		}},
		Final: func(ev *mon.Evidence) error {
			if n := ev.Counters[c05DisagreeCounter]; n > 0 {
				return fmt.Errorf("refjson and encoding/json disagree on %d texts (harness bug; see samples of class ORACLE DISAGREEMENT)", n)
			}
			if ev.Counters["bfs strict: pairs (library state, reference state) explored"] == 0 && ev.Inconcl[c05NoHook] == 0 {
				ev.Inconcl[c05NoHook]++
			}
			if ev.Counters["texts: exhaustive A1"] == 0 || ev.Counters["texts: truncation"] == 0 {
				return fmt.Errorf("exhaustive or mutational part observed nothing")
			}
			return nil
		},
	})
}
