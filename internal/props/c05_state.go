//go:build vh_jsonstate

package props

import (
	libjson "github.com/jsightapi/jsight-schema-go-library/formats/json"
)

// Hook H1 (vh_jsonstate): control state of the library's JSON scanner after a prefix.
func init() {
	c05StateAfter = func(prefix []byte, trailing bool) c05LibState {
		st := libjson.VerifStateAfter(prefix, trailing)
		return c05LibState{Key: st.Key, Alive: st.Alive, Ended: st.Ended, StackDepth: st.StackDepth,
			AcceptIfEnded: st.AcceptIfEnded, Panic: st.Panic}
	}
}
