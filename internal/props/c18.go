package props

// C18 — named enum rules and regex types behave like their inline forms.
//
// Differential monitor (real vs real) with a reference on top:
//   * an enum value list is written as a named rule text (compact / one per line / commented /
//     packed layouts) and inline as {enum: [...]}; every probe must get the same verdict from
//     both spellings and from the model oracle; enum.Values()/GetAST() must list the literals in
//     source order (comments compared only where the layout leaves no doubt about attachment);
//     a duplicate (same kind and decoded text, any spelling) makes Check/AddRule fail,
//     near-duplicates do not;
//   * a pattern P from a printable-ASCII RE2 grammar is added as the type @T = /P/ and used as @T,
//     and written inline as "example" // {regex: "P"}; every probe string must get the same
//     verdict from both and from Go's regexp.MatchString; Pattern()==P, Example() matches P,
//     Len()==len("/P/").

import (
	"encoding/json"
	"fmt"
	"regexp"
	"strings"

	jschema "github.com/jsightapi/jsight-schema-go-library"
	njs "github.com/jsightapi/jsight-schema-go-library/notations/jschema"
	"github.com/jsightapi/jsight-schema-go-library/notations/regex"
	"github.com/jsightapi/jsight-schema-go-library/rules/enum"

	"verif/internal/gen"
	"verif/internal/lib"
	"verif/internal/model"
	"verif/internal/mon"
)

func c18Sizes(tier string) (enumUnits, regexUnits, per int) {
	if tier == "thorough" {
		return 1600, 1600, 150
	}
	return 320, 320, 40
}

// ---- enum -------------------------------------------------------------------------

type c18EnumCase struct {
	Named  lib.Spec `json:"named"`
	Inline lib.Spec `json:"inline"`
	Doc    string   `json:"doc"`
}

type c18RuleCase struct {
	Text string `json:"rule_text"`
}

func c18KindOf(lit string) string {
	switch k := gen.EnumKey(lit)[0]; k {
	case 's':
		return "string"
	case 'b':
		return "boolean"
	case 'n':
		return "null"
	case 'f':
		return "float"
	}
	return "integer"
}

// c18Values renders what Values() returned, or the failure.
func c18Values(text string, withComments bool) string {
	e := enum.New("@E", text)
	vv, o := lib.SafeVal(e.Values)
	if !o.OK {
		return "values: " + o.Verdict()
	}
	var sb strings.Builder
	for _, v := range vv {
		if v.Type == jschema.SchemaTypeComment {
			if withComments {
				fmt.Fprintf(&sb, "[comment %q]", v.Comment)
			}
			continue
		}
		if withComments {
			fmt.Fprintf(&sb, "[%s %s %q]", v.Type, string(v.Value), v.Comment)
		} else {
			fmt.Fprintf(&sb, "[%s %s]", v.Type, string(v.Value))
		}
	}
	return sb.String()
}

// c18AST renders the children of GetAST() the same way.
func c18AST(text string, withComments bool) string {
	e := enum.New("@E", text)
	an, o := lib.SafeVal(e.GetAST)
	if !o.OK {
		return "ast: " + o.Verdict()
	}
	if an.TokenType != jschema.TokenTypeArray || an.SchemaType != string(jschema.SchemaTypeEnum) {
		return fmt.Sprintf("ast root: %s/%s", an.TokenType, an.SchemaType)
	}
	var sb strings.Builder
	for _, ch := range an.Children {
		if ch.SchemaType == string(jschema.SchemaTypeComment) {
			if withComments {
				fmt.Fprintf(&sb, "[comment %q]", ch.Comment)
			}
			continue
		}
		tt := map[string]string{"string": "string", "integer": "number", "float": "number", "boolean": "boolean", "null": "null"}[ch.SchemaType]
		if tt != ch.TokenType {
			fmt.Fprintf(&sb, "[token type %s for schema type %s]", ch.TokenType, ch.SchemaType)
		}
		if withComments {
			fmt.Fprintf(&sb, "[%s %s %q]", ch.SchemaType, ch.Value, ch.Comment)
		} else {
			fmt.Fprintf(&sb, "[%s %s]", ch.SchemaType, ch.Value)
		}
	}
	return sb.String()
}

func c18Expected(et gen.EnumText, withComments bool) string {
	var sb strings.Builder
	for _, en := range et.Entries {
		if en.IsComment {
			if withComments {
				fmt.Fprintf(&sb, "[comment %q]", en.Comment)
			}
			continue
		}
		if withComments {
			fmt.Fprintf(&sb, "[%s %s %q]", c18KindOf(en.Value), en.Value, en.Comment)
		} else {
			fmt.Fprintf(&sb, "[%s %s]", c18KindOf(en.Value), en.Value)
		}
	}
	return sb.String()
}

func c18LitVal(lit string) *model.Val {
	switch {
	case strings.HasPrefix(lit, `"`):
		d, _ := model.Unquote(lit)
		return model.VString(d)
	case lit == "true" || lit == "false":
		return model.VBoolean(lit == "true")
	case lit == "null":
		return model.VNullV()
	}
	return model.VNumber(lit)
}

func c18LitNode(lit string) *model.Node {
	switch c18KindOf(lit) {
	case "string":
		d, _ := model.Unquote(lit)
		n := model.Str(d)
		n.Lit = lit // keep the spelling
		return n
	case "boolean":
		return model.Bool(lit == "true")
	case "null":
		return model.Null()
	case "float":
		return model.Flt(lit)
	}
	return model.Int(lit)
}

// c18Probes: every member, near misses differing in kind or spelling only, and strangers.
func c18Probes(r *mon.Rng, lits []string) []*model.Val {
	var out []*model.Val
	for _, l := range lits {
		v := c18LitVal(l)
		out = append(out, v)
		switch v.K {
		case model.VStr:
			out = append(out, model.VString(strings.ToUpper(v.S)), model.VString(v.S+" "), model.VString(strings.ToLower(v.S)))
			switch v.S {
			case "true", "false":
				out = append(out, model.VBoolean(v.S == "true"))
			case "null":
				out = append(out, model.VNullV())
			default:
				if _, ok := model.Rat(v.S); ok && !strings.ContainsAny(v.S, "eE ") && v.S != "" {
					out = append(out, model.VNumber(v.S))
				}
			}
		case model.VNum:
			out = append(out, model.VString(v.Num))
			if strings.Contains(v.Num, ".") {
				out = append(out, model.VNumber(v.Num+"0"), model.VNumber(strings.SplitN(v.Num, ".", 2)[0]))
			} else {
				out = append(out, model.VNumber(v.Num+".0"), model.VNumber(v.Num+"0"))
			}
		case model.VBool:
			out = append(out, model.VString(l), model.VBoolean(!v.B))
		case model.VNull:
			out = append(out, model.VString("null"), model.VBoolean(false), model.VNumber("0"))
		}
	}
	out = append(out, model.VNullV(), model.VString(""), model.VNumber("0"), model.VBoolean(true), model.VObject(), model.VArray(), model.VArray(c18LitVal(lits[0])),
		model.VString(gen.RandomString(r)), gen.RandomScalar(r))
	return out
}

// c18BadNumerals: lists holding a numeral JSON does not have (leading zeros, bare sign, missing
// digits). The inline form refuses them; the rule must refuse them too (with an error, not a
// panic), and AddRule must not take such a rule.
func c18BadNumerals(c *mon.Ctx, r *mon.Rng) {
	first := mon.Pick(r, []string{"2", "\"a\"", "true"})
	bad := mon.Pick(r, []string{"-01.5", "-00.5", "-007", "01", "00", "-00", "1.", "-", "+1", ".5", "-01", "1e", "0x10"})
	text := "[" + first + ", " + bad + "]"
	if r.Bool() {
		text = "[\n  " + bad + ",\n  " + first + "\n]"
	}
	inline := lib.Check(lib.Spec{Text: first + " // {enum: " + strings.ReplaceAll(text, "\n", " ") + "}"})
	c.Eval(1)
	c.Count("enum lists with a numeral JSON does not have", 1)
	if inline.OK {
		return // the inline form takes it: nothing to compare with
	}
	e := enum.New("@E", text)
	o := lib.Safe(e.Check)
	if o.Panic != "" || o.OK {
		c.Violate("rule-check", c18RuleCase{text}, "reject (as the inline list)", o.String(), "enum.Check() accepts (or panics on) a list the inline form refuses")
		return
	}
	if o4 := lib.Safe(func() error { return newSchemaForRule().AddRule("@E", enum.New("@E", text)) }); o4.OK || o4.Panic != "" {
		c.Violate("add-rule", c18RuleCase{text}, "reject", o4.String(), "AddRule accepts an enum rule the inline form refuses")
	}
}

func c18EnumUnit(c *mon.Ctx, r *mon.Rng, per int) {
	for k := 0; k < per; k++ {
		if k%4 == 0 {
			c18BadNumerals(c, r)
		}
		lits := gen.EnumList(r, 7)
		layout := mon.Pick(r, gen.EnumLayouts)
		et := gen.EnumLayout(r, lits, layout)
		if r.Chance(1, 5) {
			// a comment (or blanks) after the closing bracket belongs to the rule text as well;
			// whether it becomes an entry of its own is not decided by the statement
			et.Text += mon.Pick(r, []string{" // values", "// glued", "\n/* the\n   end */", " /* c */", "\n// last line", "  \n", "\t// x\n"})
			et.HasComments = true
			et.CommentsDecided = false
			c.Count("enum rules with a comment after the closing bracket", 1)
		}
		c.Count("enum rule layout: "+layout, 1)
		for _, l := range lits {
			c.Count("enum member kind: "+c18KindOf(l), 1)
		}

		// (1) the rule lists its literals in source order
		c.Eval(2)
		if got, want := c18Values(et.Text, false), c18Expected(et, false); got != want {
			c.Violate("values", c18RuleCase{et.Text}, want, got, "enum.Values() does not list the literals of the rule in source order (comments left out)")
		}
		if got, want := c18AST(et.Text, false), c18Expected(et, false); got != want {
			c.Violate("ast", c18RuleCase{et.Text}, want, got, "enum.GetAST() does not list the literals of the rule in source order (comments left out)")
		}
		if et.HasComments && et.CommentsDecided {
			c.Eval(2)
			c.Count("enum rules whose comment attachment is unambiguous (compared with comments)", 1)
			if got, want := c18Values(et.Text, true), c18Expected(et, true); got != want {
				c.Violate("values-comments", c18RuleCase{et.Text}, want, got, "enum.Values(): a comment is not attached to the literal it follows on its line / not kept as a stand-alone entry")
			}
			if got, want := c18AST(et.Text, true), c18Expected(et, true); got != want {
				c.Violate("ast-comments", c18RuleCase{et.Text}, want, got, "enum.GetAST(): a comment is not attached to the literal it follows on its line / not kept as a stand-alone entry")
			}
		} else if et.HasComments {
			c.Count("enum rules with comments whose attachment the statement does not decide (literals only)", 1)
		}

		// (2) duplicates are rejected when the rule is checked, near-duplicates are not
		c.Eval(1)
		if o := lib.Safe(enum.New("@E", et.Text).Check); !o.OK {
			c.Violate("rule-check", c18RuleCase{et.Text}, "accept", o.String(), "enum.Check() rejects a rule without duplicates")
			continue
		}
		{
			i := r.Intn(len(lits))
			dup := gen.EnumDuplicateOf(r, lits[i])
			withDup := append(append([]string{}, lits...), dup)
			if r.Bool() {
				j := r.Intn(len(withDup))
				withDup[len(withDup)-1], withDup[j] = withDup[j], withDup[len(withDup)-1]
			}
			dt := gen.EnumLayout(r, withDup, mon.Pick(r, gen.EnumLayouts))
			c.Eval(2)
			c.Count("enum rules with a planted duplicate", 1)
			if dup != lits[i] {
				c.Count("planted duplicate in another spelling", 1)
			}
			dupRule := enum.New("@E", dt.Text)
			if o := lib.Safe(dupRule.Check); o.OK || o.Panic != "" {
				c.Violate("rule-check", c18RuleCase{dt.Text}, "reject", o.String(), fmt.Sprintf("enum.Check() accepts a rule in which %s and %s are the same member", lits[i], dup))
			} else {
				// the same rule object asked again: the answer stays
				if o2 := lib.Safe(dupRule.Check); o2.OK || o2.Panic != "" {
					c.Violate("rule-check-twice", c18RuleCase{dt.Text}, "reject", o2.String(), "the second enum.Check() on the same rule object accepts a rule with a duplicate")
				}
				if _, o3 := lib.SafeVal(dupRule.Values); o3.OK || o3.Panic != "" {
					c.Violate("rule-check-twice", c18RuleCase{dt.Text}, "reject", o3.String(), "Values() after a failed Check() on the same rule object succeeds")
				}
				if o4 := lib.Safe(func() error { return newSchemaForRule().AddRule("@E", dupRule) }); o4.OK || o4.Panic != "" {
					c.Violate("rule-check-twice", c18RuleCase{dt.Text}, "reject", o4.String(), "AddRule accepts a rule object whose Check() failed before")
				}
			}
			if o := lib.Safe(func() error { return newSchemaForRule().AddRule("@E", enum.New("@E", dt.Text)) }); o.OK || o.Panic != "" {
				c.Violate("add-rule", c18RuleCase{dt.Text}, "reject", o.String(), "AddRule accepts an enum rule with a duplicate")
			}
		}

		// (3) {enum: @E} + rule == {enum: [...]} == oracle
		ex := mon.Pick(r, lits)
		wrap := r.Intn(3)
		mk := func(rule *model.Rule) *model.Node {
			n := c18LitNode(ex).With(rule)
			switch wrap {
			case 1:
				return model.Obj(model.P("k", n), model.P("other", model.Int("1").With(model.RBool("optional", true))))
			case 2:
				return model.Arr(n)
			}
			return n
		}
		inlineRoot := mk(model.REnum(lits...))
		namedRoot := mk(model.REnumRef("@E"))
		ms := &model.Schema{Root: inlineRoot}
		st := model.Style{}
		if r.Chance(1, 3) {
			st = model.Style{MultiLine: r.Intn(4), QuoteNames: r.Bool(), NL: mon.Pick(r, []string{"\n", "\r\n"})}
		}
		inlineSp := lib.Spec{Text: st.Render(inlineRoot)}
		namedSp := lib.Spec{Text: st.Render(namedRoot), Rules: []lib.RuleDef{{Name: "@E", Text: et.Text}}}
		bi, bn := buildSchema(inlineSp), buildSchema(namedSp)
		c.Eval(1)
		if bi.ok != bn.ok {
			c.Violate("enum-check", c18EnumCase{namedSp, inlineSp, ""}, "same Check verdict",
				fmt.Sprintf("named: %s; inline: %s", bn.check, bi.check), "Check differs between {enum: @E} and the same list written inline")
			continue
		}
		if !bi.ok {
			c.Count("enum schema rejected by Check in both spellings (skipped)", 1)
			c.Sample("enum schema rejected by Check", map[string]any{"inline": inlineSp, "error": bi.check.String()})
			continue
		}
		key, _ := json.Marshal(namedSp)
		c.Distinct("enum\x00" + string(key))
		for _, pv := range c18Probes(r, lits) {
			v := pv
			switch wrap {
			case 1:
				v = model.VObject(model.M("k", pv))
			case 2:
				v = model.VArray(pv)
			}
			doc := v.Text()
			if r.Chance(1, 5) {
				doc = model.DocStyle{Escapes: r, WS: r}.Render(v)
			}
			oi, on := bi.validate(doc), bn.validate(doc)
			c.Eval(1)
			c.Count("enum probes compared named vs inline", 1)
			if oi.Verdict() != on.Verdict() {
				fi, fn := lib.Validate(inlineSp, doc), lib.Validate(namedSp, doc)
				if fi.Verdict() == fn.Verdict() {
					c.Violate("enum-reused", c18EnumCase{namedSp, inlineSp, doc}, "same verdict", fmt.Sprintf("named: %s; inline: %s", on, oi),
						"{enum: @E} and the inline list disagree on schema objects used before, fresh objects agree")
				} else {
					c.Violate("enum-differential", c18EnumCase{namedSp, inlineSp, doc}, "same verdict",
						fmt.Sprintf("named: %s; inline: %s", fn, fi), "{enum: @E} with the added rule does not validate like the same list written inline")
				}
				continue
			}
			o := model.NewOracle(ms)
			want := o.Accepts(v)
			if want == model.Unspec {
				c.Count("enum probes the oracle leaves undecided (differential only)", 1)
				continue
			}
			c.Eval(1)
			c.Count(fmt.Sprintf("enum verdict expected=%s observed=%s", want, on.Verdict()), 1)
			if on.Verdict() != want.String() {
				fn := lib.Validate(namedSp, doc)
				if fn.Verdict() == want.String() {
					c.Violate("enum-reused", c18EnumCase{namedSp, inlineSp, doc}, want.String(), on.String(),
						"the enum verdict on a schema object used before differs from the membership oracle, a fresh object agrees ("+o.Why+")")
					continue
				}
				c.Violate("enum-oracle", c18EnumCase{namedSp, inlineSp, doc}, want.String(), fn.String(),
					"both spellings of the enum agree with each other but not with the membership oracle ("+o.Why+")")
			}
		}
		// (4) one rule OBJECT consumed several times: two {enum: @E} references in one schema and a
		// second schema receiving the same object; the rule must stay what it was and both schemas
		// must validate like the inline spelling
		{
			two := func(rule func() *model.Rule) string {
				return model.Canonical(model.Obj(model.P("a", c18LitNode(ex).With(rule())), model.P("b", c18LitNode(ex).With(rule()))))
			}
			namedText := two(func() *model.Rule { return model.REnumRef("@E") })
			inlineText := two(func() *model.Rule { return model.REnum(lits...) })
			rule := enum.New("@E", et.Text)
			before := c18ValuesOf(rule)
			mkSchema := func() (*njs.Schema, lib.Obs) {
				sc := njs.New("root", namedText)
				if o := lib.Safe(func() error { return sc.AddRule("@E", rule) }); !o.OK {
					return sc, o
				}
				return sc, lib.Safe(sc.Check)
			}
			s1, o1 := mkSchema()
			s2, o2 := mkSchema()
			inl := buildSchema(lib.Spec{Text: inlineText})
			c.Eval(3)
			c.Count("enum rule objects consumed by two references and two schemas", 1)
			after := c18ValuesOf(rule)
			shared := map[string]any{"rule": et.Text, "schema": namedText, "inline": inlineText}
			switch {
			case o1.Panic != "" || o2.Panic != "":
				c.Violate("enum-shared", shared, "rule object unchanged, same verdicts as inline", "panic: "+o1.String()+" / "+o2.String(), "using one enum rule object twice panicked")
			case o1.OK != inl.ok || o2.OK != inl.ok:
				c.Violate("enum-shared", shared, "rule object unchanged, same verdicts as inline",
					fmt.Sprintf("first schema: %s; second schema: %s; inline: %s", o1, o2, inl.check), "a schema referencing one named enum rule twice (or a second schema sharing the rule object) does not check like the inline spelling")
			case before != after:
				c.Violate("enum-shared", shared, "rule object unchanged, same verdicts as inline", "Values() before: "+before+" after: "+after, "an enum rule object changed after schemas used it")
			case inl.ok:
				for _, pv := range c18Probes(r, lits)[:4] {
					doc := model.VObject(model.M("a", pv), model.M("b", pv)).Text()
					want := inl.validate(doc).Verdict()
					g1, g2 := lib.ValidateOn(s1, doc).Verdict(), lib.ValidateOn(s2, doc).Verdict()
					c.Eval(2)
					if g1 != want || g2 != want {
						shared["doc"] = doc
						c.Violate("enum-shared", shared, "rule object unchanged, same verdicts as inline", fmt.Sprintf("first: %s second: %s inline: %s", g1, g2, want), "schemas sharing one enum rule object do not validate like the inline spelling")
						break
					}
				}
			}
		}
		if k == 0 && c.Unit < 6 {
			c.Sample("enum rule ("+layout+")", map[string]any{"rule": et.Text, "named": namedSp.Text, "inline": inlineSp.Text})
		}
	}
}

// c18ValuesOf renders Values() of a rule object (literals and comments).
func c18ValuesOf(e *enum.Enum) string {
	vv, o := lib.SafeVal(e.Values)
	if !o.OK {
		return o.String()
	}
	var sb strings.Builder
	for _, v := range vv {
		fmt.Fprintf(&sb, "%s:%s:%q;", v.Type, v.Value.String(), v.Comment)
	}
	return sb.String()
}

func newSchemaForRule() interface {
	AddRule(string, jschema.Rule) error
} {
	s, _ := lib.Build(lib.Spec{Text: `1 // {enum: @E}`})
	return s
}

// ---- regex ------------------------------------------------------------------------

type c18RegexCase struct {
	Pattern string `json:"pattern"` // as written between the slashes
	Doc     string `json:"doc,omitempty"`
	Wrap    int    `json:"wrap,omitempty"`
	Example string `json:"inline_example,omitempty"`
}

func c18RegexSpecs(rc c18RegexCase) (named, inline lib.Spec) {
	ref := model.Ref("@T")
	inl := model.Str(rc.Example).With(model.RStr("regex", rc.Pattern))
	var nr, ir *model.Node
	switch rc.Wrap {
	case 1:
		nr, ir = model.Obj(model.P("k", ref)), model.Obj(model.P("k", inl))
	case 2:
		nr, ir = model.Arr(ref), model.Arr(inl)
	default:
		nr, ir = ref, inl
	}
	named = lib.Spec{Text: model.Canonical(nr), Types: []lib.TypeDef{{Name: "@T", Text: "/" + rc.Pattern + "/", Regex: true}}}
	inline = lib.Spec{Text: model.Canonical(ir)}
	return
}

func c18WrapDoc(wrap int, v *model.Val) *model.Val {
	switch wrap {
	case 1:
		return model.VObject(model.M("k", v))
	case 2:
		return model.VArray(v)
	}
	return v
}

// c18RegexFacts renders Pattern / Len / Example-matches of the /P/ token.
func c18RegexFacts(p string) string {
	tok := "/" + p + "/"
	rx := regex.New("@T", tok)
	got, o := lib.SafeVal(rx.Pattern)
	if !o.OK {
		return "Pattern(): " + o.Verdict()
	}
	if got != p {
		return fmt.Sprintf("Pattern()=%q", got)
	}
	n, o := lib.SafeVal(rx.Len)
	if !o.OK {
		return "Len(): " + o.Verdict()
	}
	if int(n) != len(tok) {
		return fmt.Sprintf("Len()=%d", n)
	}
	// the token inside a larger text (more slashes follow): still the length of the /P/ token
	for _, tail := range []string{" GET /a/b", "\n/next-token/", " // matches"} {
		n2, o2 := lib.SafeVal(regex.New("@T", tok+tail).Len)
		if !o2.OK {
			return "Len() with text after the token: " + o2.Verdict()
		}
		if int(n2) != len(tok) {
			return fmt.Sprintf("Len()=%d when %q follows the token", n2, tail)
		}
	}
	re := regexp.MustCompile(p)
	for i := 0; i < 3; i++ {
		rxi := regex.New("@T", tok, regex.WithGeneratorSeed(int64(i)))
		ex, o := lib.SafeVal(rxi.Example)
		if !o.OK {
			return "Example(): " + o.Verdict()
		}
		if !re.Match(ex) {
			return fmt.Sprintf("Example()=%q does not match", ex)
		}
		// the returned bytes are the caller's: overwriting them must not change the next example
		first := string(ex)
		for j := range ex {
			ex[j] = 0
		}
		ex2, o2 := lib.SafeVal(rxi.Example)
		if !o2.OK || string(ex2) != first {
			return fmt.Sprintf("Example()=%q after the caller overwrote the bytes of the first result %q", ex2, first)
		}
	}
	return "ok"
}

func c18RegexUnit(c *mon.Ctx, r *mon.Rng, per int) {
	for k := 0; k < per; k++ {
		var gc gen.RegexCase
		src := "grammar"
		switch {
		case r.Chance(1, 6):
			t := mon.Pick(r, gen.RegexTable)
			gc = gen.RegexCase{Pattern: strings.ReplaceAll(t.Pattern, "/", `\/`), Match: t.Match, NoMatch: t.NoMatch}
			src = "table"
		case r.Chance(1, 10):
			gc = gen.RegexPattern(r, gen.RegexOpts{Control: true})
			src = "grammar with control-character escapes"
		case r.Chance(1, 30):
			gc = gen.RegexPattern(r, gen.RegexOpts{Boundary: true})
			src = "word-boundary family"
		default:
			gc = gen.RegexPattern(r, gen.RegexOpts{})
		}
		p := gc.Pattern
		re, err := regexp.Compile(p)
		if err != nil {
			panic("harness bug: pattern does not compile: " + p)
		}
		c.Count("regex patterns from the "+src, 1)
		for _, feat := range []struct{ name, sub string }{{"escaped slash", `\/`}, {"backslash", `\\`}, {"quote", `"`}, {"alternation", "|"}, {"class", "["}, {"anchor ^", "^"}, {"anchor $", "$"}, {"counted repetition", "{"}, {"group", "("}} {
			if strings.Contains(p, feat.sub) {
				c.Count("regex patterns with "+feat.name, 1)
			}
		}
		c.Eval(1)
		if got := c18RegexFacts(p); got != "ok" {
			c.Violate("regex-facts", c18RegexCase{Pattern: p}, "ok", got, "Pattern() / Len() / Example() of the /P/ token disagree with P")
		}

		rc := c18RegexCase{Pattern: p, Wrap: r.Intn(3), Example: gc.Match[0]}
		namedSp, inlineSp := c18RegexSpecs(rc)
		bn, bi := buildSchema(namedSp), buildSchema(inlineSp)
		c.Eval(1)
		if !bi.ok {
			c.Count("regex: inline form rejected by Check (skipped)", 1)
			c.Sample("regex inline form rejected", map[string]any{"inline": inlineSp, "error": bi.check.String()})
			continue
		}
		if !bn.ok {
			c.Violate("regex-check", rc, "accept", bn.check.String(), "the inline {regex: P} form passes Check but the schema using the type @T = /P/ cannot be built or checked")
			continue
		}
		c.Distinct("regex\x00" + p)
		probes := append(append([]string{}, gc.Match...), gc.NoMatch...)
		for _, s := range probes {
			v := c18WrapDoc(rc.Wrap, model.VString(s))
			doc := v.Text()
			if r.Chance(1, 5) {
				doc = model.DocStyle{Escapes: r}.Render(v)
			}
			want := "reject"
			if re.MatchString(s) {
				want = "accept"
			}
			on, oi := bn.validate(doc), bi.validate(doc)
			c.Eval(2)
			c.Count(fmt.Sprintf("regex verdict expected=%s named=%s inline=%s", want, on.Verdict(), oi.Verdict()), 1)
			if on.Verdict() != want || oi.Verdict() != want {
				fn, fi := lib.Validate(namedSp, doc), lib.Validate(inlineSp, doc)
				if fn.Verdict() == want && fi.Verdict() == want {
					rc3 := rc
					rc3.Doc = doc
					c.Violate("regex-reused", rc3, want+"/"+want, on.Verdict()+"/"+oi.Verdict(),
						"the regex verdict on schema objects used before differs from regexp.MatchString, fresh objects agree (named/inline shown)")
					continue
				}
				rc2 := rc
				rc2.Doc = doc
				c.Violate("regex-differential", rc2, want+"/"+want, fn.Verdict()+"/"+fi.Verdict(),
					fmt.Sprintf("type @T = /P/ and inline {regex: P} must both give regexp.MatchString(P, %q) = %s (named/inline shown)", s, want))
			}
		}
		for _, other := range []*model.Val{model.VNumber("1"), model.VNullV(), model.VObject(), model.VBoolean(true)} {
			doc := c18WrapDoc(rc.Wrap, other).Text()
			on, oi := bn.validate(doc), bi.validate(doc)
			c.Eval(2)
			if on.Verdict() != "reject" || oi.Verdict() != "reject" {
				rc2 := rc
				rc2.Doc = doc
				c.Violate("regex-differential", rc2, "reject/reject", on.Verdict()+"/"+oi.Verdict(), "a non-string value is accepted by a regex type or rule")
			}
		}
		if k == 0 && c.Unit%16 == 0 {
			c.Sample("regex type vs inline rule", map[string]any{"named": namedSp, "inline": inlineSp, "probes": len(probes)})
		}
	}
}

func c18Run(c *mon.Ctx, unit int) {
	eu, _, per := c18Sizes(c.Tier)
	r := c.Rng(18)
	if unit < eu {
		c18EnumUnit(c, r, per)
		return
	}
	c18RegexUnit(c, r, per)
}

func init() {
	ruleText := func(f func(string, bool) string, with bool) func(json.RawMessage) string {
		return func(raw json.RawMessage) string {
			var rc c18RuleCase
			if err := json.Unmarshal(raw, &rc); err != nil {
				return "bad replay: " + err.Error()
			}
			return f(rc.Text, with)
		}
	}
	mon.Register(&mon.Prop{
		ID:    "C18",
		Level: "exploration",
		Rule: "enum: lists of 1..7 pairwise different members of all scalar kinds, biased to kind-colliding texts (1, \"1\", 1.0, \"1.0\", true, \"true\", null, \"null\", \"a\", \"A\"), written as a rule text in four layouts " +
			"(compact; one per line; commented with // and /* */ comments after values, on own lines, on the bracket line, blank lines, LF/CRLF; packed with several values per line) and inline {enum: [...]} on a scalar, " +
			"inside an object or an array; probes = every member, near misses in kind or spelling, strangers; a duplicate of a random member (same or alternative escape spelling) planted in a second rendering. " +
			"regex: patterns from a printable-ASCII RE2 grammar (literals, escaped metacharacters, \\/ for slashes, quotes, backslashes, classes incl. negated and POSIX, perl classes, groups, alternation, * + ? {n,m} lazy, ^ $, fenced \\bword\\b, (?i); " +
			"1/10 with escapes that denote control characters, 1/30 a \\b next to a class of which half the members satisfy it) plus a 20-pattern table; /P/ added as @T used at root / property / array item vs inline {regex: P} (JSON-escaped by the harness); probes = samples matching at the start, middle, end, " +
			"truncated samples and strangers, all judged by regexp.MatchString. Non-trivial = a distinct (rule text, schema) or pattern whose both spellings passed Check and were probed.",
		Assumptions: []string{
			"comment attachment is compared only when every comment follows exactly one literal on its line or stands on lines without literals; otherwise only the literal subsequence is compared",
			"numerically equal but differently spelled numbers against an enum member are Unspecified for the oracle (the differential named == inline is still compared)",
			"a pattern is identified with its text between the slashes (every '/' written '\\/'); the same text is used for the inline rule",
		},
		Units: func(tier string, seed uint64) int { a, b, _ := c18Sizes(tier); return a + b },
		Run:   c18Run,
		Replay: map[string]func(json.RawMessage) string{
			"enum-shared": func(raw json.RawMessage) string {
				var m struct{ Rule, Schema, Inline, Doc string }
				json.Unmarshal(raw, &m)
				rule := enum.New("@E", m.Rule)
				before := c18ValuesOf(rule)
				mk := func() (*njs.Schema, lib.Obs) {
					sc := njs.New("root", m.Schema)
					if o := lib.Safe(func() error { return sc.AddRule("@E", rule) }); !o.OK {
						return sc, o
					}
					return sc, lib.Safe(sc.Check)
				}
				s1, o1 := mk()
				s2, o2 := mk()
				inl := buildSchema(lib.Spec{Text: m.Inline})
				if o1.OK != inl.ok || o2.OK != inl.ok || o1.Panic != "" || o2.Panic != "" {
					return fmt.Sprintf("first schema: %s; second schema: %s; inline: %s", o1, o2, inl.check)
				}
				if after := c18ValuesOf(rule); after != before {
					return "Values() before: " + before + " after: " + after
				}
				if m.Doc != "" && inl.ok {
					want := inl.validate(m.Doc).Verdict()
					if g1, g2 := lib.ValidateOn(s1, m.Doc).Verdict(), lib.ValidateOn(s2, m.Doc).Verdict(); g1 != want || g2 != want {
						return fmt.Sprintf("first: %s second: %s inline: %s", g1, g2, want)
					}
				}
				return "rule object unchanged, same verdicts as inline"
			},
			"values":          ruleText(c18Values, false),
			"ast":             ruleText(c18AST, false),
			"values-comments": ruleText(c18Values, true),
			"ast-comments":    ruleText(c18AST, true),
			"rule-check": func(raw json.RawMessage) string {
				var rc c18RuleCase
				json.Unmarshal(raw, &rc)
				return lib.Safe(enum.New("@E", rc.Text).Check).Verdict()
			},
			"enum-reused": func(json.RawMessage) string {
				return "needs the history of the schema object: not replayable from the case alone"
			},
			"regex-reused": func(json.RawMessage) string {
				return "needs the history of the schema object: not replayable from the case alone"
			},
			"rule-check-twice": func(raw json.RawMessage) string {
				var rc c18RuleCase
				json.Unmarshal(raw, &rc)
				e := enum.New("@E", rc.Text)
				lib.Safe(e.Check)
				if o := lib.Safe(e.Check); o.OK || o.Panic != "" {
					return o.Verdict()
				}
				if _, o := lib.SafeVal(e.Values); o.OK || o.Panic != "" {
					return o.Verdict()
				}
				return lib.Safe(func() error { return newSchemaForRule().AddRule("@E", e) }).Verdict()
			},
			"add-rule": func(raw json.RawMessage) string {
				var rc c18RuleCase
				json.Unmarshal(raw, &rc)
				return lib.Safe(func() error { return newSchemaForRule().AddRule("@E", enum.New("@E", rc.Text)) }).Verdict()
			},
			"enum-check": func(raw json.RawMessage) string {
				var ec c18EnumCase
				json.Unmarshal(raw, &ec)
				a, b := lib.Check(ec.Named), lib.Check(ec.Inline)
				if a.OK == b.OK {
					return "same Check verdict"
				}
				return fmt.Sprintf("named: %s; inline: %s", a, b)
			},
			"enum-differential": func(raw json.RawMessage) string {
				var ec c18EnumCase
				json.Unmarshal(raw, &ec)
				a, b := lib.Validate(ec.Named, ec.Doc), lib.Validate(ec.Inline, ec.Doc)
				if a.Verdict() == b.Verdict() {
					return "same verdict"
				}
				return fmt.Sprintf("named: %s; inline: %s", a, b)
			},
			"enum-oracle": func(raw json.RawMessage) string {
				var ec c18EnumCase
				json.Unmarshal(raw, &ec)
				return lib.Validate(ec.Named, ec.Doc).Verdict()
			},
			"regex-facts": func(raw json.RawMessage) string {
				var rc c18RegexCase
				json.Unmarshal(raw, &rc)
				return c18RegexFacts(rc.Pattern)
			},
			"regex-check": func(raw json.RawMessage) string {
				var rc c18RegexCase
				json.Unmarshal(raw, &rc)
				named, _ := c18RegexSpecs(rc)
				return lib.Check(named).Verdict()
			},
			"regex-differential": func(raw json.RawMessage) string {
				var rc c18RegexCase
				json.Unmarshal(raw, &rc)
				named, inline := c18RegexSpecs(rc)
				return lib.Validate(named, rc.Doc).Verdict() + "/" + lib.Validate(inline, rc.Doc).Verdict()
			},
		},
		Final: func(ev *mon.Evidence) error {
			for _, k := range []string{"enum verdict expected=accept observed=accept", "enum verdict expected=reject observed=reject",
				"regex verdict expected=accept named=accept inline=accept", "regex verdict expected=reject named=reject inline=reject",
				"enum rules with a planted duplicate", "enum rules whose comment attachment is unambiguous (compared with comments)"} {
				if ev.Counters[k] == 0 {
					return fmt.Errorf("never observed: %s", k)
				}
			}
			return nil
		},
	})
}
