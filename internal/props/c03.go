package props

// C03 — type references, or, allOf and additionalProperties compose as set operations.
//
// Reference-model monitor over generated type graphs (union / inheritance semantics computed
// on the abstract model) plus a real-vs-real differential: a position that references @T
// accepts a value iff the stand-alone schema of @T accepts it.

import (
	"encoding/json"
	"fmt"
	"strings"

	"verif/internal/gen"
	"verif/internal/lib"
	"verif/internal/model"
	"verif/internal/mon"
)

// specOf renders a model schema into the texts handed to the library.
func specOf(s *model.Schema, st model.Style) lib.Spec {
	sp := lib.Spec{Text: st.Render(s.Root), OptKeys: s.OptKeys}
	for _, e := range s.Enums {
		sp.Rules = append(sp.Rules, lib.RuleDef{Name: e.Name, Text: "[" + strings.Join(e.Values, ", ") + "]"})
	}
	for _, t := range s.Types {
		if t.Root == nil {
			sp.Types = append(sp.Types, lib.TypeDef{Name: t.Name, Text: "/" + t.Regex + "/", Regex: true})
			continue
		}
		sp.Types = append(sp.Types, lib.TypeDef{Name: t.Name, Text: st.Render(t.Root)})
	}
	return sp
}

type c03Case struct {
	Spec lib.Spec `json:"spec"`
	Doc  string   `json:"doc"`
}

func c03Sizes(tier string) (units, per, docs int) {
	if tier == "thorough" {
		return 24000, 20, 80
	}
	return 400, 20, 60
}

func c03Constructs(s *model.Schema, c *mon.Ctx) {
	seen := map[string]bool{}
	visit := func(n *model.Node) {
		n.Walk(func(x *model.Node) {
			if x.Kind == model.KRef {
				if len(x.Refs) > 1 {
					seen["@A | @B shortcut"] = true
				} else {
					seen["@T shortcut"] = true
				}
			}
			for _, r := range x.Rules {
				switch r.Name {
				case "or", "allOf":
					seen["rule "+r.Name] = true
				case "additionalProperties":
					seen["additionalProperties "+model.RuleValueText(r, false)] = true
				case "type":
					if strings.HasPrefix(r.Str, "@") {
						seen[`{type: "@T"}`] = true
					}
				case "nullable":
					if x.Kind == model.KRef && r.Bool {
						seen["nullable reference"] = true
					}
				}
			}
			for _, p := range x.Props {
				if p.Shortcut {
					seen["key shortcut"] = true
				}
			}
		})
	}
	visit(s.Root)
	for _, t := range s.Types {
		if t.Root != nil {
			visit(t.Root)
		} else {
			seen["regex type"] = true
		}
	}
	for k := range seen {
		c.Count("schemas using "+k, 1)
	}
}

func c03Run(c *mon.Ctx, unit int) {
	_, per, ndocs := c03Sizes(c.Tier)
	r := c.Rng(3)
	for k := 0; k < per; k++ {
		s := gen.Graph(r, 6)
		s.OptKeys = r.Chance(1, 5)
		sp := specOf(s, model.Style{})
		if k%5 == 3 {
			// the types reach the root only through the types that name them
			sp.NestedReg = true
			c.Count("graphs registered through their types (root receives only the types it names)", 1)
		}
		built := buildSchema(sp)
		if !built.ok && sp.NestedReg {
			// the same graph with every type added to the root as well must be refused too
			flat := sp
			flat.NestedReg = false
			if fb := buildSchema(flat); fb.ok {
				c.Violate("nested", c03Case{sp, ""}, "accept (as with all types added to the root)", built.check.String(),
					"Check refuses a graph whose types reach the root through the types naming them, and accepts it when they are added to the root too")
				continue
			}
		}
		if !built.ok && s.Legal && built.check.Panic == "" {
			c.Violate("legal", c03Case{sp, ""}, "accept", built.check.String(), "Check refuses a schema that is legal by construction (allOf / array-union / key-diamond motif)")
			continue
		}
		if code := built.check.Code; !built.ok && built.check.Panic == "" && (code == 104 || code == 703 || code == 1302) {
			// refused for a reason the reference recursion / resolution oracle decides: a graph it
			// accepts (all names resolve, every required cycle can end) is refused wrongly
			if v, _ := model.RecursionVerdict(s); v == model.Accept {
				c.Violate("legal", c03Case{sp, ""}, "accept", built.check.String(), "Check reports a recursion / a missing type in a graph whose names all resolve and whose required references all end")
				continue
			}
		}
		if !built.ok {
			c.Count("generated graph rejected by Check (skipped)", 1)
			c.Count(fmt.Sprintf("skipped: check code %d", built.check.Code), 1)
			c.Sample(fmt.Sprintf("graph rejected by Check code %d", built.check.Code), map[string]any{"spec": sp, "error": built.check.String()})
			if built.check.Panic != "" {
				c.Violate("check", c03Case{sp, ""}, "no panic", built.check.String(), "Check panicked on a generated type graph")
			}
			continue
		}
		key, _ := json.Marshal(sp)
		c.Distinct(string(key))
		c03Constructs(s, c)
		dg := gen.NewDocs(s, r.Fork())
		for j := 0; j < ndocs; j++ {
			var v *model.Val
			class := ""
			switch {
			case j%10 < 4:
				v, class = dg.Conform(), "conforming by construction"
			case j%10 < 9:
				v, class = dg.Mutate(dg.Conform())
			default:
				v, class = gen.RandomValue(dg.R, 3), "unrelated"
			}
			doc := v.Text()
			if j%3 == 1 {
				// the same schema object was given a document that breaks off (a broken upload,
				// an empty body) just before: what that validation leaves behind - candidates of
				// unions still alive - must not reach the next one
				built.validate(mon.Pick(r, []string{doc[:len(doc)/2], doc[:len(doc)*2/3], "", "  ", doc[:len(doc)-1]}))
			}
			c03Compare(c, s, sp, built, v, doc, class)
		}
		// differential: `@T` as root behaves like T's own text as root
		for ti, t := range s.Types {
			if t.Root == nil || ti > 3 {
				continue
			}
			refSchema := &model.Schema{Root: model.Ref(t.Name), Types: s.Types, Enums: s.Enums, OptKeys: s.OptKeys}
			ownSchema := &model.Schema{Root: t.Root, Types: s.Types, Enums: s.Enums, OptKeys: s.OptKeys}
			a := buildSchema(specOf(refSchema, model.Style{}))
			b := buildSchema(specOf(ownSchema, model.Style{}))
			if !a.ok || !b.ok {
				c.Count("differential pair not both accepted by Check (skipped)", 1)
				continue
			}
			dg2 := gen.NewDocs(ownSchema, r.Fork())
			for j := 0; j < 12; j++ {
				v := dg2.Conform()
				if j%2 == 1 {
					v, _ = dg2.Mutate(v)
				}
				doc := v.Text()
				oa, ob := a.validate(doc), b.validate(doc)
				c.Eval(1)
				c.Count("reference-vs-standalone comparisons", 1)
				if oa.Verdict() != ob.Verdict() {
					c.Violate("differential", map[string]any{"ref": a.sp, "own": b.sp, "doc": doc}, "same verdict",
						fmt.Sprintf("as @T: %s; stand-alone: %s", oa, ob), "a reference to @T does not accept the same values as T itself")
				}
			}
		}
		if k == 0 && unit < 6 {
			c.Sample("type graph", map[string]any{"spec": sp, "doc": dg.Conform().Text()})
		}
	}
}

func c03Compare(c *mon.Ctx, s *model.Schema, sp lib.Spec, built *builtSchema, v *model.Val, doc, class string) {
	o := model.NewOracle(s)
	want := o.Accepts(v)
	for m, n := range o.Mech {
		c.Count("mechanism: "+m, n)
	}
	obs := built.validate(doc)
	c.Eval(1)
	c.Count("documents: "+class, 1)
	if want == model.Unspec {
		c.Count("oracle unspecified (not compared)", 1)
		if obs.Panic != "" {
			c.Violate("vpanic", c03Case{sp, doc}, "no panic", obs.String(), "Validate panicked")
		}
		return
	}
	c.Count(fmt.Sprintf("verdict expected=%s observed=%s", want, obs.Verdict()), 1)
	if obs.Verdict() == want.String() {
		return
	}
	fresh := lib.Validate(sp, doc)
	if fresh.Verdict() == want.String() {
		c.Violate("validate-reused", c03Case{sp, doc}, want.String(), obs.String(),
			fmt.Sprintf("Validate verdict on a schema object used before differs from the union/inheritance oracle, a fresh object agrees (%s; oracle: %s)", class, o.Why))
		return
	}
	c.Violate("validate", c03Case{sp, doc}, want.String(), fresh.String(),
		fmt.Sprintf("Validate verdict differs from the union/inheritance oracle (%s; oracle: %s)", class, o.Why))
}

func init() {
	mon.Register(&mon.Prop{
		ID:    "C03",
		Level: "exploration",
		Rule: "type graphs of 1..6 user types (objects with allOf parents, arrays of references, rule-carrying string types, or-types, regex types, enum types) where required references point to " +
			"lower-numbered types and optional properties / array items may point anywhere; value positions use @T, @A | @B (2-3 members), {type: \"@T\"}, {or: [names, built-ins, inline rule-sets]}, " +
			"nullable references, every additionalProperties mode and key shortcuts next to ordinary keys; documents conforming by construction, near misses and unrelated JSON; " +
			"oracle computes union / inheritance on the abstract model. Non-trivial = distinct Check-accepted graph on which documents were judged.",
		Assumptions: []string{
			"Unspecified cells (not compared): integer under additionalProperties \"float\", non-empty object/array under a bare \"object\"/\"array\" or-member, a key accepted by two key shortcuts, key shortcuts whose type has no rules (statement and pinned tests disagree), a missing required key shortcut",
		},
		Units: func(tier string, seed uint64) int { u, _, _ := c03Sizes(tier); return u },
		Run:   c03Run,
		Replay: map[string]func(json.RawMessage) string{
			"validate-reused": func(json.RawMessage) string {
				return "needs the history of the schema object: not replayable from the case alone"
			},
			"validate": func(raw json.RawMessage) string {
				var cs c03Case
				json.Unmarshal(raw, &cs)
				return lib.Validate(cs.Spec, cs.Doc).Verdict()
			},
			"legal": func(raw json.RawMessage) string {
				var cs c03Case
				json.Unmarshal(raw, &cs)
				return lib.Check(cs.Spec).String()
			},
			"nested": func(raw json.RawMessage) string {
				var cs c03Case
				json.Unmarshal(raw, &cs)
				if o := lib.Check(cs.Spec); !o.OK {
					return o.String()
				}
				return "accept (as with all types added to the root)"
			},
			"vpanic": func(raw json.RawMessage) string {
				var cs c03Case
				json.Unmarshal(raw, &cs)
				return noPanic(lib.Validate(cs.Spec, cs.Doc))
			},
			"check": func(raw json.RawMessage) string {
				var cs c03Case
				json.Unmarshal(raw, &cs)
				if o := lib.Check(cs.Spec); o.Panic != "" {
					return o.String()
				}
				return "no panic"
			},
			"differential": func(raw json.RawMessage) string {
				var m struct {
					Ref lib.Spec `json:"ref"`
					Own lib.Spec `json:"own"`
					Doc string   `json:"doc"`
				}
				json.Unmarshal(raw, &m)
				a, b := lib.Validate(m.Ref, m.Doc), lib.Validate(m.Own, m.Doc)
				if a.Verdict() == b.Verdict() {
					return "same verdict"
				}
				return fmt.Sprintf("as @T: %s; stand-alone: %s", a, b)
			},
		},
		Final: func(ev *mon.Evidence) error {
			if ev.Counters["verdict expected=accept observed=accept"] == 0 || ev.Counters["verdict expected=reject observed=reject"] == 0 {
				return fmt.Errorf("verdict histogram is one-sided")
			}
			return nil
		},
	})
}
