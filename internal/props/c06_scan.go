//go:build vh_scanevents

package props

import (
	njs "github.com/jsightapi/jsight-schema-go-library/notations/jschema"
	"github.com/jsightapi/jsight-schema-go-library/rules/enum"
)

// Hooks H2/H3 (vh_scanevents): event streams of the internal schema scanner and of the
// enum-rule scanner.
func init() {
	c06SchemaEvents = func(text []byte, lengthMode bool) ([]c06Event, error) {
		evs, err := njs.VerifScanEvents(text, lengthMode)
		out := make([]c06Event, len(evs))
		for i, e := range evs {
			out[i] = c06Event{Type: e.Type, Begin: e.Begin, End: e.End}
		}
		return out, err
	}
	c06EnumEvents = func(text []byte, lengthMode bool) ([]c06Event, error) {
		evs, err := enum.VerifScanEvents(text, lengthMode)
		out := make([]c06Event, len(evs))
		for i, e := range evs {
			out[i] = c06Event{Type: e.Type, Begin: e.Begin, End: e.End}
		}
		return out, err
	}
}
