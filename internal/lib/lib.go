// Package lib is the thin API-boundary layer: every call into the library under test goes
// through a panic monitor and returns a structured observation.
package lib

import (
	stderrors "errors"
	"fmt"
	"hash/fnv"
	"runtime/debug"
	"strings"
	"sync"

	jschema "github.com/jsightapi/jsight-schema-go-library"
	jbytes "github.com/jsightapi/jsight-schema-go-library/bytes"
	"github.com/jsightapi/jsight-schema-go-library/formats/json"
	"github.com/jsightapi/jsight-schema-go-library/fs"
	"github.com/jsightapi/jsight-schema-go-library/kit"
	njs "github.com/jsightapi/jsight-schema-go-library/notations/jschema"
	"github.com/jsightapi/jsight-schema-go-library/notations/regex"
	"github.com/jsightapi/jsight-schema-go-library/rules/enum"
)

// TypeDef is a named user type (JSight schema text, or a /regex/ type).
type TypeDef struct {
	Name  string `json:"name"`
	Text  string `json:"text"`
	Regex bool   `json:"regex,omitempty"`
	// Rules are enum rules added to the type's own schema object (needed when the type text
	// itself says {enum: @name}).
	Rules []RuleDef `json:"rules,omitempty"`
	// Own: types added to this type's schema object only (the root is not given them: they reach
	// it through this type). Used by the C11 families.
	Own []TypeDef `json:"own_types,omitempty"`
}

// RuleDef is a named enum rule.
type RuleDef struct {
	Name string `json:"name"`
	Text string `json:"text"`
}

// Spec is everything needed to construct one root schema.
type Spec struct {
	Text    string    `json:"schema"`
	Types   []TypeDef `json:"types,omitempty"`
	Rules   []RuleDef `json:"rules,omitempty"`
	OptKeys bool      `json:"keys_optional_by_default,omitempty"`
	// SecondWithout: a second root with the same text is built over the same type objects, given
	// every type except the named one (lib.SecondOf returns it). Not part of replays' identity.
	SecondWithout string `json:"second_root_without,omitempty"`
	// FullReg: every JSight type is also added to every other JSight type (the way an API
	// document registers its types), not only to the root.
	FullReg bool `json:"types_added_to_every_type,omitempty"`
	// UnnamedFiles: the type schemas are created with an empty file name (jschema.New("", text)).
	UnnamedFiles bool `json:"type_files_unnamed,omitempty"`
	// PreRoot: before the root is assembled, a throw-away root receives every second type object
	// (the SAME objects) and is Check()ed - its result is ignored. Results on the real root must
	// not depend on that (the type objects are shared the way an API definition shares them).
	PreRoot bool `json:"other_root_checked_first,omitempty"`
	// NestedReg: every type is added to every type (as FullReg), but the ROOT receives only the
	// types its own text names; the types those need reach the root through them.
	NestedReg bool `json:"types_reach_the_root_through_types,omitempty"`
	// ChainReg: every schema (the root and each type) receives exactly the types its own text
	// names; a type several references away reaches the root through that many steps.
	ChainReg bool `json:"each_schema_receives_the_types_it_names,omitempty"`
}

// Obs is what one call returned.
type Obs struct {
	OK      bool   // returned a nil error
	Panic   string // non-empty: the call panicked (value + stack)
	Code    int    // library error code, -1 when the error exposes none
	Pos     int    // Position(), -1 when the error exposes none
	ErrType string // dynamic type of the error
	Msg     string
	Err     error
	// Kit: "" when kit.ConvertError agrees with the error's own code and position
	Kit string
}

// Verdict renders the comparable part of an observation.
func (o Obs) Verdict() string {
	switch {
	case o.Panic != "":
		return "panic"
	case o.OK:
		return "accept"
	}
	return "reject"
}

func (o Obs) String() string {
	switch {
	case o.Panic != "":
		return "panic: " + firstLine(o.Panic)
	case o.OK:
		return "accept"
	}
	return fmt.Sprintf("reject(code=%d pos=%d %s)", o.Code, o.Pos, firstLine(o.Msg))
}

func firstLine(s string) string {
	if i := strings.IndexByte(s, '\n'); i >= 0 {
		s = s[:i]
	}
	if len(s) > 160 {
		s = s[:160] + "…"
	}
	return s
}

// Observe classifies an error value.
func Observe(err error) Obs {
	if err == nil {
		return Obs{OK: true, Code: -1, Pos: -1}
	}
	o := Obs{Code: -1, Pos: -1, ErrType: fmt.Sprintf("%T", err), Err: err}
	var c interface{ ErrCode() int }
	if stderrors.As(err, &c) {
		o.Code = c.ErrCode()
	}
	var p interface{ Position() uint }
	if stderrors.As(err, &p) {
		o.Pos = int(p.Position())
	}
	o.Kit = kitDisagreement(err, o)
	var m interface{ Message() string }
	if stderrors.As(err, &m) {
		o.Msg = safeString(m.Message)
	} else {
		o.Msg = safeString(err.Error)
	}
	return o
}

// kitDisagreement: kit.ConvertError (the SDK's view of an error) must keep the code, the
// position and the file the error exposes - also when the library error is wrapped (AddType:
// "load added type: %w"). "" when it does (or when the error exposes none of them).
func kitDisagreement(err error, o Obs) (d string) {
	defer func() {
		if r := recover(); r != nil {
			d = fmt.Sprintf("kit.ConvertError panicked: %v", r)
		}
	}()
	k := kit.ConvertError(fs.NewFile("kit", ""), err)
	if k == nil {
		return "kit.ConvertError returned nil for a non-nil error"
	}
	if o.Code >= 0 && k.ErrCode() != o.Code {
		return fmt.Sprintf("kit.ConvertError reports code %d, the error itself %d", k.ErrCode(), o.Code)
	}
	if o.Pos >= 0 && int(k.Position()) != o.Pos {
		return fmt.Sprintf("kit.ConvertError reports position %d, the error itself %d", k.Position(), o.Pos)
	}
	// a position means something only together with the file it refers to
	var f interface{ Filename() string }
	if stderrors.As(err, &f) && o.Pos >= 0 && k.Filename() != f.Filename() {
		return fmt.Sprintf("kit.ConvertError names file %q, the error itself %q (position %d)", k.Filename(), f.Filename(), k.Position())
	}
	var u interface{ IncorrectUserType() string }
	if stderrors.As(err, &u) && k.IncorrectUserType() != u.IncorrectUserType() {
		return fmt.Sprintf("kit.ConvertError reports incorrect user type %q, the error itself %q", k.IncorrectUserType(), u.IncorrectUserType())
	}
	return ""
}

func safeString(f func() string) (s string) {
	defer func() {
		if r := recover(); r != nil {
			s = fmt.Sprintf("<panic while rendering: %v>", r)
		}
	}()
	return f()
}

// Safe runs f under the panic monitor.
func Safe(f func() error) (o Obs) {
	defer func() {
		if r := recover(); r != nil {
			o = Obs{Panic: fmt.Sprintf("%v\n%s", r, debug.Stack()), Code: -1, Pos: -1}
		}
	}()
	return Observe(f())
}

// SafeVal runs f under the panic monitor and also hands back its value.
func SafeVal[T any](f func() (T, error)) (v T, o Obs) {
	defer func() {
		if r := recover(); r != nil {
			o = Obs{Panic: fmt.Sprintf("%v\n%s", r, debug.Stack()), Code: -1, Pos: -1}
		}
	}()
	v, err := f()
	return v, Observe(err)
}

// Build constructs the root schema with its rules and types. A failing AddRule/AddType is
// returned as an observation (the schema is still returned when it exists).
func Build(sp Spec) (s *njs.Schema, o Obs) {
	s, _, o = BuildWithBuffer(sp, false)
	return s, o
}

// BuildWithBuffer is Build; with fromBytes the root schema is created from a []byte that is
// handed back: the caller may overwrite it afterwards (the library must have taken what it
// needs, or keep working on its own copy).
func BuildWithBuffer(sp Spec, fromBytes bool) (s *njs.Schema, buf []byte, o Obs) {
	defer func() {
		if r := recover(); r != nil {
			o = Obs{Panic: fmt.Sprintf("%v\n%s", r, debug.Stack()), Code: -1, Pos: -1}
		}
	}()
	var opts []njs.Option
	if sp.OptKeys {
		opts = append(opts, njs.KeysAreOptionalByDefault())
	}
	if h := fnv.New32a(); len(sp.Text) > 3 {
		h.Write([]byte(sp.Text))
		if h.Sum32()%8 == 0 {
			Prelude(sp.Text)
		}
	}
	if fromBytes {
		buf = []byte(sp.Text)
		s = njs.New("root", buf, opts...)
	} else {
		s = njs.New("root", sp.Text, opts...)
	}
	for _, r := range sp.Rules {
		if err := s.AddRule(r.Name, enum.New(r.Name, r.Text)); err != nil {
			return s, buf, Observe(err)
		}
	}
	built := make([]jschema.Schema, len(sp.Types))
	for i, t := range sp.Types {
		var ts jschema.Schema
		if t.Regex {
			if len(t.Text)%2 == 0 {
				ts = regex.FromFile(fs.NewFile(t.Name, []byte(t.Text)))
			} else {
				ts = regex.New(t.Name, t.Text)
			}
		} else {
			var topts []njs.Option
			if sp.OptKeys {
				topts = append(topts, njs.KeysAreOptionalByDefault())
			}
			fname := t.Name
			if sp.UnnamedFiles {
				fname = ""
			}
			var tj *njs.Schema
			switch len(t.Text) % 3 {
			case 0:
				tj = njs.New(fname, t.Text, topts...)
			case 1:
				// the other constructors and content types of the public API
				tj = njs.FromFile(fs.NewFile(fname, jbytes.Bytes(t.Text)), topts...)
			default:
				tj = njs.New(fname, []byte(t.Text), topts...)
			}
			rules := t.Rules
			if rules == nil {
				rules = sp.Rules
			}
			for _, r := range rules {
				if err := tj.AddRule(r.Name, enum.New(r.Name, r.Text)); err != nil {
					return s, buf, Observe(err)
				}
			}
			ts = tj
		}
		built[i] = ts
	}
	if sp.FullReg || sp.NestedReg || sp.ChainReg {
		for i, t := range sp.Types {
			if t.Regex {
				continue
			}
			for j, u := range sp.Types {
				if i == j && !sp.ChainReg {
					continue
				}
				if sp.ChainReg && !strings.Contains(t.Text, u.Name) {
					continue
				}
				if err := built[i].AddType(u.Name, built[j]); err != nil {
					return s, buf, Observe(err)
				}
			}
		}
	}
	if sp.PreRoot {
		pre := njs.New("pre", sp.Text, opts...)
		for _, r := range sp.Rules {
			_ = pre.AddRule(r.Name, enum.New(r.Name, r.Text))
		}
		for i, t := range sp.Types {
			if i%2 == 0 {
				_ = pre.AddType(t.Name, built[i])
			}
		}
		Safe(pre.Check)
	}
	for i, t := range sp.Types {
		if (sp.NestedReg || sp.ChainReg) && !strings.Contains(sp.Text, t.Name) {
			continue
		}
		if err := s.AddType(t.Name, built[i]); err != nil {
			return s, buf, Observe(err)
		}
	}
	if sp.SecondWithout != "" {
		// a second root over the SAME type objects, given every type but one
		second := njs.New("root", sp.Text, opts...)
		for _, r := range sp.Rules {
			_ = second.AddRule(r.Name, enum.New(r.Name, r.Text))
		}
		for i, t := range sp.Types {
			if t.Name != sp.SecondWithout {
				_ = second.AddType(t.Name, built[i])
			}
		}
		secondRoots.Store(s, second)
	}
	return s, buf, Obs{OK: true, Code: -1, Pos: -1}
}

var secondRoots sync.Map

// SecondOf returns the second root built for Spec.SecondWithout (nil when there is none); the
// entry is dropped.
func SecondOf(s *njs.Schema) *njs.Schema {
	v, ok := secondRoots.LoadAndDelete(s)
	if !ok {
		return nil
	}
	return v.(*njs.Schema)
}

// Prelude uses throw-away objects on broken texts right before the real ones are built: the same
// text cut at two thirds as a schema, as an enum rule and as a document, each asked for its
// length, checked and read. Whatever these calls leave behind in the library (recycled
// scanners, caches keyed by text) must not reach the objects built next: every result the
// monitors judge is specified for the inputs alone. The prelude is a function of the text, so
// a replay repeats it.
func Prelude(text string) {
	cut := text[:len(text)*2/3]
	Safe(func() error {
		s := njs.New("prelude", cut)
		_, _ = s.Len()
		_ = s.Check()
		_, _ = s.GetAST()
		_, _ = s.Example()
		return nil
	})
	Safe(func() error {
		e := enum.New("prelude", "[1, \"a\", true, "+cut)
		_, _ = e.Len()
		_ = e.Check()
		return nil
	})
	Safe(func() error {
		d := json.New("prelude", cut)
		_ = d.Check()
		for i := 0; i < 4*len(cut)+8; i++ {
			if _, err := d.NextLexeme(); err != nil {
				break
			}
		}
		_, _ = d.Len()
		return nil
	})
}

// Check builds a fresh schema and runs Check.
func Check(sp Spec) Obs {
	s, o := Build(sp)
	if !o.OK {
		return o
	}
	return CheckObs(s)
}

// CheckObs calls Check twice on the schema object and returns the first answer; a second answer
// with another verdict, code or position is reported like a panic (no monitor accepts it): the
// verdict of a schema does not change by asking again.
func CheckObs(s *njs.Schema) Obs {
	first := Safe(s.Check)
	second := Safe(s.Check)
	if first.Panic == "" && (second.Panic != "" || first.OK != second.OK || first.Code != second.Code || first.Pos != second.Pos) {
		return Obs{Code: -1, Pos: -1, Panic: fmt.Sprintf("Check() answered %s, the second call on the same schema object answered %s", first, second)}
	}
	return first
}

// Doc creates a JSON document (through New or FromFile, from a string or from bytes: a function
// of the text length).
func Doc(text string, trailing bool) jschema.Document {
	var opts []json.Option
	if trailing {
		opts = append(opts, json.AllowTrailingNonSpaceCharacters())
	}
	switch len(text) % 3 {
	case 1:
		return json.FromFile(fs.NewFile("doc", []byte(text)), opts...)
	case 2:
		return json.New("doc", jbytes.Bytes(text), opts...)
	}
	return json.New("doc", text, opts...)
}

// ValidateOn validates one document text with an already built schema (own Document).
func ValidateOn(s *njs.Schema, doc string) Obs {
	if len(doc)%4 == 3 {
		// the schema object was given the same document cut in half just before (a broken
		// upload): what that validation leaves behind must not reach this one
		Safe(func() error { return s.Validate(json.New("doc", doc[:len(doc)/2])) })
	}
	return Safe(func() error { return s.Validate(json.New("doc", doc)) })
}

// ValidateOnChecked: the Document object has a history before it is validated - Check(), Len(),
// both, or a validation against another schema that it does not fit ("which of my schemas
// accepts this document?"); which one is a function of the text length.
func ValidateOnChecked(s *njs.Schema, doc string) Obs {
	return Safe(func() error {
		d := json.New("doc", doc)
		switch len(doc) / 8 % 4 {
		case 0:
			_ = d.Check()
		case 1:
			_, _ = d.Len()
		case 2:
			_ = d.Check()
			_, _ = d.Len()
		default:
			other := njs.New("other", []string{"{\n  \"zz_other\": 1\n}", "[\n  {\n    \"zz_other\": true\n  }\n]", "[\n  1,\n  \"s\"\n]"}[len(doc)%3])
			Safe(func() error { return other.Validate(d) })
		}
		return s.Validate(d)
	})
}

// Validate builds a fresh schema and validates one document.
func Validate(sp Spec, doc string) Obs {
	s, o := Build(sp)
	if !o.OK {
		return o
	}
	return ValidateOn(s, doc)
}

// DocCheck runs Document.Check on fresh document.
func DocCheck(text string, trailing bool) Obs {
	return Safe(func() error { return Doc(text, trailing).Check() })
}
