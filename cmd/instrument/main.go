// Command instrument writes the go build -overlay file that injects the verification hooks
// into the CURRENT working tree of the library (nothing is committed to /repo for hooks).
//
//	instrument -repo /repo -verif /verif -out <scratch> -hooks "vh_json vh_num" [-rewrite maporder,yield]
//
// Export shims are whole new files (hooks/<tag>/...) placed virtually inside existing
// packages or as new virtual packages; rewritten copies are generated from the current source.
package main

import (
	"encoding/json"
	"flag"
	"fmt"
	"os"
	"path/filepath"
	"strings"
)

type hookFile struct {
	Tag string `json:"tag"`
	Src string `json:"src"`
	Dst string `json:"dst"`
}

func main() {
	repo := flag.String("repo", "/repo", "library working tree")
	verif := flag.String("verif", "/verif", "verif dir")
	out := flag.String("out", "", "scratch dir")
	hooks := flag.String("hooks", "", "space separated hook tags to include")
	rewrite := flag.String("rewrite", "", "comma separated rewrites: maporder,yield")
	exclude := flag.String("exclude", "", "development only: property file prefixes (c07 c05 …) to leave out of the harness build")
	flag.Parse()
	if *out == "" {
		fmt.Fprintln(os.Stderr, "need -out")
		os.Exit(2)
	}
	// hooks/<tag>/<file>.go, each carrying a line "//verif:dst <path relative to the repo>"
	var files []hookFile
	matches, _ := filepath.Glob(filepath.Join(*verif, "hooks", "*", "*.go"))
	for _, m := range matches {
		b, err := os.ReadFile(m)
		if err != nil {
			fmt.Fprintln(os.Stderr, err)
			os.Exit(2)
		}
		dst := ""
		for _, line := range strings.Split(string(b), "\n") {
			if strings.HasPrefix(line, "//verif:dst ") {
				dst = strings.TrimSpace(strings.TrimPrefix(line, "//verif:dst "))
				break
			}
		}
		if dst == "" {
			fmt.Fprintln(os.Stderr, "hook file without //verif:dst line:", m)
			os.Exit(2)
		}
		rel, _ := filepath.Rel(filepath.Join(*verif, "hooks"), m)
		files = append(files, hookFile{Tag: filepath.Base(filepath.Dir(m)), Src: rel, Dst: dst})
	}
	want := map[string]bool{}
	for _, h := range strings.Fields(*hooks) {
		want[h] = true
	}
	replace := map[string]string{}
	for _, f := range files {
		if !want[f.Tag] {
			continue
		}
		replace[filepath.Join(*repo, f.Dst)] = filepath.Join(*verif, "hooks", f.Src)
	}
	for _, ex := range strings.Fields(*exclude) {
		ms, _ := filepath.Glob(filepath.Join(*verif, "internal", "props", ex+"*.go"))
		for _, m := range ms {
			replace[m] = ""
		}
	}
	if *rewrite != "" {
		if err := doRewrite(*repo, *out, strings.Split(*rewrite, ","), replace); err != nil {
			fmt.Fprintln(os.Stderr, "rewrite:", err)
			os.Exit(3)
		}
	}
	ob, _ := json.MarshalIndent(map[string]any{"Replace": replace}, "", " ")
	if err := os.WriteFile(filepath.Join(*out, "overlay.json"), ob, 0o644); err != nil {
		fmt.Fprintln(os.Stderr, err)
		os.Exit(2)
	}
}
