package main

import "fmt"

func doRewrite(repo, out string, kinds []string, replace map[string]string) error {
	return fmt.Errorf("rewrites not implemented yet: %v", kinds)
}
