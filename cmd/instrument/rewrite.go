package main

// Rewritten copies of library files (hook H8), generated from the CURRENT tree every time —
// never from a stored patch, so a mutated file is rewritten as mutated.
//
//	maporder  every `for … := range <expr of map type>` in non-test files becomes an iteration
//	          over verifpoint.MapIter(<expr>), a slice of (key, map) items in the forced order;
//	          the body is guarded by a presence test so that deleting during iteration keeps its
//	          Go semantics (entries added during iteration are not visited, which Go permits)
//	yield     verifpoint.Yield(<id>) as first statement of every function/method body of the
//	          packages under notations/jschema, internal/sync, formats/json (+ rules/enum,
//	          notations/regex); `defer verifpoint.Hit("once", recv, "field")()` at the top of
//	          every func literal passed to a .Do( call of internal/sync.ErrOnce[WithValue]
//
// The edits are spliced into the source TEXT at positions taken from the type-checked AST and
// everything inserted stays on the line it is inserted in, so line numbers (race reports, panics)
// are those of the real file. Each result is re-parsed; any failure makes the whole command fail
// (exit 3) and ./check then reports "rewritten build unavailable": never an alarm.

import (
	"encoding/json"
	"fmt"
	"go/ast"
	"go/parser"
	"go/token"
	"go/types"
	"os"
	"path/filepath"
	"sort"
	"strings"

	"golang.org/x/tools/go/packages"
)

type edit struct {
	at, end int // replace [at,end) with text (at==end: insertion)
	text    string
	prio    int // order among insertions at the same offset
}

type pointInfo struct {
	ID   int    `json:"id"`
	Func string `json:"func"`
	Hot  bool   `json:"hot"`
	File string `json:"file"`
}

const verifpointPkg = "internal/verifpoint"

func doRewrite(repo, out string, kinds []string, replace map[string]string) error {
	want := map[string]bool{}
	for _, k := range kinds {
		k = strings.TrimSpace(k)
		switch k {
		case "maporder", "yield":
			want[k] = true
		case "":
		default:
			return fmt.Errorf("unknown rewrite %q", k)
		}
	}
	repoAbs, err := filepath.Abs(repo)
	if err != nil {
		return err
	}
	repoReal := repoAbs
	if r, err := filepath.EvalSymlinks(repoAbs); err == nil {
		repoReal = r
	}
	relOf := func(name string) (string, bool) {
		for _, base := range []string{repoAbs, repoReal} {
			if strings.HasPrefix(name, base+string(filepath.Separator)) {
				return name[len(base)+1:], true
			}
		}
		return "", false
	}
	cfg := &packages.Config{
		Mode: packages.NeedName | packages.NeedFiles | packages.NeedCompiledGoFiles | packages.NeedSyntax |
			packages.NeedTypes | packages.NeedTypesInfo | packages.NeedImports | packages.NeedDeps | packages.NeedModule,
		Dir:   repoAbs,
		Env:   append(os.Environ(), "GOFLAGS=-mod=mod", "GOPROXY=off", "GOSUMDB=off", "GOTOOLCHAIN=local"),
		Tests: false,
	}
	pkgs, err := packages.Load(cfg, "./...")
	if err != nil {
		return fmt.Errorf("go/packages: %w", err)
	}
	if len(pkgs) == 0 {
		return fmt.Errorf("go/packages found no packages under %s", repoAbs)
	}
	modPath := ""
	for _, p := range pkgs {
		if len(p.Errors) > 0 {
			return fmt.Errorf("package %s does not type-check: %v", p.PkgPath, p.Errors[0])
		}
		if p.Module != nil && modPath == "" {
			modPath = p.Module.Path
		}
	}
	if modPath == "" {
		return fmt.Errorf("cannot determine the module path of %s", repoAbs)
	}
	vpImport := modPath + "/" + verifpointPkg

	yieldPkg := func(path string) bool {
		for _, p := range []string{"/notations/jschema", "/internal/sync", "/formats/json", "/rules/enum", "/notations/regex"} {
			full := modPath + p
			if path == full || strings.HasPrefix(path, full+"/") {
				return true
			}
		}
		return false
	}

	outDir := filepath.Join(out, "rewritten")
	if err := os.MkdirAll(outDir, 0o755); err != nil {
		return err
	}
	var points []pointInfo
	stats := map[string]int{}
	var sites []string
	sort.Slice(pkgs, func(i, j int) bool { return pkgs[i].PkgPath < pkgs[j].PkgPath })
	for _, p := range pkgs {
		if strings.HasSuffix(p.PkgPath, verifpointPkg) || strings.HasSuffix(p.PkgPath, "/verifpoint") || strings.HasSuffix(p.PkgPath, "/verifhook") {
			continue
		}
		for fi, f := range p.Syntax {
			if fi >= len(p.CompiledGoFiles) {
				break
			}
			name := p.CompiledGoFiles[fi]
			rel, inRepo := relOf(name)
			if strings.HasSuffix(name, "_test.go") || !inRepo {
				continue
			}
			src, err := os.ReadFile(name)
			if err != nil {
				return err
			}
			tf := p.Fset.File(f.Pos())
			if tf == nil || tf.Size() != len(src) {
				return fmt.Errorf("%s changed while it was being rewritten", name)
			}
			off := func(pos token.Pos) int { return tf.Offset(pos) }
			text := func(n ast.Node) string { return string(src[off(n.Pos()):off(n.End())]) }
			var edits []edit

			if want["maporder"] {
				n := 0
				ast.Inspect(f, func(nd ast.Node) bool {
					rs, ok := nd.(*ast.RangeStmt)
					if !ok {
						return true
					}
					t := p.TypesInfo.TypeOf(rs.X)
					if t == nil {
						return true
					}
					if _, isMap := t.Underlying().(*types.Map); !isMap {
						if _, isTP := t.(*types.TypeParam); isTP {
							stats["range over a type parameter (not rewritten)"]++
						}
						return true
					}
					n++
					it := fmt.Sprintf("verifIt%d", n)
					okv := fmt.Sprintf("verifOk%d", n)
					var pro strings.Builder
					isBlank := func(e ast.Expr) bool {
						if e == nil {
							return true
						}
						id, ok := e.(*ast.Ident)
						return ok && id.Name == "_"
					}
					asg := ":="
					if rs.Tok == token.ASSIGN {
						asg = "="
					}
					if !isBlank(rs.Key) {
						fmt.Fprintf(&pro, "%s %s %s.K; ", text(rs.Key), asg, it)
					}
					if !isBlank(rs.Value) {
						if rs.Tok == token.ASSIGN {
							fmt.Fprintf(&pro, "var %s bool; %s, %s = %s.Get(); ", okv, text(rs.Value), okv, it)
						} else {
							fmt.Fprintf(&pro, "%s, %s := %s.Get(); ", text(rs.Value), okv, it)
						}
						fmt.Fprintf(&pro, "if !%s { continue }; ", okv)
					} else {
						fmt.Fprintf(&pro, "if !%s.Has() { continue }; ", it)
					}
					header := fmt.Sprintf("for _, %s := range verifpoint.MapIter(%d, %s) { %s{", it, len(sites), text(rs.X), pro.String())
					edits = append(edits, edit{at: off(rs.For), end: off(rs.Body.Lbrace) + 1, text: header})
					edits = append(edits, edit{at: off(rs.Body.Rbrace), end: off(rs.Body.Rbrace), text: "}", prio: 9})
					stats["range-over-map sites rewritten"]++
					sites = append(sites, fmt.Sprintf("%s:%d", rel, tf.Line(rs.For)))
					return true
				})
			}

			if want["yield"] {
				if yieldPkg(p.PkgPath) {
					for _, d := range f.Decls {
						fd, ok := d.(*ast.FuncDecl)
						if !ok || fd.Body == nil {
							continue
						}
						fname := fd.Name.Name
						if fd.Recv != nil && len(fd.Recv.List) > 0 {
							fname = recvName(fd.Recv.List[0].Type) + "." + fname
						}
						full := strings.TrimPrefix(p.PkgPath, modPath+"/") + "." + fname
						low := strings.ToLower(full + " " + rel)
						hot := strings.Contains(low, "once") || strings.Contains(low, "pool") || strings.Contains(low, "allof") ||
							strings.Contains(low, "all_of") || strings.Contains(low, "unnamed") || strings.Contains(low, "example")
						id := len(points)
						points = append(points, pointInfo{ID: id, Func: full, Hot: hot, File: fmt.Sprintf("%s:%d", rel, tf.Line(fd.Pos()))})
						edits = append(edits, edit{at: off(fd.Body.Lbrace) + 1, end: off(fd.Body.Lbrace) + 1, text: fmt.Sprintf(" verifpoint.Yield(%d);", id), prio: 1})
						stats["yield points"]++
					}
				}
				ast.Inspect(f, func(nd ast.Node) bool {
					call, ok := nd.(*ast.CallExpr)
					if !ok || len(call.Args) != 1 {
						return true
					}
					sel, ok := call.Fun.(*ast.SelectorExpr)
					if !ok || sel.Sel.Name != "Do" {
						return true
					}
					if !isOnceWrapper(p.TypesInfo.TypeOf(sel.X), modPath) {
						return true
					}
					lit, ok := call.Args[0].(*ast.FuncLit)
					if !ok {
						stats["once .Do( with a non-literal argument (not hooked)"]++
						return true
					}
					obj, field := "nil", text(sel.X)
					if inner, ok := sel.X.(*ast.SelectorExpr); ok {
						if it := p.TypesInfo.TypeOf(inner.X); it != nil {
							if _, isPtr := it.Underlying().(*types.Pointer); isPtr {
								obj, field = text(inner.X), inner.Sel.Name
							}
						}
					}
					edits = append(edits, edit{at: off(lit.Body.Lbrace) + 1, end: off(lit.Body.Lbrace) + 1,
						text: fmt.Sprintf(" defer verifpoint.Hit(\"once\", %s, %q)();", obj, field), prio: 2})
					stats["once bodies hooked"]++
					return true
				})
			}

			if len(edits) == 0 {
				continue
			}
			// import, on the line of the package clause
			edits = append(edits, edit{at: off(f.Name.End()), end: off(f.Name.End()), text: fmt.Sprintf("; import verifpoint %q", vpImport)})
			res, err := applyEdits(src, edits)
			if err != nil {
				return fmt.Errorf("%s: %w", rel, err)
			}
			if _, err := parser.ParseFile(token.NewFileSet(), name, res, parser.SkipObjectResolution); err != nil {
				return fmt.Errorf("%s: rewritten text does not parse: %w", rel, err)
			}
			dst := filepath.Join(outDir, strings.ReplaceAll(rel, string(filepath.Separator), "__"))
			if err := os.WriteFile(dst, res, 0o644); err != nil {
				return err
			}
			key := filepath.Join(repo, rel)
			if prev, dup := replace[key]; dup && prev != "" {
				return fmt.Errorf("%s is already replaced by a hook file", rel)
			}
			replace[key] = dst
			stats["files rewritten"]++
		}
	}
	if want["maporder"] && stats["range-over-map sites rewritten"] == 0 {
		return fmt.Errorf("no range-over-map site found (nothing to force)")
	}
	if want["yield"] && stats["yield points"] == 0 {
		return fmt.Errorf("no yield point inserted")
	}
	// table of yield points for the verifpoint package (names, hot flags) and a report for evidence
	var tb strings.Builder
	tb.WriteString("//go:build verif\n\npackage verifpoint\n\n// generated by cmd/instrument from the current tree\n\nfunc init() {\n\tpointNames = []string{\n")
	for _, pt := range points {
		fmt.Fprintf(&tb, "\t\t%q,\n", pt.Func)
	}
	tb.WriteString("\t}\n\thotPoints = []bool{\n")
	for _, pt := range points {
		fmt.Fprintf(&tb, "\t\t%v,\n", pt.Hot)
	}
	tb.WriteString("\t}\n\tmapSiteNames = []string{\n")
	for _, st := range sites {
		fmt.Fprintf(&tb, "\t\t%q,\n", st)
	}
	fmt.Fprintf(&tb, "\t}\n\trewrites = %q\n\tmapSites = %d\n\tonceBodies = %d\n}\n", strings.Join(kinds, ","), stats["range-over-map sites rewritten"], stats["once bodies hooked"])
	tpath := filepath.Join(outDir, "verifpoint_table_gen.go")
	if err := os.WriteFile(tpath, []byte(tb.String()), 0o644); err != nil {
		return err
	}
	replace[filepath.Join(repo, verifpointPkg, "table_gen.go")] = tpath
	rep, _ := json.MarshalIndent(map[string]any{"stats": stats, "map_sites": sites, "points": points}, "", " ")
	os.WriteFile(filepath.Join(out, "rewrite_report.json"), rep, 0o644)
	return nil
}

func recvName(e ast.Expr) string {
	switch t := e.(type) {
	case *ast.StarExpr:
		return recvName(t.X)
	case *ast.Ident:
		return t.Name
	case *ast.IndexExpr:
		return recvName(t.X)
	case *ast.IndexListExpr:
		return recvName(t.X)
	}
	return "?"
}

// isOnceWrapper reports whether t (or what it points to) is internal/sync.ErrOnce or
// ErrOnceWithValue[...] of the library.
func isOnceWrapper(t types.Type, modPath string) bool {
	if t == nil {
		return false
	}
	if p, ok := t.Underlying().(*types.Pointer); ok {
		t = p.Elem()
	}
	n, ok := t.(*types.Named)
	if !ok {
		return false
	}
	o := n.Origin().Obj()
	if o == nil || o.Pkg() == nil || o.Pkg().Path() != modPath+"/internal/sync" {
		return false
	}
	return o.Name() == "ErrOnce" || o.Name() == "ErrOnceWithValue"
}

func applyEdits(src []byte, edits []edit) ([]byte, error) {
	sort.SliceStable(edits, func(i, j int) bool {
		if edits[i].at != edits[j].at {
			return edits[i].at < edits[j].at
		}
		// pure insertions before replacements starting at the same offset, then by prio
		ii, jj := edits[i].end == edits[i].at, edits[j].end == edits[j].at
		if ii != jj {
			return ii
		}
		return edits[i].prio < edits[j].prio
	})
	var out []byte
	pos := 0
	for _, e := range edits {
		if e.at < pos {
			return nil, fmt.Errorf("overlapping edits at offset %d (a rewritten region contains another rewrite)", e.at)
		}
		out = append(out, src[pos:e.at]...)
		out = append(out, e.text...)
		pos = e.end
	}
	out = append(out, src[pos:]...)
	return out, nil
}
