package main

import (
	"fmt"
	"os"

	"verif/internal/lib"
)

func main() {
	schema := os.Args[1]
	for _, d := range os.Args[2:] {
		fmt.Printf("%-30s %s\n", d, lib.Validate(lib.Spec{Text: schema}, d))
	}
	fmt.Println("check:", lib.Check(lib.Spec{Text: schema}))
}
