package main

import (
	"encoding/json"
	"fmt"
	"os"

	"verif/internal/lib"
)

// probe <spec.json | schema text> docs...
func main() {
	var sp lib.Spec
	if b, err := os.ReadFile(os.Args[1]); err == nil {
		if json.Unmarshal(b, &sp) != nil {
			sp = lib.Spec{Text: string(b)}
		}
	} else {
		sp = lib.Spec{Text: os.Args[1]}
	}
	for _, d := range os.Args[2:] {
		fmt.Printf("%-30s %s\n", d, lib.Validate(sp, d))
	}
	fmt.Println("check:", lib.Check(sp))
	s, _ := lib.Build(sp)
	ex, o := lib.SafeVal(s.Example)
	fmt.Println("example:", string(ex), o)
}
