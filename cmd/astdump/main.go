package main

import (
	"encoding/json"
	"fmt"
	"os"

	"verif/internal/lib"
	"verif/internal/props"
)

func main() {
	var sp lib.Spec
	b, _ := os.ReadFile(os.Args[1])
	if json.Unmarshal(b, &sp) != nil {
		sp = lib.Spec{Text: string(b)}
	}
	s, o := lib.Build(sp)
	if !o.OK {
		fmt.Println(o)
		return
	}
	an, ao := lib.SafeVal(s.GetAST)
	fmt.Println(ao)
	fmt.Print(props.ASTString(an))
}
