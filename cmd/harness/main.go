// Command harness hosts every property driver; the check script builds it from /repo's
// current working tree (with the hook overlay) and runs `harness run <id> <tier>`.
package main

import (
	"fmt"
	"os"
	"strconv"

	"verif/internal/mon"
	_ "verif/internal/props"
)

func seed() uint64 {
	if v := os.Getenv("VERIF_SEED"); v != "" {
		if n, err := strconv.ParseUint(v, 10, 64); err == nil {
			return n
		}
	}
	return 1
}

func main() {
	if len(os.Args) < 2 {
		fmt.Fprintln(os.Stderr, "usage: harness run <id> <tier> | worker … | replay <file> | list")
		os.Exit(2)
	}
	switch os.Args[1] {
	case "list":
		for _, id := range mon.IDs() {
			fmt.Println(id)
		}
	case "run":
		tier := "quick"
		if len(os.Args) > 3 {
			tier = os.Args[3]
		}
		os.Exit(mon.Drive(os.Args[2], tier, seed()))
	case "worker":
		// worker <id> <tier> <seed> <lo> <hi> <out>
		sd, _ := strconv.ParseUint(os.Args[4], 10, 64)
		lo, _ := strconv.Atoi(os.Args[5])
		hi, _ := strconv.Atoi(os.Args[6])
		if err := mon.RunWorker(os.Args[2], os.Args[3], sd, lo, hi, os.Args[7]); err != nil {
			fmt.Fprintln(os.Stderr, err)
			os.Exit(3)
		}
	case "replay":
		os.Exit(mon.ReplayFile(os.Args[2]))
	default:
		fmt.Fprintln(os.Stderr, "unknown command", os.Args[1])
		os.Exit(2)
	}
}
